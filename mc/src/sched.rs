//! Engine S — controlled scheduler for code whose only synchronisation is the hooked Mutex
//! (`chia_bls::verif_sync::Mutex`, hook H1).
//!
//! Each logical thread runs on a real OS thread, but exactly one runs at a time. A thread
//! yields to the scheduler (a) before it starts, (b) immediately before every lock
//! acquisition (`Event::BeforeLock`), (c) when it finishes. At each such point the scheduler
//! picks the next thread among the *enabled* ones (a thread about to lock a mutex that another
//! logical thread holds is disabled; "no enabled thread but unfinished threads" is a deadlock).
//! Canonical order of the enabled set: the thread that ran last first (if still enabled), then
//! ascending ids — so choice 0 everywhere is the non-preemptive schedule and every non-zero
//! choice taken while the last thread is still enabled is a preemption.
//!
//! `explore` is the recursive scheme: run a prefix of choices, take choice 0 afterwards, then
//! branch on every alternative at every later point whose preemption count stays within the
//! bound (None = unbounded, i.e. every interleaving at lock granularity).

use chia_bls::verif_sync::{Event, set_thread_callback};
use std::collections::HashMap;
use std::sync::{Arc, Condvar, Mutex};

#[derive(Clone, Copy, PartialEq, Eq, Debug)]
enum Status {
    NotStarted,
    AtLock(usize),
    Running,
    Done,
}

struct Ctl {
    /// Some(i): logical thread i may run; None: the scheduler runs
    turn: Option<usize>,
    status: Vec<Status>,
    holder: HashMap<usize, usize>,
    trace: Vec<(usize, String)>,
    abort: bool,
}

struct Shared {
    ctl: Mutex<Ctl>,
    cv: Condvar,
}

#[derive(Clone, Debug)]
pub struct Point {
    pub choice: u32,
    pub enabled: Vec<usize>,
    /// the thread that ran last is still enabled at this point
    pub running_still_enabled: bool,
}

pub struct Execution<R> {
    pub results: Vec<Option<Result<R, String>>>,
    pub points: Vec<Point>,
    pub trace: Vec<(usize, String)>,
    pub deadlock: bool,
    pub invariant_failures: Vec<String>,
    pub preemptions: usize,
}

impl<R> Execution<R> {
    pub fn choices(&self) -> Vec<u32> {
        self.points.iter().map(|p| p.choice).collect()
    }
}

pub type Body<R> = Box<dyn FnOnce() -> R + Send>;

/// one scenario instance: fresh shared objects + thread bodies + an invariant evaluated by the
/// scheduler at every scheduling point at which no logical thread holds a hooked mutex
pub struct Instance<R> {
    pub bodies: Vec<Body<R>>,
    pub invariant: Box<dyn Fn() -> Option<String>>,
}

fn wait_turn(sh: &Shared, me: usize) {
    let mut c = sh.ctl.lock().unwrap();
    loop {
        if c.abort {
            drop(c);
            panic!("mc-sched-abort");
        }
        if c.turn == Some(me) {
            return;
        }
        c = sh.cv.wait(c).unwrap();
    }
}

/// run one schedule: `prefix` choices first, then choice 0
pub fn run_schedule<R: Send + 'static>(inst: Instance<R>, prefix: &[u32]) -> Execution<R> {
    let n = inst.bodies.len();
    let sh = Arc::new(Shared {
        ctl: Mutex::new(Ctl {
            turn: None,
            status: vec![Status::NotStarted; n],
            holder: HashMap::new(),
            trace: Vec::new(),
            abort: false,
        }),
        cv: Condvar::new(),
    });
    let mut handles = Vec::new();
    for (i, body) in inst.bodies.into_iter().enumerate() {
        let sh = sh.clone();
        handles.push(std::thread::spawn(move || {
            let shc = sh.clone();
            set_thread_callback(Some(Box::new(move |ev: Event| {
                match ev {
                    Event::BeforeLock(id) => {
                        {
                            let mut c = shc.ctl.lock().unwrap();
                            c.status[i] = Status::AtLock(id);
                            c.trace.push((i, format!("before_lock({})", id_rel(id))));
                            c.turn = None;
                            shc.cv.notify_all();
                        }
                        wait_turn(&shc, i);
                        let mut c = shc.ctl.lock().unwrap();
                        c.status[i] = Status::Running;
                    }
                    Event::Acquired(id) => {
                        let mut c = shc.ctl.lock().unwrap();
                        c.holder.insert(id, i);
                        c.trace.push((i, "acquired".into()));
                    }
                    Event::Released(id) => {
                        let mut c = shc.ctl.lock().unwrap();
                        c.holder.remove(&id);
                        c.trace.push((i, "released".into()));
                    }
                }
            })));
            // scheduling point: before start
            let r = std::panic::catch_unwind(std::panic::AssertUnwindSafe(|| {
                wait_turn(&sh, i);
                {
                    let mut c = sh.ctl.lock().unwrap();
                    c.status[i] = Status::Running;
                    c.trace.push((i, "start".into()));
                }
                body()
            }));
            set_thread_callback(None);
            let mut c = sh.ctl.lock().unwrap();
            c.status[i] = Status::Done;
            c.trace.push((i, "done".into()));
            // release anything the thread still "held" per our books (only after a panic)
            c.holder.retain(|_, h| *h != i);
            c.turn = None;
            sh.cv.notify_all();
            r.map_err(|e| {
                if let Some(s) = e.downcast_ref::<&str>() {
                    (*s).to_string()
                } else if let Some(s) = e.downcast_ref::<String>() {
                    s.clone()
                } else {
                    "panic".to_string()
                }
            })
        }));
    }

    let mut points: Vec<Point> = Vec::new();
    let mut last: Option<usize> = None;
    let mut deadlock = false;
    let mut invariant_failures = Vec::new();
    loop {
        // wait until the scheduler has the baton
        let (enabled, all_done, nobody_holds) = {
            let mut c = sh.ctl.lock().unwrap();
            while c.turn.is_some() {
                c = sh.cv.wait(c).unwrap();
            }
            let mut en = Vec::new();
            for t in 0..n {
                match c.status[t] {
                    Status::NotStarted => en.push(t),
                    Status::AtLock(m) => {
                        if !c.holder.contains_key(&m) {
                            en.push(t);
                        }
                    }
                    Status::Running | Status::Done => {}
                }
            }
            let all_done = c.status.iter().all(|s| *s == Status::Done);
            (en, all_done, c.holder.is_empty())
        };
        if nobody_holds {
            if let Some(f) = (inst.invariant)() {
                invariant_failures.push(format!("at scheduling point {}: {f}", points.len()));
            }
        }
        if all_done {
            break;
        }
        if enabled.is_empty() {
            deadlock = true;
            let mut c = sh.ctl.lock().unwrap();
            c.abort = true;
            sh.cv.notify_all();
            break;
        }
        // canonical order
        let mut order = Vec::new();
        let running_still_enabled = last.is_some_and(|l| enabled.contains(&l));
        if running_still_enabled {
            order.push(last.unwrap());
        }
        for t in &enabled {
            if Some(*t) != last || !running_still_enabled {
                if !order.contains(t) {
                    order.push(*t);
                }
            }
        }
        let idx = points.len();
        let choice = if idx < prefix.len() { prefix[idx] } else { 0 };
        assert!(
            (choice as usize) < order.len(),
            "replay divergence: choice {choice} at point {idx} but {} enabled",
            order.len()
        );
        let t = order[choice as usize];
        points.push(Point {
            choice,
            enabled: order,
            running_still_enabled,
        });
        last = Some(t);
        let mut c = sh.ctl.lock().unwrap();
        c.turn = Some(t);
        sh.cv.notify_all();
    }
    let mut results = Vec::new();
    for h in handles {
        match h.join() {
            Ok(r) => results.push(Some(r)),
            Err(_) => results.push(None),
        }
    }
    let trace = std::mem::take(&mut sh.ctl.lock().unwrap().trace);
    let preemptions = points.iter().filter(|p| p.running_still_enabled && p.choice != 0).count();
    Execution {
        results,
        points,
        trace,
        deadlock,
        invariant_failures,
        preemptions,
    }
}

// mutex ids are process-global counters; traces must not depend on how many caches were made before
fn id_rel(_id: usize) -> &'static str {
    "m"
}

pub struct ExploreStats {
    pub executions: u64,
    /// executions by number of preemptions
    pub by_preemptions: Vec<u64>,
    pub max_points: usize,
}

/// Explore every schedule of `make()` with at most `bound` preemptions (None = all).
/// `make` returns a fresh instance plus a context (the shared objects) that `check` receives
/// together with the finished execution. Sub-trees are explored in parallel on the rayon pool;
/// the set of schedules explored does not depend on that.
pub fn explore<R: Send + 'static, C: Send>(
    make: &(dyn Fn() -> (Instance<R>, C) + Sync),
    bound: Option<usize>,
    check: &(dyn Fn(&Execution<R>, &C) + Sync),
) -> ExploreStats {
    let stats = Mutex::new(ExploreStats {
        executions: 0,
        by_preemptions: Vec::new(),
        max_points: 0,
    });
    fn rec<'a, R: Send + 'static, C: Send>(
        scope: &rayon::Scope<'a>,
        prefix: Vec<u32>,
        make: &'a (dyn Fn() -> (Instance<R>, C) + Sync),
        bound: Option<usize>,
        check: &'a (dyn Fn(&Execution<R>, &C) + Sync),
        stats: &'a Mutex<ExploreStats>,
    ) {
        let (inst, ctx) = make();
        let x = run_schedule(inst, &prefix);
        check(&x, &ctx);
        drop(ctx);
        {
            let mut st = stats.lock().unwrap();
            st.executions += 1;
            if st.by_preemptions.len() <= x.preemptions {
                st.by_preemptions.resize(x.preemptions + 1, 0);
            }
            st.by_preemptions[x.preemptions] += 1;
            st.max_points = st.max_points.max(x.points.len());
        }
        let mut pre = 0usize; // preemptions before point i
        let mut pre_at = Vec::with_capacity(x.points.len());
        for p in &x.points {
            pre_at.push(pre);
            if p.running_still_enabled && p.choice != 0 {
                pre += 1;
            }
        }
        for i in prefix.len()..x.points.len() {
            let p = &x.points[i];
            let mut cost = pre_at[i];
            if p.running_still_enabled {
                cost += 1;
            }
            if bound.is_some_and(|b| cost > b) {
                continue;
            }
            for alt in 1..p.enabled.len() as u32 {
                let mut q: Vec<u32> = x.points[..i].iter().map(|p| p.choice).collect();
                q.push(alt);
                scope.spawn(move |s| rec(s, q, make, bound, check, stats));
            }
        }
    }
    rayon::scope(|s| rec(s, Vec::new(), make, bound, check, &stats));
    stats.into_inner().unwrap()
}
