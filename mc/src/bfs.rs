//! Engine H — explicit-state breadth-first search over operation histories of real objects.
//!
//! The property code supplies `expand` (apply every letter of the operation alphabet to a
//! state by calling the real code, check the transition oracle, return the successors with
//! their canonical keys) and `on_new_state` (state invariant, evaluated exactly once per
//! distinct state; returning false reports the state as broken and stops expansion below it). The engine owns deduplication (exact keys, no hashing shortcuts),
//! level-synchronous parallel expansion and the counts reported as evidence.

use rayon::prelude::*;
use std::collections::HashSet;
use std::sync::atomic::{AtomicU64, Ordering};

pub struct BfsResult {
    pub states: u64,
    pub transitions: u64,
    pub dedup_hits: u64,
    /// deepest level whose states were all expanded
    pub depth_completed: usize,
    pub level_sizes: Vec<usize>,
    /// true if max_states stopped the search before max_depth
    pub capped: bool,
}

pub fn run<S, E, N>(
    init: Vec<(Vec<u8>, S)>,
    max_depth: usize,
    max_states: usize,
    expand: E,
    on_new_state: N,
) -> BfsResult
where
    S: Send + Sync,
    E: Fn(&S, usize) -> Vec<(Vec<u8>, S)> + Sync,
    N: Fn(&S, usize) -> bool + Sync,
{
    let mut seen: HashSet<Vec<u8>> = HashSet::new();
    let mut frontier: Vec<S> = Vec::new();
    for (k, s) in init {
        if seen.insert(k) {
            frontier.push(s);
        }
    }
    let keep: Vec<bool> = frontier.par_iter().map(|s| on_new_state(s, 0)).collect();
    let mut frontier: Vec<S> = frontier.into_iter().zip(keep).filter(|(_, k)| *k).map(|(s, _)| s).collect();
    let transitions = AtomicU64::new(0);
    let mut dedup_hits = 0u64;
    let mut level_sizes = vec![frontier.len()];
    let mut depth_completed = 0;
    let mut capped = false;
    for depth in 0..max_depth {
        if frontier.is_empty() {
            depth_completed = max_depth;
            break;
        }
        let t0 = std::time::Instant::now();
        let succ: Vec<(Vec<u8>, S)> = frontier
            .par_iter()
            .flat_map_iter(|s| {
                let v = expand(s, depth);
                transitions.fetch_add(v.len() as u64, Ordering::Relaxed);
                v.into_iter()
            })
            .collect();
        depth_completed = depth + 1;
        let t1 = std::time::Instant::now();
        let mut next = Vec::new();
        for (k, s) in succ {
            if seen.contains(&k) {
                dedup_hits += 1;
            } else {
                seen.insert(k);
                next.push(s);
            }
        }
        let t2 = std::time::Instant::now();
        let keep: Vec<bool> = next.par_iter().map(|s| on_new_state(s, depth + 1)).collect();
        if std::env::var("MC_BFS_TIMING").is_ok() {
            eprintln!("bfs depth {depth}: expand {:?} dedup {:?} invariant {:?} new {}", t1 - t0, t2 - t1, t2.elapsed(), next.len());
        }
        level_sizes.push(next.len());
        // states that violate the invariant are reported by the callback and not expanded further
        frontier = next.into_iter().zip(keep).filter(|(_, k)| *k).map(|(s, _)| s).collect();
        if seen.len() > max_states && depth + 1 < max_depth {
            capped = true;
            break;
        }
    }
    BfsResult {
        states: seen.len() as u64,
        transitions: transitions.load(Ordering::Relaxed),
        dedup_hits,
        depth_completed,
        level_sizes,
        capped,
    }
}
