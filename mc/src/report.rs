//! Evidence, violations, known findings, exit codes.
//!
//! Every check owns one `Report`. Engines bump its counters; the property code
//! registers outcome classes (`outcome`) and violations (`violation`). At the end
//! `finish` writes /verif/evidence/<id>.json, prints KNOWN-FINDING / VIOLATION
//! lines and returns the process exit code (0 held, 1 violation, 2 machinery).

use serde_json::{Value, json};
use std::collections::{BTreeMap, HashSet};
use std::hash::{Hash, Hasher};
use std::sync::Mutex;
use std::sync::atomic::{AtomicU64, Ordering};
use std::time::Instant;

#[derive(Clone, Copy, PartialEq, Eq, Debug)]
pub enum Tier {
    Quick,
    Thorough,
}

impl Tier {
    pub fn name(self) -> &'static str {
        match self {
            Tier::Quick => "quick",
            Tier::Thorough => "thorough",
        }
    }
    pub fn pick<T>(self, q: T, t: T) -> T {
        match self {
            Tier::Quick => q,
            Tier::Thorough => t,
        }
    }
}

#[derive(Clone, Debug)]
pub struct Violation {
    /// stable root-cause class, e.g. "C18/batch_insert/duplicate-in-batch"
    pub signature: String,
    /// everything `replay` needs to re-execute the case
    pub case: Value,
    /// human readable: what was expected, what was observed
    pub detail: String,
}

/// output directory for evidence/ and replays/ (default /verif; MC_OUT_DIR overrides it so that
/// runs against scratch copies of the repository do not overwrite the real evidence)
pub fn out_dir() -> String {
    std::env::var("MC_OUT_DIR").unwrap_or_else(|_| "/verif".to_string())
}

pub fn fxhash<T: Hash>(t: &T) -> u64 {
    let mut h = std::collections::hash_map::DefaultHasher::new();
    t.hash(&mut h);
    h.finish()
}

const MAX_VIOLATIONS_KEPT_PER_SIG: usize = 3;
const MAX_SIGS: usize = 40;

pub struct Report {
    pub property: &'static str,
    pub level: &'static str,
    pub tier: Tier,
    pub seed: u64,
    start: Instant,
    pub evaluations: AtomicU64,
    pub states: AtomicU64,
    pub transitions: AtomicU64,
    pub traces: AtomicU64,
    /// histogram of outcome classes (small, human readable buckets)
    outcomes: Mutex<BTreeMap<String, u64>>,
    /// distinct non-trivial cases (hashes)
    distinct: Mutex<HashSet<u64>>,
    samples: Mutex<Vec<Value>>,
    violations: Mutex<BTreeMap<String, (u64, Vec<Violation>)>>,
    extra: Mutex<BTreeMap<String, Value>>,
    assumptions: Mutex<Vec<String>>,
    caps: Mutex<Vec<String>>,
    rule: Mutex<String>,
    machinery_errors: Mutex<Vec<String>>,
}

impl Report {
    pub fn new(property: &'static str, level: &'static str, tier: Tier, seed: u64) -> Self {
        // replays of an earlier run of this property are stale
        if let Ok(rd) = std::fs::read_dir(format!("{}/replays", out_dir())) {
            for e in rd.flatten() {
                if e.file_name().to_string_lossy().starts_with(&format!("{property}-")) {
                    let _ = std::fs::remove_file(e.path());
                }
            }
        }
        Self {
            property,
            level,
            tier,
            seed,
            start: Instant::now(),
            evaluations: AtomicU64::new(0),
            states: AtomicU64::new(0),
            transitions: AtomicU64::new(0),
            traces: AtomicU64::new(0),
            outcomes: Mutex::new(BTreeMap::new()),
            distinct: Mutex::new(HashSet::new()),
            samples: Mutex::new(Vec::new()),
            violations: Mutex::new(BTreeMap::new()),
            extra: Mutex::new(BTreeMap::new()),
            assumptions: Mutex::new(Vec::new()),
            caps: Mutex::new(Vec::new()),
            rule: Mutex::new(String::new()),
            machinery_errors: Mutex::new(Vec::new()),
        }
    }

    pub fn eval(&self) {
        self.evaluations.fetch_add(1, Ordering::Relaxed);
    }
    pub fn evals(&self, n: u64) {
        self.evaluations.fetch_add(n, Ordering::Relaxed);
    }
    pub fn state(&self) {
        self.states.fetch_add(1, Ordering::Relaxed);
    }
    pub fn transition(&self) {
        self.transitions.fetch_add(1, Ordering::Relaxed);
    }
    pub fn trace(&self) {
        self.traces.fetch_add(1, Ordering::Relaxed);
    }

    /// count one case in a named outcome bucket
    pub fn outcome(&self, bucket: &str) {
        *self
            .outcomes
            .lock()
            .unwrap()
            .entry(bucket.to_string())
            .or_insert(0) += 1;
    }
    pub fn outcome_n(&self, bucket: &str, n: u64) {
        if n > 0 {
            *self
                .outcomes
                .lock()
                .unwrap()
                .entry(bucket.to_string())
                .or_insert(0) += n;
        }
    }

    /// register a non-trivial case by a hash of its canonical form
    pub fn distinct(&self, h: u64) {
        self.distinct.lock().unwrap().insert(h);
    }
    pub fn distinct_many(&self, hs: impl IntoIterator<Item = u64>) {
        let mut d = self.distinct.lock().unwrap();
        for h in hs {
            d.insert(h);
        }
    }
    pub fn distinct_count(&self) -> usize {
        self.distinct.lock().unwrap().len()
    }

    /// keep up to 6 rendered sample cases (first-come after seed rotation)
    pub fn sample(&self, v: Value) {
        let mut s = self.samples.lock().unwrap();
        if s.len() < 6 {
            s.push(v);
        }
    }
    pub fn want_sample(&self) -> bool {
        self.samples.lock().unwrap().len() < 6
    }

    pub fn set_rule(&self, r: &str) {
        *self.rule.lock().unwrap() = r.to_string();
    }
    pub fn assume(&self, a: &str) {
        self.assumptions.lock().unwrap().push(a.to_string());
    }
    pub fn cap(&self, c: &str) {
        self.caps.lock().unwrap().push(c.to_string());
    }
    pub fn extra(&self, k: &str, v: Value) {
        self.extra.lock().unwrap().insert(k.to_string(), v);
    }
    pub fn extra_add(&self, k: &str, n: u64) {
        let mut e = self.extra.lock().unwrap();
        let cur = e.get(k).and_then(Value::as_u64).unwrap_or(0);
        e.insert(k.to_string(), json!(cur + n));
    }
    pub fn machinery_error(&self, m: &str) {
        eprintln!("MACHINERY-ERROR: {m}");
        self.machinery_errors.lock().unwrap().push(m.to_string());
    }

    pub fn violation(&self, signature: &str, case: Value, detail: String) {
        let mut v = self.violations.lock().unwrap();
        if v.len() >= MAX_SIGS && !v.contains_key(signature) {
            // collapse the tail so the run stays bounded
            let e = v
                .entry(format!("{}/overflow/more-signatures", self.property))
                .or_insert((0, Vec::new()));
            e.0 += 1;
            if e.1.len() < MAX_VIOLATIONS_KEPT_PER_SIG {
                e.1.push(Violation {
                    signature: signature.to_string(),
                    case,
                    detail,
                });
            }
            return;
        }
        let e = v.entry(signature.to_string()).or_insert((0, Vec::new()));
        e.0 += 1;
        if e.1.len() < MAX_VIOLATIONS_KEPT_PER_SIG {
            e.1.push(Violation {
                signature: signature.to_string(),
                case,
                detail,
            });
        }
    }

    pub fn violation_count(&self) -> u64 {
        self.violations.lock().unwrap().values().map(|v| v.0).sum()
    }

    /// writes evidence + replays, prints lines, returns exit code
    pub fn finish(self) -> i32 {
        let wall = self.start.elapsed().as_secs_f64();
        let known = KnownFindings::load();
        let mut exit = 0;
        let mut known_seen = Vec::new();
        let mut viol_total: u64 = 0;
        let mut viol_list = Vec::new();
        let _ = std::fs::create_dir_all(format!("{}/replays", out_dir()));
        let violations = self.violations.into_inner().unwrap();
        let mut n = 0;
        for (sig, (count, kept)) in &violations {
            if let Some(desc) = known.is_known(self.property, sig) {
                println!(
                    "KNOWN-FINDING: property={} {} [{} case(s) this run; signature {}]",
                    self.property, desc, count, sig
                );
                known_seen.push(json!({"signature": sig, "cases": count}));
                // still write one replay so it can be reproduced
                if let Some(v) = kept.first() {
                    let path = format!("{}/replays/{}-known-{}.json", out_dir(), self.property, n);
                    n += 1;
                    let _ = std::fs::write(
                        &path,
                        serde_json::to_string_pretty(&json!({
                            "property": self.property, "signature": v.signature,
                            "case": v.case, "detail": v.detail}))
                        .unwrap(),
                    );
                }
                continue;
            }
            viol_total += count;
            for v in kept {
                let path = format!("{}/replays/{}-{}.json", out_dir(), self.property, n);
                n += 1;
                let _ = std::fs::write(
                    &path,
                    serde_json::to_string_pretty(&json!({
                        "property": self.property, "signature": v.signature,
                        "case": v.case, "detail": v.detail}))
                    .unwrap(),
                );
                println!("VIOLATION property={} replay={}", self.property, path);
                println!("  signature: {}", v.signature);
                let d: String = v.detail.chars().take(1500).collect();
                println!("  detail: {d}");
                viol_list.push(json!({"signature": v.signature, "replay": path, "count_for_signature": count}));
            }
            exit = 1;
        }

        let outcomes = self.outcomes.into_inner().unwrap();
        let distinct = self.distinct.into_inner().unwrap().len() as u64;
        let evaluations = self.evaluations.load(Ordering::Relaxed);
        let states = self.states.load(Ordering::Relaxed);
        let transitions = self.transitions.load(Ordering::Relaxed);
        let traces = self.traces.load(Ordering::Relaxed);
        let caps = self.caps.into_inner().unwrap();
        let merrs = self.machinery_errors.into_inner().unwrap();
        let mut samples = self.samples.into_inner().unwrap();
        if samples.is_empty() {
            samples.push(json!("(no sample recorded)"));
        }

        let mut coverage = serde_json::Map::new();
        coverage.insert("evaluations".into(), json!(evaluations));
        coverage.insert("distinct_nontrivial".into(), json!(distinct));
        coverage.insert("rule".into(), json!(*self.rule.lock().unwrap()));
        coverage.insert("samples".into(), json!(samples));
        coverage.insert("exhaustive".into(), json!(caps.is_empty()));
        coverage.insert("caps_hit".into(), json!(caps));
        coverage.insert("outcome_histogram".into(), json!(outcomes));
        if states > 0 || self.level == "model_checking" {
            coverage.insert("states".into(), json!(states));
            coverage.insert("transitions".into(), json!(transitions));
            coverage.insert("traces_validated_against_impl".into(), json!(traces));
        }
        coverage.insert("known_findings_seen".into(), json!(known_seen));
        for (k, v) in self.extra.into_inner().unwrap() {
            coverage.insert(k, v);
        }

        // vacuity self-check: a run that could not distinguish anything is a machinery failure
        if exit == 0 && merrs.is_empty() {
            if evaluations == 0 {
                eprintln!("MACHINERY-ERROR: vacuous run, 0 evaluations");
                exit = 2;
            } else if distinct < 2 {
                eprintln!("MACHINERY-ERROR: vacuous run, {distinct} distinct non-trivial cases");
                exit = 2;
            } else if outcomes.len() < 2 {
                eprintln!("MACHINERY-ERROR: vacuous run, a single outcome bucket: {outcomes:?}");
                exit = 2;
            }
        }
        if !merrs.is_empty() && exit == 0 {
            exit = 2;
        }

        let ev = json!({
            "property_id": self.property,
            "tier": self.tier.name(),
            "seed": self.seed,
            "level": self.level,
            "coverage": Value::Object(coverage),
            "assumptions": *self.assumptions.lock().unwrap(),
            "wall_s": wall,
            "violations": viol_total,
            "violation_list": viol_list,
            "machinery_errors": merrs,
        });
        let _ = std::fs::create_dir_all(format!("{}/evidence", out_dir()));
        let path = format!("{}/evidence/{}.json", out_dir(), self.property);
        std::fs::write(&path, serde_json::to_string_pretty(&ev).unwrap() + "\n")
            .expect("write evidence");
        println!(
            "{} {}: evaluations={} distinct={} states={} transitions={} violations={} wall={:.1}s exit={}",
            self.property,
            self.tier.name(),
            evaluations,
            distinct,
            states,
            transitions,
            viol_total,
            wall,
            exit
        );
        exit
    }
}

pub struct KnownFindings {
    entries: Vec<Value>,
}

impl KnownFindings {
    pub fn load() -> Self {
        let entries = std::fs::read_to_string("/verif/known_findings.json")
            .ok()
            .and_then(|s| serde_json::from_str::<Value>(&s).ok())
            .and_then(|v| v.get("findings").cloned())
            .and_then(|v| v.as_array().cloned())
            .unwrap_or_default();
        Self { entries }
    }
    /// returns the description if (property, signature) is listed with status "known"
    pub fn is_known(&self, property: &str, signature: &str) -> Option<String> {
        for e in &self.entries {
            if e["status"] == "known" && e["property"] == property && e["signature"] == signature {
                return Some(e["what_fails"].as_str().unwrap_or("").to_string());
            }
        }
        None
    }
}

/// run `f` catching panics; returns Err(panic message)
pub fn catch<T>(f: impl FnOnce() -> T) -> Result<T, String> {
    let r = std::panic::catch_unwind(std::panic::AssertUnwindSafe(f));
    r.map_err(|e| {
        if let Some(s) = e.downcast_ref::<&str>() {
            (*s).to_string()
        } else if let Some(s) = e.downcast_ref::<String>() {
            s.clone()
        } else {
            "panic (non-string payload)".to_string()
        }
    })
}

/// silence the default panic printer (the harness catches and reports panics itself)
pub fn quiet_panics() {
    // keep the location of the last panic so that a harness panic can be diagnosed
    std::panic::set_hook(Box::new(|info| {
        if std::env::var("MC_SHOW_PANICS").is_ok() {
            eprintln!("panic: {info}");
        }
    }));
}
