//! Shared condition alphabets.
use crate::drive::{H1, coin_id, cond};
use crate::refcond::Env;
use crate::sx::{Sx, sha256};

/// the interaction alphabet: conditions that are well-formed or borderline, for spends A/B/C/D
/// identities the interaction letters refer to
#[derive(Clone, Copy)]
pub struct Ids {
    /// coin A: the spend that carries the letters
    pub a: ([u8; 32], [u8; 32], u64),
    /// coin C: a sibling (different parent)
    pub c: ([u8; 32], [u8; 32], u64),
    /// coin B: child of A (created by A's CREATE_COIN letter)
    pub b_ph: [u8; 32],
    pub b_amount: u64,
}

impl Ids {
    pub fn default_ids() -> Ids {
        Ids { a: (crate::drive::P1, crate::drive::PH1, 5), c: (crate::drive::P2, crate::drive::PH1, 5), b_ph: crate::drive::PH2, b_amount: 3 }
    }
}

pub fn sigma2(env: &Env) -> Vec<(String, Sx)> {
    sigma2_for(env, &Ids::default_ids())
}

pub fn sigma2_for(env: &Env, ids: &Ids) -> Vec<(String, Sx)> {
    #[allow(non_snake_case)]
    let (P1, PH1, P2, PH2) = (ids.a.0, ids.a.1, ids.c.0, ids.b_ph);
    let a_amount = ids.a.2;
    let a_id = coin_id(&P1, &PH1, a_amount);
    let c_id = coin_id(&P2, &ids.c.1, ids.c.2);
    let b_id = coin_id(&a_id, &PH2, ids.b_amount);
    let pk = Sx::Atom(env.valid_keys.iter().next().unwrap().clone());
    let ann = |id: &[u8], m: &[u8]| Sx::atom(&sha256(&[id, m]));
    let mut v: Vec<(String, Sx)> = Vec::new();
    let mut add = |n: &str, s: Sx| v.push((n.to_string(), s));
    for op in [80u8, 81, 82, 83, 84, 85, 86, 87] {
        for (n, val) in [("0", Sx::nil()), ("1", Sx::int(1)), ("5", Sx::int(5)), ("neg", Sx::atom(&[0xff])), ("max", if op == 80 || op == 81 || op == 84 || op == 85 { Sx::int(u64::MAX) } else { Sx::int(u32::MAX as u64) }), ("over", if op == 80 || op == 81 || op == 84 || op == 85 { Sx::atom(&[1, 0, 0, 0, 0, 0, 0, 0, 0]) } else { Sx::atom(&[1, 0, 0, 0, 0]) })] {
            add(&format!("op{op}"), cond(op, &[val]));
            let _ = n;
        }
    }
    for op in [74u8, 75] {
        for val in [Sx::nil(), Sx::int(5)] {
            add(&format!("op{op}"), cond(op, &[val]));
        }
    }
    add("op51", cond(51, &[Sx::atom(&PH2), Sx::int(ids.b_amount)]));
    add("op51", cond(51, &[Sx::atom(&PH1), Sx::int(a_amount)]));
    add("op51", cond(51, &[Sx::atom(&PH2), Sx::int(a_amount.saturating_add(1))]));
    add("op51", cond(51, &[Sx::atom(&PH2), Sx::int(ids.b_amount), Sx::list(&[Sx::atom(&H1)])]));
    for val in [Sx::nil(), Sx::int(2), Sx::int(3), Sx::int(u64::MAX)] {
        add("op52", cond(52, &[val]));
    }
    add("op60", cond(60, &[Sx::atom(b"hi")]));
    add("op62", cond(62, &[Sx::atom(b"hi")]));
    add("op61", cond(61, &[ann(&a_id, b"hi")]));
    add("op61", cond(61, &[ann(&c_id, b"hi")]));
    add("op61", cond(61, &[ann(&b_id, b"hi")]));
    add("op63", cond(63, &[ann(&PH1, b"hi")]));
    add("op63", cond(63, &[ann(&PH2, b"hi")]));
    add("op64", cond(64, &[Sx::atom(&a_id)]));
    add("op64", cond(64, &[Sx::atom(&c_id)]));
    add("op64", cond(64, &[Sx::atom(&b_id)]));
    add("op64", cond(64, &[Sx::atom(&H1)]));
    add("op65", cond(65, &[Sx::atom(&PH1)]));
    add("op65", cond(65, &[Sx::atom(&PH2)]));
    add("op65", cond(65, &[Sx::atom(&H1)]));
    add("op76", cond(76, &[]));
    add("op70", cond(70, &[Sx::atom(&a_id)]));
    add("op70", cond(70, &[Sx::atom(&b_id)]));
    add("op71", cond(71, &[Sx::atom(&P1)]));
    add("op71", cond(71, &[Sx::atom(&a_id)]));
    add("op72", cond(72, &[Sx::atom(&PH1)]));
    add("op72", cond(72, &[Sx::atom(&PH2)]));
    add("op73", cond(73, &[Sx::int(a_amount)]));
    add("op73", cond(73, &[Sx::int(a_amount ^ 6)]));
    for op in 43u8..=50 {
        add(&format!("op{op}"), cond(op, &[pk.clone(), Sx::atom(b"m")]));
    }
    add("op1", cond(1, &[Sx::atom(b"x")]));
    // REMARK without an argument and with a pair as first argument (any shape is legal)
    add("op1", cond(1, &[]));
    add("op1", cond(1, &[Sx::list(&[Sx::atom(b"a"), Sx::atom(b"b")])]));
    add("op90", cond(90, &[Sx::int(1)]));
    add("opx02", Sx::list(&[Sx::atom(&[2]), Sx::atom(b"x")]));
    add("opx0100", Sx::list(&[Sx::atom(&[1, 0]), Sx::atom(b"x")]));
    // messages between A and its peer (B child or C sibling or D): every commitment style
    // send from A (src by puzzle) to a coin identified by coin id / parent / puzzle+amount
    let msg = Sx::atom(b"msg");
    // mode = src<<3 | dst
    add("op66", cond(66, &[Sx::int(0b010_111), msg.clone(), Sx::atom(&b_id)]));
    add("op66", cond(66, &[Sx::int(0b010_111), msg.clone(), Sx::atom(&c_id)]));
    add("op66", cond(66, &[Sx::int(0b111_100), msg.clone(), Sx::atom(&a_id)])); // to a coin whose parent is A
    add("op66", cond(66, &[Sx::int(0b111_011), msg.clone(), Sx::atom(&PH2), Sx::int(ids.b_amount)]));
    add("op66", cond(66, &[Sx::int(0b000_000), msg.clone()]));
    add("op66", cond(66, &[Sx::int(0b100_010), msg.clone(), Sx::atom(&PH1)]));
    add("op66", cond(66, &[Sx::int(0b001_001), msg.clone(), Sx::int(ids.c.2)]));
    // receives, as emitted by the peer: from A by puzzle / by coin id, self described variously
    add("op67", cond(67, &[Sx::int(0b010_111), msg.clone(), Sx::atom(&PH1)]));
    add("op67", cond(67, &[Sx::int(0b111_100), msg.clone(), Sx::atom(&a_id)]));
    add("op67", cond(67, &[Sx::int(0b111_011), msg.clone(), Sx::atom(&a_id)]));
    add("op67", cond(67, &[Sx::int(0b000_000), msg.clone()]));
    add("op67", cond(67, &[Sx::int(0b100_010), msg.clone(), Sx::atom(&P1)]));
    add("op67", cond(67, &[Sx::int(0b100_010), msg.clone(), Sx::atom(&P2)]));
    add("op67", cond(67, &[Sx::int(0b001_001), msg.clone(), Sx::int(a_amount)]));
    add("op67", cond(67, &[Sx::int(0b010_111), Sx::atom(b"other"), Sx::atom(&PH1)]));
    v
}


/// letters whose acceptance depends on the strictness flags (extra argument, non-nil argument
/// terminator, unknown / two-byte / SOFTFORK opcodes, hint shapes)
pub fn strict_sensitive(env: &Env) -> Vec<(String, Sx)> {
    use crate::drive::PH2;
    let pk = Sx::Atom(env.valid_keys.iter().next().unwrap().clone());
    let mut v: Vec<(String, Sx)> = Vec::new();
    let mut add = |n: &str, s: Sx| v.push((n.to_string(), s));
    add("op83+extra", cond(83, &[Sx::int(1), Sx::atom(b"x")]));
    add("op83+term", Sx::list_term(&[Sx::atom(&[83]), Sx::int(1)], Sx::atom(&[1])));
    add("op52+extra", cond(52, &[Sx::int(1), Sx::atom(b"x")]));
    add("op51+hint+extra", cond(51, &[Sx::atom(&PH2), Sx::int(2), Sx::list(&[Sx::atom(&H1)]), Sx::atom(b"x")]));
    add("op51+atom-tail", Sx::list_term(&[Sx::atom(&[51]), Sx::atom(&PH2), Sx::int(2)], Sx::atom(&[1])));
    add("op51+long-hint", cond(51, &[Sx::atom(&PH2), Sx::int(2), Sx::list(&[Sx::atom(&[0x31; 33])])]));
    add("op49+extra", cond(49, &[pk.clone(), Sx::atom(b"m"), Sx::atom(b"x")]));
    add("op50+extra", cond(50, &[pk, Sx::atom(b"m"), Sx::atom(b"x")]));
    add("op76+arg", cond(76, &[Sx::atom(b"x")]));
    add("op60+extra", cond(60, &[Sx::atom(b"hi"), Sx::atom(b"x")]));
    add("opx02", Sx::list(&[Sx::atom(&[2]), Sx::atom(b"x")]));
    add("opx5b", Sx::list(&[Sx::atom(&[0x5b])]));
    add("opx0142", Sx::list(&[Sx::atom(&[1, 0x42])]));
    add("opxff00", Sx::list(&[Sx::atom(&[0xff, 0])]));
    add("op90", cond(90, &[Sx::int(2)]));
    add("op90+extra", cond(90, &[Sx::int(2), Sx::atom(b"x")]));
    add("op1", cond(1, &[Sx::atom(b"x"), Sx::atom(b"y")]));
    v
}
