//! C02 invariant monitor: what must hold of every *accepted* result of every entry point.
//! All sums are recomputed here from the listed spends and outputs in u128.

use crate::refcond::CSummary;
use crate::sx::{enc_u64, sha256};
use std::collections::BTreeSet;

/// `inputs`: for each spend in order (parent, puzzle hash the harness computed itself from the
/// revealed puzzle, amount) — or None when the entry point was fed a bare output tree
pub fn check_accepted(sum: &CSummary, inputs: Option<&[([u8; 32], [u8; 32], u64)]>) -> Result<(), (String, String)> {
    let bad = |sig: &str, d: String| Err((sig.to_string(), d));
    let mut removed: u128 = 0;
    let mut added: u128 = 0;
    let mut ids = BTreeSet::new();
    for (i, s) in sum.spends.iter().enumerate() {
        removed += s.amount as u128;
        let want_id = sha256(&[&s.parent, &s.puzzle_hash, &enc_u64(s.amount)]);
        if s.coin_id != want_id {
            return bad("coin-id", format!("spend {i}: reported coin id {} != sha256(parent|ph|minimal amount) {}", hex::encode(s.coin_id), hex::encode(want_id)));
        }
        if !ids.insert(s.coin_id) {
            return bad("double-spend", format!("coin id {} listed twice", hex::encode(s.coin_id)));
        }
        let mut seen = BTreeSet::new();
        for (ph, am, _) in &s.create_coin {
            added += *am as u128;
            if !seen.insert((*ph, *am)) {
                return bad("duplicate-output", format!("spend {i} lists output ({}, {am}) twice", hex::encode(ph)));
            }
        }
        if let Some(inp) = inputs {
            match inp.get(i) {
                Some((p, ph, a)) => {
                    if *p != s.parent || *a != s.amount {
                        return bad("spend-identity", format!("spend {i}: reported parent/amount differ from the input"));
                    }
                    if *ph != s.puzzle_hash {
                        return bad("puzzle-hash", format!("spend {i}: reported puzzle hash {} != tree hash of the revealed puzzle {}", hex::encode(s.puzzle_hash), hex::encode(ph)));
                    }
                }
                None => return bad("spend-count", format!("more spends reported ({}) than given ({})", sum.spends.len(), inp.len())),
            }
        }
    }
    if let Some(inp) = inputs {
        if inp.len() != sum.spends.len() {
            return bad("spend-count", format!("{} spends reported, {} given", sum.spends.len(), inp.len()));
        }
    }
    if sum.removal_amount != removed {
        return bad("removal-total", format!("reported removal_amount {} != sum of listed spends {removed}", sum.removal_amount));
    }
    if sum.addition_amount != added {
        return bad("addition-total", format!("reported addition_amount {} != sum of listed outputs {added}", sum.addition_amount));
    }
    if added + sum.reserve_fee as u128 > removed {
        return bad("conservation", format!("additions {added} + reserved fee {} exceed removals {removed}", sum.reserve_fee));
    }
    Ok(())
}
