//! Shared driver for the consensus checks: runs the real `parse_spends` / generators on `Sx`
//! trees and converts the real summaries into the canonical form of `refcond`.

use crate::refcond::{CSpend, CSummary, Env, F_DEDUP, F_FF, F_HAS_RELATIVE, Pkm, RFlags};
use crate::sx::{Sx, sha256};
use chia_bls::{SecretKey, Signature};
use chia_consensus::conditions::{
    ELIGIBLE_FOR_DEDUP, ELIGIBLE_FOR_FF, EmptyVisitor, HAS_RELATIVE_CONDITION, MempoolVisitor,
    SpendBundleConditions, parse_spends,
};
use chia_consensus::consensus_constants::{ConsensusConstants, TEST_CONSTANTS};
use chia_consensus::flags::ConsensusFlags;
use chia_consensus::owned_conditions::OwnedSpendBundleConditions;
use chia_consensus::validation_error::ValidationErr;
use clvmr::Allocator;
use std::collections::BTreeSet;

pub const BIG_COST: u64 = 1 << 62;

pub fn consensus_flags(f: RFlags) -> ConsensusFlags {
    let mut c = ConsensusFlags::DONT_VALIDATE_SIGNATURE;
    if f.no_unknown {
        c |= ConsensusFlags::NO_UNKNOWN_CONDS;
    }
    if f.strict {
        c |= ConsensusFlags::STRICT_ARGS_COUNT;
    }
    if f.cost_conditions {
        c |= ConsensusFlags::COST_CONDITIONS;
    }
    if f.limit_spends {
        c |= ConsensusFlags::LIMIT_SPENDS;
    }
    c
}

pub fn all_rflags(mempool: &[bool], with_limit: bool) -> Vec<RFlags> {
    let mut v = Vec::new();
    for &m in mempool {
        for bits in 0..(if with_limit { 16 } else { 8 }) {
            v.push(RFlags {
                no_unknown: bits & 1 != 0,
                strict: bits & 2 != 0,
                cost_conditions: bits & 4 != 0,
                limit_spends: bits & 8 != 0,
                mempool: m,
            });
        }
    }
    v
}

pub fn rflags_name(f: RFlags) -> String {
    format!(
        "{}{}{}{}{}",
        if f.no_unknown { "U" } else { "-" },
        if f.strict { "S" } else { "-" },
        if f.cost_conditions { "C" } else { "-" },
        if f.limit_spends { "L" } else { "-" },
        if f.mempool { "m" } else { "b" }
    )
}

pub fn test_keys() -> Vec<SecretKey> {
    (1..=3u8).map(|i| SecretKey::from_seed(&[0x40 + i; 32])).collect()
}

/// off-curve 48-byte string with valid-looking flag bits; checked by `env()`
pub fn bad_key() -> Vec<u8> {
    let mut v = vec![0u8; 48];
    v[0] = 0x80;
    v[47] = 0x05;
    v
}

pub fn inf_key() -> Vec<u8> {
    let mut v = vec![0u8; 48];
    v[0] = 0xc0;
    v
}

pub fn suffixes(c: &ConsensusConstants) -> Vec<[u8; 32]> {
    vec![
        c.agg_sig_me_additional_data.to_bytes(),
        c.agg_sig_parent_additional_data.to_bytes(),
        c.agg_sig_puzzle_additional_data.to_bytes(),
        c.agg_sig_amount_additional_data.to_bytes(),
        c.agg_sig_puzzle_amount_additional_data.to_bytes(),
        c.agg_sig_parent_amount_additional_data.to_bytes(),
        c.agg_sig_parent_puzzle_additional_data.to_bytes(),
    ]
}

pub fn env() -> Env {
    let valid_keys: BTreeSet<Vec<u8>> = test_keys().iter().map(|k| k.public_key().to_bytes().to_vec()).collect();
    // self-check of the alphabet's invalid keys (the reference treats every 48-byte string
    // outside `valid_keys` as invalid)
    let bad: [u8; 48] = bad_key().try_into().unwrap();
    assert!(chia_bls::PublicKey::from_bytes(&bad).is_err(), "bad_key() letter is a valid key");
    let inf: [u8; 48] = inf_key().try_into().unwrap();
    assert!(chia_bls::PublicKey::from_bytes(&inf).map(|k| k.is_inf()).unwrap_or(false), "inf_key() letter is not the infinity encoding");
    Env { valid_keys, suffixes: suffixes(&TEST_CONSTANTS) }
}

fn pkms(a: &Allocator, v: &[(chia_bls::PublicKey, clvmr::NodePtr)]) -> Vec<Pkm> {
    v.iter().map(|(pk, m)| (pk.to_bytes().to_vec(), a.atom(*m).as_ref().to_vec())).collect()
}

/// canonical form of a real result. `mempool` says whether DEDUP/FF are meaningful.
pub fn canon_real(a: &Allocator, c: &SpendBundleConditions, mempool: bool) -> CSummary {
    let mut spends = Vec::new();
    for s in &c.spends {
        let mut cc: Vec<([u8; 32], u64, Option<Vec<u8>>)> = s
            .create_coin
            .iter()
            .map(|n| {
                let h = a.atom(n.hint).as_ref().to_vec();
                (n.puzzle_hash.to_bytes(), n.amount, if h.is_empty() { None } else { Some(h) })
            })
            .collect();
        cc.sort();
        let mut flags = 0;
        if s.flags & HAS_RELATIVE_CONDITION != 0 {
            flags |= F_HAS_RELATIVE;
        }
        if mempool {
            if s.flags & ELIGIBLE_FOR_DEDUP != 0 {
                flags |= F_DEDUP;
            }
            if s.flags & ELIGIBLE_FOR_FF != 0 {
                flags |= F_FF;
            }
        }
        spends.push(CSpend {
            coin_id: s.coin_id.to_bytes(),
            parent: a.atom(s.parent_id).as_ref().try_into().unwrap(),
            puzzle_hash: a.atom(s.puzzle_hash).as_ref().try_into().unwrap(),
            amount: s.coin_amount,
            height_relative: s.height_relative,
            seconds_relative: s.seconds_relative,
            before_height_relative: s.before_height_relative,
            before_seconds_relative: s.before_seconds_relative,
            birth_height: s.birth_height,
            birth_seconds: s.birth_seconds,
            create_coin: cc,
            agg_sigs: [
                pkms(a, &s.agg_sig_me),
                pkms(a, &s.agg_sig_parent),
                pkms(a, &s.agg_sig_puzzle),
                pkms(a, &s.agg_sig_amount),
                pkms(a, &s.agg_sig_puzzle_amount),
                pkms(a, &s.agg_sig_parent_amount),
                pkms(a, &s.agg_sig_parent_puzzle),
            ],
            flags,
            condition_cost: s.condition_cost,
        });
    }
    CSummary {
        spends,
        reserve_fee: c.reserve_fee,
        height_absolute: c.height_absolute,
        seconds_absolute: c.seconds_absolute,
        before_height_absolute: c.before_height_absolute,
        before_seconds_absolute: c.before_seconds_absolute,
        agg_sig_unsafe: pkms(a, &c.agg_sig_unsafe),
        removal_amount: c.removal_amount,
        addition_amount: c.addition_amount,
        condition_cost: c.condition_cost,
    }
}

pub struct RealOut {
    pub summary: CSummary,
    pub cost: u64,
    pub owned: OwnedSpendBundleConditions,
}

/// run the real `parse_spends` on an Sx tree (generator *output*) with the visitor selected by
/// `f.mempool`; signatures are not validated here
pub fn real_parse(output: &Sx, f: RFlags, max_cost: u64) -> Result<RealOut, ValidationErr> {
    let mut a = Allocator::new();
    let n = output.to_node(&mut a);
    real_parse_node(&a, n, f, max_cost)
}

pub fn real_parse_node(a: &Allocator, n: clvmr::NodePtr, f: RFlags, max_cost: u64) -> Result<RealOut, ValidationErr> {
    let flags = consensus_flags(f);
    let sig = Signature::default();
    let r = if f.mempool {
        parse_spends::<MempoolVisitor>(a, n, max_cost, 0, flags, &sig, None, &TEST_CONSTANTS)
    } else {
        parse_spends::<EmptyVisitor>(a, n, max_cost, 0, flags, &sig, None, &TEST_CONSTANTS)
    }?;
    let summary = canon_real(a, &r, f.mempool);
    let cost = r.cost;
    let owned = OwnedSpendBundleConditions::from(a, r);
    Ok(RealOut { summary, cost, owned })
}

// ---------------------------------------------------------------- shared coins / letters

pub const P1: [u8; 32] = [0x11; 32];
pub const P2: [u8; 32] = [0x12; 32];
pub const PH1: [u8; 32] = [0x21; 32];
pub const PH2: [u8; 32] = [0x22; 32];
pub const H1: [u8; 32] = [0x31; 32];
pub const H2: [u8; 32] = [0x32; 32];

pub fn coin_id(parent: &[u8; 32], ph: &[u8; 32], amount: u64) -> [u8; 32] {
    sha256(&[parent, ph, &crate::sx::enc_u64(amount)])
}

/// spend tuple (parent ph amount conds)
pub fn spend(parent: &[u8; 32], ph: &[u8; 32], amount: u64, conds: Sx) -> Sx {
    Sx::list(&[Sx::atom(parent), Sx::atom(ph), Sx::int(amount), conds])
}

/// generator output ((spends...))
pub fn output(spends: &[Sx]) -> Sx {
    Sx::list(&[Sx::list(spends)])
}

pub fn cond(op: u8, args: &[Sx]) -> Sx {
    let mut v = vec![Sx::atom(&[op])];
    v.extend_from_slice(args);
    Sx::list(&v)
}

/// canonical form of an owned (allocator-free) result
pub fn canon_owned(c: &OwnedSpendBundleConditions, mempool: bool) -> CSummary {
    let pk = |v: &Vec<(chia_bls::PublicKey, chia_protocol::Bytes)>| -> Vec<Pkm> { v.iter().map(|(k, m)| (k.to_bytes().to_vec(), m.as_ref().to_vec())).collect() };
    let mut spends = Vec::new();
    for s in &c.spends {
        let mut cc: Vec<([u8; 32], u64, Option<Vec<u8>>)> = s
            .create_coin
            .iter()
            .map(|(ph, am, hint)| (ph.to_bytes(), *am, hint.as_ref().map(|h| h.as_ref().to_vec()).filter(|h| !h.is_empty())))
            .collect();
        cc.sort();
        let mut flags = 0;
        if s.flags & HAS_RELATIVE_CONDITION != 0 {
            flags |= F_HAS_RELATIVE;
        }
        if mempool {
            if s.flags & ELIGIBLE_FOR_DEDUP != 0 {
                flags |= F_DEDUP;
            }
            if s.flags & ELIGIBLE_FOR_FF != 0 {
                flags |= F_FF;
            }
        }
        spends.push(CSpend {
            coin_id: s.coin_id.to_bytes(),
            parent: s.parent_id.to_bytes(),
            puzzle_hash: s.puzzle_hash.to_bytes(),
            amount: s.coin_amount,
            height_relative: s.height_relative,
            seconds_relative: s.seconds_relative,
            before_height_relative: s.before_height_relative,
            before_seconds_relative: s.before_seconds_relative,
            birth_height: s.birth_height,
            birth_seconds: s.birth_seconds,
            create_coin: cc,
            agg_sigs: [pk(&s.agg_sig_me), pk(&s.agg_sig_parent), pk(&s.agg_sig_puzzle), pk(&s.agg_sig_amount), pk(&s.agg_sig_puzzle_amount), pk(&s.agg_sig_parent_amount), pk(&s.agg_sig_parent_puzzle)],
            flags,
            condition_cost: s.condition_cost,
        });
    }
    CSummary {
        spends,
        reserve_fee: c.reserve_fee,
        height_absolute: c.height_absolute,
        seconds_absolute: c.seconds_absolute,
        before_height_absolute: c.before_height_absolute,
        before_seconds_absolute: c.before_seconds_absolute,
        agg_sig_unsafe: pk(&c.agg_sig_unsafe),
        removal_amount: c.removal_amount,
        addition_amount: c.addition_amount,
        condition_cost: c.condition_cost,
    }
}
