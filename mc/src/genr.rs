//! Building block generators / spend bundles from `Sx` descriptions and running every real
//! entry point on them (legacy generator path, native path, mempool path), returning results
//! in the canonical form of `refcond`.

use crate::drive::canon_real;
use crate::refcond::CSummary;
use crate::sx::{Sx, enc_u64, sha256};
use chia_bls::Signature;
use chia_consensus::consensus_constants::{ConsensusConstants, TEST_CONSTANTS};
use chia_consensus::flags::ConsensusFlags;
use chia_consensus::run_block_generator::{run_block_generator, run_block_generator2};
use chia_consensus::spendbundle_conditions::run_spendbundle;
use chia_consensus::validation_error::ValidationErr;
use chia_protocol::{Bytes32, Coin, CoinSpend, Program, SpendBundle};
use clvmr::Allocator;
use std::collections::HashMap;

#[derive(Clone, Debug)]
pub struct GSpend {
    pub parent: [u8; 32],
    pub amount: u64,
    pub puzzle: Sx,
    pub solution: Sx,
}

impl GSpend {
    /// puzzle `1` (returns its solution): solution = condition list
    pub fn identity(parent: [u8; 32], amount: u64, conds: Sx) -> Self {
        Self { parent, amount, puzzle: Sx::int(1), solution: conds }
    }
    /// puzzle `(q . conds)`, nil solution
    pub fn quoted(parent: [u8; 32], amount: u64, conds: Sx) -> Self {
        Self { parent, amount, puzzle: Sx::cons(Sx::int(1), conds), solution: Sx::nil() }
    }
    pub fn puzzle_hash(&self) -> [u8; 32] {
        self.puzzle.tree_hash()
    }
    pub fn coin_id(&self) -> [u8; 32] {
        sha256(&[&self.parent, &self.puzzle_hash(), &enc_u64(self.amount)])
    }
    pub fn coin(&self) -> Coin {
        Coin::new(Bytes32::new(self.parent), Bytes32::new(self.puzzle_hash()), self.amount)
    }
    pub fn coin_spend(&self) -> CoinSpend {
        CoinSpend::new(self.coin(), Program::from(self.puzzle.serialize()), Program::from(self.solution.serialize()))
    }
    pub fn tuple(&self) -> Sx {
        Sx::list(&[Sx::atom(&self.parent), self.puzzle.clone(), Sx::int(self.amount), self.solution.clone()])
    }
}

/// the canonical quoted generator `(q . ((spend ...)))`, built by the harness
pub fn generator_sx(spends: &[GSpend]) -> Sx {
    let tuples: Vec<Sx> = spends.iter().map(GSpend::tuple).collect();
    Sx::cons(Sx::int(1), Sx::list(&[Sx::list(&tuples)]))
}

pub fn bundle(spends: &[GSpend], sig: &Signature) -> SpendBundle {
    SpendBundle::new(spends.iter().map(GSpend::coin_spend).collect(), sig.clone())
}

/// own interned size: sum of distinct atom lengths + 2 per distinct atom + 3 per distinct pair
pub fn interned_vbytes_ref(root: &Sx) -> u64 {
    let mut atoms: HashMap<Vec<u8>, usize> = HashMap::new();
    let mut pairs: HashMap<(usize, usize), usize> = HashMap::new();
    fn walk(n: &Sx, atoms: &mut HashMap<Vec<u8>, usize>, pairs: &mut HashMap<(usize, usize), usize>) -> usize {
        // iterative post-order to survive deep lists
        enum Op<'a> {
            Visit(&'a Sx),
            Combine,
        }
        let mut ops = vec![Op::Visit(n)];
        let mut vals: Vec<usize> = Vec::new();
        while let Some(op) = ops.pop() {
            match op {
                Op::Visit(Sx::Atom(a)) => {
                    let next = atoms.len() * 2; // even ids for atoms
                    let id = *atoms.entry(a.clone()).or_insert(next);
                    vals.push(id);
                }
                Op::Visit(Sx::Pair(l, r)) => {
                    ops.push(Op::Combine);
                    ops.push(Op::Visit(r));
                    ops.push(Op::Visit(l));
                }
                Op::Combine => {
                    let r = vals.pop().unwrap();
                    let l = vals.pop().unwrap();
                    let next = pairs.len() * 2 + 1; // odd ids for pairs
                    let id = *pairs.entry((l, r)).or_insert(next);
                    vals.push(id);
                }
            }
        }
        vals.pop().unwrap()
    }
    walk(root, &mut atoms, &mut pairs);
    let atom_bytes: u64 = atoms.keys().map(|a| a.len() as u64).sum();
    atom_bytes + 2 * atoms.len() as u64 + 3 * pairs.len() as u64
}

#[derive(Clone, Debug)]
pub struct PathOut {
    pub summary: CSummary,
    pub cost: u64,
    pub execution_cost: u64,
    pub condition_cost: u64,
    pub spend_execution: Vec<u64>,
    pub spend_condition: Vec<u64>,
    pub validated_signature: bool,
}

fn pathout(a: &Allocator, c: &chia_consensus::conditions::SpendBundleConditions, mempool: bool) -> PathOut {
    PathOut {
        summary: canon_real(a, c, mempool),
        cost: c.cost,
        execution_cost: c.execution_cost,
        condition_cost: c.condition_cost,
        spend_execution: c.spends.iter().map(|s| s.execution_cost).collect(),
        spend_condition: c.spends.iter().map(|s| s.condition_cost).collect(),
        validated_signature: c.validated_signature,
    }
}

pub fn run_gen1(program: &[u8], refs: &[Vec<u8>], max_cost: u64, flags: ConsensusFlags, sig: &Signature, constants: &ConsensusConstants) -> Result<PathOut, ValidationErr> {
    let (a, c) = run_block_generator(program, refs.iter().map(Vec::as_slice), max_cost, flags, sig, None, constants)?;
    Ok(pathout(&a, &c, false))
}

pub fn run_gen2(program: &[u8], refs: &[Vec<u8>], max_cost: u64, flags: ConsensusFlags, sig: &Signature, constants: &ConsensusConstants) -> Result<PathOut, ValidationErr> {
    let (a, c) = run_block_generator2(program, refs.iter().map(Vec::as_slice), max_cost, flags, sig, None, constants)?;
    Ok(pathout(&a, &c, false))
}

pub fn run_bundle(b: &SpendBundle, max_cost: u64, flags: ConsensusFlags, constants: &ConsensusConstants) -> Result<(PathOut, Vec<(Vec<u8>, Vec<u8>)>), ValidationErr> {
    let mut a = Allocator::new();
    let (c, pkm) = run_spendbundle(&mut a, b, max_cost, flags, constants)?;
    let pkm = pkm.into_iter().map(|(k, m)| (k.to_bytes().to_vec(), m.as_ref().to_vec())).collect();
    Ok((pathout(&a, &c, true), pkm))
}

pub fn test_constants() -> &'static ConsensusConstants {
    &TEST_CONSTANTS
}

/// execution cost of running `puzzle` on `solution` as reported by clvmr itself (outside /repo)
pub fn clvm_cost(puzzle: &Sx, solution: &Sx, flags: ConsensusFlags) -> Option<u64> {
    let mut a = Allocator::new();
    let p = puzzle.to_node(&mut a);
    let s = solution.to_node(&mut a);
    let dialect = clvmr::chia_dialect::ChiaDialect::new(flags.to_clvm_flags());
    clvmr::run_program::run_program(&mut a, &dialect, p, s, u64::MAX).ok().map(|r| r.0)
}
