//! Shared command line of every per-property binary.
//!
//!   cNN [--tier quick|thorough]        run the check (VERIF_TIER / VERIF_SEED honoured)
//!   cNN --replay <path>                re-execute one recorded violation outside the explorer
use crate::report::{Report, Tier, quiet_panics};
use serde_json::Value;

pub fn main(
    property: &'static str,
    level: &'static str,
    run: impl FnOnce(&Report),
    replay: impl FnOnce(&Value) -> String,
) -> ! {
    let args: Vec<String> = std::env::args().collect();
    let mut tier = match std::env::var("VERIF_TIER").as_deref() {
        Ok("thorough") => Tier::Thorough,
        _ => Tier::Quick,
    };
    let mut replay_path = None;
    let mut i = 1;
    while i < args.len() {
        match args[i].as_str() {
            "--tier" => {
                i += 1;
                tier = match args.get(i).map(String::as_str) {
                    Some("thorough") => Tier::Thorough,
                    Some("quick") => Tier::Quick,
                    other => {
                        eprintln!("bad tier {other:?}");
                        std::process::exit(2)
                    }
                };
            }
            "--replay" => {
                i += 1;
                replay_path = args.get(i).cloned();
            }
            "quick" => tier = Tier::Quick,
            "thorough" => tier = Tier::Thorough,
            other => {
                eprintln!("unknown argument {other}");
                std::process::exit(2);
            }
        }
        i += 1;
    }
    let seed = std::env::var("VERIF_SEED")
        .ok()
        .and_then(|s| s.parse::<u64>().ok())
        .unwrap_or(0);
    if let Some(p) = replay_path {
        let txt = std::fs::read_to_string(&p).unwrap_or_else(|e| {
            eprintln!("cannot read {p}: {e}");
            std::process::exit(2)
        });
        let v: Value = serde_json::from_str(&txt).unwrap_or_else(|e| {
            eprintln!("cannot parse {p}: {e}");
            std::process::exit(2)
        });
        println!("replaying {} signature {}", v["property"], v["signature"]);
        let out = replay(&v["case"]);
        println!("{out}");
        std::process::exit(0);
    }
    quiet_panics();
    let report = Report::new(property, level, tier, seed);
    if let Err(p) = crate::report::catch(|| run(&report)) {
        // a panic of the harness itself is a machinery failure, never a verdict
        eprintln!("MACHINERY-ERROR: the check body panicked: {p}");
        std::process::exit(2);
    }
    let code = report.finish();
    std::process::exit(code)
}
