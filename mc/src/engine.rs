//! Engine E — stateless choice-sequence explorer.
//!
//! A check body is a closure over a `Chooser`; `ch.pick(n)` returns a value in `0..n`.
//! `explore_full` enumerates every choice sequence depth-first (odometer order, choice 0
//! first, so the first counter-example is the simplest one). `explore_dev` enumerates all
//! sequences with at most `k` non-zero choices ("deviations from the default answer");
//! executions always run to completion. Both replay a prefix and then take choice 0;
//! a prefix that does not fit the body's picks (choice out of range) is a hard error –
//! the body is not deterministic in its choices.
//!
//! Parallelism: the first `split` picks are enumerated up front and the resulting
//! prefixes are distributed over the rayon pool; each worker then runs the sequential
//! odometer below its prefix. The set explored does not depend on the schedule.

use rayon::prelude::*;
use std::sync::atomic::{AtomicU64, Ordering};

pub struct Chooser {
    prefix: Vec<u32>,
    pos: usize,
    /// true while the engine only probes the arities of the first picks to build its shards; a
    /// body that makes all its picks up front should return right after them when this is set,
    /// so that probe runs are not counted as executions
    pub probing: bool,
    /// (choice taken, number of alternatives) for each pick of this execution
    pub trace: Vec<(u32, u32)>,
}

impl Chooser {
    pub fn new(prefix: Vec<u32>) -> Self {
        Self {
            prefix,
            pos: 0,
            probing: false,
            trace: Vec::new(),
        }
    }
    pub fn pick(&mut self, n: u32) -> u32 {
        assert!(n > 0, "pick(0)");
        let c = if self.pos < self.prefix.len() {
            self.prefix[self.pos]
        } else {
            0
        };
        assert!(
            c < n,
            "replay divergence: prefix choice {c} at position {} but only {n} alternatives",
            self.pos
        );
        self.pos += 1;
        self.trace.push((c, n));
        c
    }
    pub fn pick_from<'a, T>(&mut self, xs: &'a [T]) -> &'a T {
        &xs[self.pick(xs.len() as u32) as usize]
    }
    pub fn flag(&mut self) -> bool {
        self.pick(2) == 1
    }
    pub fn choices(&self) -> Vec<u32> {
        self.trace.iter().map(|t| t.0).collect()
    }
}

/// next prefix in odometer order strictly below `floor` positions being fixed;
/// returns None when the subtree under `trace[..floor]` is exhausted
fn next_prefix(trace: &[(u32, u32)], floor: usize) -> Option<Vec<u32>> {
    let mut i = trace.len();
    while i > floor {
        i -= 1;
        if trace[i].0 + 1 < trace[i].1 {
            let mut p: Vec<u32> = trace[..i].iter().map(|t| t.0).collect();
            p.push(trace[i].0 + 1);
            return Some(p);
        }
    }
    None
}

/// sequential full exploration of the subtree below `fixed`
fn explore_subtree<F: Fn(&mut Chooser)>(fixed: Vec<u32>, f: &F) -> u64 {
    let floor = fixed.len();
    let mut prefix = fixed;
    let mut count = 0;
    loop {
        let mut ch = Chooser::new(prefix);
        f(&mut ch);
        count += 1;
        match next_prefix(&ch.trace, floor) {
            Some(p) => prefix = p,
            None => return count,
        }
    }
}

/// enumerate all prefixes of length `split` (or complete executions shorter than that)
fn frontier<F: Fn(&mut Chooser)>(split: usize, probe: &F) -> Vec<Vec<u32>> {
    // run the body with growing prefixes just to learn the arities; the body must be
    // cheap relative to the whole exploration (it is executed once per frontier node)
    let mut out = Vec::new();
    let mut stack: Vec<Vec<u32>> = vec![Vec::new()];
    while let Some(p) = stack.pop() {
        if p.len() >= split {
            out.push(p);
            continue;
        }
        let mut ch = Chooser::new(p.clone());
        ch.probing = true;
        probe(&mut ch);
        if ch.trace.len() <= p.len() {
            // complete execution shorter than split: it is its own shard
            out.push(p);
            continue;
        }
        let n = ch.trace[p.len()].1;
        for c in (0..n).rev() {
            let mut q = p.clone();
            q.push(c);
            stack.push(q);
        }
    }
    out
}

/// Full exploration, parallel. Returns number of executions.
pub fn explore_full<F: Fn(&mut Chooser) + Sync>(split: usize, f: F) -> u64 {
    let shards = frontier(split, &f);
    let total = AtomicU64::new(0);
    shards.into_par_iter().for_each(|p| {
        let n = explore_subtree(p, &f);
        total.fetch_add(n, Ordering::Relaxed);
    });
    total.load(Ordering::Relaxed)
}

/// Deviation-bounded exploration: all choice sequences with at most `k` non-zero picks.
/// Returns executions per deviation count [0..=k].
pub fn explore_dev<F: Fn(&mut Chooser) + Sync>(k: usize, f: F) -> Vec<u64> {
    let counts: Vec<AtomicU64> = (0..=k).map(|_| AtomicU64::new(0)).collect();
    // level 0
    let mut level: Vec<Vec<u32>> = vec![Vec::new()];
    for d in 0..=k {
        // run every prefix of this level; collect the next level (one more deviation,
        // placed strictly after the last deviation of the parent so each set is visited once)
        let next: Vec<Vec<u32>> = level
            .par_iter()
            .flat_map_iter(|p| {
                let mut ch = Chooser::new(p.clone());
                f(&mut ch);
                counts[d].fetch_add(1, Ordering::Relaxed);
                let mut kids = Vec::new();
                if d < k {
                    for i in p.len()..ch.trace.len() {
                        for alt in 1..ch.trace[i].1 {
                            let mut q: Vec<u32> = ch.trace[..i].iter().map(|t| t.0).collect();
                            q.push(alt);
                            kids.push(q);
                        }
                    }
                }
                kids.into_iter()
            })
            .collect();
        level = next;
    }
    counts.iter().map(|c| c.load(Ordering::Relaxed)).collect()
}

/// run one recorded choice sequence (replay)
pub fn run_one<F: Fn(&mut Chooser)>(choices: &[u32], f: F) {
    let mut ch = Chooser::new(choices.to_vec());
    f(&mut ch);
}

#[cfg(test)]
mod tests {
    use super::*;
    use std::collections::HashSet;
    use std::sync::Mutex;

    #[test]
    fn full_counts() {
        let seen = Mutex::new(HashSet::new());
        let n = explore_full(2, |ch| {
            let a = ch.pick(3);
            let mut v = vec![a];
            for _ in 0..a {
                v.push(ch.pick(2));
            }
            seen.lock().unwrap().insert(v);
        });
        // a=0:1, a=1:2, a=2:4
        assert_eq!(n, 7);
        assert_eq!(seen.lock().unwrap().len(), 7);
    }

    #[test]
    fn dev_counts() {
        let seen = Mutex::new(HashSet::new());
        let c = explore_dev(2, |ch| {
            let v: Vec<u32> = (0..4).map(|_| ch.pick(3)).collect();
            seen.lock().unwrap().insert(v);
        });
        // 0 dev:1 ; 1 dev: 4*2 ; 2 dev: C(4,2)*4
        assert_eq!(c, vec![1, 8, 24]);
        assert_eq!(seen.lock().unwrap().len(), 33);
    }
}
