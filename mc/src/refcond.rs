//! Reference model of the spend-condition rules (DESIGN.md Appendix A), written from the rule
//! text, not from `parse_conditions`. It parses the whole generator output into a list of
//! typed conditions first (rejecting on any malformed part the rules inspect), keeps every
//! condition, and derives all aggregates at the end.
//!
//! Only accept/reject and the summary are meaningful — the reason string is for humans.

use crate::sx::{Sx, sha256};
use std::collections::{BTreeMap, BTreeSet};

#[derive(Clone, Copy, Debug, Default, PartialEq, Eq, Hash)]
pub struct RFlags {
    pub no_unknown: bool,
    pub strict: bool,
    pub cost_conditions: bool,
    pub limit_spends: bool,
    /// derive the mempool eligibility flags (DEDUP / FF)
    pub mempool: bool,
}

pub const F_DEDUP: u32 = 1;
pub const F_HAS_RELATIVE: u32 = 2;
pub const F_FF: u32 = 4;

/// environment: which 48-byte strings are valid non-infinity public keys, and the 7 suffixes
pub struct Env {
    pub valid_keys: BTreeSet<Vec<u8>>,
    pub suffixes: Vec<[u8; 32]>,
}

pub type Pkm = (Vec<u8>, Vec<u8>);

#[derive(Clone, Debug, PartialEq, Eq, PartialOrd, Ord, Hash)]
pub struct CSpend {
    pub coin_id: [u8; 32],
    pub parent: [u8; 32],
    pub puzzle_hash: [u8; 32],
    pub amount: u64,
    pub height_relative: Option<u32>,
    pub seconds_relative: Option<u64>,
    pub before_height_relative: Option<u32>,
    pub before_seconds_relative: Option<u64>,
    pub birth_height: Option<u32>,
    pub birth_seconds: Option<u64>,
    /// sorted
    pub create_coin: Vec<([u8; 32], u64, Option<Vec<u8>>)>,
    /// me, parent, puzzle, amount, puzzle_amount, parent_amount, parent_puzzle — in listing order
    pub agg_sigs: [Vec<Pkm>; 7],
    pub flags: u32,
    pub condition_cost: u64,
}

#[derive(Clone, Debug, PartialEq, Eq, PartialOrd, Ord, Hash)]
pub struct CSummary {
    pub spends: Vec<CSpend>,
    pub reserve_fee: u64,
    pub height_absolute: u32,
    pub seconds_absolute: u64,
    pub before_height_absolute: Option<u32>,
    pub before_seconds_absolute: Option<u64>,
    pub agg_sig_unsafe: Vec<Pkm>,
    pub removal_amount: u128,
    pub addition_amount: u128,
    pub condition_cost: u64,
}

// ---------------------------------------------------------------- cost table (consensus constants)

pub const COST_CREATE_COIN: u64 = 1_800_000;
pub const COST_CREATE_COIN_POST: u64 = 1_350_000;
pub const COST_SPEND: u64 = 450_000;
pub const COST_AGG_SIG: u64 = 1_200_000;
pub const COST_MESSAGE: u64 = 700;
pub const COST_GENERIC: u64 = 200;

/// Frozen copy of the 256 cost slots of two-byte opcodes (a consensus constant: the cost of
/// opcode `hi lo` with hi != 0 is SLOT_COST[lo]). Written out literally on 2026-09-23; the
/// definition is 100 * (17/16)^i truncated to three significant digits, and `slot_cost_exact`
/// recomputes that in exact integer arithmetic — the self-test in C04 lists every slot where
/// the literal differs from the exact closed form (the in-tree fixed-point evaluation drifts
/// for large i; the chain rule is the literal).
pub const SLOT_COST: [u64; 256] = [
    100, 106, 112, 119, 127, 135, 143, 152,
    162, 172, 183, 194, 206, 219, 233, 248,
    263, 280, 297, 316, 336, 357, 379, 403,
    428, 455, 483, 513, 546, 580, 616, 654,
    695, 739, 785, 834, 886, 942, 1000, 1060,
    1130, 1200, 1270, 1350, 1440, 1530, 1620, 1720,
    1830, 1950, 2070, 2200, 2330, 2480, 2640, 2800,
    2980, 3160, 3360, 3570, 3790, 4030, 4280, 4550,
    4840, 5140, 5460, 5800, 6170, 6550, 6960, 7400,
    7860, 8350, 8870, 9430, 10000, 10600, 11300, 12000,
    12700, 13500, 14400, 15300, 16200, 17200, 18300, 19500,
    20700, 22000, 23400, 24800, 26400, 28000, 29800, 31700,
    33600, 35800, 38000, 40400, 42900, 45600, 48400, 51500,
    54700, 58100, 61700, 65600, 69700, 74100, 78700, 83600,
    88800, 94400, 100000, 106000, 113000, 120000, 127000, 135000,
    144000, 153000, 162000, 173000, 183000, 195000, 207000, 220000,
    234000, 249000, 264000, 281000, 298000, 317000, 337000, 358000,
    380000, 404000, 429000, 456000, 485000, 515000, 547000, 582000,
    618000, 657000, 698000, 741000, 788000, 837000, 889000, 945000,
    1000000, 1060000, 1130000, 1200000, 1280000, 1360000, 1440000, 1530000,
    1630000, 1730000, 1840000, 1950000, 2070000, 2200000, 2340000, 2490000,
    2650000, 2810000, 2990000, 3170000, 3370000, 3580000, 3810000, 4050000,
    4300000, 4570000, 4850000, 5160000, 5480000, 5820000, 6190000, 6570000,
    6990000, 7420000, 7890000, 8380000, 8900000, 9460000, 10000000, 10600000,
    11300000, 12000000, 12800000, 13600000, 14400000, 15300000, 16300000, 17300000,
    18400000, 19500000, 20800000, 22100000, 23500000, 24900000, 26500000, 28100000,
    29900000, 31800000, 33800000, 35900000, 38100000, 40500000, 43000000, 45700000,
    48600000, 51600000, 54900000, 58300000, 61900000, 65800000, 69900000, 74300000,
    79000000, 83900000, 89100000, 94700000, 100000000, 106000000, 113000000, 120000000,
    128000000, 136000000, 144000000, 153000000, 163000000, 173000000, 184000000, 196000000,
    208000000, 221000000, 235000000, 249000000, 265000000, 282000000, 299000000, 318000000,
    338000000, 359000000, 382000000, 406000000, 431000000, 458000000, 487000000, 517000000,
];

/// floor(100 * 17^i / 16^i) truncated to three significant digits, exact
pub fn slot_cost_exact(i: u32) -> u64 {
    use num_bigint::BigUint;
    let v: BigUint = BigUint::from(100u32) * BigUint::from(17u32).pow(i) / BigUint::from(16u32).pow(i);
    let mut p = BigUint::from(1u32);
    while &p * 1000u32 <= v {
        p *= 10u32;
    }
    let r = (&v / &p) * &p;
    u64::try_from(r).unwrap()
}

pub fn slot_cost(lo: u8) -> u64 {
    SLOT_COST[lo as usize]
}

// ---------------------------------------------------------------- integers

#[derive(Debug, Clone, Copy, PartialEq, Eq)]
pub enum IntClass {
    Val(u64),
    Neg,
    Over,
    Redundant,
}

pub fn classify_int(atom: &[u8], width: usize) -> IntClass {
    if atom.is_empty() {
        return IntClass::Val(0);
    }
    if atom[0] & 0x80 != 0 {
        return IntClass::Neg;
    }
    if atom[0] == 0 && (atom.len() == 1 || atom[1] & 0x80 == 0) {
        return IntClass::Redundant;
    }
    let digits = if atom[0] == 0 { &atom[1..] } else { atom };
    if digits.len() > width {
        return IntClass::Over;
    }
    let mut v: u64 = 0;
    for b in digits {
        v = (v << 8) | *b as u64;
    }
    IntClass::Val(v)
}

// ---------------------------------------------------------------- typed conditions

#[derive(Clone, Debug, PartialEq, Eq)]
pub enum Commit {
    CoinId([u8; 32]),
    Parts { parent: Option<[u8; 32]>, puzzle: Option<[u8; 32]>, amount: Option<u64> },
}

#[derive(Clone, Debug, PartialEq, Eq)]
pub enum Cond {
    AggSig { kind: u8, pk: Vec<u8>, msg: Vec<u8> }, // kind = opcode 43..50
    CreateCoin { ph: [u8; 32], amount: u64, hint: Option<Vec<u8>> },
    ReserveFee(u64),
    CreateCoinAnn(Vec<u8>),
    CreatePuzzleAnn(Vec<u8>),
    AssertCoinAnn([u8; 32]),
    AssertPuzzleAnn([u8; 32]),
    ConcurrentSpend([u8; 32]),
    ConcurrentPuzzle([u8; 32]),
    Send { src_mode: u8, dst_mode: u8, dst: Commit, msg: Vec<u8> },
    Receive { src_mode: u8, dst_mode: u8, src: Commit, msg: Vec<u8> },
    MyCoinId([u8; 32]),
    MyParent([u8; 32]),
    MyPuzzle([u8; 32]),
    MyAmount(u64),
    BirthSeconds(u64),
    BirthHeight(u32),
    Ephemeral,
    /// opcode 80..87 with a real bound
    Lock { op: u8, v: u64 },
    /// a tautological lock; relative = still counts as a relative-class condition
    TautLock { relative: bool },
    Softfork(u64),
    Remark,
    /// two-byte opcode with non-zero first byte
    CostedUnknown(u64),
    Unknown,
}

pub struct PSpend {
    pub parent: [u8; 32],
    pub ph: [u8; 32],
    pub amount: u64,
    pub coin_id: [u8; 32],
    pub conds: Vec<Cond>,
}

type R<T> = Result<T, String>;

fn rej<T>(s: &str) -> R<T> {
    Err(s.to_string())
}

fn arg<'a>(args: &'a Sx, what: &str) -> R<(&'a Sx, &'a Sx)> {
    args.as_pair().ok_or_else(|| format!("missing argument: {what}"))
}

fn hash32(s: &Sx, what: &str) -> R<[u8; 32]> {
    match s.as_atom() {
        Some(a) if a.len() == 32 => Ok(a.try_into().unwrap()),
        _ => Err(format!("{what}: not a 32-byte atom")),
    }
}

fn msg1024(s: &Sx, what: &str) -> R<Vec<u8>> {
    match s.as_atom() {
        Some(a) if a.len() <= 1024 => Ok(a.to_vec()),
        _ => Err(format!("{what}: not an atom of at most 1024 bytes")),
    }
}

fn int_atom<'a>(s: &'a Sx, what: &str) -> R<&'a [u8]> {
    s.as_atom().ok_or_else(|| format!("{what}: integer argument is a pair"))
}

/// amount-like: negative, oversize and redundant all reject
fn amount8(s: &Sx, what: &str) -> R<u64> {
    match classify_int(int_atom(s, what)?, 8) {
        IntClass::Val(v) => Ok(v),
        c => Err(format!("{what}: {c:?}")),
    }
}

fn nil_atom(s: &Sx, what: &str) -> R<()> {
    if s.is_nil() { Ok(()) } else { Err(format!("{what}: expected nil terminator")) }
}

/// single-argument condition: under strict the list must be exactly (x); otherwise x must exist
fn single<'a>(args: &'a Sx, strict: bool, what: &str) -> R<&'a Sx> {
    let (x, rest) = arg(args, what)?;
    if strict {
        nil_atom(rest, what)?;
    }
    Ok(x)
}

fn parse_commit<'a>(mut args: &'a Sx, mode: u8) -> R<(Commit, &'a Sx)> {
    if mode == 7 {
        let (x, rest) = arg(args, "message coin id")?;
        return Ok((Commit::CoinId(hash32(x, "message coin id")?), rest));
    }
    let mut parent = None;
    let mut puzzle = None;
    let mut amount = None;
    if mode & 4 != 0 {
        let (x, rest) = arg(args, "message parent")?;
        parent = Some(hash32(x, "message parent")?);
        args = rest;
    }
    if mode & 2 != 0 {
        let (x, rest) = arg(args, "message puzzle")?;
        puzzle = Some(hash32(x, "message puzzle")?);
        args = rest;
    }
    if mode & 1 != 0 {
        let (x, rest) = arg(args, "message amount")?;
        amount = Some(amount8(x, "message amount")?);
        args = rest;
    }
    Ok((Commit::Parts { parent, puzzle, amount }, args))
}

fn parse_mode(s: &Sx) -> R<u8> {
    // canonical non-negative integer of at most 6 bits: empty atom or one byte 01..3f
    match s.as_atom() {
        Some([]) => Ok(0),
        Some([b]) if *b >= 1 && *b <= 0x3f => Ok(*b),
        _ => rej("message mode: not a canonical integer in 0..63"),
    }
}

const KNOWN: [u8; 35] = [
    1, 43, 44, 45, 46, 47, 48, 49, 50, 51, 52, 60, 61, 62, 63, 64, 65, 66, 67, 70, 71, 72, 73, 74, 75, 76, 80, 81, 82, 83, 84, 85, 86, 87, 90,
];

pub fn parse_condition(c: &Sx, f: RFlags, env: &Env, slot_cost: &dyn Fn(u8) -> u64) -> R<Cond> {
    let (op, args) = c.as_pair().ok_or("condition is not a pair")?;
    let opb: u8 = match op.as_atom() {
        Some([b]) if KNOWN.contains(b) => *b,
        Some([hi, lo]) if *hi != 0 => {
            if f.no_unknown {
                return rej("costed unknown condition in strict mode");
            }
            return Ok(Cond::CostedUnknown(slot_cost(*lo)));
        }
        _ => {
            if f.no_unknown {
                return rej("unknown condition in strict mode");
            }
            return Ok(Cond::Unknown);
        }
    };
    match opb {
        1 => Ok(Cond::Remark),
        43..=50 => {
            let (pk, r1) = arg(args, "agg_sig key")?;
            let pk = match pk.as_atom() {
                Some(a) if a.len() == 48 => a.to_vec(),
                _ => return rej("agg_sig key: not a 48-byte atom"),
            };
            let (m, r2) = arg(r1, "agg_sig message")?;
            let msg = msg1024(m, "agg_sig message")?;
            if f.strict {
                nil_atom(r2, "agg_sig args")?;
            }
            if opb == 49 && msg.len() >= 32 && env.suffixes.iter().any(|s| msg.ends_with(s)) {
                return rej("AGG_SIG_UNSAFE message ends in a domain constant");
            }
            if !env.valid_keys.contains(&pk) {
                return rej("agg_sig key: not a valid non-infinity G1 point");
            }
            Ok(Cond::AggSig { kind: opb, pk, msg })
        }
        51 => {
            let (ph, r1) = arg(args, "create_coin ph")?;
            let ph = hash32(ph, "create_coin ph")?;
            let (am, r2) = arg(r1, "create_coin amount")?;
            let amount = amount8(am, "create_coin amount")?;
            let mut hint = None;
            match r2.as_pair() {
                Some((memos, tail)) => {
                    if f.strict {
                        nil_atom(tail, "create_coin args")?;
                    }
                    if let Some((m0, _)) = memos.as_pair() {
                        if let Some(a) = m0.as_atom() {
                            if !a.is_empty() && a.len() <= 32 {
                                hint = Some(a.to_vec());
                            }
                        }
                    }
                }
                None => {
                    if f.strict {
                        nil_atom(r2, "create_coin args")?;
                    }
                }
            }
            Ok(Cond::CreateCoin { ph, amount, hint })
        }
        52 => Ok(Cond::ReserveFee(amount8(single(args, f.strict, "reserve_fee")?, "reserve_fee")?)),
        60 => Ok(Cond::CreateCoinAnn(msg1024(single(args, f.strict, "announcement")?, "announcement")?)),
        62 => Ok(Cond::CreatePuzzleAnn(msg1024(single(args, f.strict, "announcement")?, "announcement")?)),
        61 => Ok(Cond::AssertCoinAnn(hash32(single(args, f.strict, "assert ann")?, "assert ann")?)),
        63 => Ok(Cond::AssertPuzzleAnn(hash32(single(args, f.strict, "assert ann")?, "assert ann")?)),
        64 => Ok(Cond::ConcurrentSpend(hash32(single(args, f.strict, "concurrent spend")?, "concurrent spend")?)),
        65 => Ok(Cond::ConcurrentPuzzle(hash32(single(args, f.strict, "concurrent puzzle")?, "concurrent puzzle")?)),
        66 | 67 => {
            let (m, r1) = arg(args, "message mode")?;
            let mode = parse_mode(m)?;
            let (msg, r2) = arg(r1, "message body")?;
            let msg = msg1024(msg, "message body")?;
            let src_mode = (mode >> 3) & 7;
            let dst_mode = mode & 7;
            let other_mode = if opb == 66 { dst_mode } else { src_mode };
            let (other, rest) = parse_commit(r2, other_mode)?;
            if f.strict {
                nil_atom(rest, "message args")?;
            }
            if opb == 66 {
                Ok(Cond::Send { src_mode, dst_mode, dst: other, msg })
            } else {
                Ok(Cond::Receive { src_mode, dst_mode, src: other, msg })
            }
        }
        70 => Ok(Cond::MyCoinId(hash32(single(args, f.strict, "my coin id")?, "my coin id")?)),
        71 => Ok(Cond::MyParent(hash32(single(args, f.strict, "my parent")?, "my parent")?)),
        72 => Ok(Cond::MyPuzzle(hash32(single(args, f.strict, "my puzzle")?, "my puzzle")?)),
        73 => Ok(Cond::MyAmount(amount8(single(args, f.strict, "my amount")?, "my amount")?)),
        74 => match classify_int(int_atom(single(args, f.strict, "birth seconds")?, "birth seconds")?, 8) {
            IntClass::Val(v) => Ok(Cond::BirthSeconds(v)),
            c => Err(format!("birth seconds: {c:?}")),
        },
        75 => match classify_int(int_atom(single(args, f.strict, "birth height")?, "birth height")?, 4) {
            IntClass::Val(v) => Ok(Cond::BirthHeight(v as u32)),
            c => Err(format!("birth height: {c:?}")),
        },
        76 => {
            if f.strict {
                nil_atom(args, "assert_ephemeral args")?;
            }
            Ok(Cond::Ephemeral)
        }
        80..=87 => {
            let width = if opb == 80 || opb == 81 || opb == 84 || opb == 85 { 8 } else { 4 };
            let relative = opb % 2 == 0;
            let before = opb >= 84;
            match classify_int(int_atom(single(args, f.strict, "lock")?, "lock")?, width) {
                IntClass::Val(v) => Ok(Cond::Lock { op: opb, v }),
                IntClass::Redundant => rej("lock: redundant leading zero"),
                IntClass::Neg => {
                    if before {
                        rej("before-lock with a negative bound can never hold")
                    } else {
                        Ok(Cond::TautLock { relative })
                    }
                }
                IntClass::Over => {
                    if before {
                        Ok(Cond::TautLock { relative })
                    } else {
                        rej("after-lock beyond the type maximum can never hold")
                    }
                }
            }
        }
        90 => {
            if f.no_unknown {
                return rej("softfork condition in strict mode");
            }
            let (x, _) = arg(args, "softfork cost")?;
            match classify_int(int_atom(x, "softfork cost")?, 4) {
                IntClass::Val(v) => Ok(Cond::Softfork(v * 10_000)),
                c => Err(format!("softfork cost: {c:?}")),
            }
        }
        _ => unreachable!(),
    }
}

pub fn cond_cost(c: &Cond, f: RFlags) -> u64 {
    let generic = if f.cost_conditions { COST_GENERIC } else { 0 };
    match c {
        Cond::CreateCoin { .. } => {
            if f.cost_conditions { COST_CREATE_COIN_POST } else { COST_CREATE_COIN }
        }
        Cond::AggSig { .. } => COST_AGG_SIG,
        Cond::CreateCoinAnn(_)
        | Cond::CreatePuzzleAnn(_)
        | Cond::AssertCoinAnn(_)
        | Cond::AssertPuzzleAnn(_)
        | Cond::ConcurrentSpend(_)
        | Cond::ConcurrentPuzzle(_)
        | Cond::Send { .. }
        | Cond::Receive { .. } => {
            if f.cost_conditions { COST_MESSAGE } else { 0 }
        }
        Cond::Softfork(c) | Cond::CostedUnknown(c) => c + generic,
        _ => generic,
    }
}

fn is_announce_class(c: &Cond) -> bool {
    matches!(
        c,
        Cond::CreateCoinAnn(_)
            | Cond::CreatePuzzleAnn(_)
            | Cond::AssertCoinAnn(_)
            | Cond::AssertPuzzleAnn(_)
            | Cond::ConcurrentSpend(_)
            | Cond::ConcurrentPuzzle(_)
            | Cond::Send { .. }
            | Cond::Receive { .. }
    )
}

pub fn parse_output(output: &Sx, f: RFlags, env: &Env, slot_cost: &dyn Fn(u8) -> u64) -> R<Vec<PSpend>> {
    let (spend_list, _ext) = output.as_pair().ok_or("output is not a pair")?;
    let (items, term) = spend_list.unlist();
    nil_atom(term, "spend list")?;
    if f.limit_spends && items.len() > 6000 {
        return rej("more than 6000 spends");
    }
    let mut out = Vec::new();
    let mut ids = BTreeSet::new();
    for s in items {
        let (parent, r1) = arg(s, "spend parent")?;
        let (ph, r2) = arg(r1, "spend puzzle hash")?;
        let (am, r3) = arg(r2, "spend amount")?;
        let (conds, _ext) = arg(r3, "spend conditions")?;
        let parent = hash32(parent, "spend parent")?;
        let ph = hash32(ph, "spend puzzle hash")?;
        let amount = amount8(am, "spend amount")?;
        let coin_id = sha256(&[&parent, &ph, am.as_atom().unwrap()]);
        if !ids.insert(coin_id) {
            return rej("double spend");
        }
        let (clist, cterm) = conds.unlist();
        nil_atom(cterm, "condition list")?;
        let mut pc = Vec::new();
        for c in clist {
            pc.push(parse_condition(c, f, env, slot_cost)?);
        }
        out.push(PSpend { parent, ph, amount, coin_id, conds: pc });
    }
    Ok(out)
}

fn commit_self(mode: u8, s: &PSpend) -> Commit {
    if mode == 7 {
        Commit::CoinId(s.coin_id)
    } else {
        Commit::Parts {
            parent: (mode & 4 != 0).then_some(s.parent),
            puzzle: (mode & 2 != 0).then_some(s.ph),
            amount: (mode & 1 != 0).then_some(s.amount),
        }
    }
}

pub fn ref_validate(output: &Sx, f: RFlags, env: &Env, slot_cost: &dyn Fn(u8) -> u64) -> R<CSummary> {
    let spends = parse_output(output, f, env, slot_cost)?;
    let spent_ids: BTreeMap<[u8; 32], usize> = spends.iter().enumerate().map(|(i, s)| (s.coin_id, i)).collect();
    let spent_phs: BTreeSet<[u8; 32]> = spends.iter().map(|s| s.ph).collect();

    // bundle-wide collections
    let mut coin_ann: BTreeSet<[u8; 32]> = BTreeSet::new();
    let mut puzzle_ann: BTreeSet<[u8; 32]> = BTreeSet::new();
    for s in &spends {
        for c in &s.conds {
            match c {
                Cond::CreateCoinAnn(m) => {
                    coin_ann.insert(sha256(&[&s.coin_id, m]));
                }
                Cond::CreatePuzzleAnn(m) => {
                    puzzle_ann.insert(sha256(&[&s.ph, m]));
                }
                _ => {}
            }
        }
    }
    // outputs per spend
    let mut outputs: Vec<Vec<([u8; 32], u64, Option<Vec<u8>>)>> = Vec::new();
    for s in &spends {
        let mut o: Vec<([u8; 32], u64, Option<Vec<u8>>)> = Vec::new();
        for c in &s.conds {
            if let Cond::CreateCoin { ph, amount, hint } = c {
                if o.iter().any(|(p, a, _)| p == ph && a == amount) {
                    return rej("duplicate output");
                }
                o.push((*ph, *amount, hint.clone()));
            }
        }
        o.sort();
        outputs.push(o);
    }
    let is_ephemeral = |s: &PSpend| -> bool {
        match spent_ids.get(&s.parent) {
            Some(pi) => outputs[*pi].iter().any(|(p, a, _)| *p == s.ph && *a == s.amount),
            None => false,
        }
    };

    let mut messages: BTreeMap<(u8, Vec<u8>, u8, Vec<u8>, Vec<u8>), i64> = BTreeMap::new();
    let commit_bytes = |c: &Commit| -> Vec<u8> {
        match c {
            Commit::CoinId(i) => i.to_vec(),
            Commit::Parts { parent, puzzle, amount } => {
                let mut v = Vec::new();
                if let Some(p) = parent {
                    v.extend_from_slice(p);
                }
                if let Some(p) = puzzle {
                    v.extend_from_slice(p);
                }
                if let Some(a) = amount {
                    v.extend_from_slice(&a.to_be_bytes());
                }
                v
            }
        }
    };

    let mut sum = CSummary {
        spends: Vec::new(),
        reserve_fee: 0,
        height_absolute: 0,
        seconds_absolute: 0,
        before_height_absolute: None,
        before_seconds_absolute: None,
        agg_sig_unsafe: Vec::new(),
        removal_amount: 0,
        addition_amount: 0,
        condition_cost: 0,
    };
    let mut fee: u128 = 0;
    let named_concurrent: BTreeSet<[u8; 32]> = spends
        .iter()
        .flat_map(|s| s.conds.iter().filter_map(|c| if let Cond::ConcurrentSpend(i) = c { Some(*i) } else { None }))
        .collect();

    for (si, s) in spends.iter().enumerate() {
        let mut cs = CSpend {
            coin_id: s.coin_id,
            parent: s.parent,
            puzzle_hash: s.ph,
            amount: s.amount,
            height_relative: None,
            seconds_relative: None,
            before_height_relative: None,
            before_seconds_relative: None,
            birth_height: None,
            birth_seconds: None,
            create_coin: outputs[si].clone(),
            agg_sigs: Default::default(),
            flags: 0,
            condition_cost: if f.cost_conditions { COST_SPEND } else { 0 },
        };
        sum.removal_amount += s.amount as u128;
        let mut relative_class = false;
        let mut announce_count = 0usize;
        let mut dedup = true;
        let mut ff = s.amount & 1 == 1;
        let mut recognized_idx = 0usize; // index among conditions with a recognised opcode
        for c in &s.conds {
            cs.condition_cost += cond_cost(c, f);
            if is_announce_class(c) {
                announce_count += 1;
            }
            let counted = !matches!(c, Cond::Unknown);
            match c {
                Cond::AggSig { kind, pk, msg } => {
                    dedup = false;
                    if matches!(kind, 50 | 43 | 47 | 48) {
                        ff = false;
                    }
                    let slot = match kind {
                        50 => Some(0),
                        43 => Some(1),
                        44 => Some(2),
                        45 => Some(3),
                        46 => Some(4),
                        47 => Some(5),
                        48 => Some(6),
                        _ => None,
                    };
                    match slot {
                        Some(i) => cs.agg_sigs[i].push((pk.clone(), msg.clone())),
                        None => sum.agg_sig_unsafe.push((pk.clone(), msg.clone())),
                    }
                }
                Cond::CreateCoin { amount, .. } => sum.addition_amount += *amount as u128,
                Cond::ReserveFee(v) => fee += *v as u128,
                Cond::CreateCoinAnn(_) => ff = false,
                Cond::CreatePuzzleAnn(_) => {}
                Cond::AssertCoinAnn(h) => {
                    if !coin_ann.contains(h) {
                        return rej("coin announcement not found");
                    }
                }
                Cond::AssertPuzzleAnn(h) => {
                    if !puzzle_ann.contains(h) {
                        return rej("puzzle announcement not found");
                    }
                }
                Cond::ConcurrentSpend(i) => {
                    if !spent_ids.contains_key(i) {
                        return rej("concurrent spend not found");
                    }
                }
                Cond::ConcurrentPuzzle(p) => {
                    if !spent_phs.contains(p) {
                        return rej("concurrent puzzle not found");
                    }
                }
                Cond::Send { src_mode, dst_mode, dst, msg } => {
                    dedup = false;
                    if src_mode & 4 != 0 {
                        ff = false;
                    }
                    let own = commit_self(*src_mode, s);
                    *messages.entry((*src_mode, commit_bytes(&own), *dst_mode, commit_bytes(dst), msg.clone())).or_insert(0) += 1;
                }
                Cond::Receive { src_mode, dst_mode, src, msg } => {
                    dedup = false;
                    if dst_mode & 4 != 0 {
                        ff = false;
                    }
                    let own = commit_self(*dst_mode, s);
                    *messages.entry((*src_mode, commit_bytes(src), *dst_mode, commit_bytes(&own), msg.clone())).or_insert(0) -= 1;
                }
                Cond::MyCoinId(i) => {
                    ff = false;
                    if *i != s.coin_id {
                        return rej("assert my coin id");
                    }
                }
                Cond::MyParent(p) => {
                    if recognized_idx != 1 {
                        ff = false;
                    }
                    if *p != s.parent {
                        return rej("assert my parent");
                    }
                }
                Cond::MyPuzzle(p) => {
                    if *p != s.ph {
                        return rej("assert my puzzle hash");
                    }
                }
                Cond::MyAmount(a) => {
                    if *a != s.amount {
                        return rej("assert my amount");
                    }
                }
                Cond::BirthSeconds(v) => {
                    ff = false;
                    relative_class = true;
                    if cs.birth_seconds.is_some_and(|o| o != *v) {
                        return rej("two different birth seconds");
                    }
                    cs.birth_seconds = Some(*v);
                }
                Cond::BirthHeight(v) => {
                    ff = false;
                    relative_class = true;
                    if cs.birth_height.is_some_and(|o| o != *v) {
                        return rej("two different birth heights");
                    }
                    cs.birth_height = Some(*v);
                }
                Cond::Ephemeral => {
                    ff = false;
                    if !is_ephemeral(s) {
                        return rej("assert ephemeral on a non-ephemeral coin");
                    }
                }
                Cond::Lock { op, v } => match op {
                    80 => {
                        ff = false;
                        relative_class = true;
                        cs.seconds_relative = Some(cs.seconds_relative.map_or(*v, |o| o.max(*v)));
                    }
                    82 => {
                        ff = false;
                        relative_class = true;
                        let v = *v as u32;
                        cs.height_relative = Some(cs.height_relative.map_or(v, |o| o.max(v)));
                    }
                    84 => {
                        ff = false;
                        relative_class = true;
                        cs.before_seconds_relative = Some(cs.before_seconds_relative.map_or(*v, |o| o.min(*v)));
                    }
                    86 => {
                        ff = false;
                        relative_class = true;
                        let v = *v as u32;
                        cs.before_height_relative = Some(cs.before_height_relative.map_or(v, |o| o.min(v)));
                    }
                    81 => sum.seconds_absolute = sum.seconds_absolute.max(*v),
                    83 => sum.height_absolute = sum.height_absolute.max(*v as u32),
                    85 => sum.before_seconds_absolute = Some(sum.before_seconds_absolute.map_or(*v, |o| o.min(*v))),
                    87 => {
                        let v = *v as u32;
                        sum.before_height_absolute = Some(sum.before_height_absolute.map_or(v, |o| o.min(v)));
                    }
                    _ => unreachable!(),
                },
                Cond::TautLock { relative } => {
                    if *relative {
                        relative_class = true;
                    }
                }
                Cond::Softfork(_) | Cond::CostedUnknown(_) | Cond::Remark | Cond::Unknown => {}
            }
            if counted {
                recognized_idx += 1;
            }
        }
        if !f.cost_conditions && announce_count > 1024 {
            return rej("more than 1024 announcement-class conditions in one spend");
        }
        // impossible relative constraints
        if let (Some(b), Some(a)) = (cs.before_seconds_relative, cs.seconds_relative) {
            if b <= a {
                return rej("impossible relative seconds");
            }
        }
        if let (Some(b), Some(a)) = (cs.before_height_relative, cs.height_relative) {
            if b <= a {
                return rej("impossible relative height");
            }
        }
        if relative_class {
            cs.flags |= F_HAS_RELATIVE;
            if is_ephemeral(s) {
                return rej("relative condition on an ephemeral coin");
            }
        }
        if f.mempool {
            let out_sum: u128 = outputs[si].iter().map(|o| o.1 as u128).sum();
            if dedup && (s.amount as u128) <= out_sum {
                cs.flags |= F_DEDUP;
            }
            if ff {
                let same = outputs[si].iter().any(|(p, a, _)| *p == s.ph && *a == s.amount);
                let child_spent = outputs[si].iter().any(|(p, a, _)| {
                    let id = sha256(&[&s.coin_id, p, &crate::sx::enc_u64(*a)]);
                    spent_ids.contains_key(&id)
                });
                if same && !child_spent && !named_concurrent.contains(&s.coin_id) {
                    cs.flags |= F_FF;
                }
            }
        }
        sum.condition_cost += cs.condition_cost;
        sum.spends.push(cs);
    }
    if fee > u64::MAX as u128 {
        return rej("reserve fee sum exceeds 64 bits");
    }
    sum.reserve_fee = fee as u64;
    if sum.addition_amount > sum.removal_amount {
        return rej("minting");
    }
    if sum.removal_amount - sum.addition_amount < fee {
        return rej("reserve fee not covered");
    }
    if let Some(b) = sum.before_height_absolute {
        if b <= sum.height_absolute {
            return rej("impossible absolute height");
        }
    }
    if let Some(b) = sum.before_seconds_absolute {
        if b <= sum.seconds_absolute {
            return rej("impossible absolute seconds");
        }
    }
    if messages.values().any(|c| *c != 0) {
        return rej("message not sent or received");
    }
    Ok(sum)
}
