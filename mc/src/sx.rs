//! Reference S-expression: owned tree, own plain serialiser, own tree hash, own integer codec.
//! Nothing here calls into /repo; SHA-256 comes from the `sha2` crate.

use clvmr::allocator::{Allocator, NodePtr, SExp};
use sha2::{Digest, Sha256};
use std::fmt;
use std::sync::Arc;

#[derive(Clone, PartialEq, Eq, Hash, PartialOrd, Ord)]
pub enum Sx {
    Atom(Vec<u8>),
    Pair(Arc<Sx>, Arc<Sx>),
}

pub fn sha256(parts: &[&[u8]]) -> [u8; 32] {
    let mut h = Sha256::new();
    for p in parts {
        h.update(p);
    }
    h.finalize().into()
}

/// minimal big-endian two's complement of an unsigned value
pub fn enc_u64(v: u64) -> Vec<u8> {
    enc_u128(v as u128)
}
pub fn enc_u128(v: u128) -> Vec<u8> {
    if v == 0 {
        return vec![];
    }
    let b = v.to_be_bytes();
    let mut i = 0;
    while b[i] == 0 {
        i += 1;
    }
    let mut out = Vec::new();
    if b[i] & 0x80 != 0 {
        out.push(0);
    }
    out.extend_from_slice(&b[i..]);
    out
}
/// minimal big-endian two's complement of a signed value
pub fn enc_i128(v: i128) -> Vec<u8> {
    if v >= 0 {
        return enc_u128(v as u128);
    }
    let b = v.to_be_bytes();
    let mut i = 0;
    // strip leading ff while the next byte still has the sign bit
    while i + 1 < b.len() && b[i] == 0xff && b[i + 1] & 0x80 != 0 {
        i += 1;
    }
    b[i..].to_vec()
}

impl Sx {
    pub fn nil() -> Sx {
        Sx::Atom(vec![])
    }
    pub fn atom(b: &[u8]) -> Sx {
        Sx::Atom(b.to_vec())
    }
    pub fn int(v: u64) -> Sx {
        Sx::Atom(enc_u64(v))
    }
    pub fn cons(a: Sx, b: Sx) -> Sx {
        Sx::Pair(Arc::new(a), Arc::new(b))
    }
    /// proper list
    pub fn list(items: &[Sx]) -> Sx {
        Self::list_term(items, Sx::nil())
    }
    /// list with an explicit terminator
    pub fn list_term(items: &[Sx], term: Sx) -> Sx {
        let mut r = term;
        for i in items.iter().rev() {
            r = Sx::cons(i.clone(), r);
        }
        r
    }
    pub fn is_nil(&self) -> bool {
        matches!(self, Sx::Atom(a) if a.is_empty())
    }
    pub fn as_atom(&self) -> Option<&[u8]> {
        match self {
            Sx::Atom(a) => Some(a),
            Sx::Pair(..) => None,
        }
    }
    pub fn as_pair(&self) -> Option<(&Sx, &Sx)> {
        match self {
            Sx::Pair(a, b) => Some((a, b)),
            Sx::Atom(_) => None,
        }
    }
    /// elements of a (possibly improper) list and its terminator
    pub fn unlist(&self) -> (Vec<&Sx>, &Sx) {
        let mut v = Vec::new();
        let mut cur = self;
        while let Sx::Pair(a, b) = cur {
            v.push(&**a);
            cur = b;
        }
        (v, cur)
    }

    /// plain (back-reference free, minimal length prefix) serialisation
    pub fn serialize(&self) -> Vec<u8> {
        let mut out = Vec::new();
        // iterative to survive deep trees
        let mut stack: Vec<&Sx> = vec![self];
        while let Some(n) = stack.pop() {
            match n {
                Sx::Pair(a, b) => {
                    out.push(0xff);
                    stack.push(b);
                    stack.push(a);
                }
                Sx::Atom(a) => ser_atom(a, &mut out),
            }
        }
        out
    }

    pub fn tree_hash(&self) -> [u8; 32] {
        // iterative post-order
        enum Op<'a> {
            Visit(&'a Sx),
            Combine,
        }
        let mut ops = vec![Op::Visit(self)];
        let mut vals: Vec<[u8; 32]> = Vec::new();
        while let Some(op) = ops.pop() {
            match op {
                Op::Visit(Sx::Atom(a)) => vals.push(sha256(&[&[1u8], a])),
                Op::Visit(Sx::Pair(a, b)) => {
                    ops.push(Op::Combine);
                    ops.push(Op::Visit(b));
                    ops.push(Op::Visit(a));
                }
                Op::Combine => {
                    let r = vals.pop().unwrap();
                    let l = vals.pop().unwrap();
                    vals.push(sha256(&[&[2u8], &l, &r]));
                }
            }
        }
        vals.pop().unwrap()
    }

    pub fn to_node(&self, a: &mut Allocator) -> NodePtr {
        enum Op<'a> {
            Visit(&'a Sx),
            Combine,
        }
        let mut ops = vec![Op::Visit(self)];
        let mut vals: Vec<NodePtr> = Vec::new();
        while let Some(op) = ops.pop() {
            match op {
                Op::Visit(Sx::Atom(b)) => vals.push(a.new_atom(b).expect("new_atom")),
                Op::Visit(Sx::Pair(l, r)) => {
                    ops.push(Op::Combine);
                    ops.push(Op::Visit(r));
                    ops.push(Op::Visit(l));
                }
                Op::Combine => {
                    let r = vals.pop().unwrap();
                    let l = vals.pop().unwrap();
                    vals.push(a.new_pair(l, r).expect("new_pair"));
                }
            }
        }
        vals.pop().unwrap()
    }

    pub fn from_node(a: &Allocator, n: NodePtr) -> Sx {
        enum Op {
            Visit(NodePtr),
            Combine,
        }
        let mut ops = vec![Op::Visit(n)];
        let mut vals: Vec<Sx> = Vec::new();
        while let Some(op) = ops.pop() {
            match op {
                Op::Visit(n) => match a.sexp(n) {
                    SExp::Atom => vals.push(Sx::Atom(a.atom(n).as_ref().to_vec())),
                    SExp::Pair(l, r) => {
                        ops.push(Op::Combine);
                        ops.push(Op::Visit(r));
                        ops.push(Op::Visit(l));
                    }
                },
                Op::Combine => {
                    let r = vals.pop().unwrap();
                    let l = vals.pop().unwrap();
                    vals.push(Sx::cons(l, r));
                }
            }
        }
        vals.pop().unwrap()
    }

    /// parse the plain serialisation (no back-references); None on malformed input
    pub fn parse(bytes: &[u8]) -> Option<Sx> {
        let (s, rest) = Self::parse_prefix(bytes)?;
        if rest.is_empty() { Some(s) } else { None }
    }
    pub fn parse_prefix(bytes: &[u8]) -> Option<(Sx, &[u8])> {
        enum Op {
            Read,
            Combine,
        }
        let mut ops = vec![Op::Read];
        let mut vals: Vec<Sx> = Vec::new();
        let mut cur = bytes;
        while let Some(op) = ops.pop() {
            match op {
                Op::Read => {
                    let (&b, rest) = cur.split_first()?;
                    cur = rest;
                    if b == 0xff {
                        ops.push(Op::Combine);
                        ops.push(Op::Read);
                        ops.push(Op::Read);
                    } else if b == 0xfe {
                        return None;
                    } else if b == 0x80 {
                        vals.push(Sx::nil());
                    } else if b < 0x80 {
                        vals.push(Sx::Atom(vec![b]));
                    } else {
                        let (len, extra) = if b & 0xc0 == 0x80 {
                            ((b & 0x3f) as usize, 0)
                        } else if b & 0xe0 == 0xc0 {
                            ((b & 0x1f) as usize, 1)
                        } else if b & 0xf0 == 0xe0 {
                            ((b & 0x0f) as usize, 2)
                        } else if b & 0xf8 == 0xf0 {
                            ((b & 0x07) as usize, 3)
                        } else if b & 0xfc == 0xf8 {
                            ((b & 0x03) as usize, 4)
                        } else {
                            return None;
                        };
                        if cur.len() < extra {
                            return None;
                        }
                        let mut len = len;
                        for i in 0..extra {
                            len = (len << 8) | cur[i] as usize;
                        }
                        cur = &cur[extra..];
                        if cur.len() < len {
                            return None;
                        }
                        vals.push(Sx::Atom(cur[..len].to_vec()));
                        cur = &cur[len..];
                    }
                }
                Op::Combine => {
                    let r = vals.pop()?;
                    let l = vals.pop()?;
                    vals.push(Sx::cons(l, r));
                }
            }
        }
        Some((vals.pop()?, cur))
    }
}

fn ser_atom(a: &[u8], out: &mut Vec<u8>) {
    let n = a.len();
    if n == 0 {
        out.push(0x80);
    } else if n == 1 && a[0] < 0x80 {
        out.push(a[0]);
    } else if n < 0x40 {
        out.push(0x80 | n as u8);
        out.extend_from_slice(a);
    } else if n < 0x2000 {
        out.push(0xc0 | (n >> 8) as u8);
        out.push(n as u8);
        out.extend_from_slice(a);
    } else if n < 0x10_0000 {
        out.push(0xe0 | (n >> 16) as u8);
        out.push((n >> 8) as u8);
        out.push(n as u8);
        out.extend_from_slice(a);
    } else if n < 0x800_0000 {
        out.push(0xf0 | (n >> 24) as u8);
        out.push((n >> 16) as u8);
        out.push((n >> 8) as u8);
        out.push(n as u8);
        out.extend_from_slice(a);
    } else {
        out.push(0xf8 | (n >> 32) as u8);
        out.push((n >> 24) as u8);
        out.push((n >> 16) as u8);
        out.push((n >> 8) as u8);
        out.push(n as u8);
        out.extend_from_slice(a);
    }
}

impl fmt::Debug for Sx {
    fn fmt(&self, f: &mut fmt::Formatter<'_>) -> fmt::Result {
        match self {
            Sx::Atom(a) if a.is_empty() => write!(f, "()"),
            Sx::Atom(a) => {
                if a.len() > 12 {
                    write!(f, "0x{}..[{}]", hex::encode(&a[..6]), a.len())
                } else {
                    write!(f, "0x{}", hex::encode(a))
                }
            }
            Sx::Pair(..) => {
                let (items, term) = self.unlist();
                write!(f, "(")?;
                for (i, it) in items.iter().enumerate() {
                    if i > 0 {
                        write!(f, " ")?;
                    }
                    if i > 40 {
                        write!(f, "…")?;
                        break;
                    }
                    write!(f, "{it:?}")?;
                }
                if !term.is_nil() {
                    write!(f, " . {term:?}")?;
                }
                write!(f, ")")
            }
        }
    }
}

#[cfg(test)]
mod tests {
    use super::*;
    #[test]
    fn ints() {
        assert_eq!(enc_u64(0), Vec::<u8>::new());
        assert_eq!(enc_u64(0x7f), vec![0x7f]);
        assert_eq!(enc_u64(0x80), vec![0, 0x80]);
        assert_eq!(enc_u64(u64::MAX), vec![0, 255, 255, 255, 255, 255, 255, 255, 255]);
        assert_eq!(enc_i128(-1), vec![0xff]);
        assert_eq!(enc_i128(-128), vec![0x80]);
        assert_eq!(enc_i128(-129), vec![0xff, 0x7f]);
    }
    #[test]
    fn roundtrip() {
        let s = Sx::list(&[Sx::int(5), Sx::cons(Sx::atom(&[0u8; 70]), Sx::int(300))]);
        assert_eq!(Sx::parse(&s.serialize()).unwrap(), s);
    }
}
