//! Recorded corpora of /repo used as further seeds in thorough tiers.
use std::path::Path;

/// (name, generator bytes, block references) from /repo/generator-tests/*.txt (+ .env)
pub fn generator_tests(max_len: usize) -> Vec<(String, Vec<u8>, Vec<Vec<u8>>)> {
    let mut out = Vec::new();
    let dir = Path::new("/repo/generator-tests");
    let Ok(rd) = std::fs::read_dir(dir) else { return out };
    let mut names: Vec<_> = rd.flatten().map(|e| e.path()).filter(|p| p.extension().is_some_and(|e| e == "txt")).collect();
    names.sort();
    for p in names {
        let Ok(txt) = std::fs::read_to_string(&p) else { continue };
        let Some(first) = txt.lines().next() else { continue };
        let Ok(bytes) = hex::decode(first.trim()) else { continue };
        if bytes.is_empty() || bytes.len() > max_len {
            continue;
        }
        let mut refs = Vec::new();
        let env = p.with_extension("env");
        if let Ok(e) = std::fs::read_to_string(&env) {
            if let Ok(b) = hex::decode(e.trim()) {
                refs.push(b);
            }
        }
        out.push((p.file_stem().unwrap().to_string_lossy().to_string(), bytes, refs));
    }
    out
}
