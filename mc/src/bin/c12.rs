//! C12 — Merkle set roots are canonical, proofs are complete and sound.
//!
//! Engine E (bounded-exhaustive enumeration), reference model + adversary.
//!
//! Reference (written from the definition of the set hash, see the prose in
//! tests/merkle_set.py): a set is a binary trie over the 256 leaf bits;
//!   * the empty sub-trie is (EMPTY, 0^32), a sub-trie with one leaf is (TERMINAL, leaf),
//!   * a sub-trie with exactly two leaves is (MIDDLE, H(1,1,min,max)) *wherever* it sits
//!     ("skips repeated hashing of exactly two things even when they share prefix bits"),
//!   * a sub-trie with three or more leaves is (MIDDLE, H(tl,tr,hl,hr)) of its two halves,
//!   * H(tl,tr,l,r) = sha256(0^30 || tl || tr || l || r); root = 0^32 / sha256(1||leaf) / hash.
//! A proof is a pre-order serialisation of a partially truncated, *uncollapsed* trie.
//!
//! What is enumerated (every member is run through the real code of /repo):
//!  (1) roots: every subset of a 12-leaf universe U, all orderings / duplications of the small ones;
//!  (2) completeness: every subset x every query item x 2 construction orders: generate_proof +
//!      validate_merkle_proof (also over the medium-depth universe W);
//!  (3a) soundness, adversary A: every proof tree with <= N MIDDLE nodes over a per-set leaf alphabet
//!       (shallow 5-leaf universe, where trees that small can hash to the honest root);
//!  (3b) soundness, adversary B: every single-step rewrite of honest proofs (over U and W), every
//!       token-boundary prefix, a fixed list of trailing-byte extensions; thorough: rewrites of rewrites over W;
//!  (3c) soundness, adversary C: 250..258 level chains around the depth limit with every small terminator tree.
//! Oracle for (3): validate_merkle_proof(p, item, root(S)) is never Ok(b) with b != (item in S).

use chia_consensus::merkle_set::compute_merkle_set_root;
use chia_consensus::merkle_tree::{MerkleSet, validate_merkle_proof};
use mc::report::{Report, Tier, catch, fxhash};
use mc::sx::sha256;
use rayon::prelude::*;
use serde_json::{Value, json};
use std::collections::BTreeMap;

type Leaf = [u8; 32];
const BLANK: [u8; 32] = [0; 32];

// ---------------------------------------------------------------------------------------------
// universes
// ---------------------------------------------------------------------------------------------

fn mk(first: u8, fill: u8, last: u8) -> Leaf {
    let mut l = [fill; 32];
    l[0] = first;
    l[31] = last;
    l
}

/// 12 leaves: all eight 3-bit prefixes; pairs differing only in bit 255 (Z/Z1, F/F1),
/// only in bit 254 (Z/Z2), only in bit 128 (P4/P4b); 00..00 and ff..ff.
fn universe() -> Vec<(&'static str, Leaf)> {
    let p4 = mk(0x80, 0x44, 0x44);
    let mut p4b = p4;
    p4b[16] ^= 0x80;
    vec![
        ("Z", mk(0x00, 0x00, 0x00)),
        ("Z1", mk(0x00, 0x00, 0x01)),
        ("Z2", mk(0x00, 0x00, 0x02)),
        ("P1", mk(0x20, 0x11, 0x11)),
        ("P2", mk(0x40, 0x22, 0x22)),
        ("P3", mk(0x60, 0x33, 0x33)),
        ("P4", p4),
        ("P4b", p4b),
        ("P5", mk(0xa0, 0x55, 0x55)),
        ("P6", mk(0xc0, 0x66, 0x66)),
        ("F1", mk(0xff, 0xff, 0xfe)),
        ("F", mk(0xff, 0xff, 0xff)),
    ]
}

/// query items that are in no set: neighbours of the deep pairs, a chain diverger, a leaf neighbour
fn outsiders() -> Vec<(&'static str, Leaf)> {
    let mut o2 = mk(0, 0, 0);
    o2[16] = 0x80;
    vec![
        ("O1=00..03", mk(0x00, 0x00, 0x03)),
        ("O2=0^128|1|0^127", o2),
        ("O3=P1^bit255", mk(0x20, 0x11, 0x10)),
        ("O4=e0|0..", mk(0xe0, 0x00, 0x00)),
    ]
}

/// shallow 5-leaf universe of adversary A: prefixes 00, 01, 10, 110, 111
fn shallow_universe() -> Vec<Leaf> {
    vec![
        mk(0x00, 0x0a, 0x0a),
        mk(0x40, 0x0b, 0x0b),
        mk(0x80, 0x0c, 0x0c),
        mk(0xc0, 0x0d, 0x0d),
        mk(0xe0, 0x0e, 0x0e),
    ]
}
fn shallow_outsiders() -> Vec<Leaf> {
    // prefix 001 (usable as a TERMINAL in candidate proofs) and a bit-255 neighbour of the 111 leaf
    vec![mk(0x20, 0x0f, 0x0f), mk(0xe0, 0x0e, 0x0b)]
}

/// medium-depth universe of adversary B: chains of 9..13 levels, so that every rewrite of every proof is cheap.
/// A/A1/A2 share 12 bits (A, A1 differ in bit 13 only, A2 in bit 12 only): a 3-leaf one-sided run;
/// C/C1 differ in bit 9 only: a collapsed two-leaf chain; B and D are lone leaves.
fn medium_universe() -> Vec<Leaf> {
    let a = mk(0x00, 0xa0, 0xa0);
    let flip = |mut x: Leaf, b: usize| {
        x[b / 8] ^= 0x80 >> (b % 8);
        x
    };
    let c = mk(0x80, 0xc0, 0xc0);
    vec![a, flip(a, 13), flip(a, 12), mk(0x40, 0xb0, 0xb0), c, flip(c, 9), mk(0xff, 0xd0, 0xd0)]
}
fn medium_outsiders() -> Vec<Leaf> {
    let u = medium_universe();
    let flip = |mut x: Leaf, b: usize| {
        x[b / 8] ^= 0x80 >> (b % 8);
        x
    };
    // diverges inside the A run, the fourth corner of the A fork, diverges inside the C chain, far away
    vec![flip(u[0], 5), flip(u[1], 12), flip(u[4], 4), mk(0x20, 0xe0, 0xe0)]
}

fn subset<T: Copy>(u: &[T], mask: u32) -> Vec<T> {
    u.iter().enumerate().filter(|(i, _)| mask >> i & 1 == 1).map(|(_, x)| *x).collect()
}

// ---------------------------------------------------------------------------------------------
// reference model (independent of /repo)
// ---------------------------------------------------------------------------------------------

fn bit(x: &Leaf, i: usize) -> bool {
    (x[i / 8] >> (7 - (i % 8))) & 1 == 1
}

fn hnode(tl: u8, tr: u8, l: &[u8; 32], r: &[u8; 32]) -> [u8; 32] {
    sha256(&[&[0u8; 30], &[tl, tr], l, r])
}

fn sorted_set(leaves: &[Leaf]) -> Vec<Leaf> {
    let mut v = leaves.to_vec();
    v.sort_unstable();
    v.dedup();
    v
}

/// (type, hash) of the sub-trie holding `set` (sorted, distinct, all sharing the first `depth` bits);
/// every MIDDLE hash that occurs is appended to `collect`, flagged true when both halves are inhabited
/// (a two-leaf node counts as such a fork)
fn ref_node(set: &[Leaf], depth: usize, collect: &mut Vec<([u8; 32], bool)>) -> (u8, [u8; 32]) {
    match set.len() {
        0 => (0, BLANK),
        1 => (1, set[0]),
        2 => {
            let h = hnode(1, 1, &set[0], &set[1]);
            collect.push((h, true));
            (2, h)
        }
        _ => {
            let p = set.partition_point(|x| !bit(x, depth));
            let (tl, hl) = ref_node(&set[..p], depth + 1, collect);
            let (tr, hr) = ref_node(&set[p..], depth + 1, collect);
            let h = hnode(tl, tr, &hl, &hr);
            collect.push((h, p > 0 && p < set.len())); // a fork, or one level of a one-sided run
            (2, h)
        }
    }
}

fn compress(t: u8, h: &[u8; 32]) -> [u8; 32] {
    match t {
        0 => BLANK,
        1 => sha256(&[&[1u8], h]),
        _ => *h,
    }
}

fn ref_root(set: &[Leaf]) -> [u8; 32] {
    let (t, h) = ref_node(set, 0, &mut Vec::new());
    compress(t, &h)
}

// ---------------------------------------------------------------------------------------------
// proof model: pre-order token list
// ---------------------------------------------------------------------------------------------

#[derive(Clone, Copy, PartialEq, Eq, Hash, Debug)]
enum Tok {
    E,
    T(Leaf),
    Tr([u8; 32]),
    M,
}

fn ser_into(toks: &[Tok], out: &mut Vec<u8>) {
    out.clear();
    for t in toks {
        match t {
            Tok::E => out.push(0),
            Tok::T(x) => {
                out.push(1);
                out.extend_from_slice(x);
            }
            Tok::M => out.push(2),
            Tok::Tr(h) => {
                out.push(3);
                out.extend_from_slice(h);
            }
        }
    }
}
fn ser(toks: &[Tok]) -> Vec<u8> {
    let mut v = Vec::new();
    ser_into(toks, &mut v);
    v
}

/// own parser: exactly one complete tree, nothing after it
fn parse(b: &[u8]) -> Option<Vec<Tok>> {
    let mut out = Vec::new();
    let mut need = 1usize;
    let mut i = 0;
    while need > 0 {
        let t = *b.get(i)?;
        i += 1;
        need -= 1;
        match t {
            0 => out.push(Tok::E),
            2 => {
                out.push(Tok::M);
                need += 2;
            }
            1 | 3 => {
                let h: [u8; 32] = b.get(i..i + 32)?.try_into().ok()?;
                i += 32;
                out.push(if t == 1 { Tok::T(h) } else { Tok::Tr(h) });
            }
            _ => return None,
        }
    }
    if i == b.len() { Some(out) } else { None }
}

/// per token: end of its subtree, reference (kind, hash) with kind 0 empty / 1 terminal / 2 middle /
/// 3 middle that is a two-leaf node or an (empty, two-leaf) chain above one
struct Ann {
    end: Vec<usize>,
    kind: Vec<u8>,
    hash: Vec<[u8; 32]>,
    /// index of the MIDDLE token this token is a child of (usize::MAX for the root)
    parent: Vec<usize>,
    /// route (bit path) of every TRUNCATED token
    tr_routes: Vec<(usize, Vec<bool>)>,
}

fn annotate(toks: &[Tok]) -> Ann {
    let n = toks.len();
    let mut a = Ann { end: vec![0; n], kind: vec![0; n], hash: vec![BLANK; n], parent: vec![usize::MAX; n], tr_routes: Vec::new() };
    fn go(toks: &[Tok], i: usize, route: &mut Vec<bool>, a: &mut Ann) -> usize {
        match toks[i] {
            Tok::E => {
                a.kind[i] = 0;
                a.end[i] = i + 1;
            }
            Tok::T(x) => {
                a.kind[i] = 1;
                a.hash[i] = x;
                a.end[i] = i + 1;
            }
            Tok::Tr(h) => {
                a.kind[i] = 2;
                a.hash[i] = h;
                a.end[i] = i + 1;
                a.tr_routes.push((i, route.clone()));
            }
            Tok::M => {
                let l = i + 1;
                route.push(false);
                let r = go(toks, l, route, a);
                route.pop();
                route.push(true);
                let e = go(toks, r, route, a);
                route.pop();
                a.end[i] = e;
                a.parent[l] = i;
                a.parent[r] = i;
                let (kl, kr) = (a.kind[l], a.kind[r]);
                if kl == 0 && kr == 3 {
                    a.kind[i] = 3;
                    a.hash[i] = a.hash[r];
                } else if kr == 0 && kl == 3 {
                    a.kind[i] = 3;
                    a.hash[i] = a.hash[l];
                } else {
                    a.kind[i] = if kl == 1 && kr == 1 { 3 } else { 2 };
                    a.hash[i] = hnode(kl.min(2), kr.min(2), &a.hash[l], &a.hash[r]);
                }
            }
        }
        a.end[i]
    }
    let e = go(toks, 0, &mut Vec::new(), &mut a);
    assert_eq!(e, n, "annotate: token list is not one tree");
    a
}

fn proof_root(a: &Ann) -> [u8; 32] {
    compress(a.kind[0].min(2), &a.hash[0])
}

/// the complete, untruncated proof tree of a sub-trie (own prover)
fn full_tree(set: &[Leaf], depth: usize, out: &mut Vec<Tok>) {
    match set.len() {
        0 => out.push(Tok::E),
        1 => out.push(Tok::T(set[0])),
        2 => {
            out.push(Tok::M);
            let (ba, bb) = (bit(&set[0], depth), bit(&set[1], depth));
            if ba != bb {
                out.push(Tok::T(set[0]));
                out.push(Tok::T(set[1]));
            } else if ba {
                out.push(Tok::E);
                full_tree(set, depth + 1, out);
            } else {
                full_tree(set, depth + 1, out);
                out.push(Tok::E);
            }
        }
        _ => {
            out.push(Tok::M);
            let p = set.partition_point(|x| !bit(x, depth));
            full_tree(&set[..p], depth + 1, out);
            full_tree(&set[p..], depth + 1, out);
        }
    }
}

// ---------------------------------------------------------------------------------------------
// calling the real code
// ---------------------------------------------------------------------------------------------

#[derive(Clone, PartialEq, Eq, Debug)]
enum Verdict {
    Err,
    Ok(bool),
    Panic(String),
}

fn real_validate(p: &[u8], item: &Leaf, root: &[u8; 32]) -> Verdict {
    match catch(|| validate_merkle_proof(p, item, root)) {
        Ok(Ok(b)) => Verdict::Ok(b),
        Ok(Err(_)) => Verdict::Err,
        Err(m) => Verdict::Panic(m),
    }
}

fn hexes(v: &[Leaf]) -> Vec<String> {
    v.iter().map(hex::encode).collect()
}

/// per-task accumulator, flushed once
#[derive(Default)]
struct Acc {
    evals: u64,
    buckets: BTreeMap<&'static str, u64>,
    distinct: Vec<u64>,
    viols: Vec<(String, Value, String)>,
    suppressed: u64,
}
impl Acc {
    fn bump(&mut self, b: &'static str) {
        *self.buckets.entry(b).or_insert(0) += 1;
    }
    fn viol(&mut self, sig: &str, case: Value, detail: String) {
        if self.viols.iter().filter(|v| v.0 == sig).count() < 4 {
            self.viols.push((sig.to_string(), case, detail));
        } else {
            self.suppressed += 1;
        }
    }
    fn flush(self, rep: &Report) {
        rep.evals(self.evals);
        for (b, n) in self.buckets {
            rep.outcome_n(b, n);
        }
        rep.distinct_many(self.distinct);
        for (s, c, d) in self.viols {
            rep.violation(&s, c, d);
        }
        if self.suppressed > 0 {
            rep.extra_add("violations_not_individually_recorded", self.suppressed);
        }
    }
}

/// the soundness oracle: one candidate proof, one item, honest root of `set`
#[allow(clippy::too_many_arguments)]
fn check_candidate(
    acc: &mut Acc,
    phase: &'static str,
    buckets: [&'static str; 3],
    set: &[Leaf],
    root: &[u8; 32],
    proof: &[u8],
    item: &Leaf,
    origin: &str,
) -> Verdict {
    acc.evals += 1;
    let member = set.contains(item);
    let v = real_validate(proof, item, root);
    match &v {
        Verdict::Err => acc.bump(buckets[0]),
        Verdict::Ok(b) if *b == member => acc.bump(if member { buckets[1] } else { buckets[2] }),
        Verdict::Ok(b) => {
            let sig = if member { "C12/proof/accepts-wrong-exclusion" } else { "C12/proof/accepts-wrong-inclusion" };
            acc.viol(
                sig,
                json!({"kind":"proof","set":hexes(set),"item":hex::encode(item),"proof":hex::encode(proof),"origin":format!("{phase}:{origin}")}),
                format!(
                    "validate_merkle_proof returned Ok({b}) for item {} against the root of a set that {} it; candidate ({origin}) = {}",
                    hex::encode(item),
                    if member { "contains" } else { "does not contain" },
                    hex::encode(proof)
                ),
            );
        }
        Verdict::Panic(m) => {
            acc.viol(
                "C12/proof/panic",
                json!({"kind":"proof","set":hexes(set),"item":hex::encode(item),"proof":hex::encode(proof),"origin":format!("{phase}:{origin}")}),
                format!("validate_merkle_proof panicked ({m}) on candidate ({origin}) {}", hex::encode(proof)),
            );
        }
    }
    v
}

// ---------------------------------------------------------------------------------------------
// (1) roots
// ---------------------------------------------------------------------------------------------

fn check_root_seq(acc: &mut Acc, seq: &[Leaf], want: &[u8; 32], what: &'static str) {
    acc.evals += 1;
    let mut s1 = seq.to_vec();
    let r1 = catch(|| compute_merkle_set_root(&mut s1));
    let mut s2 = seq.to_vec();
    let r2 = catch(|| MerkleSet::from_leafs(&mut s2).get_root());
    let ok = matches!((&r1, &r2), (Ok(a), Ok(b)) if a == want && b == want);
    if ok {
        acc.bump(what);
    } else {
        let show = |r: &Result<[u8; 32], String>| match r {
            Ok(h) => hex::encode(h),
            Err(p) => format!("panic: {p}"),
        };
        let sig = match (&r1, &r2) {
            (Err(_), _) | (_, Err(_)) => "C12/root/panic",
            (Ok(a), Ok(b)) if a != b => "C12/root/two-computations-disagree",
            _ => "C12/root/differs-from-reference",
        };
        acc.viol(
            sig,
            json!({"kind":"root","seq":hexes(seq)}),
            format!("leaf sequence {:?}: compute_merkle_set_root={} MerkleSet::from_leafs().get_root()={} reference={}", hexes(seq), show(&r1), show(&r2), hex::encode(want)),
        );
    }
}

/// all distinct permutations of a multiset (sorted input), lexicographic
fn multiset_perms(sorted: &[Leaf], f: &mut impl FnMut(&[Leaf])) {
    let mut v = sorted.to_vec();
    loop {
        f(&v);
        // next_permutation
        let n = v.len();
        if n < 2 {
            return;
        }
        let mut i = n - 1;
        while i > 0 && v[i - 1] >= v[i] {
            i -= 1;
        }
        if i == 0 {
            return;
        }
        let mut j = n - 1;
        while v[j] <= v[i - 1] {
            j -= 1;
        }
        v.swap(i - 1, j);
        v[i..].reverse();
    }
}

fn phase_roots(rep: &Report, u: &[Leaf]) {
    let n = u.len();
    (0u32..1 << n).into_par_iter().for_each(|mask| {
        let mut acc = Acc::default();
        let set = sorted_set(&subset(u, mask));
        let want = ref_root(&set);
        acc.distinct.push(fxhash(&("root", mask)));
        // every subset: ascending, descending, rotated, every element twice, every element three times interleaved
        check_root_seq(&mut acc, &set, &want, "root/ascending");
        let mut rev = set.clone();
        rev.reverse();
        check_root_seq(&mut acc, &rev, &want, "root/descending");
        if set.len() > 2 {
            let mut rot = set.clone();
            rot.rotate_left(set.len() / 2);
            check_root_seq(&mut acc, &rot, &want, "root/rotated");
            // interleave: evens then odds
            let il: Vec<Leaf> = set.iter().step_by(2).chain(set.iter().skip(1).step_by(2)).copied().collect();
            check_root_seq(&mut acc, &il, &want, "root/interleaved");
        }
        let dbl: Vec<Leaf> = set.iter().chain(rev.iter()).copied().collect();
        check_root_seq(&mut acc, &dbl, &want, "root/all-duplicated");
        let tri: Vec<Leaf> = rev.iter().chain(set.iter()).chain(set.iter()).copied().collect();
        check_root_seq(&mut acc, &tri, &want, "root/all-triplicated");
        if set.len() <= 4 {
            // every ordering, and every ordering of the set with any one element duplicated / triplicated
            multiset_perms(&set, &mut |p| check_root_seq(&mut acc, p, &want, "root/small/permutation"));
            for d in 0..set.len() {
                let mut ms = set.clone();
                ms.push(set[d]);
                ms.sort_unstable();
                multiset_perms(&ms, &mut |p| check_root_seq(&mut acc, p, &want, "root/small/permutation-with-duplicate"));
                if set.len() <= 3 {
                    ms.push(set[d]);
                    ms.sort_unstable();
                    multiset_perms(&ms, &mut |p| check_root_seq(&mut acc, p, &want, "root/small/permutation-with-triplicate"));
                }
            }
        }
        acc.flush(rep);
    });
}

// ---------------------------------------------------------------------------------------------
// (2) completeness  +  (3b) rewrites of honest proofs
// ---------------------------------------------------------------------------------------------

/// every single-step rewrite of a proof tree; `f(tag, tokens)` is called for each result that differs
/// from the input
fn rewrites(toks: &[Tok], a: &Ann, set: &[Leaf], item: &Leaf, f: &mut impl FnMut(&'static str, &[Tok])) {
    let n = toks.len();
    let mut buf: Vec<Tok> = Vec::with_capacity(n + 600);
    macro_rules! emit {
        ($tag:expr) => {{
            if buf.as_slice() != toks {
                f($tag, &buf);
            }
        }};
    }
    macro_rules! splice {
        ($tag:expr, $i:expr, $repl:expr) => {{
            buf.clear();
            buf.extend_from_slice(&toks[..$i]);
            buf.extend_from_slice($repl);
            buf.extend_from_slice(&toks[a.end[$i]..]);
            emit!($tag);
        }};
    }
    for i in 0..n {
        match toks[i] {
            Tok::M => {
                let l = i + 1;
                let r = a.end[l];
                let e = a.end[i];
                // swap the two children
                buf.clear();
                buf.extend_from_slice(&toks[..=i]);
                buf.extend_from_slice(&toks[r..e]);
                buf.extend_from_slice(&toks[l..r]);
                buf.extend_from_slice(&toks[e..]);
                emit!("swap-children");
                // truncate the subtree to its hash
                splice!("truncate-subtree", i, &[Tok::Tr(a.hash[i])]);
                // drop one (EMPTY, X) level
                if toks[l] == Tok::E {
                    let x = toks[r..e].to_vec();
                    splice!("drop-chain-level", i, &x);
                } else if toks[r] == Tok::E && r + 1 == e {
                    let x = toks[l..r].to_vec();
                    splice!("drop-chain-level", i, &x);
                }
                // flip a whole maximal (EMPTY, X) chain starting here (only at the chain top)
                let is_chain = |j: usize| toks[j] == Tok::M && (toks[j + 1] == Tok::E || (toks[a.end[j + 1]] == Tok::E));
                let parent_is_chain = a.parent[i] != usize::MAX && is_chain(a.parent[i]);
                if is_chain(i) && !parent_is_chain {
                    // walk down the chain collecting its levels
                    let mut levels = 0;
                    let mut j = i;
                    let mut sides = Vec::new(); // true = EMPTY is on the left
                    while is_chain(j) {
                        let empty_left = toks[j + 1] == Tok::E;
                        sides.push(empty_left);
                        j = if empty_left { j + 2 } else { j + 1 };
                        levels += 1;
                    }
                    if levels >= 2 {
                        // j is the chain bottom X; rebuild with every level mirrored
                        let x = toks[j..a.end[j]].to_vec();
                        let mut rep: Vec<Tok> = Vec::new();
                        for s in &sides {
                            rep.push(Tok::M);
                            if !*s {
                                rep.push(Tok::E);
                            }
                        }
                        rep.extend_from_slice(&x);
                        for s in sides.iter().rev() {
                            if *s {
                                rep.push(Tok::E);
                            }
                        }
                        splice!("mirror-whole-chain", i, &rep);
                    }
                }
                // add one (EMPTY, X) level above this node
                let x = toks[i..e].to_vec();
                let mut rep = vec![Tok::M, Tok::E];
                rep.extend_from_slice(&x);
                splice!("add-chain-level-right", i, &rep);
                let mut rep = vec![Tok::M];
                rep.extend_from_slice(&x);
                rep.push(Tok::E);
                splice!("add-chain-level-left", i, &rep);
            }
            Tok::T(x) => {
                splice!("retype-terminal-as-truncated", i, &[Tok::Tr(x)]);
                splice!("retype-terminal-as-truncated-leafhash", i, &[Tok::Tr(sha256(&[&[1u8], &x]))]);
                splice!("terminal-to-empty", i, &[Tok::E]);
                if x != *item {
                    splice!("terminal-to-item", i, &[Tok::T(*item)]);
                }
            }
            Tok::E => {
                splice!("retype-empty-as-truncated-blank", i, &[Tok::Tr(BLANK)]);
                splice!("retype-empty-as-terminal-blank", i, &[Tok::T(BLANK)]);
                splice!("empty-to-item", i, &[Tok::T(*item)]);
            }
            Tok::Tr(h) => {
                splice!("retype-truncated-as-terminal", i, &[Tok::T(h)]);
                splice!("truncated-to-empty", i, &[Tok::E]);
                splice!("truncated-to-item", i, &[Tok::T(*item)]);
                let mut rep = vec![Tok::M, Tok::E, Tok::Tr(h)];
                splice!("add-chain-level-right", i, &rep);
                rep = vec![Tok::M, Tok::Tr(h), Tok::E];
                splice!("add-chain-level-left", i, &rep);
            }
        }
    }
    // expand every TRUNCATED node into the real sub-trie (fully, and by one level)
    for (i, route) in &a.tr_routes {
        let sub: Vec<Leaf> = set.iter().filter(|x| route.iter().enumerate().all(|(p, b)| bit(x, p) == *b)).copied().collect();
        if sub.is_empty() {
            continue;
        }
        let mut full = Vec::new();
        full_tree(&sub, route.len(), &mut full);
        let i = *i;
        splice!("expand-truncated-fully", i, &full);
        if full[0] == Tok::M {
            let fa = annotate(&full);
            let l = 1;
            let r = fa.end[l];
            let one = |j: usize| match full[j] {
                Tok::M => Tok::Tr(fa.hash[j]),
                t => t,
            };
            // one level only makes sense where the children are not a collapsed chain; emit anyway, the verifier decides
            let rep = vec![Tok::M, one(l), one(r)];
            splice!("expand-truncated-one-level", i, &rep);
        }
    }
}

struct ProofJob {
    mask: u32,
    /// run adversary B (rewrites, prefixes, trailing bytes) on the honest proofs of this set
    rewrites: bool,
    /// also rewrites of rewrites
    second_order: bool,
}

/// proofs with at most this many tokens get every rewrite validated against every item and every
/// prefix; longer ones (the 250-level chains) against the proof's own item and 8 prefixes
const SHORT_PROOF_TOKENS: usize = 64;

fn phase_proofs(rep: &Report, uni: &'static str, u: &[Leaf], items: &[Leaf], jobs: &[ProofJob]) {
    // work unit = (job, item)
    let units: Vec<(usize, usize)> = (0..jobs.len()).flat_map(|j| (0..items.len()).map(move |i| (j, i))).collect();
    units.par_iter().for_each(|&(j, ii)| {
        let job = &jobs[j];
        let mut acc = Acc::default();
        let set = sorted_set(&subset(u, job.mask));
        let root = ref_root(&set);
        let item = items[ii];
        let member = set.contains(&item);
        acc.distinct.push(fxhash(&("proof", uni, job.mask, ii)));

        // two different construction orders of the same set (the second one with duplicates)
        let mut order_a = set.clone();
        let mut order_b: Vec<Leaf> = set.iter().rev().chain(set.iter()).copied().collect();
        let mut honest: Option<Vec<u8>> = None;
        for (which, seq) in [("ascending", &mut order_a), ("descending+duplicates", &mut order_b)] {
            acc.evals += 1;
            let case = json!({"kind":"honest","set":hexes(&set),"item":hex::encode(item),"order":which});
            let r = catch(|| {
                let t = MerkleSet::from_leafs(seq);
                let tr = t.get_root();
                (tr, t.generate_proof(&item))
            });
            let (tree_root, gp) = match r {
                Ok(x) => x,
                Err(p) => {
                    acc.viol("C12/complete/panic", case, format!("from_leafs/generate_proof panicked: {p}"));
                    continue;
                }
            };
            let Ok((stated, proof)) = gp else {
                acc.viol("C12/complete/generate-proof-fails", case, "generate_proof returned Err on a tree built by from_leafs".into());
                continue;
            };
            if stated != member {
                acc.viol(
                    "C12/complete/prover-states-wrong-membership",
                    case.clone(),
                    format!("generate_proof stated included={stated} but item {} the set", if member { "is in" } else { "is not in" }),
                );
            }
            // the proof must verify against the root (the tree's own and the reference one are equal by (1))
            let v = real_validate(&proof, &item, &tree_root);
            if v != Verdict::Ok(member) {
                acc.viol(
                    "C12/complete/honest-proof-does-not-verify",
                    case.clone(),
                    format!("validate_merkle_proof(honest proof, item, tree root) = {v:?}, want Ok({member}); proof {}", hex::encode(&proof)),
                );
            } else if tree_root == root {
                acc.bump(if member { "complete/inclusion-verified" } else { "complete/exclusion-verified" });
            }
            if tree_root != root {
                acc.viol("C12/root/differs-from-reference", json!({"kind":"root","seq":hexes(&set)}), format!("tree root {} reference {}", hex::encode(tree_root), hex::encode(root)));
            }
            // reading of the proof by the harness' own model of the format: one tree, hashing to the reference root
            match parse(&proof) {
                Some(t) if proof_root(&annotate(&t)) == root => {}
                other => acc.viol(
                    "C12/complete/proof-not-in-defined-format",
                    case,
                    format!("honest proof does not read as a proof tree hashing to the reference root (parsed: {}); proof {}", other.is_some(), hex::encode(&proof)),
                ),
            }
            if honest.is_none() {
                honest = Some(proof);
            }
        }

        // ---- adversary B
        let Some(proof) = honest else {
            acc.flush(rep);
            return;
        };
        if !job.rewrites {
            acc.flush(rep);
            return;
        }
        let Some(toks) = parse(&proof) else {
            acc.flush(rep);
            return;
        };
        let ann = annotate(&toks);
        let own = [item];
        let short = toks.len() <= SHORT_PROOF_TOKENS;
        let targets: &[Leaf] = if short { items } else { &own };
        let mut bytes = Vec::with_capacity(proof.len() + 1200);
        const B: [&str; 3] = ["rewrite/rejected", "rewrite/accepted-true-correct", "rewrite/accepted-false-correct"];
        let mut second: Vec<Vec<Tok>> = Vec::new();
        rewrites(&toks, &ann, &set, &item, &mut |tag, t| {
            ser_into(t, &mut bytes);
            let mut accepted = false;
            for it in targets {
                if let Verdict::Ok(_) = check_candidate(&mut acc, "rewrite", B, &set, &root, &bytes, it, tag) {
                    accepted = true;
                }
            }
            if accepted {
                acc.distinct.push(fxhash(&("rw", uni, job.mask, &bytes)));
            }
            if short && job.second_order {
                second.push(t.to_vec());
            }
        });
        const B2: [&str; 3] = ["rewrite2/rejected", "rewrite2/accepted-true-correct", "rewrite2/accepted-false-correct"];
        for t1 in &second {
            let a1 = annotate(t1);
            rewrites(t1, &a1, &set, &item, &mut |tag, t| {
                ser_into(t, &mut bytes);
                check_candidate(&mut acc, "rewrite2", B2, &set, &root, &bytes, &item, tag);
            });
        }
        {
            const BT: [&str; 3] = ["prefix/rejected", "prefix/accepted-true-correct", "prefix/accepted-false-correct"];
            const BA: [&str; 3] = ["trailing/rejected", "trailing/accepted-true-correct(malleable)", "trailing/accepted-false-correct(malleable)"];
            // every proper prefix that ends at a token boundary, one byte after it, or one byte before it
            let mut cut = 0usize;
            let mut cuts = vec![];
            for t in &toks {
                cuts.extend([cut.saturating_sub(1), cut, cut + 1]);
                cut += if matches!(t, Tok::E | Tok::M) { 1 } else { 33 };
            }
            cuts.push(cut - 1);
            if !short {
                let n = proof.len();
                cuts = vec![1, 2, 34, n / 2, n - 34, n - 33, n - 2, n - 1];
            }
            cuts.sort_unstable();
            cuts.dedup();
            for c in cuts {
                if c < proof.len() {
                    for it in targets {
                        check_candidate(&mut acc, "bytes", BT, &set, &root, &proof[..c], it, "prefix-of-honest-proof");
                    }
                }
            }
            // trailing bytes: every single byte value of the format and beyond, and whole extra tokens
            let mut tails: Vec<Vec<u8>> = vec![vec![0], vec![1], vec![2], vec![3], vec![4], vec![0xff], vec![0, 0], vec![2, 0, 0]];
            tails.push(ser(&[Tok::T(item)]));
            tails.push(ser(&[Tok::Tr(root)]));
            tails.push(proof.clone());
            for tail in tails {
                bytes.clear();
                bytes.extend_from_slice(&proof);
                bytes.extend_from_slice(&tail);
                for it in targets {
                    check_candidate(&mut acc, "bytes", BA, &set, &root, &bytes, it, "honest-proof-plus-trailing-bytes");
                }
            }
        }
        acc.flush(rep);
    });
}

// ---------------------------------------------------------------------------------------------
// (3a) bounded-exhaustive proof trees
// ---------------------------------------------------------------------------------------------

/// all binary tree shapes with m internal nodes, pre-order, true = MIDDLE, false = leaf slot
fn shapes(m: usize) -> Vec<Vec<bool>> {
    if m == 0 {
        return vec![vec![false]];
    }
    let mut out = Vec::new();
    for i in 0..m {
        for l in shapes(i) {
            for r in shapes(m - 1 - i) {
                let mut s = vec![true];
                s.extend_from_slice(&l);
                s.extend_from_slice(&r);
                out.push(s);
            }
        }
    }
    out
}

/// leaf alphabet of adversary A for one set
fn alphabet(set: &[Leaf], terminals: &[Leaf], shallow: bool) -> Vec<Tok> {
    let mut a = vec![Tok::E];
    for t in terminals {
        a.push(Tok::T(*t));
    }
    let mut nodes = Vec::new();
    let (t, h) = ref_node(set, 0, &mut nodes);
    // shallow universe: every honest subtree hash; deep universe: forks only (a one-sided run has 254 levels)
    let mut hs: Vec<[u8; 32]> = nodes.iter().filter(|n| shallow || n.1).map(|n| n.0).collect();
    hs.push(compress(t, &h)); // the root itself (differs from the node hash for 0/1 element sets)
    if shallow {
        hs.push(BLANK);
        hs.extend_from_slice(set); // leaf values typed as TRUNCATED
    }
    let mut seen = Vec::new();
    for h in hs {
        if !seen.contains(&h) {
            seen.push(h);
            a.push(Tok::Tr(h));
        }
    }
    a
}

#[allow(clippy::too_many_arguments)]
fn enumerate_trees(
    acc: &mut Acc,
    phase: &'static str,
    buckets: [&'static str; 3],
    set: &[Leaf],
    root: &[u8; 32],
    items: &[Leaf],
    shape: &[bool],
    alpha: &[Tok],
    fixed_first: Option<usize>,
    wrap: &dyn Fn(&[Tok], &mut Vec<Tok>),
    distinct_tag: u64,
) {
    let slots = shape.iter().filter(|m| !**m).count();
    let mut idx = vec![0usize; slots];
    if let Some(f) = fixed_first {
        idx[0] = f;
    }
    let lo = if fixed_first.is_some() { 1 } else { 0 };
    let mut toks: Vec<Tok> = Vec::with_capacity(shape.len());
    let mut wrapped: Vec<Tok> = Vec::new();
    let mut bytes = Vec::new();
    loop {
        toks.clear();
        let mut s = 0;
        for m in shape {
            if *m {
                toks.push(Tok::M);
            } else {
                toks.push(alpha[idx[s]]);
                s += 1;
            }
        }
        wrapped.clear();
        wrap(&toks, &mut wrapped);
        ser_into(&wrapped, &mut bytes);
        let mut accepted = false;
        for it in items {
            if let Verdict::Ok(_) = check_candidate(acc, phase, buckets, set, root, &bytes, it, "enumerated-tree") {
                accepted = true;
            }
        }
        if accepted {
            acc.distinct.push(fxhash(&(distinct_tag, &bytes)));
        }
        // odometer
        let mut k = slots;
        loop {
            if k == lo {
                return;
            }
            k -= 1;
            idx[k] += 1;
            if idx[k] < alpha.len() {
                break;
            }
            idx[k] = 0;
        }
    }
}

fn phase_trees(rep: &Report, max_middles: usize) -> u64 {
    let v = shallow_universe();
    let outs = shallow_outsiders();
    let items: Vec<Leaf> = v.iter().chain(outs.iter()).copied().collect();
    let terminals: Vec<Leaf> = v.iter().copied().chain([outs[0]]).collect();
    let all_shapes: Vec<Vec<bool>> = (0..=max_middles).flat_map(shapes).collect();
    // task = (set, shape, first letter)
    let mut tasks = Vec::new();
    let mut total: u64 = 0;
    for mask in 0u32..1 << v.len() {
        let set = sorted_set(&subset(&v, mask));
        let alpha = alphabet(&set, &terminals, true);
        for (si, sh) in all_shapes.iter().enumerate() {
            let slots = sh.iter().filter(|m| !**m).count();
            total += (alpha.len() as u64).pow(slots as u32);
            for f in 0..alpha.len() {
                tasks.push((mask, si, f));
            }
        }
    }
    const B: [&str; 3] = ["tree/rejected", "tree/accepted-true-correct", "tree/accepted-false-correct"];
    tasks.par_iter().for_each(|&(mask, si, f)| {
        let mut acc = Acc::default();
        let set = sorted_set(&subset(&v, mask));
        let root = ref_root(&set);
        let alpha = alphabet(&set, &terminals, true);
        enumerate_trees(&mut acc, "tree", B, &set, &root, &items, &all_shapes[si], &alpha, Some(f), &|t, out| out.extend_from_slice(t), mask as u64);
        acc.flush(rep);
    });
    total
}

// ---------------------------------------------------------------------------------------------
// (3c) deep chains around the depth limit
// ---------------------------------------------------------------------------------------------

fn phase_depth(rep: &Report, quick: bool) -> u64 {
    let term_middles = if quick { 1 } else { 2 };
    let u = universe();
    let pick = |n: &str| u.iter().find(|x| x.0 == n).unwrap().1;
    let names: &[&str] = &["Z", "Z1", "Z2", "F1", "F"];
    let d: Vec<Leaf> = names.iter().map(|n| pick(n)).collect();
    let outs = outsiders();
    let items: Vec<Leaf> = d.iter().copied().chain([outs[0].1, outs[1].1, outs[3].1]).collect();
    let term_shapes: Vec<Vec<bool>> = (0..=term_middles).flat_map(shapes).collect();
    let lengths: Vec<usize> = if quick { (252..=258).collect() } else { (250..=258).collect() };
    let tops = if quick { 2 } else { 3usize };
    let mut tasks = Vec::new();
    let total = std::sync::atomic::AtomicU64::new(0);
    for mask in 1u32..1 << d.len() {
        for si in 0..term_shapes.len() {
            for right in [false, true] {
                for top in 0..tops {
                    for &k in &lengths {
                        tasks.push((mask, si, right, top, k));
                    }
                }
            }
        }
    }
    const B: [&str; 3] = ["deep/rejected", "deep/accepted-true-correct", "deep/accepted-false-correct"];
    tasks.par_iter().for_each(|&(mask, si, right, top, k)| {
        let mut acc = Acc::default();
        let set = sorted_set(&subset(&d, mask));
        let root = ref_root(&set);
        // TERMINALs: the universe leaves on the chain's side (the others fail the position audit at level 0)
        let family: Vec<Leaf> = d.iter().filter(|x| bit(x, 0) == right).copied().collect();
        let alpha = alphabet(&set, &family, false);
        // sibling of the first chain level: EMPTY, or the honest other half (truncated, or as the real subtree)
        let other: Vec<Leaf> = set.iter().filter(|x| bit(x, 0) != right).copied().collect();
        let mut top_sibling: Vec<Tok> = Vec::new();
        match top {
            0 => top_sibling.push(Tok::E),
            1 => {
                let (t, h) = ref_node(&other, 1, &mut Vec::new());
                top_sibling.push(match t {
                    0 => Tok::E,
                    1 => Tok::T(h),
                    _ => Tok::Tr(h),
                });
            }
            _ => full_tree(&other, 1, &mut top_sibling),
        }
        if (top > 0 && other.is_empty()) || (top > 1 && other.len() < 2) {
            return; // same candidate as a smaller `top`
        }
        let wrap = |t: &[Tok], out: &mut Vec<Tok>| {
            // k chain levels going left (right == false) or right, then the terminator
            for lvl in 0..k {
                out.push(Tok::M);
                if right {
                    if lvl == 0 {
                        out.extend_from_slice(&top_sibling);
                    } else {
                        out.push(Tok::E);
                    }
                }
            }
            out.extend_from_slice(t);
            if !right {
                for lvl in (0..k).rev() {
                    if lvl == 0 {
                        out.extend_from_slice(&top_sibling);
                    } else {
                        out.push(Tok::E);
                    }
                }
            }
        };
        enumerate_trees(&mut acc, "deep", B, &set, &root, &items, &term_shapes[si], &alpha, None, &wrap, 0x1000 + mask as u64);
        total.fetch_add(acc.evals / items.len() as u64, std::sync::atomic::Ordering::Relaxed);
        acc.flush(rep);
    });
    total.into_inner()
}

// ---------------------------------------------------------------------------------------------

fn run(rep: &Report) {
    let quick = rep.tier == Tier::Quick;
    let un = universe();
    let u: Vec<Leaf> = un.iter().map(|x| x.1).collect();
    let outs: Vec<Leaf> = outsiders().iter().map(|x| x.1).collect();
    let items: Vec<Leaf> = u.iter().chain(outs.iter()).copied().collect();

    rep.set_rule(&format!(
        "U = 12 leaves (all eight 3-bit prefixes; pairs differing only in bit 255 / 254 / 128; 00..00, ff..ff), items = U + 4 outsiders. \
         (1) roots: all 4096 subsets of U in 6 orders/duplications, plus every permutation and every permutation with one element duplicated (<=3 leaves: also triplicated) of all subsets with <= 4 leaves, through compute_merkle_set_root and MerkleSet::from_leafs().get_root() against the reference trie hash. \
         (2) all 4096 subsets x 16 items x 2 construction orders (and all 128 subsets x 11 items of W): generate_proof states membership correctly, validate_merkle_proof accepts it, the proof reads as a tree hashing to the reference root. \
         (3a) every proof tree with <= {} MIDDLE nodes whose leaves are EMPTY | TERMINAL x (5 shallow leaves + 1 outsider) | TRUNCATED h (every honest subtree hash of the set, its root, BLANK, its leaf values), for all 32 subsets of the shallow 5-leaf universe (prefixes 00,01,10,110,111) x 7 items. \
         (3b) every single-step rewrite (swap children, truncate subtree, expand truncated fully / one level, add / drop one (EMPTY,X) level, mirror a whole (EMPTY,X) chain, retype or replace a leaf) of every honest proof of: all subsets of {} of U x 16 items, and all 128 subsets of W (7 leaves, chains of 9..13 levels) x 11 items{}; a rewrite of a proof with <= 64 tokens is validated against every item, of a longer proof against the proof's own item; plus every prefix cut at a token boundary +-1 byte (8 fixed cuts for proofs > 64 tokens) and 11 trailing-byte extensions of each of these honest proofs. \
         (3c) chains of {}..258 MIDDLE levels, all-left or all-right, level-0 sibling EMPTY | honest other half truncated{}, ending in every tree with <= {} MIDDLE nodes over EMPTY | TERMINAL x (x of {{Z,Z1,Z2,F1,F}} on the chain's side) | TRUNCATED h (fork hashes and root of the set), for all 31 non-empty subsets of {{Z,Z1,Z2,F1,F}} x 8 items. \
         Every candidate of (3) goes through validate_merkle_proof with the reference root of the set. distinct = subsets (1), (universe,subset,item) triples (2), and every different candidate proof that passed the root check (3).",
        if quick { 3 } else { 4 },
        if quick { "{Z,Z1,Z2,F1,F} (32 sets)" } else { "{Z,Z1,Z2,P1,P2,P4,P4b,P6,F1,F} (1024 sets)" },
        if quick { "" } else { ", and over W every rewrite of every rewrite (validated against the proof's own item)" },
        if quick { 252 } else { 250 },
        if quick { "" } else { " | honest other half fully expanded" },
        if quick { 1 } else { 2 },
    ));
    rep.assume("SHA-256 (sha2 crate) is collision free on the enumerated inputs; soundness against proofs outside the enumerated families rests on that and is not established here");
    rep.assume("reference trie hash written from the format description in tests/merkle_set.py (two-leaf sub-tries hash as H(1,1,min,max) at any depth; >=3-leaf sub-tries hash every level)");
    rep.assume("accepting an honest proof followed by trailing bytes would not contradict the property as long as the stated membership is right; such cases are only counted (bucket trailing/accepted-*)");

    // development aid: C12_ONLY=1,2,3a,3c runs a subset of the phases (recorded as a cap, never exhaustive)
    let only = std::env::var("C12_ONLY").ok();
    if let Some(o) = &only {
        rep.cap(&format!("C12_ONLY={o}: only these phases were run"));
    }
    let on = |p: &str| only.as_ref().is_none_or(|o| o.split(',').any(|x| x == p));
    let t0 = std::time::Instant::now();
    let lap = |what: &str| {
        if std::env::var("C12_TIMING").is_ok() {
            eprintln!("[c12] {what} done at {:.1}s", t0.elapsed().as_secs_f64());
        }
    };

    // (1)
    if on("1") {
        phase_roots(rep, &u);
    }
    lap("roots");
    rep.sample(json!({"phase":"root","set":["Z","Z1","Z2"],"reference_root":hex::encode(ref_root(&sorted_set(&[u[0],u[1],u[2]]))),"note":"254 hashed (MIDDLE,EMPTY) levels above (two-leaf node, Z2)"}));

    // (2) + (3b)
    let name_mask = |names: &[&str]| -> u32 { names.iter().map(|n| 1u32 << un.iter().position(|x| x.0 == *n).unwrap()).sum() };
    // rewrites of the proofs over U: quick = sets within the sub-universe holding the deepest pairs, thorough = the 1024 sets without the lone leaves P3, P5
    let sub_mask = if quick { name_mask(&["Z", "Z1", "Z2", "F1", "F"]) } else { name_mask(&["Z", "Z1", "Z2", "P1", "P2", "P4", "P4b", "P6", "F1", "F"]) };
    if on("2") {
        let jobs: Vec<ProofJob> = (0u32..1 << u.len()).map(|mask| ProofJob { mask, rewrites: mask & !sub_mask == 0, second_order: false }).collect();
        phase_proofs(rep, "U", &u, &items, &jobs);
    }
    lap("proofs+rewrites over U");
    if on("3b") {
        let w = medium_universe();
        let witems: Vec<Leaf> = w.iter().copied().chain(medium_outsiders()).collect();
        let jobs: Vec<ProofJob> = (0u32..1 << w.len()).map(|mask| ProofJob { mask, rewrites: true, second_order: !quick }).collect();
        phase_proofs(rep, "W", &w, &witems, &jobs);
    }
    lap("proofs+rewrites over W");
    {
        let set = sorted_set(&[u[0], u[1], u[9]]);
        let mut s = set.clone();
        let t = MerkleSet::from_leafs(&mut s);
        let (inc, p) = t.generate_proof(&u[0]).unwrap();
        rep.sample(json!({"phase":"complete","set":["Z","Z1","P6"],"item":"Z","stated_included":inc,"proof_bytes":p.len(),"proof_tokens":parse(&p).map(|t| t.len())}));
    }

    // (3a)
    if on("3a") {
        let total_trees = phase_trees(rep, if quick { 3 } else { 4 });
        rep.extra("enumerated_proof_trees", json!(total_trees));
    }
    lap("trees");
    rep.sample(json!({"phase":"tree","set":"{c0.., e0..}","candidate":"MIDDLE(MIDDLE(TERMINAL c0.., TERMINAL e0..), EMPTY)","why":"same collapsed hash as the honest MIDDLE(EMPTY, MIDDLE(EMPTY, MIDDLE(c0,e0))); only the leaf-position audit rejects it"}));
    rep.sample(json!({"phase":"tree","set":"{c0.., e0..}","candidate":"MIDDLE(TRUNCATED root, EMPTY)","why":"would verify and prove exclusion of c0 if TRUNCATED were treated as a collapsible two-leaf node"}));

    // (3c)
    if on("3c") {
        let total_deep = phase_depth(rep, quick);
        rep.extra("enumerated_deep_chain_proofs", json!(total_deep));
    }
    lap("deep chains");

    // informational, outside the property (the root is chosen by the prover here, not the root of a set):
    // 255/256/257 hashed MIDDLE levels above a TRUNCATED node, validated against the proof's own root
    let mut selfroot = serde_json::Map::new();
    for k in [255usize, 256, 257] {
        let mut t = vec![Tok::M; k];
        t.push(Tok::Tr([0x77; 32]));
        t.extend(std::iter::repeat_n(Tok::E, k));
        let bytes = ser(&t);
        let own_root = proof_root(&annotate(&t));
        let v = real_validate(&bytes, &u[0], &own_root);
        selfroot.insert(format!("{k}_levels"), json!(format!("{v:?}")));
    }
    rep.extra("outside_property_probe_adversarial_root_deep_chain", Value::Object(selfroot));
    rep.sample(json!({"phase":"deep","set":["Z","Z1"],"candidate":"256 x MIDDLE(.,EMPTY) then MIDDLE(TERMINAL Z, TERMINAL Z1)","why":"one level deeper than any real leaf: position 256 of the route is compared with bit 0 (u8 wrap) in the audit"}));
}

fn replay(case: &Value) -> String {
    let leaves = |v: &Value| -> Vec<Leaf> { v.as_array().map(|a| a.iter().map(|s| hex::decode(s.as_str().unwrap()).unwrap().try_into().unwrap()).collect()).unwrap_or_default() };
    match case["kind"].as_str() {
        Some("root") => {
            let seq = leaves(&case["seq"]);
            let want = ref_root(&sorted_set(&seq));
            let mut s1 = seq.clone();
            let r1 = catch(|| compute_merkle_set_root(&mut s1));
            let mut s2 = seq.clone();
            let r2 = catch(|| MerkleSet::from_leafs(&mut s2).get_root());
            format!("compute_merkle_set_root = {:?}\nfrom_leafs().get_root() = {:?}\nreference = {}", r1.map(hex::encode), r2.map(hex::encode), hex::encode(want))
        }
        Some("proof") => {
            let set = sorted_set(&leaves(&case["set"]));
            let item: Leaf = hex::decode(case["item"].as_str().unwrap()).unwrap().try_into().unwrap();
            let proof = hex::decode(case["proof"].as_str().unwrap()).unwrap();
            let root = ref_root(&set);
            let v = real_validate(&proof, &item, &root);
            format!(
                "set of {} leaves, reference root {}\nitem {} is {}in the set\nvalidate_merkle_proof(candidate, item, root) = {v:?}\nexpected: Err or Ok({})",
                set.len(),
                hex::encode(root),
                hex::encode(item),
                if set.contains(&item) { "" } else { "NOT " },
                set.contains(&item)
            )
        }
        Some("honest") => {
            let set = sorted_set(&leaves(&case["set"]));
            let item: Leaf = hex::decode(case["item"].as_str().unwrap()).unwrap().try_into().unwrap();
            let mut seq: Vec<Leaf> = if case["order"] == "ascending" { set.clone() } else { set.iter().rev().chain(set.iter()).copied().collect() };
            let r = catch(|| {
                let t = MerkleSet::from_leafs(&mut seq);
                let root = t.get_root();
                let gp = t.generate_proof(&item).ok();
                let v = gp.as_ref().map(|(_, p)| real_validate(p, &item, &root));
                (root, gp, v)
            });
            match r {
                Ok((root, gp, v)) => format!(
                    "tree root {} (reference {})\ngenerate_proof = {:?}\nvalidate = {v:?}; item in set: {}",
                    hex::encode(root),
                    hex::encode(ref_root(&set)),
                    gp.map(|(i, p)| (i, hex::encode(p))),
                    set.contains(&item)
                ),
                Err(p) => format!("panic: {p}"),
            }
        }
        _ => "unknown case kind".into(),
    }
}

fn main() {
    mc::cli::main("C12", "exploration", run, replay)
}
