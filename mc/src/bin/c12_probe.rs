use chia_consensus::merkle_tree::{MerkleSet, validate_merkle_proof};
use std::time::Instant;
fn main() {
    let z = [0u8; 32];
    let mut z1 = z; z1[31] = 1;
    let mut z2 = z; z2[31] = 2;
    for set in [vec![z, z1], vec![z, z1, z2]] {
        let mut s = set.clone();
        let t = MerkleSet::from_leafs(&mut s);
        let root = t.get_root();
        let t0 = Instant::now();
        let (inc, p) = t.generate_proof(&z).unwrap();
        let t1 = t0.elapsed();
        let t0 = Instant::now();
        let n = 200;
        for _ in 0..n { let r = validate_merkle_proof(&p, &z, &root); assert!(matches!(r, Ok(true))); }
        println!("set {} inc {inc} proof {} bytes gen {:?} validate {:?}", set.len(), p.len(), t1, t0.elapsed() / n);
        // left chain of k levels ending in EMPTY
        for k in [250usize, 256, 257, 258] {
            let mut q = vec![2u8; k]; q.push(0); q.extend(std::iter::repeat(0u8).take(k));
            let t0 = Instant::now();
            for _ in 0..n { let _ = std::panic::catch_unwind(|| validate_merkle_proof(&q, &z, &root)); }
            println!("  chain {k}: {:?} -> {:?}", t0.elapsed() / n, std::panic::catch_unwind(|| validate_merkle_proof(&q, &z, &root).ok()));
        }
    }
}
