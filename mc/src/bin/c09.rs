//! C09 — trusted fast paths report what full validation reports.
//! Engine E, differential: for every generator of the stated families that run_block_generator2
//! accepts, the trusted helpers (additions_and_removals, get_coinspends_for_trusted_block,
//! get_coinspends_with_conditions_for_trusted_block, get_puzzle_and_solution_for_coin,
//! SpendBundle::additions) must report the same removals, additions, hints, puzzles and solutions.

use chia_bls::Signature;
use chia_consensus::additions_and_removals::additions_and_removals;
use chia_consensus::flags::ConsensusFlags;
use chia_consensus::get_puzzle_and_solution::get_puzzle_and_solution_for_coin;
use chia_consensus::run_block_generator::{get_coinspends_for_trusted_block, get_coinspends_with_conditions_for_trusted_block, setup_generator_args};
use chia_consensus::solution_generator::solution_generator;
use chia_protocol::{Bytes32, Coin, Program, SpendBundle};
use clvmr::Allocator;
use mc::drive::{self, H1, H2, P1, P2, PH2};
use mc::genr::{GSpend, generator_sx, run_gen2, test_constants};
use mc::letters::{Ids, sigma2_for};
use mc::refcond::CSummary;
use mc::report::{Report, catch, fxhash};
use mc::sx::{Sx, enc_u64, sha256};
use rayon::prelude::*;
use serde_json::{Value, json};
use std::collections::BTreeMap;

const MAX_BLOCK: u64 = 11_000_000_000;

fn q(x: Sx) -> Sx {
    Sx::cons(Sx::int(1), x)
}
fn op(o: u8, args: &[Sx]) -> Sx {
    let mut v = vec![Sx::atom(&[o])];
    v.extend_from_slice(args);
    Sx::list(&v)
}

fn amounts() -> Vec<u64> {
    vec![0, 1, 0x7f, 0x80, 0xff, 0x100, 0x7fff, 0x8000, (1 << 23) - 1, 1 << 23, (1 << 31) - 1, 1 << 31, u32::MAX as u64, 1 << 32, (1 << 39) - 1, 1 << 39, (1 << 47) - 1, 1 << 47, (1 << 55) - 1, 1 << 55, (1u64 << 63) - 1, 1 << 63, u64::MAX]
}

fn memo_shapes() -> Vec<(&'static str, Option<Sx>)> {
    vec![
        ("absent", None),
        ("nil", Some(Sx::nil())),
        ("(nil)", Some(Sx::list(&[Sx::nil()]))),
        ("(h32)", Some(Sx::list(&[Sx::atom(&H1)]))),
        ("(h31)", Some(Sx::list(&[Sx::atom(&[0x31; 31])]))),
        ("(h33)", Some(Sx::list(&[Sx::atom(&[0x31; 33])]))),
        ("(h1)", Some(Sx::list(&[Sx::atom(&[7])]))),
        ("((pair))", Some(Sx::list(&[Sx::list(&[Sx::atom(&H1)])]))),
        ("(h32 . 01)", Some(Sx::cons(Sx::atom(&H1), Sx::atom(&[1])))),
        ("atom", Some(Sx::atom(&H1))),
        ("(h32 h32)", Some(Sx::list(&[Sx::atom(&H1), Sx::atom(&H2)]))),
    ]
}

#[derive(Clone)]
struct Prog {
    name: String,
    bytes: Vec<u8>,
    refs: Vec<Vec<u8>>,
    /// the bundle equivalent (for SpendBundle::additions), when the generator is a plain spend list
    spends: Option<Vec<GSpend>>,
}

fn programs(env: &mc::refcond::Env, thorough: bool) -> Vec<Prog> {
    let phi = Sx::int(1).tree_hash();
    let mut v: Vec<Prog> = Vec::new();
    let mut add = |name: String, spends: Vec<GSpend>| {
        let g = generator_sx(&spends);
        v.push(Prog { name: format!("{name}/plain"), bytes: g.serialize(), refs: vec![], spends: Some(spends.clone()) });
        let mut a = Allocator::new();
        let n = g.to_node(&mut a);
        let br = clvmr::serde::node_to_bytes_backrefs(&a, n).unwrap();
        if br != g.serialize() {
            v.push(Prog { name: format!("{name}/backrefs"), bytes: br, refs: vec![], spends: Some(spends) });
        }
    };
    // memo shapes x amounts of the created coin x amounts of the spent coin (boundary set)
    for (mn, memo) in memo_shapes() {
        for am in amounts() {
            let _ = thorough;
            let mut args = vec![Sx::atom(&PH2), Sx::int(am)];
            if let Some(m) = &memo {
                args.push(m.clone());
            }
            add(format!("memo/{mn}/{am:#x}"), vec![GSpend::identity(P1, u64::MAX, Sx::list(&[drive::cond(51, &args)]))]);
        }
    }
    // spent-coin amounts
    for am in amounts() {
        add(format!("amount/{am:#x}"), vec![GSpend::identity(P1, am, Sx::list(&[drive::cond(51, &[Sx::atom(&PH2), Sx::int(am)])]))]);
    }
    // interaction letters, one and two spends
    let ids = Ids { a: (P1, phi, 5), c: (P2, phi, 5), b_ph: PH2, b_amount: 3 };
    let letters = sigma2_for(env, &ids);
    for (n, l) in &letters {
        add(format!("letter/{n}"), vec![GSpend::identity(P1, 5, Sx::list(&[l.clone()]))]);
        add(format!("letter2/{n}"), vec![GSpend::identity(P1, 5, Sx::list(&[l.clone(), drive::cond(51, &[Sx::atom(&PH2), Sx::int(3), Sx::list(&[Sx::nil()])])])), GSpend::quoted(P2, 5, Sx::list(&[drive::cond(51, &[Sx::atom(&H1), Sx::int(1), Sx::list(&[Sx::atom(&H2)])])]))]);
    }
    // every ordered pair of letters on one spend (thorough: all; quick: pairs involving a CREATE_COIN letter)
    for (n1, l1) in &letters {
        for (n2, l2) in &letters {
            if !thorough && n1 != "op51" && n2 != "op51" {
                continue;
            }
            add(format!("pair/{n1}+{n2}"), vec![GSpend::identity(P1, 5, Sx::list(&[l1.clone(), l2.clone()]))]);
        }
    }
    // several outputs, some with hints, some without; unknown conditions in between
    add(
        "many-outputs".into(),
        vec![GSpend::identity(
            P1,
            100,
            Sx::list(&[
                drive::cond(51, &[Sx::atom(&PH2), Sx::int(1), Sx::list(&[Sx::atom(&H1)])]),
                Sx::list(&[Sx::atom(&[2]), Sx::atom(b"x")]),
                drive::cond(51, &[Sx::atom(&PH2), Sx::int(2)]),
                Sx::list(&[Sx::cons(Sx::atom(&[51]), Sx::nil()), Sx::atom(b"pair-opcode")]),
                drive::cond(51, &[Sx::atom(&H1), Sx::int(2), Sx::list(&[Sx::atom(&[])])]),
                Sx::list(&[Sx::atom(&[0, 51]), Sx::atom(&PH2), Sx::int(9)]),
                drive::cond(51, &[Sx::atom(&H2), Sx::int(3), Sx::list(&[Sx::atom(&[0x31; 32]), Sx::atom(b"more")]), Sx::atom(b"extra")]),
            ]),
        )],
    );
    // the same mix without the pair opcode (which SpendBundle::additions refuses, a recorded finding that
    // would otherwise hide what it does with the zero-padded 51 opcodes)
    add(
        "many-outputs-no-pair-opcode".into(),
        vec![GSpend::identity(
            P1,
            100,
            Sx::list(&[
                drive::cond(51, &[Sx::atom(&PH2), Sx::int(1), Sx::list(&[Sx::atom(&H1)])]),
                Sx::list(&[Sx::atom(&[2]), Sx::atom(b"x")]),
                drive::cond(51, &[Sx::atom(&PH2), Sx::int(2)]),
                Sx::list(&[Sx::atom(&[0, 0, 51]), Sx::atom(&H1), Sx::int(11), Sx::list(&[Sx::atom(&H2)])]),
                drive::cond(51, &[Sx::atom(&H1), Sx::int(2), Sx::list(&[Sx::atom(&[])])]),
                Sx::list(&[Sx::atom(&[0, 51]), Sx::atom(&PH2), Sx::int(9)]),
                drive::cond(51, &[Sx::atom(&H2), Sx::int(3), Sx::list(&[Sx::atom(&[0x31; 32]), Sx::atom(b"more")]), Sx::atom(b"extra")]),
            ]),
        )],
    );
    // sibling coins: same parent and amount, different puzzles (lookup must not stop at the first
    // parent/amount match); and same puzzle, different amounts
    add(
        "siblings".into(),
        vec![
            GSpend::quoted(P1, 7, Sx::list(&[drive::cond(51, &[Sx::atom(&PH2), Sx::int(1)])])),
            GSpend::quoted(P1, 7, Sx::list(&[drive::cond(51, &[Sx::atom(&PH2), Sx::int(2)])])),
            GSpend::quoted(P1, 7, Sx::list(&[drive::cond(51, &[Sx::atom(&H1), Sx::int(3), Sx::list(&[Sx::atom(&H2)])])])),
            GSpend::identity(P1, 7, Sx::nil()),
            GSpend::identity(P1, 8, Sx::nil()),
        ],
    );
    // resource accounting of the helpers: thousands of free conditions around a few outputs, and as
    // many outputs as a block can pay for (each helper has its own cost bookkeeping; on a block that
    // full validation accepts none of them may run out of budget)
    {
        let mut conds: Vec<Sx> = (0..9000).map(|_| drive::cond(1, &[])).collect();
        conds.insert(0, drive::cond(51, &[Sx::atom(&PH2), Sx::int(1), Sx::list(&[Sx::atom(&H1)])]));
        conds.insert(4500, drive::cond(51, &[Sx::atom(&PH2), Sx::int(2)]));
        conds.push(drive::cond(51, &[Sx::atom(&H1), Sx::int(3), Sx::list(&[Sx::atom(&H2)])]));
        add("many-remarks".into(), vec![GSpend::identity(P1, 100, Sx::list(&conds))]);
        let ccs: Vec<Sx> = (0..4000u64).map(|i| drive::cond(51, &[Sx::atom(&PH2), Sx::int(i + 1)])).collect();
        add("many-creates".into(), vec![GSpend::identity(P1, u64::MAX, Sx::list(&ccs))]);
    }
    // ephemeral chain
    let a_id = drive::coin_id(&P1, &phi, 5);
    add("ephemeral".into(), vec![GSpend::identity(P1, 5, Sx::list(&[drive::cond(51, &[Sx::atom(&phi), Sx::int(3), Sx::list(&[Sx::atom(&H1)])])])), GSpend::identity(a_id, 3, Sx::list(&[drive::cond(76, &[])]))]);
    // spend-level extra field and output extension (legal extensions)
    {
        let s = GSpend::identity(P1, 5, Sx::list(&[drive::cond(51, &[Sx::atom(&PH2), Sx::int(3), Sx::list(&[Sx::atom(&H1)])])]));
        let tuple = Sx::list(&[Sx::atom(&s.parent), s.puzzle.clone(), Sx::int(5), s.solution.clone(), Sx::atom(b"ext")]);
        v.push(Prog { name: "struct/extra-field".into(), bytes: q(Sx::list(&[Sx::list(&[tuple.clone()])])).serialize(), refs: vec![], spends: None });
        v.push(Prog { name: "struct/output-ext".into(), bytes: q(Sx::cons(Sx::list(&[s.tuple()]), Sx::atom(&H1))).serialize(), refs: vec![], spends: None });
        // procedural
        let spends_q = q(Sx::list(&[s.tuple()]));
        v.push(Prog { name: "proc/cons".into(), bytes: op(4, &[spends_q.clone(), q(Sx::nil())]).serialize(), refs: vec![], spends: None });
        let first_ref = op(5, &[op(5, &[op(6, &[Sx::int(1)])])]);
        let tuple = op(4, &[first_ref, q(Sx::list(&[s.puzzle.clone(), Sx::int(5), s.solution.clone()]))]);
        let list = op(4, &[tuple, q(Sx::nil())]);
        v.push(Prog { name: "proc/parent-from-ref1".into(), bytes: op(4, &[list, q(Sx::nil())]).serialize(), refs: vec![vec![0x71; 32], vec![0x72; 32]], spends: None });
    }
    v
}

thread_local! {
    static SIDE: std::cell::RefCell<Vec<(String, String)>> = const { std::cell::RefCell::new(Vec::new()) };
}

type Addition = ([u8; 32], [u8; 32], u64, Option<Vec<u8>>);

fn additions_of(sum: &CSummary) -> Vec<Addition> {
    let mut v: Vec<Addition> = sum.spends.iter().flat_map(|s| s.create_coin.iter().map(move |(ph, am, hint)| (s.coin_id, *ph, *am, hint.clone()))).collect();
    v.sort();
    v
}

fn check(p: &Prog, flags: ConsensusFlags, buckets: &mut BTreeMap<String, u64>) -> Result<bool, (String, String)> {
    let constants = test_constants();
    let sig = Signature::default();
    let full = match run_gen2(&p.bytes, &p.refs, MAX_BLOCK, flags, &sig, constants) {
        Ok(f) => f,
        Err(e) => {
            if std::env::var_os("MC_C09_SHOW_REJECTED").is_some() {
                eprintln!("rejected: {} flags {:?}: {e:?}", p.name, flags);
            }
            *buckets.entry("generator-rejected-by-full-validation".into()).or_insert(0) += 1;
            return Ok(false);
        }
    };
    // recorded stress-test generators (millions of conditions, megabyte reveals) are out of the
    // thorough tier's budget; the cut is on the deterministic consensus cost, not on wall time
    if p.name.starts_with("corpus/") && full.cost > 2_000_000_000 {
        *buckets.entry("corpus-generator-above-cost-budget-skipped".into()).or_insert(0) += 1;
        return Ok(false);
    }
    let refs: Vec<&[u8]> = p.refs.iter().map(Vec::as_slice).collect();
    // 1. additions_and_removals
    let (adds, rems) = additions_and_removals(&p.bytes, refs.iter().copied(), flags, constants).map_err(|e| ("additions_and_removals/rejects".to_string(), format!("{e:?}")))?;
    let want_rem: Vec<([u8; 32], [u8; 32], [u8; 32], u64)> = full.summary.spends.iter().map(|s| (s.coin_id, s.parent, s.puzzle_hash, s.amount)).collect();
    let got_rem: Vec<([u8; 32], [u8; 32], [u8; 32], u64)> = rems.iter().map(|(id, c)| (id.to_bytes(), c.parent_coin_info.to_bytes(), c.puzzle_hash.to_bytes(), c.amount)).collect();
    if want_rem != got_rem {
        return Err(("additions_and_removals/removals".into(), format!("validated spends {:?}\nremovals {:?}", want_rem.iter().map(|r| hex::encode(r.0)).collect::<Vec<_>>(), got_rem.iter().map(|r| hex::encode(r.0)).collect::<Vec<_>>())));
    }
    for (id, c) in &rems {
        if id.to_bytes() != sha256(&[c.parent_coin_info.as_ref(), c.puzzle_hash.as_ref(), &enc_u64(c.amount)]) {
            return Err(("additions_and_removals/removal-id".into(), "reported coin id does not hash from the reported coin".into()));
        }
    }
    let want_add = additions_of(&full.summary);
    let mut got_add: Vec<Addition> = adds.iter().map(|(c, h)| (c.parent_coin_info.to_bytes(), c.puzzle_hash.to_bytes(), c.amount, h.as_ref().map(|b| b.as_ref().to_vec()))).collect();
    got_add.sort();
    if want_add != got_add {
        let coins_equal = want_add.iter().map(|a| (a.0, a.1, a.2)).collect::<Vec<_>>() == got_add.iter().map(|a| (a.0, a.1, a.2)).collect::<Vec<_>>();
        if coins_equal {
            let diff: Vec<String> = want_add.iter().zip(got_add.iter()).filter(|(w, g)| w.3 != g.3).map(|(w, g)| format!("validated hint {:?} vs trusted hint {:?}", w.3.as_ref().map(hex::encode), g.3.as_ref().map(hex::encode))).collect();
            let empty = want_add.iter().zip(got_add.iter()).filter(|(w, g)| w.3 != g.3).all(|(w, g)| w.3.is_none() && g.3.as_deref() == Some(&[][..]));
            return Err((if empty { "additions_and_removals/hint/empty-first-memo".into() } else { "additions_and_removals/hint".into() }, format!("{diff:?}")));
        }
        return Err(("additions_and_removals/additions".into(), format!("validated {want_add:?}\ntrusted   {got_add:?}")));
    }
    // 2. coin spends for a trusted block, rebuilt into a generator
    let gprog = Program::from(p.bytes.clone());
    let css = get_coinspends_for_trusted_block(constants, &gprog, refs.iter().copied(), flags).map_err(|e| ("get_coinspends/rejects".to_string(), format!("{e:?}")))?;
    let cswc = get_coinspends_with_conditions_for_trusted_block(constants, &gprog, refs.iter().copied(), flags).map_err(|e| ("get_coinspends_with_conditions/rejects".to_string(), format!("{e:?}")))?;
    if cswc.iter().map(|c| &c.0).collect::<Vec<_>>() != css.iter().collect::<Vec<_>>() {
        return Err(("get_coinspends_with_conditions/differs".into(), "coin spends of the two helpers differ".into()));
    }
    if css.iter().map(|c| c.coin.coin_id().to_bytes()).collect::<Vec<_>>() != want_rem.iter().map(|r| r.0).collect::<Vec<_>>() {
        return Err(("get_coinspends/coins".into(), "recovered coin spends are not the validated spends in order".into()));
    }
    // CREATE_COIN conditions reported per spend = validated outputs (ph, amount)
    for (i, (_, conds)) in cswc.iter().enumerate() {
        let mut got: Vec<(Vec<u8>, Vec<u8>)> = conds.iter().filter(|(o, _)| *o == 51).map(|(_, a)| (a.first().cloned().unwrap_or_default(), a.get(1).cloned().unwrap_or_default())).collect();
        got.sort();
        let mut want: Vec<(Vec<u8>, Vec<u8>)> = full.summary.spends[i].create_coin.iter().map(|(ph, am, _)| (ph.to_vec(), enc_u64(*am))).collect();
        want.sort();
        if got != want {
            return Err(("get_coinspends_with_conditions/create-coin".into(), format!("spend {i}: reported CREATE_COIN args {got:?}, validated {want:?}")));
        }
    }
    if css.iter().any(|c| c.puzzle_reveal.as_ref() == [0x80] || c.solution.as_ref() == [0x80]) && p.name.starts_with("corpus/") {
        // get_coinspends_for_trusted_block substitutes nil for reveals whose plain serialisation
        // exceeds 2 MB (documented there); nothing to rebuild from
        *buckets.entry("corpus-generator-with-dropped-reveal".into()).or_insert(0) += 1;
        return Ok(true);
    }
    let rebuilt = solution_generator(css.iter().map(|c| (c.coin, c.puzzle_reveal.as_ref(), c.solution.as_ref()))).map_err(|e| ("rebuild/error".to_string(), format!("{e:?}")))?;
    let re = match run_gen2(&rebuilt, &[], MAX_BLOCK, flags, &sig, constants) {
        Ok(r) => r,
        // the uncompressed rebuild of a compressed / procedural corpus block may exceed cost or heap
        Err(e) if p.name.starts_with("corpus/") && matches!(e, chia_consensus::validation_error::ValidationErr::Err(chia_consensus::validation_error::ErrorCode::CostExceeded) | chia_consensus::validation_error::ValidationErr::Eval(clvmr::error::EvalErr::OutOfMemory | clvmr::error::EvalErr::TooManyPairs | clvmr::error::EvalErr::TooManyAtoms)) => {
            *buckets.entry("corpus-rebuild-exceeds-resources".into()).or_insert(0) += 1;
            return Ok(true);
        }
        Err(e) => return Err(("rebuild/rejected".to_string(), format!("generator rebuilt from the recovered coin spends is rejected: {e:?}"))),
    };
    let mut s1 = full.summary.clone();
    let mut s2 = re.summary.clone();
    s1.spends.sort();
    s2.spends.sort();
    s1.agg_sig_unsafe.sort();
    s2.agg_sig_unsafe.sort();
    if s1 != s2 {
        return Err(("rebuild/conditions".into(), format!("original {s1:?}\nrebuilt  {s2:?}")));
    }
    // 3. puzzle and solution lookup for every removed coin
    {
        let mut a = Allocator::new();
        let program = clvmr::serde::node_from_bytes_backrefs(&mut a, &p.bytes).map_err(|e| ("harness/parse".to_string(), format!("{e:?}")))?;
        let args = setup_generator_args(&mut a, refs.iter().copied(), flags).map_err(|e| ("harness/args".to_string(), format!("{e:?}")))?;
        let dialect = clvmr::chia_dialect::ChiaDialect::new(flags.to_clvm_flags());
        let out = clvmr::run_program::run_program(&mut a, &dialect, program, args, MAX_BLOCK).map_err(|e| ("harness/run".to_string(), format!("{e:?}")))?.1;
        let out_sx = Sx::from_node(&a, out);
        let (spend_list, _) = out_sx.as_pair().ok_or(("harness/output".to_string(), "not a pair".to_string()))?;
        let (tuples, _) = spend_list.unlist();
        for (i, r) in want_rem.iter().enumerate() {
            let coin = Coin::new(Bytes32::new(r.1), Bytes32::new(r.2), r.3);
            let (pz, sol) = get_puzzle_and_solution_for_coin(&a, out, &coin).map_err(|e| ("get_puzzle_and_solution/not-found".to_string(), format!("coin {} : {e:?}", hex::encode(r.0))))?;
            let (fields, _) = tuples[i].unlist();
            let got_p = Sx::from_node(&a, pz);
            let got_s = Sx::from_node(&a, sol);
            // the same coin may be findable at an earlier identical tuple; compare by tree hash
            if got_p.tree_hash() != fields[1].tree_hash() || got_s.tree_hash() != fields[3].tree_hash() {
                // allowed only if another spend of the same coin precedes (impossible: double spends are rejected)
                return Err(("get_puzzle_and_solution/wrong".into(), format!("coin {}: returned puzzle/solution do not hash to the spend's", hex::encode(r.0))));
            }
        }
    }
    // 4. SpendBundle::additions
    if let Some(spends) = &p.spends {
        let b = SpendBundle::new(spends.iter().map(GSpend::coin_spend).collect(), sig.clone());
        let pair_opcode = spends.iter().any(|s| {
            // identity / quoted puzzles: the condition list is the solution or the quoted value
            let conds = if s.solution.is_nil() { s.puzzle.as_pair().map(|p| p.1.clone()).unwrap_or(Sx::nil()) } else { s.solution.clone() };
            conds.unlist().0.iter().any(|c| c.as_pair().is_some_and(|(op, _)| op.as_pair().is_some()))
        });
        let adds = match b.additions() {
            Ok(a) => a,
            Err(e) if pair_opcode => {
                // recorded finding: additions() refuses what consensus ignores; the rest of this
                // generator's checks already passed, nothing left to compare
                SIDE.with(|c| c.borrow_mut().push(("SpendBundle::additions/pair-opcode-rejected".to_string(), format!("{e:?}"))));
                *buckets.entry("agree/except-additions-pair-opcode".into()).or_insert(0) += 1;
                return Ok(true);
            }
            Err(e) => return Err(("SpendBundle::additions/error".to_string(), format!("{e:?}"))),
        };
        let mut got: Vec<([u8; 32], [u8; 32], u64)> = adds.iter().map(|c| (c.parent_coin_info.to_bytes(), c.puzzle_hash.to_bytes(), c.amount)).collect();
        got.sort();
        let want: Vec<([u8; 32], [u8; 32], u64)> = want_add.iter().map(|a| (a.0, a.1, a.2)).collect();
        if got != want {
            return Err(("SpendBundle::additions/differs".into(), format!("validated {want:?}\nadditions() {got:?}")));
        }
    }
    *buckets.entry(format!("agree/spends{}/outputs{}", want_rem.len().min(3), match want_add.len() { n @ 0..=4 => n.to_string(), 5..=99 => "5-99".to_string(), _ => "100+".to_string() })).or_insert(0) += 1;
    Ok(true)
}

fn run(rep: &Report) {
    let env = drive::env();
    let thorough = rep.tier == mc::Tier::Thorough;
    let progs = programs(&env, thorough);
    rep.set_rule("generators: CREATE_COIN with 11 memo shapes x all 23 length-class boundary amounts on a 2^64-1 coin; every ordered pair of interaction letters on one spend (quick: pairs involving a CREATE_COIN letter); 23 spent-coin amounts; every interaction letter alone and in a two-spend block with hinted outputs; a 7-condition spend mixing hinted / unhinted / unknown-opcode conditions; 9000 REMARKs around 3 outputs and 4000 outputs on one spend (the helpers' own cost bookkeeping); an ephemeral chain; spend-level extra field; output extension; two procedural generators (one reading a block reference); each plainly serialised and back-reference compressed; flags {none, COST_CONDITIONS, MEMPOOL_MODE}. thorough adds the recorded generators of /repo/generator-tests below 400 kB. Only generators accepted by run_block_generator2 are compared. distinct = distinct generator byte strings");
    rep.assume("additions compared as sorted multisets of (parent id, puzzle hash, amount, hint); hint absent and hint = nil are the same observation on the validated side");
    let mut progs = progs;
    if thorough {
        for (name, bytes, refs) in mc::corpus::generator_tests(400_000) {
            progs.push(Prog { name: format!("corpus/{name}"), bytes, refs, spends: None });
        }
    }
    rep.extra("programs", json!(progs.len()));
    let flagsets = [("none", ConsensusFlags::DONT_VALIDATE_SIGNATURE), ("C", ConsensusFlags::DONT_VALIDATE_SIGNATURE | ConsensusFlags::COST_CONDITIONS), ("M", ConsensusFlags::DONT_VALIDATE_SIGNATURE | chia_consensus::flags::MEMPOOL_MODE)];
    progs.par_chunks(8).for_each(|chunk| {
        let mut b = BTreeMap::new();
        let mut n = 0u64;
        for p in chunk {
            for (fname, f) in flagsets {
                n += 1;
                let case = json!({"name": p.name, "program": hex::encode(&p.bytes), "refs": p.refs.iter().map(hex::encode).collect::<Vec<_>>(), "flags": f.bits(), "spends": p.spends.as_ref().map(|s| s.iter().map(|s| json!({"parent": hex::encode(s.parent), "amount": s.amount, "puzzle": hex::encode(s.puzzle.serialize()), "solution": hex::encode(s.solution.serialize())})).collect::<Vec<_>>())});
                let res = catch(|| check(p, f, &mut b));
                for (sig, d) in SIDE.with(|c| std::mem::take(&mut *c.borrow_mut())) {
                    rep.violation(&format!("C09/{sig}"), case.clone(), format!("{} flags {fname}: {d}", p.name));
                }
                match res {
                    Ok(Ok(true)) => rep.distinct(fxhash(&p.bytes)),
                    Ok(Ok(false)) => {}
                    Ok(Err((sig, d))) => rep.violation(&format!("C09/{sig}"), case, format!("{} flags {fname}: {d}", p.name)),
                    Err(pn) => rep.violation("C09/panic", case, format!("{}: {pn}", p.name)),
                }
            }
        }
        rep.evals(n);
        for (k, v) in b {
            rep.outcome_n(&k, v);
        }
    });
    rep.sample(json!({"generator": "memo/(nil)/0x1", "meaning": "(51 PH2 1 (()))  — first memo is the empty atom"}));
    rep.sample(json!({"generator": "proc/parent-from-ref1", "refs": ["71..", "72.."]}));
}

fn replay(case: &Value) -> String {
    let spends = case["spends"].as_array().map(|v| v.iter().map(|s| GSpend {
        parent: hex::decode(s["parent"].as_str().unwrap()).unwrap().try_into().unwrap(),
        amount: s["amount"].as_u64().unwrap(),
        puzzle: Sx::parse(&hex::decode(s["puzzle"].as_str().unwrap()).unwrap()).unwrap(),
        solution: Sx::parse(&hex::decode(s["solution"].as_str().unwrap()).unwrap()).unwrap(),
    }).collect::<Vec<_>>());
    let p = Prog { name: case["name"].as_str().unwrap().into(), bytes: hex::decode(case["program"].as_str().unwrap()).unwrap(), refs: case["refs"].as_array().unwrap().iter().map(|r| hex::decode(r.as_str().unwrap()).unwrap()).collect(), spends };
    let mut b = BTreeMap::new();
    format!("{}: {:?}", p.name, check(&p, ConsensusFlags::from_bits_retain(case["flags"].as_u64().unwrap() as u32), &mut b))
}

fn main() {
    mc::cli::main("C09", "exploration", run, replay)
}
