//! C07 — both block-generator execution paths agree.
//! Engine E, differential: every program of the stated families (quoted spend lists with
//! structural defects, procedural templates, back-reference compressed forms, every proper
//! prefix and every single-byte substitution of each) x block reference lists x flag subsets x
//! cost limits through `run_block_generator` (legacy, ROM in CLVM) and `run_block_generator2`
//! (native). Oracle: same verdict, same canonical summary, native cost <= legacy cost; the only
//! asymmetry allowed is a legacy-only rejection by cost / interpreter resource limits.

use chia_bls::Signature;
use chia_consensus::flags::{ConsensusFlags, MEMPOOL_MODE};
use chia_consensus::validation_error::{ErrorCode, ValidationErr};
use clvmr::error::EvalErr;
use mc::drive::{self, H1, P1, P2, PH2};
use mc::genr::{GSpend, PathOut, generator_sx, interned_vbytes_ref, run_gen1, run_gen2, test_constants};
use mc::letters::sigma2;
use mc::monitor::check_accepted;
use mc::report::{Report, catch, fxhash};
use mc::sx::Sx;
use rayon::prelude::*;
use serde_json::{Value, json};
use std::collections::BTreeMap;

const MAX_BLOCK: u64 = 11_000_000_000;

fn op(o: u8, args: &[Sx]) -> Sx {
    let mut v = vec![Sx::atom(&[o])];
    v.extend_from_slice(args);
    Sx::list(&v)
}
fn q(x: Sx) -> Sx {
    Sx::cons(Sx::int(1), x)
}

/// (name, program tree)
fn base_programs(env: &mc::refcond::Env) -> Vec<(String, Sx)> {
    let s2 = sigma2(env);
    let mut v: Vec<(String, Sx)> = Vec::new();
    // (a) quoted spend lists: puzzle kinds x a selection of condition letters
    let cond_sets: Vec<(String, Vec<Sx>)> = {
        let mut c: Vec<(String, Vec<Sx>)> = vec![("none".into(), vec![])];
        for (n, s) in s2.iter() {
            c.push((n.clone(), vec![s.clone()]));
        }
        c.push(("cc+fee".into(), vec![drive::cond(51, &[Sx::atom(&PH2), Sx::int(3)]), drive::cond(52, &[Sx::int(2)])]));
        c
    };
    for (cn, conds) in &cond_sets {
        let cl = Sx::list(conds);
        for (pn, sp) in [("identity", GSpend::identity(P1, 5, cl.clone())), ("quoted", GSpend::quoted(P1, 5, cl.clone()))] {
            v.push((format!("q/{pn}/{cn}"), generator_sx(&[sp])));
        }
    }
    let cc = Sx::list(&[drive::cond(51, &[Sx::atom(&PH2), Sx::int(3)])]);
    // puzzles that fail or return improper lists
    let bad_puzzles: Vec<(&str, Sx, Sx)> = vec![
        ("raise", op(8, &[]), Sx::nil()),
        ("improper-conds", q(Sx::list_term(&[drive::cond(51, &[Sx::atom(&PH2), Sx::int(3)])], Sx::atom(&[1]))), Sx::nil()),
        ("atom-conds", q(Sx::atom(&[5])), Sx::nil()),
        ("cond-is-atom", q(Sx::list(&[Sx::atom(&[51])])), Sx::nil()),
        ("divzero", op(19, &[q(Sx::int(1)), q(Sx::nil())]), Sx::nil()),
        ("path-into-atom", Sx::int(7), Sx::atom(&[1])),
        ("unknown-op", op(0x55, &[q(Sx::int(1))]), Sx::nil()),
        ("softfork-op", op(36, &[q(Sx::int(100)), q(Sx::nil()), q(Sx::nil()), q(Sx::nil())]), Sx::nil()),
    ];
    for (n, p, s) in &bad_puzzles {
        v.push((format!("q/puzzle-{n}"), generator_sx(&[GSpend { parent: P1, amount: 5, puzzle: p.clone(), solution: s.clone() }])));
    }
    // two spends, double spend, shared puzzle
    v.push(("q/two".into(), generator_sx(&[GSpend::identity(P1, 5, cc.clone()), GSpend::identity(P2, 7, Sx::nil())])));
    v.push(("q/double".into(), generator_sx(&[GSpend::identity(P1, 5, Sx::nil()), GSpend::identity(P1, 5, Sx::nil())])));
    v.push(("q/empty".into(), generator_sx(&[])));
    // structural skeletons around one good spend tuple
    let good = GSpend::identity(P1, 5, cc.clone());
    let fields = vec![Sx::atom(&good.parent), good.puzzle.clone(), Sx::int(5), good.solution.clone()];
    let mut tuples: Vec<(String, Sx)> = vec![];
    for n in 0..4 {
        tuples.push((format!("trunc{n}"), Sx::list(&fields[..n])));
    }
    let mut ext = fields.clone();
    ext.push(Sx::atom(&H1));
    tuples.push(("extra-field".into(), Sx::list(&ext)));
    tuples.push(("atom-term".into(), Sx::list_term(&fields, Sx::atom(&[1]))));
    tuples.push(("tuple-atom".into(), Sx::atom(&P1)));
    tuples.push(("tuple-nil".into(), Sx::nil()));
    for (i, bad) in [(0usize, Sx::atom(&[0x11; 31])), (0, Sx::cons(Sx::atom(&P1), Sx::nil())), (2, Sx::atom(&[0, 5])), (2, Sx::atom(&[0xff])), (2, Sx::cons(Sx::int(5), Sx::nil())), (2, Sx::atom(&[1, 0, 0, 0, 0, 0, 0, 0, 0]))] {
        let mut f2 = fields.clone();
        f2[i] = bad;
        tuples.push((format!("field{i}-bad"), Sx::list(&f2)));
    }
    for (tn, t) in &tuples {
        for (sn, term) in [("nil", Sx::nil()), ("01", Sx::atom(&[1]))] {
            let sl = Sx::list_term(&[t.clone()], term);
            v.push((format!("q/struct/{tn}/{sn}"), q(Sx::list(&[sl.clone()]))));
            v.push((format!("q/struct/{tn}/{sn}/ext"), q(Sx::cons(sl.clone(), Sx::atom(&H1)))));
        }
    }
    let sl = Sx::list(&[good.tuple()]);
    v.push(("q/out-atom".into(), q(Sx::atom(&[5]))));
    v.push(("q/out-nil".into(), q(Sx::nil())));
    v.push(("q/out-spendlist-only".into(), q(sl.clone())));
    v.push(("q/out-extras".into(), q(Sx::list(&[sl.clone(), Sx::atom(&H1), Sx::atom(&H1)]))));
    // (b) procedural templates
    let spends_q = q(sl.clone());
    v.push(("p/cons".into(), op(4, &[spends_q.clone(), q(Sx::nil())])));
    v.push(("p/cons-extras".into(), op(4, &[spends_q.clone(), q(Sx::atom(&H1))])));
    // parent id read from the first / second block reference
    let first_ref = op(5, &[op(5, &[op(6, &[Sx::int(1)])])]);
    let second_ref = op(5, &[op(6, &[op(5, &[op(6, &[Sx::int(1)])])])]);
    for (n, r) in [("ref1", first_ref.clone()), ("ref2", second_ref.clone())] {
        let tuple = op(4, &[r, q(Sx::list(&[good.puzzle.clone(), Sx::int(5), good.solution.clone()]))]);
        let list = op(4, &[tuple, q(Sx::nil())]);
        v.push((format!("p/parent-from-{n}"), op(4, &[list, q(Sx::nil())])));
    }
    // puzzle hash of the created coin from ref2, parent from ref1 (order sensitivity)
    {
        let cond = op(4, &[q(Sx::atom(&[51])), op(4, &[second_ref.clone(), q(Sx::list(&[Sx::int(3)]))])]);
        let conds = op(4, &[cond, q(Sx::nil())]);
        let tuple = op(4, &[first_ref.clone(), op(4, &[q(Sx::int(1)), op(4, &[q(Sx::int(5)), op(4, &[conds, q(Sx::nil())])])])]);
        let list = op(4, &[tuple, q(Sx::nil())]);
        v.push(("p/refs-ordered".into(), op(4, &[list, q(Sx::nil())])));
    }
    // apply a quoted sub-program (one level of recursion through `a`)
    v.push(("p/apply".into(), op(2, &[q(op(4, &[spends_q.clone(), q(Sx::nil())])), Sx::int(1)])));
    // uses the deserialiser argument as data only
    v.push(("p/if-deser".into(), op(3, &[op(7, &[op(5, &[Sx::int(1)])]), q(Sx::list(&[sl.clone()])), q(Sx::nil())])));
    v.push(("p/raise".into(), op(8, &[])));
    v.push(("p/atom".into(), q(Sx::atom(&[5]))));
    v.push(("p/path".into(), Sx::int(1)));
    v
}

fn plain(s: &Sx) -> Vec<u8> {
    s.serialize()
}

fn backrefs(s: &Sx) -> Vec<u8> {
    let mut a = clvmr::Allocator::new();
    let n = s.to_node(&mut a);
    clvmr::serde::node_to_bytes_backrefs(&a, n).expect("serialize")
}

fn resource_error(e: &ValidationErr) -> bool {
    matches!(
        e,
        ValidationErr::Err(ErrorCode::CostExceeded)
            | ValidationErr::Eval(EvalErr::TooManyPairs)
            | ValidationErr::Eval(EvalErr::TooManyAtoms)
            | ValidationErr::Eval(EvalErr::OutOfMemory)
            | ValidationErr::Eval(EvalErr::ValueStackLimitReached(_))
            | ValidationErr::Eval(EvalErr::EnvironmentStackLimitReached(_))
    )
}

fn flag_sets(thorough: bool) -> Vec<(String, ConsensusFlags)> {
    let atoms: [(&str, ConsensusFlags); 5] = [("M", MEMPOOL_MODE), ("C", ConsensusFlags::COST_CONDITIONS), ("G", ConsensusFlags::SIMPLE_GENERATOR), ("L", ConsensusFlags::LIMIT_SPENDS), ("I", ConsensusFlags::INTERNED_GENERATOR)];
    let mut v = Vec::new();
    for bits in 0..32u32 {
        let _ = thorough;
        let mut f = ConsensusFlags::DONT_VALIDATE_SIGNATURE;
        let mut n = String::new();
        for (i, (name, fl)) in atoms.iter().enumerate() {
            if bits & (1 << i) != 0 {
                f |= *fl;
                n += name;
            } else {
                n += "-";
            }
        }
        v.push((n, f));
    }
    v
}

fn ref_lists() -> Vec<(String, Vec<Vec<u8>>)> {
    vec![("none".into(), vec![]), ("[80]".into(), vec![vec![0x80]]), ("[g1]".into(), vec![vec![0x71; 32]]), ("[g1,g2]".into(), vec![vec![0x71; 32], vec![0x72; 32]])]
}

struct Local {
    evals: u64,
    b: BTreeMap<String, u64>,
    d: Vec<u64>,
}

fn compare(program: &[u8], refs: &[Vec<u8>], flags: ConsensusFlags, limit: u64) -> (Result<PathOut, ValidationErr>, Result<PathOut, ValidationErr>) {
    let sig = Signature::default();
    let c = test_constants();
    (run_gen1(program, refs, limit, flags, &sig, c), run_gen2(program, refs, limit, flags, &sig, c))
}

/// one (program, refs, flags) case incl. its limit sweep
fn check(program: &[u8], refs: &[Vec<u8>], flags: ConsensusFlags, sweep: bool, loc: &mut Local) -> Result<&'static str, (String, String)> {
    let cpb = test_constants().cost_per_byte;
    let (r1, r2) = compare(program, refs, flags, MAX_BLOCK);
    loc.evals += 2;
    let mut limits: Vec<u64> = Vec::new();
    let verdict = judge(program, flags, &r1, &r2, cpb)?;
    let f7_active = verdict == "both-accept/native-dearer-by-interned-size-term";
    if let Ok(o) = &r2 {
        check_accepted(&o.summary, None).map_err(|(s, d)| (format!("monitor/{s}"), d))?;
        limits.push(o.cost);
        limits.push(o.cost.saturating_sub(1));
    }
    if let Ok(o) = &r1 {
        limits.push(o.cost);
        limits.push(o.cost.saturating_sub(1));
    }
    // the byte cost alone: after charging it the remaining budget is exactly 0, which the CLVM
    // interpreter reads as "unlimited" unless the caller checks
    let byte_cost = program.len() as u64 * cpb;
    limits.extend([byte_cost.saturating_sub(1), byte_cost, byte_cost + 1]);
    if sweep {
        limits.sort_unstable();
        limits.dedup();
        for l in limits {
            let (a, b) = compare(program, refs, flags, l);
            loc.evals += 2;
            match judge(program, flags, &a, &b, cpb) {
                Ok(_) => {}
                // a limit between the two totals when the native total is the larger one only because
                // of the interned size term: same root cause as the known finding
                Err((s, d)) if f7_active && s.starts_with("native-rejects-legacy-accepts/cost-exceeded") => {
                    F7.with(|c| *c.borrow_mut() = Some(format!("limit {l}: {d} (consequence of the interned size term)")));
                }
                Err((s, d)) => return Err((format!("{s}@limit"), format!("limit {l}: {d}"))),
            }
        }
    }
    Ok(verdict)
}

thread_local! {
    /// set by `judge` when the only disagreement is the known INTERNED_GENERATOR size-term asymmetry
    static F7: std::cell::RefCell<Option<String>> = const { std::cell::RefCell::new(None) };
}

fn take_f7() -> Option<String> {
    F7.with(|c| c.borrow_mut().take())
}

fn judge(program: &[u8], flags: ConsensusFlags, r1: &Result<PathOut, ValidationErr>, r2: &Result<PathOut, ValidationErr>, cpb: u64) -> Result<&'static str, (String, String)> {
    match (r1, r2) {
        (Err(_), Err(_)) => Ok("both-reject"),
        (Ok(a), Ok(b)) => {
            if a.summary != b.summary {
                return Err(("summary".into(), format!("both accept, summaries differ\nlegacy {:?}\nnative {:?}", a.summary, b.summary)));
            }
            if a.condition_cost != b.condition_cost {
                return Err(("condition-cost".into(), format!("condition cost legacy {} native {}", a.condition_cost, b.condition_cost)));
            }
            if b.cost > a.cost {
                if flags.contains(ConsensusFlags::INTERNED_GENERATOR) {
                    // compare with the size term removed from both sides (harness recomputes both)
                    let mut al = clvmr::Allocator::new();
                    let tree = clvmr::serde::node_from_bytes_backrefs(&mut al, program).map(|n| Sx::from_node(&al, n));
                    if let Ok(t) = tree {
                        let b_rest = b.cost - interned_vbytes_ref(&t) * cpb;
                        let a_rest = a.cost - program.len() as u64 * cpb;
                        if b_rest <= a_rest {
                            F7.with(|c| *c.borrow_mut() = Some(format!("native cost {} > legacy cost {} only because the legacy path charges len*cost_per_byte ({}) while the native path charges interned size ({})", b.cost, a.cost, program.len() as u64 * cpb, interned_vbytes_ref(&t) * cpb)));
                            return Ok("both-accept/native-dearer-by-interned-size-term");
                        }
                    }
                }
                return Err(("cost/native-exceeds-legacy".into(), format!("native cost {} > legacy cost {}", b.cost, a.cost)));
            }
            Ok("both-accept")
        }
        (Err(e), Ok(_)) => {
            if resource_error(e) {
                Ok("legacy-only-reject/resource")
            } else {
                Err(("legacy-rejects-native-accepts".into(), format!("legacy rejects with {e:?}, native accepts")))
            }
        }
        (Ok(_), Err(e)) => {
            let cls = match e {
                ValidationErr::Err(ErrorCode::TooManyGeneratorRefs) => "too-many-generator-refs",
                ValidationErr::Err(ErrorCode::CostExceeded) => "cost-exceeded",
                _ => "other",
            };
            Err((format!("native-rejects-legacy-accepts/{cls}"), format!("legacy accepts, native rejects with {e:?}")))
        }
    }
}

fn run(rep: &Report) {
    let env = drive::env();
    let thorough = rep.tier == mc::Tier::Thorough;
    let bases = base_programs(&env);
    let fsets = flag_sets(thorough);
    let refs = ref_lists();
    rep.set_rule("programs: (a) quoted spend lists = 2 puzzle kinds x ~108 condition letters, 8 failing puzzles, two-spend / double-spend / empty lists, 15 spend-tuple defects x spend-list terminator x output extension, 4 output shapes; (b) 11 procedural templates (cons-built lists, parent id / puzzle hash read from block references 1 and 2, apply, if on the deserialiser, raise, atom, path); each plainly serialised and back-reference compressed; x 4 block reference lists x all 32 flag subsets of {MEMPOOL_MODE, COST_CONDITIONS, SIMPLE_GENERATOR, LIMIT_SPENDS, INTERNED_GENERATOR} x limits {max block, c2, c2-1, c1, c1-1, byte cost -1/0/+1}; (c) deviation bound 1: every proper prefix, every single-byte substitution by {00,01,7f,80,fe,ff}, every single-byte insertion of {00,01,80,81,fe,ff} and every single-byte deletion of every base program of <= 200 bytes under 4 (quick) / 6 (thorough) flag sets; deviation bound 2 (two substitutions) on base programs of <= 24 (quick) / <= 64 (thorough) bytes. thorough also: every recorded mainnet block (block-*) of /repo/generator-tests below 200 kB with single-byte substitutions at 256 evenly spaced positions. distinct = distinct (program bytes)");
    rep.assume("allowed asymmetry: legacy-only rejection with CostExceeded / TooManyPairs / TooManyAtoms / OutOfMemory / stack-limit errors");

    // base programs, all dimensions
    let mut work: Vec<(String, Vec<u8>)> = Vec::new();
    for (n, p) in &bases {
        work.push((format!("{n}/plain"), plain(p)));
        let b = backrefs(p);
        if b != plain(p) {
            work.push((format!("{n}/backrefs"), b));
        }
    }
    rep.extra("base_programs", json!(work.len()));
    work.par_iter().for_each(|(name, prog)| {
        let mut loc = Local { evals: 0, b: BTreeMap::new(), d: vec![] };
        for (rn, rl) in &refs {
            for (fname, f) in &fsets {
                let case = json!({"program": hex::encode(prog), "refs": rl.iter().map(hex::encode).collect::<Vec<_>>(), "flags": f.bits(), "name": name});
                let res = catch(|| check(prog, rl, *f, true, &mut loc));
                if let Some(d) = take_f7() {
                    rep.violation("C07/cost/interned-base-cost-exceeds-legacy", case.clone(), format!("{name} refs {rn} flags {fname}: {d}"));
                }
                match res {
                    Ok(Ok(v)) => *loc.b.entry(format!("base/{v}")).or_insert(0) += 1,
                    Ok(Err((sig, d))) => {
                        let _ = (rn, fname);
                        // root-cause signature: the two structural asymmetries are named by their
                        // trigger, everything else by the kind of disagreement and the program family
                        let s = if sig.starts_with("cost/interned-base-cost-exceeds-legacy") {
                            "C07/cost/interned-base-cost-exceeds-legacy".to_string()
                        } else if sig.starts_with("native-rejects-legacy-accepts/too-many-generator-refs") && f.contains(ConsensusFlags::SIMPLE_GENERATOR) && !rl.is_empty() {
                            "C07/native-rejects-legacy-accepts/simple-generator-with-block-refs".to_string()
                        } else {
                            format!("C07/{sig}/{}", name.split('/').take(2).collect::<Vec<_>>().join("/"))
                        };
                        rep.violation(&s, case, format!("{name} refs {rn} flags {fname}: {d}"));
                    }
                    Err(p) => rep.violation("C07/panic", case, format!("{name}: {p}")),
                }
            }
        }
        loc.d.push(fxhash(prog));
        rep.evals(loc.evals);
        for (k, n) in loc.b {
            rep.outcome_n(&k, n);
        }
        rep.distinct_many(loc.d);
    });

    // (c) deviations
    let dev_flags: Vec<(String, ConsensusFlags)> = fsets.iter().filter(|(n, _)| n == "-----" || n == "MCGLI" || n == "-C---" || n == "M----" || (thorough && (n == "----I" || n == "--G--"))).cloned().collect();
    let subs = [0x00u8, 0x01, 0x7f, 0x80, 0xfe, 0xff];
    let dev_bases: Vec<&(String, Vec<u8>)> = work.iter().enumerate().filter(|(i, (_, p))| { let _ = i; p.len() <= 200 }).map(|(_, w)| w).collect();
    rep.extra("deviation_base_programs", json!(dev_bases.len()));
    dev_bases.par_iter().for_each(|(name, prog)| {
        let mut loc = Local { evals: 0, b: BTreeMap::new(), d: vec![] };
        let mut variants: Vec<Vec<u8>> = Vec::new();
        for n in 0..prog.len() {
            variants.push(prog[..n].to_vec());
        }
        for i in 0..prog.len() {
            for s in subs {
                if prog[i] != s {
                    let mut v = prog.clone();
                    v[i] = s;
                    variants.push(v);
                }
            }
        }
        // single-byte insertions (e.g. 81 before a one-byte atom = over-long length prefix) and deletions
        for i in 0..=prog.len() {
            for s in [0x00u8, 0x01, 0x80, 0x81, 0xfe, 0xff] {
                let mut v = prog.clone();
                v.insert(i, s);
                variants.push(v);
            }
        }
        for i in 0..prog.len() {
            let mut v = prog.clone();
            v.remove(i);
            variants.push(v);
        }
        if prog.len() <= (if thorough { 64 } else { 24 }) {
            for i in 0..prog.len() {
                for j in (i + 1)..prog.len() {
                    for s1 in subs {
                        for s2 in subs {
                            if prog[i] != s1 && prog[j] != s2 {
                                let mut v = prog.clone();
                                v[i] = s1;
                                v[j] = s2;
                                variants.push(v);
                            }
                        }
                    }
                }
            }
        }
        for v in &variants {
            for (fname, f) in &dev_flags {
                let case = json!({"program": hex::encode(v), "refs": [], "flags": f.bits(), "name": format!("{name}/deviation")});
                let res = catch(|| check(v, &[], *f, false, &mut loc));
                if let Some(d) = take_f7() {
                    rep.violation("C07/cost/interned-base-cost-exceeds-legacy", case.clone(), format!("{name} deviation flags {fname}: {d}"));
                }
                match res {
                    Ok(Ok(r)) => *loc.b.entry(format!("dev/{r}")).or_insert(0) += 1,
                    Ok(Err((sig, d))) => {
                        let s = if sig.starts_with("cost/interned-base-cost-exceeds-legacy") { "C07/cost/interned-base-cost-exceeds-legacy".to_string() } else { format!("C07/{sig}/deviation") };
                        rep.violation(&s, case, format!("{name} deviation {} flags {fname}: {d}", hex::encode(v)));
                    }
                    Err(p) => rep.violation("C07/panic", case, format!("{name}: {p}")),
                }
            }
            loc.d.push(fxhash(v));
        }
        rep.evals(loc.evals);
        for (k, n) in loc.b {
            rep.outcome_n(&k, n);
        }
        rep.distinct_many(loc.d);
    });
    // thorough: recorded blocks as further seeds, substitutions at 256 evenly spaced positions
    if thorough {
        let corpus: Vec<_> = mc::corpus::generator_tests(200_000).into_iter().filter(|c| c.0.starts_with("block-")).collect();
        rep.extra("corpus_generators", json!(corpus.len()));
        let f0 = ConsensusFlags::DONT_VALIDATE_SIGNATURE;
        corpus.par_iter().for_each(|(name, prog, refs)| {
            let mut loc = Local { evals: 0, b: BTreeMap::new(), d: vec![] };
            let mut variants: Vec<Vec<u8>> = vec![prog.clone()];
            let step = (prog.len() / 256).max(1);
            for i in (0..prog.len()).step_by(step) {
                for s in subs {
                    if prog[i] != s {
                        let mut v = prog.clone();
                        v[i] = s;
                        variants.push(v);
                    }
                }
            }
            for v in &variants {
                let case = json!({"program": hex::encode(v), "refs": refs.iter().map(hex::encode).collect::<Vec<_>>(), "flags": f0.bits(), "name": format!("corpus/{name}")});
                let res = catch(|| check(v, refs, f0, false, &mut loc));
                let _ = take_f7();
                match res {
                    Ok(Ok(r)) => *loc.b.entry(format!("corpus/{r}")).or_insert(0) += 1,
                    Ok(Err((sig, d))) => rep.violation(&format!("C07/{sig}/corpus"), case, format!("corpus/{name}: {d}")),
                    Err(p) => rep.violation("C07/panic", case, format!("corpus/{name}: {p}")),
                }
                loc.d.push(fxhash(v));
            }
            rep.evals(loc.evals);
            for (k, n) in loc.b {
                rep.outcome_n(&k, n);
            }
            rep.distinct_many(loc.d);
        });
    }
    rep.sample(json!({"program": "p/refs-ordered", "tree": format!("{:?}", bases.iter().find(|b| b.0 == "p/refs-ordered").unwrap().1), "refs": ["71..71", "72..72"]}));
    rep.sample(json!({"program": "q/struct/trunc3/nil", "meaning": "quoted spend list whose only spend tuple lacks the solution field"}));
}

fn replay(case: &Value) -> String {
    let prog = hex::decode(case["program"].as_str().unwrap()).unwrap();
    let refs: Vec<Vec<u8>> = case["refs"].as_array().unwrap().iter().map(|r| hex::decode(r.as_str().unwrap()).unwrap()).collect();
    let flags = ConsensusFlags::from_bits_retain(case["flags"].as_u64().unwrap() as u32);
    let (r1, r2) = compare(&prog, &refs, flags, MAX_BLOCK);
    let d = |r: &Result<PathOut, ValidationErr>| match r {
        Ok(o) => format!("Ok cost {} condition_cost {} spends {}", o.cost, o.condition_cost, o.summary.spends.len()),
        Err(e) => format!("Err {e:?}"),
    };
    format!("flags {flags:?}\nlegacy: {}\nnative: {}\njudgement: {:?}", d(&r1), d(&r2), judge(&prog, flags, &r1, &r2, test_constants().cost_per_byte))
}

fn main() {
    mc::cli::main("C07", "exploration", run, replay)
}
