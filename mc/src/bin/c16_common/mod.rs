//! Reference arithmetic for C16, written from the definitions (BLS12-381 parameters, the
//! ZCash/IETF compressed point encoding, "subgroup = killed by r") on top of num-bigint.
//! Deliberately boring: schoolbook Fp / Fp2, Jacobian double-and-add, no endomorphisms,
//! no Montgomery form, nothing shared with blst or with the code under test.

use num_bigint::{BigInt, BigUint, Sign};

pub const P_HEX: &str = "1a0111ea397fe69a4b1ba7b6434bacd764774b84f38512bf6730d2a0f6b0f6241eabfffeb153ffffb9feffffffffaaab";
pub const R_HEX: &str = "73eda753299d7d483339d80809a1d80553bda402fffe5bfeffffffff00000001";

/// compressed generators as printed in the BLS12-381 specification (draft-irtf-cfrg-pairing-friendly-curves)
pub const G1_GEN_HEX: &str = "97f1d3a73197d7942695638c4fa9ac0fc3688c4f9774b905a14e3a3f171bac586c55e83ff97a1aeffb3af00adb22c6bb";
pub const G2_GEN_HEX: &str = "93e02b6052719f607dacd3a088274f65596bd0d09920b61ab5da61bbdc7f5049334cf11213945d57e5ac7d055d042b7e024aa2b2f08f0a91260805272dc51051c6e47ad4fa403b02b4510b647ae3d1770bac0326a805bbefd48056c8c121bdb8";

pub fn big(hex: &str) -> BigUint {
    BigUint::parse_bytes(hex.as_bytes(), 16).expect("hex constant")
}

fn zero() -> BigUint {
    BigUint::from(0u32)
}
fn is_zero(a: &BigUint) -> bool {
    a.bits() == 0
}

pub struct Field {
    pub p: BigUint,
    pub r: BigUint,
    half: BigUint,     // (p-1)/2
    sqrt_exp: BigUint, // (p+1)/4   (p = 3 mod 4)
    inv_exp: BigUint,  // p-2
    pp: BigUint,       // p*p
}

#[derive(Clone, Debug, PartialEq, Eq)]
pub struct Fp2 {
    pub c0: BigUint,
    pub c1: BigUint,
}

/// Jacobian point, infinity <=> z == 0
#[derive(Clone, Debug)]
pub struct Jac {
    x: Fp2,
    y: Fp2,
    z: Fp2,
}

#[derive(Clone, Debug, PartialEq, Eq)]
pub enum Decoded {
    /// the string is not the canonical compressed encoding of any curve point
    Invalid(&'static str),
    Inf,
    /// affine point on the curve
    Point(Fp2, Fp2),
}

#[derive(Clone, Copy, PartialEq, Eq, Debug)]
pub enum Group {
    G1,
    G2,
}

impl Field {
    pub fn new() -> Self {
        let p = big(P_HEX);
        let r = big(R_HEX);
        let one = BigUint::from(1u32);
        assert_eq!(&p % 4u32, BigUint::from(3u32));
        Field {
            half: (&p - &one) >> 1,
            sqrt_exp: (&p + &one) >> 2,
            inv_exp: &p - BigUint::from(2u32),
            pp: &p * &p,
            p,
            r,
        }
    }

    // ---- Fp
    fn add(&self, a: &BigUint, b: &BigUint) -> BigUint {
        let s = a + b;
        if s >= self.p { s - &self.p } else { s }
    }
    fn sub(&self, a: &BigUint, b: &BigUint) -> BigUint {
        if a >= b { a - b } else { a + &self.p - b }
    }
    fn mul(&self, a: &BigUint, b: &BigUint) -> BigUint {
        (a * b) % &self.p
    }
    fn neg(&self, a: &BigUint) -> BigUint {
        if is_zero(a) { zero() } else { &self.p - a }
    }
    fn inv(&self, a: &BigUint) -> BigUint {
        a.modpow(&self.inv_exp, &self.p)
    }
    pub fn sqrt(&self, a: &BigUint) -> Option<BigUint> {
        let s = a.modpow(&self.sqrt_exp, &self.p);
        if self.mul(&s, &s) == *a { Some(s) } else { None }
    }

    // ---- Fp2 = Fp[u]/(u^2+1)
    pub fn f2(&self, c0: u32, c1: u32) -> Fp2 {
        Fp2 { c0: BigUint::from(c0), c1: BigUint::from(c1) }
    }
    fn add2(&self, a: &Fp2, b: &Fp2) -> Fp2 {
        Fp2 { c0: self.add(&a.c0, &b.c0), c1: self.add(&a.c1, &b.c1) }
    }
    fn sub2(&self, a: &Fp2, b: &Fp2) -> Fp2 {
        Fp2 { c0: self.sub(&a.c0, &b.c0), c1: self.sub(&a.c1, &b.c1) }
    }
    fn neg2(&self, a: &Fp2) -> Fp2 {
        Fp2 { c0: self.neg(&a.c0), c1: self.neg(&a.c1) }
    }
    fn mul2(&self, a: &Fp2, b: &Fp2) -> Fp2 {
        if is_zero(&a.c1) && is_zero(&b.c1) {
            return Fp2 { c0: self.mul(&a.c0, &b.c0), c1: zero() };
        }
        // (a0 + a1 u)(b0 + b1 u) = a0 b0 - a1 b1 + (a0 b1 + a1 b0) u ; one reduction per coefficient
        // (p^2 is added before the subtraction so the intermediate stays non-negative)
        let c0 = (&a.c0 * &b.c0 + &self.pp - &a.c1 * &b.c1) % &self.p;
        let c1 = (&a.c0 * &b.c1 + &a.c1 * &b.c0) % &self.p;
        Fp2 { c0, c1 }
    }
    fn sqr2(&self, a: &Fp2) -> Fp2 {
        if is_zero(&a.c1) {
            return Fp2 { c0: self.mul(&a.c0, &a.c0), c1: zero() };
        }
        // (a0 + a1 u)^2 = (a0 + a1)(a0 - a1) + 2 a0 a1 u
        let c0 = ((&a.c0 + &a.c1) * (&a.c0 + &self.p - &a.c1)) % &self.p;
        let c1 = ((&a.c0 * &a.c1) << 1) % &self.p;
        Fp2 { c0, c1 }
    }
    fn dbl2(&self, a: &Fp2) -> Fp2 {
        self.add2(a, a)
    }
    fn is_zero2(&self, a: &Fp2) -> bool {
        is_zero(&a.c0) && is_zero(&a.c1)
    }
    fn inv2(&self, a: &Fp2) -> Fp2 {
        // 1/(a0 + a1 u) = (a0 - a1 u)/(a0^2 + a1^2)
        let n = self.add(&self.mul(&a.c0, &a.c0), &self.mul(&a.c1, &a.c1));
        let ni = self.inv(&n);
        Fp2 { c0: self.mul(&a.c0, &ni), c1: self.mul(&self.neg(&a.c1), &ni) }
    }
    /// square root in Fp2 from the definition: find (x0, x1) with x0^2 - x1^2 = a0, 2 x0 x1 = a1
    pub fn sqrt2(&self, a: &Fp2) -> Option<Fp2> {
        let cand = if is_zero(&a.c1) {
            // a in Fp: either sqrt(a0) or sqrt(-a0) * u
            if let Some(s) = self.sqrt(&a.c0) {
                Fp2 { c0: s, c1: zero() }
            } else {
                let s = self.sqrt(&self.neg(&a.c0))?;
                Fp2 { c0: zero(), c1: s }
            }
        } else {
            let n = self.add(&self.mul(&a.c0, &a.c0), &self.mul(&a.c1, &a.c1));
            let s = self.sqrt(&n)?;
            let two_inv = self.inv(&BigUint::from(2u32));
            let mut t = self.mul(&self.add(&a.c0, &s), &two_inv);
            let mut x0 = self.sqrt(&t);
            if x0.is_none() {
                t = self.mul(&self.sub(&a.c0, &s), &two_inv);
                x0 = self.sqrt(&t);
            }
            let x0 = x0?;
            if is_zero(&x0) {
                return None;
            }
            let x1 = self.mul(&a.c1, &self.inv(&self.dbl(&x0)));
            Fp2 { c0: x0, c1: x1 }
        };
        if self.sqr2(&cand) == *a { Some(cand) } else { None }
    }
    fn dbl(&self, a: &BigUint) -> BigUint {
        self.add(a, a)
    }

    /// "lexicographically largest" of {y, -y} as in the ZCash encoding: compare c1 first, then c0
    fn is_lex_largest(&self, y: &Fp2) -> bool {
        if !is_zero(&y.c1) { y.c1 > self.half } else { y.c0 > self.half }
    }

    pub fn curve_b(&self, g: Group) -> Fp2 {
        match g {
            Group::G1 => self.f2(4, 0),
            Group::G2 => self.f2(4, 4),
        }
    }

    pub fn on_curve(&self, g: Group, x: &Fp2, y: &Fp2) -> bool {
        let rhs = self.add2(&self.mul2(&self.sqr2(x), x), &self.curve_b(g));
        self.sqr2(y) == rhs
    }

    // ---- group law (short Weierstrass, a = 0), Jacobian coordinates
    pub fn jac_inf(&self) -> Jac {
        Jac { x: self.f2(1, 0), y: self.f2(1, 0), z: self.f2(0, 0) }
    }
    pub fn jac_from_affine(&self, x: &Fp2, y: &Fp2) -> Jac {
        Jac { x: x.clone(), y: y.clone(), z: self.f2(1, 0) }
    }
    pub fn jac_is_inf(&self, a: &Jac) -> bool {
        self.is_zero2(&a.z)
    }
    pub fn jac_double(&self, a: &Jac) -> Jac {
        if self.jac_is_inf(a) || self.is_zero2(&a.y) {
            return self.jac_inf();
        }
        let aa = self.sqr2(&a.x);
        let bb = self.sqr2(&a.y);
        let cc = self.sqr2(&bb);
        let xb = self.add2(&a.x, &bb);
        let d = self.dbl2(&self.sub2(&self.sub2(&self.sqr2(&xb), &aa), &cc));
        let e = self.add2(&self.dbl2(&aa), &aa);
        let f = self.sqr2(&e);
        let x3 = self.sub2(&f, &self.dbl2(&d));
        let c8 = self.dbl2(&self.dbl2(&self.dbl2(&cc)));
        let y3 = self.sub2(&self.mul2(&e, &self.sub2(&d, &x3)), &c8);
        let z3 = self.dbl2(&self.mul2(&a.y, &a.z));
        Jac { x: x3, y: y3, z: z3 }
    }
    pub fn jac_add(&self, a: &Jac, b: &Jac) -> Jac {
        if self.jac_is_inf(a) {
            return b.clone();
        }
        if self.jac_is_inf(b) {
            return a.clone();
        }
        let z1z1 = self.sqr2(&a.z);
        let z2z2 = self.sqr2(&b.z);
        let u1 = self.mul2(&a.x, &z2z2);
        let u2 = self.mul2(&b.x, &z1z1);
        let s1 = self.mul2(&self.mul2(&a.y, &b.z), &z2z2);
        let s2 = self.mul2(&self.mul2(&b.y, &a.z), &z1z1);
        if u1 == u2 {
            return if s1 == s2 { self.jac_double(a) } else { self.jac_inf() };
        }
        let h = self.sub2(&u2, &u1);
        let i = self.sqr2(&self.dbl2(&h));
        let j = self.mul2(&h, &i);
        let rr = self.dbl2(&self.sub2(&s2, &s1));
        let v = self.mul2(&u1, &i);
        let x3 = self.sub2(&self.sub2(&self.sqr2(&rr), &j), &self.dbl2(&v));
        let y3 = self.sub2(&self.mul2(&rr, &self.sub2(&v, &x3)), &self.dbl2(&self.mul2(&s1, &j)));
        let zz = self.add2(&a.z, &b.z);
        let z3 = self.mul2(&self.sub2(&self.sub2(&self.sqr2(&zz), &z1z1), &z2z2), &h);
        Jac { x: x3, y: y3, z: z3 }
    }
    pub fn jac_neg(&self, a: &Jac) -> Jac {
        Jac { x: a.x.clone(), y: self.neg2(&a.y), z: a.z.clone() }
    }
    /// k * P by plain left-to-right double-and-add
    pub fn jac_mul(&self, a: &Jac, k: &BigUint) -> Jac {
        let mut acc = self.jac_inf();
        for i in (0..k.bits()).rev() {
            acc = self.jac_double(&acc);
            if k.bit(i) {
                acc = self.jac_add(&acc, a);
            }
        }
        acc
    }
    pub fn jac_to_affine(&self, a: &Jac) -> Option<(Fp2, Fp2)> {
        if self.jac_is_inf(a) {
            return None;
        }
        let zi = self.inv2(&a.z);
        let zi2 = self.sqr2(&zi);
        let zi3 = self.mul2(&zi2, &zi);
        Some((self.mul2(&a.x, &zi2), self.mul2(&a.y, &zi3)))
    }

    /// membership in the prime-order subgroup straight from the definition: r * P = O
    pub fn in_subgroup(&self, x: &Fp2, y: &Fp2) -> bool {
        let p = self.jac_from_affine(x, y);
        self.jac_is_inf(&self.jac_mul(&p, &self.r))
    }

    // ---- compressed encoding (ZCash format)
    pub fn decode(&self, g: Group, s: &[u8]) -> Decoded {
        let n = match g {
            Group::G1 => 48,
            Group::G2 => 96,
        };
        if s.len() != n {
            return Decoded::Invalid("length");
        }
        let compressed = s[0] & 0x80 != 0;
        let infinity = s[0] & 0x40 != 0;
        let sign = s[0] & 0x20 != 0;
        if !compressed {
            return Decoded::Invalid("compression flag clear");
        }
        if infinity {
            let rest_zero = s[0] & 0x3f == 0 && s[1..].iter().all(|b| *b == 0);
            return if rest_zero { Decoded::Inf } else { Decoded::Invalid("infinity flag with other bits set") };
        }
        let mut first = s[..48].to_vec();
        first[0] &= 0x1f;
        let a = BigUint::from_bytes_be(&first);
        if a >= self.p {
            return Decoded::Invalid("coordinate not reduced");
        }
        let x = match g {
            Group::G1 => Fp2 { c0: a, c1: zero() },
            Group::G2 => {
                let b = BigUint::from_bytes_be(&s[48..]);
                if b >= self.p {
                    return Decoded::Invalid("coordinate not reduced");
                }
                // first half is the u-coefficient
                Fp2 { c0: b, c1: a }
            }
        };
        let rhs = self.add2(&self.mul2(&self.sqr2(&x), &x), &self.curve_b(g));
        let y = match g {
            Group::G1 => self.sqrt(&rhs.c0).map(|c0| Fp2 { c0, c1: zero() }),
            Group::G2 => self.sqrt2(&rhs),
        };
        let Some(y) = y else {
            return Decoded::Invalid("x not on the curve");
        };
        if self.is_zero2(&y) {
            return if sign { Decoded::Invalid("sign flag on y = 0") } else { Decoded::Point(x, y) };
        }
        let y = if self.is_lex_largest(&y) == sign { y } else { self.neg2(&y) };
        Decoded::Point(x, y)
    }

    pub fn encode(&self, g: Group, pt: Option<(&Fp2, &Fp2)>) -> Vec<u8> {
        let n = match g {
            Group::G1 => 48,
            Group::G2 => 96,
        };
        let mut out = vec![0u8; n];
        let Some((x, y)) = pt else {
            out[0] = 0xc0;
            return out;
        };
        let put = |dst: &mut [u8], v: &BigUint| {
            let b = v.to_bytes_be();
            dst[48 - b.len()..].copy_from_slice(&b);
        };
        match g {
            Group::G1 => put(&mut out[..48], &x.c0),
            Group::G2 => {
                put(&mut out[..48], &x.c1);
                put(&mut out[48..], &x.c0);
            }
        }
        out[0] |= 0x80;
        if self.is_lex_largest(y) {
            out[0] |= 0x20;
        }
        out
    }

    pub fn encode_jac(&self, g: Group, a: &Jac) -> Vec<u8> {
        match self.jac_to_affine(a) {
            None => self.encode(g, None),
            Some((x, y)) => self.encode(g, Some((&x, &y))),
        }
    }
}

// ---- scalar reference (mod r)

pub fn be32(v: &BigUint) -> [u8; 32] {
    let b = v.to_bytes_be();
    assert!(b.len() <= 32);
    let mut out = [0u8; 32];
    out[32 - b.len()..].copy_from_slice(&b);
    out
}

/// python: int.from_bytes(b, "big", signed=True) % r   (result in [0, r))
pub fn signed_be_mod_r(b: &[u8], r: &BigUint) -> BigUint {
    let v = BigInt::from_signed_bytes_be(b);
    let r = BigInt::from_biguint(Sign::Plus, r.clone());
    let m = ((v % &r) + &r) % &r;
    m.to_biguint().expect("non-negative")
}
