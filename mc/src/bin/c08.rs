//! C08 — what the mempool validated is what the block yields.
//! Engine E, differential: every bundle of the stated alphabet is run directly (run_spendbundle)
//! and as a block generator built from it in four ways (solution_generator, back-reference
//! compressed, BlockBuilder, InternedBlockBuilder) through run_block_generator2, under 8 flag
//! sets. Same verdict, same conditions; cost differs exactly by the quote wrapper; predicted
//! generator length equals the actual one.

use chia_bls::Signature;
use chia_consensus::build_compressed_block::BlockBuilder;
use chia_consensus::build_interned_block::InternedBlockBuilder;
use chia_consensus::flags::{ConsensusFlags, MEMPOOL_MODE};
use chia_consensus::solution_generator::{calculate_generator_length, solution_generator, solution_generator_backrefs};
use chia_consensus::validation_error::{ErrorCode, ValidationErr};
use chia_protocol::{Bytes32, Coin, CoinSpend, Program, SpendBundle};
use mc::drive::{self, P1, P2, PH2};
use mc::genr::{GSpend, PathOut, generator_sx, run_bundle, run_gen2, test_constants};
use mc::letters::{Ids, sigma2_for};
use mc::monitor::check_accepted;
use mc::refcond::{CSummary, F_DEDUP, F_FF};
use mc::report::{Report, catch, fxhash};
use mc::sx::Sx;
use rayon::prelude::*;
use serde_json::{Value, json};
use std::collections::BTreeMap;

const MAX_BLOCK: u64 = 11_000_000_000;

fn amounts() -> Vec<u64> {
    let mut v = vec![0u64, 1, 0x7f, 0x80, 0xff, 0x100, 0x7fff, 0x8000, (1 << 23) - 1, 1 << 23, (1 << 31) - 1, 1 << 31, u32::MAX as u64, 1 << 32];
    for k in [39u32, 47, 55] {
        v.push((1 << k) - 1);
        v.push(1 << k);
    }
    v.extend([(1u64 << 63) - 1, 1 << 63, u64::MAX]);
    v
}

/// strip what only the mempool visitor computes
fn consensus_view(s: &CSummary, sort_spends: bool) -> CSummary {
    let mut c = s.clone();
    for sp in &mut c.spends {
        sp.flags &= !(F_DEDUP | F_FF);
    }
    if sort_spends {
        c.spends.sort();
        // unsafe signatures are listed bundle-wide in spend order: order-insensitive compare
        c.agg_sig_unsafe.sort();
    }
    c
}

#[derive(Clone)]
struct Case {
    name: String,
    spends: Vec<GSpend>,
    /// declared puzzle hash differs from the revealed puzzle for spend 0
    wrong_hash: bool,
}

fn to_bundle(c: &Case) -> SpendBundle {
    let mut cs: Vec<CoinSpend> = c.spends.iter().map(GSpend::coin_spend).collect();
    if c.wrong_hash && c.name.ends_with("wrong-hash-after-genuine") {
        // spend 1 claims the puzzle hash that spend 0 has just proven, but reveals another puzzle
        let s = &c.spends[1];
        cs[1] = CoinSpend::new(Coin::new(Bytes32::new(s.parent), Bytes32::new(c.spends[0].puzzle_hash()), s.amount), Program::from(s.puzzle.serialize()), Program::from(s.solution.serialize()));
    } else if c.wrong_hash {
        let s = &c.spends[0];
        cs[0] = CoinSpend::new(Coin::new(Bytes32::new(s.parent), Bytes32::new([0x99; 32]), s.amount), Program::from(s.puzzle.serialize()), Program::from(s.solution.serialize()));
    }
    SpendBundle::new(cs, Signature::default())
}

fn flag_sets() -> Vec<(String, ConsensusFlags)> {
    let mut v = Vec::new();
    for bits in 0..8u8 {
        let mut f = ConsensusFlags::DONT_VALIDATE_SIGNATURE;
        let mut n = String::new();
        if bits & 1 != 0 {
            f |= MEMPOOL_MODE;
            n += "M";
        }
        if bits & 2 != 0 {
            f |= ConsensusFlags::COST_CONDITIONS;
            n += "C";
        }
        if bits & 4 != 0 {
            f |= ConsensusFlags::INTERNED_GENERATOR;
            n += "I";
        }
        v.push((n.clone(), f));
        if bits & 1 != 0 {
            // the mempool also asks for the dedup fingerprint: must not change the verdict
            v.push((format!("{n}F"), f | ConsensusFlags::COMPUTE_FINGERPRINT));
        }
    }
    v
}

fn check(c: &Case, loc: &mut BTreeMap<String, u64>, evals: &mut u64) -> Result<(), (String, String)> {
    let constants = test_constants();
    let cpb = constants.cost_per_byte;
    let sig = Signature::default();
    let bundle = to_bundle(c);
    let tuples: Vec<(Coin, Vec<u8>, Vec<u8>)> = bundle.coin_spends.iter().map(|s| (s.coin, s.puzzle_reveal.as_ref().to_vec(), s.solution.as_ref().to_vec())).collect();
    let plain = solution_generator(tuples.iter().map(|(c, p, s)| (*c, p.as_slice(), s.as_slice()))).map_err(|e| ("solution_generator/error".to_string(), format!("{e:?}")))?;
    let compressed = solution_generator_backrefs(tuples.iter().map(|(c, p, s)| (*c, p.as_slice(), s.as_slice()))).map_err(|e| ("solution_generator_backrefs/error".to_string(), format!("{e:?}")))?;
    // independent rendering of the generator and its length
    // (solution_generator lists the spends in reverse bundle order)
    let rev: Vec<GSpend> = c.spends.iter().rev().cloned().collect();
    let own = generator_sx(&rev).serialize();
    if plain != own {
        return Err(("solution_generator/bytes".into(), format!("solution_generator {} != harness rendering {}", hex::encode(&plain), hex::encode(&own))));
    }
    let predicted = calculate_generator_length(&bundle.coin_spends);
    if predicted != own.len() {
        return Err(("generator-length".into(), format!("calculate_generator_length = {predicted}, actual serialized length = {}", own.len())));
    }
    for (fname, flags) in flag_sets() {
        *evals += 1;
        let direct = run_bundle(&bundle, MAX_BLOCK, flags, constants).map(|r| r.0);
        if c.wrong_hash {
            match &direct {
                Err(ValidationErr::Err(ErrorCode::WrongPuzzleHash)) | Err(_) => {
                    *loc.entry("wrong-hash/rejected".into()).or_insert(0) += 1;
                    continue;
                }
                Ok(_) => return Err(("wrong-hash-accepted".into(), format!("{}: declared puzzle hash does not match the reveal, yet run_spendbundle accepts (flags {fname})", c.name))),
            }
        }
        if let Ok(d) = &direct {
            let inputs: Vec<([u8; 32], [u8; 32], u64)> = c.spends.iter().map(|s| (s.parent, s.puzzle_hash(), s.amount)).collect();
            check_accepted(&d.summary, Some(&inputs)).map_err(|(s, d)| (format!("monitor/{s}/run_spendbundle"), d))?;
        }
        // the four generators
        let mut gens: Vec<(&str, Vec<u8>, bool)> = vec![("plain", plain.clone(), true), ("backrefs", compressed.clone(), true)];
        // truthful declared cost for the builders = execution + condition cost
        let declared = direct.as_ref().map(|d| d.execution_cost + d.condition_cost).unwrap_or(1_000_000);
        if let Ok(mut b) = catch(|| BlockBuilder::new()).and_then(|r| r.map_err(|e| format!("{e:?}"))) {
            match catch(|| b.add_spend_bundles([&bundle], declared, constants)) {
                Ok(Ok((true, _))) => match catch(|| b.finalize(constants)) {
                    Ok(Ok((g, _s, _c))) => gens.push(("BlockBuilder", g, true)),
                    Ok(Err(e)) => return Err(("BlockBuilder/finalize-error".into(), format!("{e:?}"))),
                    Err(p) => return Err(("BlockBuilder/finalize-panic".into(), p)),
                },
                Ok(Ok((false, _))) => *loc.entry("builder/declined".into()).or_insert(0) += 1,
                Ok(Err(e)) => return Err(("BlockBuilder/add-error".into(), format!("{e:?}"))),
                Err(p) => return Err(("BlockBuilder/add-panic".into(), p)),
            }
        }
        {
            let mut b = InternedBlockBuilder::new(constants);
            match catch(|| b.add_spend_bundles([&bundle], declared)) {
                Ok(Ok((true, _))) => match catch(|| b.finalize()) {
                    Ok(Ok((g, _s, _c))) => gens.push(("InternedBlockBuilder", g, true)),
                    Ok(Err(e)) => return Err(("InternedBlockBuilder/finalize-error".into(), format!("{e:?}"))),
                    Err(p) => return Err(("InternedBlockBuilder/finalize-panic".into(), p)),
                },
                Ok(Ok((false, _))) => *loc.entry("builder/declined".into()).or_insert(0) += 1,
                Ok(Err(e)) => return Err(("InternedBlockBuilder/add-error".into(), format!("{e:?}"))),
                Err(p) => return Err(("InternedBlockBuilder/add-panic".into(), p)),
            }
        }
        for (gname, g, reordered) in &gens {
            *evals += 1;
            let block: Result<PathOut, ValidationErr> = run_gen2(g, &[], MAX_BLOCK, flags, &sig, constants);
            match (&direct, &block) {
                (Err(_), Err(_)) => *loc.entry("both-reject".into()).or_insert(0) += 1,
                (Ok(d), Ok(b)) => {
                    if consensus_view(&d.summary, *reordered) != consensus_view(&b.summary, *reordered) {
                        return Err((format!("conditions-differ/{gname}"), format!("{} flags {fname}\nmempool {:?}\nblock   {:?}", c.name, consensus_view(&d.summary, *reordered), consensus_view(&b.summary, *reordered))));
                    }
                    if *gname == "plain" {
                        let want = if flags.contains(ConsensusFlags::INTERNED_GENERATOR) { 20 } else { 20 + 2 * cpb };
                        if b.cost != d.cost + want {
                            return Err(("quote-overhead".into(), format!("{} flags {fname}: block cost {} - mempool cost {} = {}, expected {want}", c.name, b.cost, d.cost, b.cost as i128 - d.cost as i128)));
                        }
                    }
                    if d.condition_cost != b.condition_cost || d.execution_cost + 20 != b.execution_cost {
                        return Err((format!("subtotals/{gname}"), format!("{} flags {fname}: mempool exec {} cond {}; block exec {} cond {}", c.name, d.execution_cost, d.condition_cost, b.execution_cost, b.condition_cost)));
                    }
                    *loc.entry("both-accept".into()).or_insert(0) += 1;
                }
                (Ok(_), Err(e)) => return Err((format!("mempool-accepts-block-rejects/{gname}"), format!("{} flags {fname}: block path {e:?}", c.name))),
                (Err(e), Ok(_)) => return Err((format!("mempool-rejects-block-accepts/{gname}"), format!("{} flags {fname}: mempool path {e:?}", c.name))),
            }
        }
    }
    Ok(())
}

fn puzzle_kinds(conds: &Sx) -> Vec<(&'static str, Sx, Sx)> {
    let q = |x: Sx| Sx::cons(Sx::int(1), x);
    vec![
        ("identity", Sx::int(1), conds.clone()),
        ("quoted", q(conds.clone()), Sx::nil()),
        // (a (q . (q . conds)) 1)
        ("apply", Sx::list(&[Sx::atom(&[2]), q(q(conds.clone())), Sx::int(1)]), Sx::nil()),
        ("raise", Sx::list(&[Sx::atom(&[8])]), conds.clone()),
    ]
}

/// signed bundles through the builders with a late-rejected bundle in between: what the mempool
/// accepted (X and Z, with their own signatures) must be a block that validates *with* signature
/// checking, under the signature the builder returns
fn signed_builder_scenarios(rep: &Report) {
    use chia_bls::{aggregate, sign};
    use chia_consensus::consensus_constants::TEST_CONSTANTS;
    use chia_consensus::spendbundle_validation::validate_clvm_and_signature;
    let mut constants = TEST_CONSTANTS.clone();
    constants.max_block_cost_clvm = 16_000_000;
    let sks = drive::test_keys();
    let phi = Sx::int(1).tree_hash();
    let signed = |k: usize, parent: [u8; 32], amount: u64| -> SpendBundle {
        let pk = sks[k].public_key().to_bytes().to_vec();
        let msg = vec![k as u8 + 1];
        let s = GSpend::identity(parent, amount, Sx::list(&[drive::cond(50, &[Sx::Atom(pk), Sx::Atom(msg.clone())]), drive::cond(51, &[Sx::atom(&PH2), Sx::int(1)])]));
        let mut text = msg;
        text.extend_from_slice(&mc::sx::sha256(&[&parent, &phi, &mc::sx::enc_u64(amount)]));
        text.extend_from_slice(constants.agg_sig_me_additional_data.as_ref());
        SpendBundle::new(vec![s.coin_spend()], aggregate([sign(&sks[k], &text)]))
    };
    let x = signed(0, [0xa1; 32], 10);
    let y = signed(1, [0xa2; 32], 0x80);
    let z = signed(2, [0xa3; 32], 1 << 39);
    let flags = ConsensusFlags::empty();
    for b in [&x, &y, &z] {
        rep.eval();
        if let Err(e) = validate_clvm_and_signature(b, u64::MAX / 4, &constants, flags) {
            rep.machinery_error(&format!("signed letter bundle does not validate in the mempool path: {e:?}"));
            return;
        }
    }
    let truthful = |b: &SpendBundle| -> u64 {
        let (r, _) = run_bundle(b, u64::MAX / 4, ConsensusFlags::DONT_VALIDATE_SIGNATURE, &constants).expect("valid");
        r.execution_cost + r.condition_cost
    };
    let (tx, ty, tz) = (truthful(&x), truthful(&y), truthful(&z));
    for interned in [false, true] {
        let tag = if interned { "InternedBlockBuilder" } else { "BlockBuilder" };
        // dry run to find the declared cost of Y that passes the early check and fails the late one
        let late_cost = {
            if interned {
                let mut b = InternedBlockBuilder::new(&constants);
                let _ = b.add_spend_bundles([&x], tx);
                let _ = b.add_spend_bundles([&y], ty);
                constants.max_block_cost_clvm - (b.cost() - ty) + 1
            } else {
                let mut b = BlockBuilder::new().unwrap();
                let _ = b.add_spend_bundles([&x], tx, &constants);
                let _ = b.add_spend_bundles([&y], ty, &constants);
                constants.max_block_cost_clvm - (b.cost() - ty) + 1
            }
        };
        let r: Result<(Vec<u8>, chia_bls::Signature, Vec<bool>), String> = catch(|| {
            if interned {
                let mut b = InternedBlockBuilder::new(&constants);
                let a1 = b.add_spend_bundles([&x], tx).unwrap().0;
                let a2 = b.add_spend_bundles([&y], late_cost).unwrap().0;
                let a3 = b.add_spend_bundles([&z], tz).unwrap().0;
                let (g, s, _) = b.finalize().unwrap();
                (g, s, vec![a1, a2, a3])
            } else {
                let mut b = BlockBuilder::new().unwrap();
                let a1 = b.add_spend_bundles([&x], tx, &constants).unwrap().0;
                let a2 = b.add_spend_bundles([&y], late_cost, &constants).unwrap().0;
                let a3 = b.add_spend_bundles([&z], tz, &constants).unwrap().0;
                let (g, s, _) = b.finalize(&constants).unwrap();
                (g, s, vec![a1, a2, a3])
            }
        });
        rep.eval();
        let case = json!({"signed_builder": tag});
        match r {
            Err(p) => rep.violation(&format!("C08/{tag}/panic"), case, p),
            Ok((g, sig, added)) => {
                // whatever the builder decided, the block must be the accepted bundles (one spend each)
                // under the builder's aggregate signature; the constructed pattern is accepted / declined
                // after serialisation / accepted, a different pattern is recorded, not judged (C10's subject)
                let want = added.iter().filter(|a| **a).count();
                if added != vec![true, false, true] {
                    rep.outcome(&format!("signed-builder/late-rejection-pattern-not-reproduced {added:?} (block still checked)"));
                }
                let gf = if interned { flags | ConsensusFlags::INTERNED_GENERATOR } else { flags };
                match run_gen2(&g, &[], u64::MAX / 4, gf, &sig, &constants) {
                    Ok(o) if o.validated_signature && o.summary.spends.len() == want => rep.outcome("signed-builder/block-validates-with-signature"),
                    Ok(o) => rep.violation(&format!("C08/{tag}/signed-block-wrong-content"), case, format!("{} spends (the builder accepted {want} one-spend bundles: {added:?}), validated_signature {}", o.summary.spends.len(), o.validated_signature)),
                    Err(e) => rep.violation(&format!("C08/{tag}/mempool-accepts-block-rejects-with-signature"), case, format!("the bundles were accepted by the mempool path and the builder answered {added:?} (constructed: Y declined after serialisation), but the block does not validate under the builder's signature: {e:?}")),
                }
            }
        }
    }
}

fn run(rep: &Report) {
    signed_builder_scenarios(rep);
    let env = drive::env();
    // both tiers enumerate the same space (about ten seconds)
    let thorough = true;
    let phi = Sx::int(1).tree_hash();
    let mut cases: Vec<Case> = Vec::new();
    // set 1: every amount x puzzle kind x <=1 letter (letters refer to the identity-puzzle coin)
    for am in amounts() {
        let ids = Ids { a: (P1, phi, am), c: (P2, phi, am), b_ph: PH2, b_amount: am.min(3) };
        let letters = sigma2_for(&env, &ids);
        let mut lists: Vec<(String, Sx)> = vec![("none".into(), Sx::nil())];
        for (n, l) in &letters {
            lists.push((n.clone(), Sx::list(&[l.clone()])));
        }
        for (ln, conds) in &lists {
            for (pn, puzzle, solution) in puzzle_kinds(conds) {
                if !thorough && pn != "identity" && am != 5 && am != u64::MAX && am != 0x80 {
                    continue;
                }
                cases.push(Case { name: format!("1/{am:#x}/{pn}/{ln}"), spends: vec![GSpend { parent: P1, amount: am, puzzle, solution }], wrong_hash: false });
            }
        }
        cases.push(Case { name: format!("1/{am:#x}/wrong-hash"), spends: vec![GSpend::identity(P1, am, Sx::nil())], wrong_hash: true });
        cases.push(Case { name: format!("2/{am:#x}/wrong-hash-after-genuine"), spends: vec![GSpend::identity(P1, am, Sx::nil()), GSpend::quoted(P2, am, Sx::nil())], wrong_hash: true });
        cases.push(Case { name: format!("2/{am:#x}/quoted-first/wrong-hash-after-genuine"), spends: vec![GSpend::quoted(P1, am, Sx::nil()), GSpend::identity(P2, am, Sx::nil())], wrong_hash: true });
    }
    // set 2: amount 5, identity puzzle, every ordered pair of letters
    let ids = Ids { a: (P1, phi, 5), c: (P2, phi, 5), b_ph: PH2, b_amount: 3 };
    let letters = sigma2_for(&env, &ids);
    for (i, (n1, l1)) in letters.iter().enumerate() {
        for (j, (n2, l2)) in letters.iter().enumerate() {
            if !thorough && (i + j) % 3 != 0 {
                continue;
            }
            cases.push(Case { name: format!("2/{n1}+{n2}"), spends: vec![GSpend::identity(P1, 5, Sx::list(&[l1.clone(), l2.clone()]))], wrong_hash: false });
        }
    }
    // set 3: two spends A + C (same puzzle => shared subtree for the compressors), <=1 letter each
    for (n1, l1) in &letters {
        for (n2, l2) in std::iter::once(&("none".to_string(), Sx::nil())).chain(letters.iter()) {
            let c2 = if n2 == "none" { Sx::nil() } else { Sx::list(&[l2.clone()]) };
            cases.push(Case { name: format!("3/{n1}|{n2}"), spends: vec![GSpend::identity(P1, 5, Sx::list(&[l1.clone()])), GSpend::identity(P2, 5, c2)], wrong_hash: false });
        }
    }
    // set 4: three spends incl. an ephemeral child
    let a_id = mc::drive::coin_id(&P1, &phi, 5);
    cases.push(Case {
        name: "4/ephemeral-chain".into(),
        spends: vec![GSpend::identity(P1, 5, Sx::list(&[drive::cond(51, &[Sx::atom(&phi), Sx::int(3)])])), GSpend::identity(a_id, 3, Sx::list(&[drive::cond(76, &[])])), GSpend::identity(P2, 5, Sx::nil())],
        wrong_hash: false,
    });
    rep.set_rule("bundles: (1) one spend x 23 amounts (every encoding length class) x 4 puzzle kinds (identity, quoted, apply-wrapper, raise) x <=1 of ~108 interaction letters + a wrong-declared-hash letter per amount + two spends where the second claims the hash the first has just proven but reveals another puzzle; (2) amount 5, identity puzzle, every ordered pair of letters; (3) two spends sharing the puzzle with <=1 letter each; (4) an ephemeral chain of three; (5) three signed bundles through each builder with the middle one declined after serialisation, validated with signature checking; each under {MEMPOOL_MODE (with and without COMPUTE_FINGERPRINT)} x {COST_CONDITIONS} x {INTERNED_GENERATOR} through run_spendbundle and run_block_generator2 on solution_generator, solution_generator_backrefs, BlockBuilder and InternedBlockBuilder output. distinct = distinct bundles");
    rep.assume("mempool-only eligibility flags are masked; summaries are compared order-insensitively (generators list the spends in reverse bundle order)");
    rep.extra("cases", json!(cases.len()));
    cases.par_chunks(32).for_each(|chunk| {
        let mut loc = BTreeMap::new();
        let mut evals = 0u64;
        let mut d = Vec::new();
        for c in chunk {
            let case = json!({"name": c.name, "wrong_hash": c.wrong_hash, "spends": c.spends.iter().map(|s| json!({"parent": hex::encode(s.parent), "amount": s.amount, "puzzle": hex::encode(s.puzzle.serialize()), "solution": hex::encode(s.solution.serialize())})).collect::<Vec<_>>()});
            match catch(|| check(c, &mut loc, &mut evals)) {
                Ok(Ok(())) => d.push(fxhash(&case.to_string())),
                Ok(Err((sig, det))) => rep.violation(&format!("C08/{sig}"), case, det),
                Err(p) => rep.violation("C08/panic", case, format!("{}: {p}", c.name)),
            }
        }
        rep.evals(evals);
        for (k, n) in loc {
            rep.outcome_n(&k, n);
        }
        rep.distinct_many(d);
    });
    rep.sample(json!({"bundle": "1/0x8000000000/identity/op51", "meaning": "coin of amount 2^39 (6-byte encoding), identity puzzle, one CREATE_COIN"}));
    rep.sample(json!({"bundle": "3/op60|op61", "meaning": "A announces, sibling C (same puzzle reveal, shared by the compressors) asserts"}));
}

fn replay(case: &Value) -> String {
    if case.get("signed_builder").is_some() {
        return "signed builder scenario: re-run the check".into();
    }
    let spends: Vec<GSpend> = case["spends"].as_array().unwrap().iter().map(|s| GSpend {
        parent: hex::decode(s["parent"].as_str().unwrap()).unwrap().try_into().unwrap(),
        amount: s["amount"].as_u64().unwrap(),
        puzzle: Sx::parse(&hex::decode(s["puzzle"].as_str().unwrap()).unwrap()).unwrap(),
        solution: Sx::parse(&hex::decode(s["solution"].as_str().unwrap()).unwrap()).unwrap(),
    }).collect();
    let c = Case { name: case["name"].as_str().unwrap().to_string(), spends, wrong_hash: case["wrong_hash"].as_bool().unwrap() };
    let mut loc = BTreeMap::new();
    let mut e = 0;
    format!("{}: {:?} {:?}", c.name, check(&c, &mut loc, &mut e), loc)
}

fn main() {
    mc::cli::main("C08", "exploration", run, replay)
}
