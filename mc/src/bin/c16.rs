//! C16 — key / signature encodings round-trip with a unique encoding, checked parsing accepts
//! exactly the prime-order subgroup (plus infinity), derivations commute with `public_key`.
//!
//! Engine E (bounded-exhaustive input enumeration). Every case runs the real chia-bls /
//! chia-puzzle-types code; the verdict comes from
//!   * a reference written from the definitions in `c16_common` (schoolbook Fp/Fp2 on
//!     num-bigint, ZCash compressed encoding, "in the subgroup <=> r*P = O", scalars mod r,
//!     python's signed `int.from_bytes(..) % r` for the synthetic offset), anchored at start-up
//!     on the blspy / bls-signatures vectors quoted in the repo's own unit tests, and
//!   * relations between two different routes through the real code (sk-route vs pk-route).

#[path = "c16_common/mod.rs"]
mod common;

use chia_bls::{
    DerivableKey, GTElement, PublicKey, SecretKey, Signature, hash_to_g2,
    master_to_wallet_unhardened, master_to_wallet_unhardened_intermediate, sign, sign_raw,
};
use chia_puzzle_types::standard::DEFAULT_HIDDEN_PUZZLE_HASH;
use chia_puzzle_types::{DeriveSynthetic, mod_by_group_order};
use chia_traits::Streamable;
use common::{Decoded, Field, Fp2, Group, be32, big, signed_be_mod_r};
use mc::report::{Report, Tier, catch, fxhash};
use mc::sx::{Sx, sha256};
use num_bigint::BigUint;
use rayon::prelude::*;
use serde_json::{Value, json};
use std::collections::{BTreeMap, BTreeSet};
use std::io::Cursor;

// ------------------------------------------------------------------------------------------
// cases

#[derive(Clone, Debug, PartialEq, Eq, PartialOrd, Ord, Hash)]
enum Case {
    /// byte string offered to every PublicKey parser (48 bytes, or 47/49 for the streamable length rule)
    G1(Vec<u8>),
    /// byte string offered to every Signature parser
    G2(Vec<u8>),
    /// byte string offered to every SecretKey parser
    Sk(Vec<u8>),
    /// 32 bytes through mod_by_group_order
    ModR(Vec<u8>),
    /// unhardened derivation along `path` from secret key `sk`, both routes
    Derive { sk: [u8; 32], path: Vec<u32> },
    /// master_to_wallet_unhardened(_intermediate) on both key types
    Wallet { sk: [u8; 32], idx: Option<u32> },
    /// synthetic key with hidden puzzle hash `h` (None = derive_synthetic(), the default hash)
    Synthetic { sk: [u8; 32], h: Option<[u8; 32]> },
    Add { a: [u8; 32], b: [u8; 32] },
    Sign { sk: [u8; 32], msg: Vec<u8> },
    Gt { a: [u8; 32], b: [u8; 32] },
    /// SecretKey::from_seed on a 32-byte seed, round trip of the result
    Seed(Vec<u8>),
}

impl Case {
    fn family(&self) -> &'static str {
        match self {
            Case::G1(_) => "g1",
            Case::G2(_) => "g2",
            Case::Sk(_) => "sk",
            Case::ModR(_) => "modr",
            Case::Derive { .. } => "derive",
            Case::Wallet { .. } => "wallet",
            Case::Synthetic { .. } => "synthetic",
            Case::Add { .. } => "add",
            Case::Sign { .. } => "sign",
            Case::Gt { .. } => "gt",
            Case::Seed(_) => "seed",
        }
    }
    fn to_json(&self) -> Value {
        match self {
            Case::G1(s) => json!({"kind":"g1","bytes":hex::encode(s)}),
            Case::G2(s) => json!({"kind":"g2","bytes":hex::encode(s)}),
            Case::Sk(s) => json!({"kind":"sk","bytes":hex::encode(s)}),
            Case::ModR(s) => json!({"kind":"modr","bytes":hex::encode(s)}),
            Case::Derive { sk, path } => json!({"kind":"derive","sk":hex::encode(sk),"path":path}),
            Case::Wallet { sk, idx } => json!({"kind":"wallet","sk":hex::encode(sk),"idx":idx}),
            Case::Synthetic { sk, h } => json!({"kind":"synthetic","sk":hex::encode(sk),"hidden_puzzle_hash":h.map(hex::encode)}),
            Case::Add { a, b } => json!({"kind":"add","a":hex::encode(a),"b":hex::encode(b)}),
            Case::Sign { sk, msg } => json!({"kind":"sign","sk":hex::encode(sk),"msg":hex::encode(msg)}),
            Case::Gt { a, b } => json!({"kind":"gt","a":hex::encode(a),"b":hex::encode(b)}),
            Case::Seed(s) => json!({"kind":"seed","seed":hex::encode(s)}),
        }
    }
    fn from_json(v: &Value) -> Option<Case> {
        let bytes = |k: &str| v[k].as_str().and_then(|s| hex::decode(s).ok());
        let b32 = |k: &str| bytes(k).and_then(|b| <[u8; 32]>::try_from(b).ok());
        Some(match v["kind"].as_str()? {
            "g1" => Case::G1(bytes("bytes")?),
            "g2" => Case::G2(bytes("bytes")?),
            "sk" => Case::Sk(bytes("bytes")?),
            "modr" => Case::ModR(bytes("bytes")?),
            "derive" => Case::Derive {
                sk: b32("sk")?,
                path: v["path"].as_array()?.iter().filter_map(|x| x.as_u64().map(|x| x as u32)).collect(),
            },
            "wallet" => Case::Wallet { sk: b32("sk")?, idx: v["idx"].as_u64().map(|x| x as u32) },
            "synthetic" => Case::Synthetic { sk: b32("sk")?, h: b32("hidden_puzzle_hash") },
            "add" => Case::Add { a: b32("a")?, b: b32("b")? },
            "sign" => Case::Sign { sk: b32("sk")?, msg: bytes("msg")? },
            "gt" => Case::Gt { a: b32("a")?, b: b32("b")? },
            "seed" => Case::Seed(bytes("seed")?),
            _ => return None,
        })
    }
}

/// result of one case: outcome bucket, violations (signature, detail), harness problems
#[derive(Default)]
struct Out {
    bucket: String,
    viols: Vec<(String, String)>,
    machinery: Vec<String>,
}

impl Out {
    fn v(&mut self, sig: &str, detail: String) {
        self.viols.push((sig.to_string(), detail));
    }
}

struct Ctx {
    f: Field,
    /// tree hash of `(=)` = (9 . nil), computed with the harness' own tree hash
    default_hidden_hash: [u8; 32],
}

fn hx(b: &[u8]) -> String {
    hex::encode(b)
}

fn int(b: &[u8]) -> BigUint {
    BigUint::from_bytes_be(b)
}

// ------------------------------------------------------------------------------------------
// G1 / G2 byte strings

/// what the definition says about the string
struct RefVerdict {
    class: &'static str,
    /// must `from_bytes` accept?
    checked_ok: bool,
    /// may `from_bytes_unchecked` accept? (canonical encoding of a curve point or of infinity)
    canonical: bool,
    on_curve_point: bool,
}

fn ref_verdict(cx: &Ctx, g: Group, s: &[u8]) -> RefVerdict {
    match cx.f.decode(g, s) {
        Decoded::Invalid(why) => RefVerdict {
            class: match why {
                "length" => "bad-length",
                "compression flag clear" => "flag-uncompressed",
                "infinity flag with other bits set" => "noncanonical-infinity",
                "coordinate not reduced" => "coordinate>=p",
                "x not on the curve" => "x-not-on-curve",
                _ => "other-invalid",
            },
            checked_ok: false,
            canonical: false,
            on_curve_point: false,
        },
        Decoded::Inf => RefVerdict { class: "infinity", checked_ok: true, canonical: true, on_curve_point: false },
        Decoded::Point(x, y) => {
            let sub = cx.f.in_subgroup(&x, &y);
            RefVerdict {
                class: if sub { "subgroup-point" } else { "on-curve-outside-subgroup" },
                checked_ok: sub,
                canonical: true,
                on_curve_point: true,
            }
        }
    }
}

macro_rules! point_check {
    ($fname:ident, $T:ty, $N:expr, $group:expr, $tag:expr) => {
        fn $fname(cx: &Ctx, s: &[u8]) -> Out {
            let mut out = Out::default();
            let tag: &str = $tag;
            let rv = ref_verdict(cx, $group, s);
            // the generic Streamable entry points take any length
            let st_checked = <$T as Streamable>::from_bytes(s);
            let st_unchecked = <$T as Streamable>::from_bytes_unchecked(s);
            if s.len() != $N {
                if st_checked.is_ok() || st_unchecked.is_ok() {
                    out.v(
                        &format!("C16/{tag}/streamable-accepts-wrong-length"),
                        format!("{} bytes {}: Streamable::from_bytes ok={} from_bytes_unchecked ok={}; a second encoding of the same element", s.len(), hx(s), st_checked.is_ok(), st_unchecked.is_ok()),
                    );
                }
                out.bucket = format!("{tag} ref={} (length {})", rv.class, s.len());
                return out;
            }
            let arr: &[u8; $N] = s.try_into().expect("length checked");
            let checked = <$T>::from_bytes(arr);
            let unchecked = <$T>::from_bytes_unchecked(arr);
            out.bucket = format!(
                "{tag} ref={} checked={} unchecked={}",
                rv.class,
                if checked.is_ok() { "Ok" } else { "Err" },
                if unchecked.is_ok() { "Ok" } else { "Err" }
            );

            // 1. checked parsing accepts exactly infinity + the prime-order subgroup, canonically encoded
            if checked.is_ok() != rv.checked_ok {
                let sig = if checked.is_ok() {
                    if rv.on_curve_point {
                        format!("C16/{tag}/checked-accepts-outside-subgroup")
                    } else {
                        format!("C16/{tag}/checked-accepts-noncanonical")
                    }
                } else {
                    format!("C16/{tag}/checked-rejects-valid")
                };
                out.v(&sig, format!("{} from_bytes -> {:?}; by the definition the string is: {}", hx(s), checked.as_ref().map(|p| hx(&p.to_bytes())), rv.class));
            }
            // 2. unchecked parsing may only accept canonical encodings of curve points, and must re-encode to the input
            if let Ok(p) = &unchecked {
                if !rv.canonical && checked.is_ok() {
                    // already reported under 1.
                } else if !rv.canonical {
                    out.v(
                        &format!("C16/{tag}/unchecked-accepts-noncanonical"),
                        format!("{} from_bytes_unchecked -> Ok({}); by the definition the string is: {}", hx(s), hx(&p.to_bytes()), rv.class),
                    );
                } else if p.to_bytes() != *arr {
                    out.v(
                        &format!("C16/{tag}/unchecked-roundtrip"),
                        format!("{} from_bytes_unchecked -> element that serializes as {}", hx(s), hx(&p.to_bytes())),
                    );
                }
            }
            // 3. checked Ok => same element via unchecked (superset), and serialize(parse(s)) = s
            if let Ok(p) = &checked {
                match &unchecked {
                    Ok(q) if q == p && q.to_bytes() == p.to_bytes() => {}
                    other => out.v(
                        &format!("C16/{tag}/unchecked-not-superset"),
                        format!("{} from_bytes Ok({}) but from_bytes_unchecked {:?}", hx(s), hx(&p.to_bytes()), other.as_ref().map(|q| hx(&q.to_bytes()))),
                    ),
                }
                let mut streamed = Vec::new();
                let r = p.stream(&mut streamed);
                // (when the acceptance itself is wrong, 1. already says so)
                if rv.checked_ok && (p.to_bytes() != *arr || r.is_err() || streamed != s) {
                    out.v(&format!("C16/{tag}/roundtrip"), format!("{} parses to an element that serializes as {} / stream() {:?} {}", hx(s), hx(&p.to_bytes()), r, hx(&streamed)));
                }
            }
            // 4. the Streamable entry points give the same verdicts / elements as the inherent ones
            let same = |a: &Result<$T, chia_traits::Error>, b: &Result<$T, chia_bls::Error>| match (a, b) {
                (Ok(x), Ok(y)) => x == y && x.to_bytes() == y.to_bytes(),
                (Err(_), Err(_)) => true,
                _ => false,
            };
            let mut c1 = Cursor::new(s);
            let p_false = <$T as Streamable>::parse::<false>(&mut c1);
            let mut c2 = Cursor::new(s);
            let p_true = <$T as Streamable>::parse::<true>(&mut c2);
            if !same(&st_checked, &checked) || !same(&p_false, &checked) || !same(&st_unchecked, &unchecked) || !same(&p_true, &unchecked) {
                out.v(
                    &format!("C16/{tag}/streamable-differs"),
                    format!(
                        "{}: from_bytes ok={} Streamable::from_bytes ok={} parse::<false> ok={} | from_bytes_unchecked ok={} Streamable::from_bytes_unchecked ok={} parse::<true> ok={}",
                        hx(s), checked.is_ok(), st_checked.is_ok(), p_false.is_ok(), unchecked.is_ok(), st_unchecked.is_ok(), p_true.is_ok()
                    ),
                );
            }
            // 5. cross-check of the reference against an unrelated route through the real code:
            //    r*P = O  <=>  (r-1)*P + P = O   (scalar_multiply reduces its scalar mod r, so r itself cannot be used)
            if let (Ok(p), true) = (&unchecked, rv.on_curve_point) {
                let rm1 = be32(&(&cx.f.r - 1u32));
                let mut q = p.clone();
                q.scalar_multiply(&rm1);
                q += p;
                let killed = q == <$T>::default();
                if killed != rv.checked_ok {
                    // a disagreement between the two *oracles* is a harness problem, not a verdict
                    out.machinery.push(format!(
                        "oracle disagreement on {}: reference says in_subgroup={} but real (r-1)*P+P==O is {}",
                        hx(s), rv.checked_ok, killed
                    ));
                }
            }
            out
        }
    };
}

point_check!(check_g1, PublicKey, 48, Group::G1, "g1");
point_check!(check_g2, Signature, 96, Group::G2, "g2");

// ------------------------------------------------------------------------------------------
// secret-key byte strings

fn check_sk(cx: &Ctx, s: &[u8]) -> Out {
    let mut out = Out::default();
    let expect_ok = s.len() == 32 && int(s) < cx.f.r;
    let st = <SecretKey as Streamable>::from_bytes(s);
    let st_u = <SecretKey as Streamable>::from_bytes_unchecked(s);
    let class = if s.len() != 32 {
        "bad-length"
    } else if int(s).bits() == 0 {
        "zero"
    } else if expect_ok {
        "<r"
    } else {
        ">=r"
    };
    out.bucket = format!("sk ref={class} parsed={}", if st.is_ok() { "Ok" } else { "Err" });
    let inherent = <&[u8; 32]>::try_from(s).ok().map(SecretKey::from_bytes);
    let mut verdicts = vec![("Streamable::from_bytes", st.is_ok(), st.ok()), ("Streamable::from_bytes_unchecked", st_u.is_ok(), st_u.ok())];
    if let Some(r) = inherent {
        verdicts.push(("SecretKey::from_bytes", r.is_ok(), r.ok()));
    }
    for (name, ok, val) in verdicts {
        if ok != expect_ok {
            let sig = if ok { "C16/sk/accepts-noncanonical" } else { "C16/sk/rejects-valid" };
            out.v(sig, format!("{name}({}) ok={ok}, the definition (32 bytes, value < r) says {expect_ok}", hx(s)));
        }
        if let Some(k) = val {
            let mut streamed = Vec::new();
            let r = k.stream(&mut streamed);
            if k.to_bytes() != s || r.is_err() || streamed != s {
                out.v("C16/sk/roundtrip", format!("{name}({}) serializes as {} / stream {}", hx(s), hx(&k.to_bytes()), hx(&streamed)));
            }
        }
    }
    out
}

fn check_seed(_cx: &Ctx, seed: &[u8]) -> Out {
    let mut out = Out::default();
    let a = SecretKey::from_seed(seed);
    let b = SecretKey::from_seed(&seed.to_vec());
    let bytes = a.to_bytes();
    out.bucket = "seed ok".into();
    if a != b || bytes != b.to_bytes() {
        out.v("C16/seed/nondeterministic", format!("from_seed({}) gave {} then {}", hx(seed), hx(&bytes), hx(&b.to_bytes())));
    }
    match SecretKey::from_bytes(&bytes) {
        Ok(k) if k == a && k.to_bytes() == bytes => {}
        other => out.v("C16/sk/roundtrip", format!("from_seed({}) = {} does not survive from_bytes: {:?}", hx(seed), hx(&bytes), other.map(|k| hx(&k.to_bytes())))),
    }
    out
}

fn check_modr(cx: &Ctx, s: &[u8]) -> Out {
    let mut out = Out::default();
    let Ok(arr) = <[u8; 32]>::try_from(s) else {
        out.machinery.push("modr case is not 32 bytes".into());
        return out;
    };
    let want = be32(&signed_be_mod_r(s, &cx.f.r));
    let got = mod_by_group_order(arr);
    let unsigned = int(s);
    out.bucket = if s[0] & 0x80 != 0 {
        "modr negative".into()
    } else if unsigned >= cx.f.r {
        "modr >=r".into()
    } else {
        "modr <r".into()
    };
    if got != want {
        out.v("C16/synthetic/mod-by-group-order", format!("mod_by_group_order({}) = {}, signed big-endian value mod r is {}", hx(s), hx(&got), hx(&want)));
    }
    if SecretKey::from_bytes(&got).is_err() {
        out.v("C16/synthetic/mod-by-group-order", format!("mod_by_group_order({}) = {} is not a valid secret key", hx(s), hx(&got)));
    }
    out
}

// ------------------------------------------------------------------------------------------
// derivation laws

fn pk_roundtrip(out: &mut Out, what: &str, pk: &PublicKey) {
    let b = pk.to_bytes();
    match PublicKey::from_bytes(&b) {
        Ok(q) if q == *pk && q.to_bytes() == b => {}
        other => out.v("C16/g1/roundtrip", format!("{what} {} does not survive from_bytes: {:?}", hx(&b), other.map(|q| hx(&q.to_bytes())))),
    }
}

fn sk_roundtrip(out: &mut Out, what: &str, sk: &SecretKey) {
    let b = sk.to_bytes();
    match SecretKey::from_bytes(&b) {
        Ok(q) if q == *sk && q.to_bytes() == b => {}
        other => out.v("C16/sk/roundtrip", format!("{what} {} does not survive from_bytes: {:?}", hx(&b), other.map(|q| hx(&q.to_bytes())))),
    }
}

fn same_pk(a: &PublicKey, b: &PublicKey) -> bool {
    a == b && a.to_bytes() == b.to_bytes()
}

fn parse_sk(out: &mut Out, b: &[u8; 32]) -> Option<SecretKey> {
    match SecretKey::from_bytes(b) {
        Ok(k) => Some(k),
        Err(e) => {
            out.machinery.push(format!("case secret key {} rejected: {e:?}", hx(b)));
            None
        }
    }
}

fn check_derive(cx: &Ctx, skb: &[u8; 32], path: &[u32]) -> Out {
    let mut out = Out::default();
    out.bucket = format!("derive path-length {}", path.len());
    let Some(mut sk) = parse_sk(&mut out, skb) else { return out };
    let mut pk = sk.public_key();
    for (depth, idx) in path.iter().enumerate() {
        // definition (bls-signatures / EIP-2333 style unhardened child):
        //   child_sk = (sk + int_be(sha256(pk || idx_be32))) mod r,   child_pk = pk + (that integer)*G
        let digest = sha256(&[&pk.to_bytes(), &idx.to_be_bytes()]);
        let want = be32(&((int(&sk.to_bytes()) + int(&digest)) % &cx.f.r));
        let child_sk = sk.derive_unhardened(*idx);
        let child_pk = pk.derive_unhardened(*idx);
        if !same_pk(&child_sk.public_key(), &child_pk) {
            out.v(
                "C16/derive/routes-differ",
                format!(
                    "root sk {} path {:?} step {depth}: public_key(derive(sk,{idx})) = {} but derive(public_key(sk),{idx}) = {}",
                    hx(skb), path, hx(&child_sk.public_key().to_bytes()), hx(&child_pk.to_bytes())
                ),
            );
        }
        if child_sk.to_bytes() != want {
            out.v(
                "C16/derive/secret-reference",
                format!("root sk {} path {:?} step {depth}: derive_unhardened = {}, (sk + sha256(pk||idx)) mod r = {}", hx(skb), path, hx(&child_sk.to_bytes()), hx(&want)),
            );
        }
        sk = child_sk;
        pk = child_pk;
    }
    pk_roundtrip(&mut out, "derived public key", &pk);
    sk_roundtrip(&mut out, "derived secret key", &sk);
    out
}

fn check_wallet(_cx: &Ctx, skb: &[u8; 32], idx: Option<u32>) -> Out {
    let mut out = Out::default();
    out.bucket = if idx.is_some() { "wallet leaf".into() } else { "wallet intermediate".into() };
    let Some(sk) = parse_sk(&mut out, skb) else { return out };
    let pk = sk.public_key();
    let (s, p) = match idx {
        None => (master_to_wallet_unhardened_intermediate(&sk), master_to_wallet_unhardened_intermediate(&pk)),
        Some(i) => (master_to_wallet_unhardened(&sk, i), master_to_wallet_unhardened(&pk, i)),
    };
    // the same path spelled out with single steps
    let mut chain = pk;
    for step in [12381u32, 8444, 2].into_iter().chain(idx) {
        chain = chain.derive_unhardened(step);
    }
    if !same_pk(&s.public_key(), &p) || !same_pk(&p, &chain) {
        out.v(
            "C16/derive/routes-differ",
            format!("sk {} wallet path idx {idx:?}: via secret key {} via public key {} via single steps {}", hx(skb), hx(&s.public_key().to_bytes()), hx(&p.to_bytes()), hx(&chain.to_bytes())),
        );
    }
    pk_roundtrip(&mut out, "wallet public key", &p);
    out
}

fn check_synthetic(cx: &Ctx, skb: &[u8; 32], h: Option<[u8; 32]>) -> Out {
    let mut out = Out::default();
    let Some(sk) = parse_sk(&mut out, skb) else { return out };
    let pk = sk.public_key();
    // None = derive_synthetic(): the hidden puzzle is `(=)`, whose tree hash the harness computes itself
    let hh = h.unwrap_or(cx.default_hidden_hash);
    let (ssk, spk) = match h {
        None => (sk.derive_synthetic(), pk.derive_synthetic()),
        Some(h) => (sk.derive_synthetic_hidden(&h), pk.derive_synthetic_hidden(&h)),
    };
    // definition (chia wallet, calculate_synthetic_offset): offset = int.from_bytes(sha256(pk || hash), "big", signed=True) % r
    let digest = sha256(&[&pk.to_bytes(), &hh]);
    let off = signed_be_mod_r(&digest, &cx.f.r);
    let want = be32(&((int(skb) + &off) % &cx.f.r));
    out.bucket = format!(
        "synthetic digest {}",
        if digest[0] & 0x80 != 0 { "negative (top bit set)" } else if int(&digest) >= cx.f.r { "in [r, 2^255)" } else { "< r" }
    );
    if !same_pk(&ssk.public_key(), &spk) {
        out.v(
            "C16/synthetic/routes-differ",
            format!("sk {} hidden hash {}: public_key(synthetic(sk)) = {} but synthetic(public_key(sk)) = {}", hx(skb), hx(&hh), hx(&ssk.public_key().to_bytes()), hx(&spk.to_bytes())),
        );
    }
    if ssk.to_bytes() != want {
        out.v(
            "C16/synthetic/secret-reference",
            format!("sk {} hidden hash {}: synthetic secret key {}, (sk + signed(sha256(pk||hash)) mod r) mod r = {}", hx(skb), hx(&hh), hx(&ssk.to_bytes()), hx(&want)),
        );
    }
    // pk route against the offset computed by the harness: pk + offset*G
    if let Ok(off_sk) = SecretKey::from_bytes(&be32(&off)) {
        let want_pk = &pk + &off_sk.public_key();
        if !same_pk(&want_pk, &spk) {
            out.v(
                "C16/synthetic/public-reference",
                format!("sk {} hidden hash {}: synthetic public key {}, pk + offset*G = {}", hx(skb), hx(&hh), hx(&spk.to_bytes()), hx(&want_pk.to_bytes())),
            );
        }
    } else {
        out.machinery.push("reference offset rejected by SecretKey::from_bytes".into());
    }
    pk_roundtrip(&mut out, "synthetic public key", &spk);
    sk_roundtrip(&mut out, "synthetic secret key", &ssk);
    out
}

fn check_add(cx: &Ctx, ab: &[u8; 32], bb: &[u8; 32]) -> Out {
    let mut out = Out::default();
    let (Some(a), Some(b)) = (parse_sk(&mut out, ab), parse_sk(&mut out, bb)) else { return out };
    let sum = int(ab) + int(bb);
    out.bucket = if sum == cx.f.r {
        "add sum = r (zero key)".into()
    } else if sum > cx.f.r {
        "add sum wraps".into()
    } else {
        "add sum < r".into()
    };
    let want = be32(&(sum % &cx.f.r));
    let s1 = &a + &b;
    let s2 = a.clone() + &b;
    let mut s3 = a.clone();
    s3 += &b;
    let s4 = &b + &a;
    if [&s2, &s3, &s4].iter().any(|s| **s != s1) || s1.to_bytes() != want {
        out.v(
            "C16/add/secret-reference",
            format!("{} + {}: &a+&b {} a+&b {} a+=&b {} &b+&a {}, (a+b) mod r = {}", hx(ab), hx(bb), hx(&s1.to_bytes()), hx(&s2.to_bytes()), hx(&s3.to_bytes()), hx(&s4.to_bytes()), hx(&want)),
        );
    }
    let (pa, pb) = (a.public_key(), b.public_key());
    let p1 = &pa + &pb;
    let p2 = pa + &pb;
    let mut p3 = pa;
    p3 += &pb;
    let p4 = &pb + &pa;
    if !same_pk(&p1, &p2) || !same_pk(&p1, &p3) || !same_pk(&p1, &p4) {
        out.v("C16/add/public-forms-differ", format!("pk({}) + pk({}): {} {} {} {}", hx(ab), hx(bb), hx(&p1.to_bytes()), hx(&p2.to_bytes()), hx(&p3.to_bytes()), hx(&p4.to_bytes())));
    }
    if !same_pk(&s1.public_key(), &p1) {
        out.v(
            "C16/add/not-homomorphic",
            format!("public_key({} + {}) = {} but pk(a) + pk(b) = {}", hx(ab), hx(bb), hx(&s1.public_key().to_bytes()), hx(&p1.to_bytes())),
        );
    }
    // subtraction and negation of public keys: (pa + pb) - pb = pa, also when the left-hand side is
    // (or becomes) the identity: 0 - pb = -pb, (0 - pb) + pb = 0, pb - pb = 0
    {
        let pa = a.public_key();
        let mut d = p1.clone();
        d -= &pb;
        let mut z = PublicKey::default();
        z -= &pb;
        let mut negb = pb.clone();
        negb.negate();
        let back = &z + &pb;
        let mut self_cancel = pb.clone();
        self_cancel -= &pb;
        let mut again = self_cancel.clone();
        again -= &pb; // left-hand side became the identity through arithmetic
        if !same_pk(&d, &pa) || !same_pk(&z, &negb) || !same_pk(&back, &PublicKey::default()) || !same_pk(&self_cancel, &PublicKey::default()) || !same_pk(&again, &negb) || !self_cancel.is_inf() || !back.is_inf() {
            out.v(
                "C16/sub/public-laws",
                format!("pa = pk({}), pb = pk({}): (pa+pb)-pb = {} (want {}), 0-pb = {} (want -pb = {}), (0-pb)+pb = {}, pb-pb = {} (is_inf {}), (pb-pb)-pb = {}", hx(ab), hx(bb), hx(&d.to_bytes()), hx(&pa.to_bytes()), hx(&z.to_bytes()), hx(&negb.to_bytes()), hx(&back.to_bytes()), hx(&self_cancel.to_bytes()), self_cancel.is_inf(), hx(&again.to_bytes())),
            );
        }
    }
    sk_roundtrip(&mut out, "sum of secret keys", &s1);
    pk_roundtrip(&mut out, "sum of public keys", &p1);
    out
}

fn check_sign(_cx: &Ctx, skb: &[u8; 32], msg: &[u8]) -> Out {
    let mut out = Out::default();
    let Some(sk) = parse_sk(&mut out, skb) else { return out };
    out.bucket = format!("sign {}", if int(skb).bits() == 0 { "zero key" } else { "ok" });
    let s1 = sign(&sk, msg);
    // second run: key re-parsed, message in a different (shifted) buffer
    let mut buf = vec![0xaau8; 1];
    buf.extend_from_slice(msg);
    let sk2 = SecretKey::from_bytes(&sk.to_bytes());
    let Ok(sk2) = sk2 else {
        out.v("C16/sk/roundtrip", format!("secret key {} does not re-parse", hx(skb)));
        return out;
    };
    let s2 = sign(&sk2, &buf[1..]);
    let s2b = std::thread::scope(|sc| sc.spawn(|| sign(&sk, msg.to_vec())).join());
    let Ok(s2b) = s2b else {
        out.v("C16/sign/panic", format!("sign({}, {}) panicked on a second thread", hx(skb), hx(msg)));
        return out;
    };
    if s1 != s2 || s1.to_bytes() != s2.to_bytes() || s1.to_bytes() != s2b.to_bytes() {
        out.v("C16/sign/nondeterministic", format!("sign({}, {}) = {} then {} then {}", hx(skb), hx(msg), hx(&s1.to_bytes()), hx(&s2.to_bytes()), hx(&s2b.to_bytes())));
    }
    // the scheme's definition through two other routes: sign_raw on pk||msg, and sk * H(pk||msg)
    let pk = sk.public_key();
    let mut aug = pk.to_bytes().to_vec();
    aug.extend_from_slice(msg);
    let s3 = sign_raw(&sk, &aug);
    let mut s4 = hash_to_g2(&aug);
    s4.scalar_multiply(skb);
    if s3.to_bytes() != s1.to_bytes() || s4.to_bytes() != s1.to_bytes() {
        out.v(
            "C16/sign/not-sk-times-hash",
            format!("sign({}, {}) = {}; sign_raw(pk||msg) = {}; sk*hash_to_g2(pk||msg) = {}", hx(skb), hx(msg), hx(&s1.to_bytes()), hx(&s3.to_bytes()), hx(&s4.to_bytes())),
        );
    }
    // the signature survives every parser
    let b = s1.to_bytes();
    let ok = |r: Option<Signature>| matches!(&r, Some(q) if *q == s1 && q.to_bytes() == b);
    let routes = [
        ("from_bytes", ok(Signature::from_bytes(&b).ok())),
        ("from_bytes_unchecked", ok(Signature::from_bytes_unchecked(&b).ok())),
        ("Streamable::from_bytes", ok(<Signature as Streamable>::from_bytes(&b).ok())),
        ("Streamable::from_bytes_unchecked", ok(<Signature as Streamable>::from_bytes_unchecked(&b).ok())),
    ];
    for (name, good) in routes {
        if !good {
            out.v("C16/g2/roundtrip", format!("sign({}, {}) = {} does not survive {name}", hx(skb), hx(msg), hx(&b)));
        }
    }
    out
}

fn check_gt(cx: &Ctx, ab: &[u8; 32], bb: &[u8; 32]) -> Out {
    let mut out = Out::default();
    let (Some(a), Some(b)) = (parse_sk(&mut out, ab), parse_sk(&mut out, bb)) else { return out };
    out.bucket = if ab == bb { "gt a=b".into() } else { "gt a!=b".into() };
    let (pa, pb) = (a.public_key(), b.public_key());
    let mut qa = Signature::generator();
    qa.scalar_multiply(ab);
    let mut qb = Signature::generator();
    qb.scalar_multiply(bb);
    let prod = be32(&((int(ab) * int(bb)) % &cx.f.r));
    let mut qab = Signature::generator();
    qab.scalar_multiply(&prod);
    // three routes to e(G1, G2)^(ab)
    let e1 = qb.pair(&pa);
    let e2 = qa.pair(&pb);
    let e3 = qab.pair(&PublicKey::generator());
    let bytes = e1.to_bytes();
    if e1 != e2 || e1 != e3 {
        out.v("C16/gt/bilinearity", format!("a={} b={}: e(aG1,bG2), e(bG1,aG2), e(G1,abG2) are not all equal", hx(ab), hx(bb)));
    } else if bytes != e2.to_bytes() || bytes != e3.to_bytes() {
        out.v("C16/gt/encoding-not-unique", format!("a={} b={}: equal pairing values serialize differently: {} / {} / {}", hx(ab), hx(bb), hx(&bytes[..24]), hx(&e2.to_bytes()[..24]), hx(&e3.to_bytes()[..24])));
    }
    // serialize / parse identity, raw and streamable
    let back = GTElement::from_bytes(&bytes);
    let mut streamed = Vec::new();
    let sr = e1.stream(&mut streamed);
    let st = <GTElement as Streamable>::from_bytes(&bytes[..]);
    let st_u = <GTElement as Streamable>::from_bytes_unchecked(&bytes[..]);
    let good = |g: &GTElement| *g == e1 && g.to_bytes() == bytes;
    if !good(&back) || sr.is_err() || streamed != bytes || !matches!(&st, Ok(g) if good(g)) || !matches!(&st_u, Ok(g) if good(g)) {
        out.v("C16/gt/roundtrip", format!("a={} b={}: pairing value does not survive to_bytes/from_bytes (raw ok={}, stream ok={}, Streamable ok={}/{})", hx(ab), hx(bb), good(&back), streamed == bytes, st.is_ok(), st_u.is_ok()));
    }
    let mut longer = bytes.to_vec();
    longer.push(0);
    if <GTElement as Streamable>::from_bytes(&longer).is_ok() || <GTElement as Streamable>::from_bytes(&bytes[..bytes.len() - 1]).is_ok() {
        out.v("C16/gt/streamable-accepts-wrong-length", format!("a={} b={}: GTElement parses from {} or {} bytes", hx(ab), hx(bb), bytes.len() + 1, bytes.len() - 1));
    }
    out
}

fn run_case(cx: &Ctx, c: &Case) -> Out {
    let r = catch(|| match c {
        Case::G1(s) => check_g1(cx, s),
        Case::G2(s) => check_g2(cx, s),
        Case::Sk(s) => check_sk(cx, s),
        Case::ModR(s) => check_modr(cx, s),
        Case::Derive { sk, path } => check_derive(cx, sk, path),
        Case::Wallet { sk, idx } => check_wallet(cx, sk, *idx),
        Case::Synthetic { sk, h } => check_synthetic(cx, sk, *h),
        Case::Add { a, b } => check_add(cx, a, b),
        Case::Sign { sk, msg } => check_sign(cx, sk, msg),
        Case::Gt { a, b } => check_gt(cx, a, b),
        Case::Seed(s) => check_seed(cx, s),
    });
    match r {
        Ok(o) => o,
        Err(p) => {
            let mut o = Out::default();
            o.bucket = format!("{} PANIC", c.family());
            o.v(&format!("C16/{}/panic", c.family()), format!("panic: {p}"));
            o
        }
    }
}

// ------------------------------------------------------------------------------------------
// reference self-test: vectors quoted in the repo's unit tests (blspy / bls-signatures output)

fn h48(s: &str) -> Vec<u8> {
    hex::decode(s).expect("hex")
}

fn ref_pk_bytes(f: &Field, sk: &BigUint) -> Vec<u8> {
    let Decoded::Point(gx, gy) = f.decode(Group::G1, &h48(common::G1_GEN_HEX)) else { return vec![] };
    let g = f.jac_from_affine(&gx, &gy);
    f.encode_jac(Group::G1, &f.jac_mul(&g, sk))
}

fn ref_derive(f: &Field, sk: &BigUint, idx: u32) -> BigUint {
    let pk = ref_pk_bytes(f, sk);
    (sk + int(&sha256(&[&pk, &idx.to_be_bytes()]))) % &f.r
}

fn ref_synthetic(f: &Field, sk: &BigUint, h: &[u8; 32]) -> BigUint {
    let pk = ref_pk_bytes(f, sk);
    (sk + signed_be_mod_r(&sha256(&[&pk, h]), &f.r)) % &f.r
}

fn self_test(cx: &Ctx) -> Vec<String> {
    let f = &cx.f;
    let mut bad: Vec<String> = Vec::new();
    let mut expect = |name: &str, ok: bool| {
        if !ok {
            bad.push(format!("reference self-test failed: {name}"));
        }
    };
    // generators
    for (g, hexs) in [(Group::G1, common::G1_GEN_HEX), (Group::G2, common::G2_GEN_HEX)] {
        let bytes = h48(hexs);
        match f.decode(g, &bytes) {
            Decoded::Point(x, y) => {
                expect("generator on curve", f.on_curve(g, &x, &y));
                expect("generator in subgroup", f.in_subgroup(&x, &y));
                expect("generator re-encodes", f.encode(g, Some((&x, &y))) == bytes);
                let j = f.jac_from_affine(&x, &y);
                let m = f.jac_mul(&j, &(&f.r - 1u32));
                let neg = f.encode_jac(g, &f.jac_neg(&j));
                expect("(r-1)*G = -G", f.encode_jac(g, &m) == neg);
                expect("-G differs from G in the sign flag only", neg[0] == bytes[0] ^ 0x20 && neg[1..] == bytes[1..]);
            }
            _ => expect("generator decodes", false),
        }
    }
    // uncompressed -> compressed vectors (public_key.rs / signature.rs test_from_uncompressed)
    let g1_unc = [
        ("06f6ba2972ab1c83718d747b2d55cca96d08729b1ea5a3ab3479b8efe2d455885abf65f58d1507d7f260cd2a4687db821171c9d8dc5c0f5c3c4fd64b26cf93ff28b2e683c409fb374c4e26cc548c6f7cef891e60b55e6115bb38bbe97822e4d4", "a6f6ba2972ab1c83718d747b2d55cca96d08729b1ea5a3ab3479b8efe2d455885abf65f58d1507d7f260cd2a4687db82"),
        ("127271e81a1cb5c08a68694fcd5bd52f475d545edd4fbd49b9f6ec402ee1973f9f4102bf3bfccdcbf1b2f862af89a1340d40795c1c09d1e10b1acfa0f3a97a71bf29c11665743fa8d30e57e450b8762959571d6f6d253b236931b93cf634e7cf", "b27271e81a1cb5c08a68694fcd5bd52f475d545edd4fbd49b9f6ec402ee1973f9f4102bf3bfccdcbf1b2f862af89a134"),
        ("0fe94ac2d68d39d9207ea0cae4bb2177f7352bd754173ed27bd13b4c156f77f8885458886ee9fbd212719f27a96397c110fa7b4f898b1c45c2e82c5d46b52bdad95cae8299d4fd4556ae02baf20a5ec989fc62f28c8b6b3df6dc696f2afb6e20", "afe94ac2d68d39d9207ea0cae4bb2177f7352bd754173ed27bd13b4c156f77f8885458886ee9fbd212719f27a96397c1"),
        ("13aedc305adfdbc854aa105c41085618484858e6baa276b176fd89415021f7a0c75ff4f9ec39f482f142f1b54c11144815e519df6f71b1db46c83b1d2bdf381fc974059f3ccd87ed5259221dc37c50c3be407b58990d14b6d5bb79dad9ab8c42", "b3aedc305adfdbc854aa105c41085618484858e6baa276b176fd89415021f7a0c75ff4f9ec39f482f142f1b54c111448"),
    ];
    for (unc, comp) in g1_unc {
        let u = h48(unc);
        let want = (Fp2 { c0: int(&u[..48]), c1: int(&[]) }, Fp2 { c0: int(&u[48..]), c1: int(&[]) });
        match f.decode(Group::G1, &h48(comp)) {
            Decoded::Point(x, y) => expect("G1 uncompressed vector", x == want.0 && y == want.1 && f.encode(Group::G1, Some((&x, &y))) == h48(comp)),
            _ => expect("G1 uncompressed vector decodes", false),
        }
    }
    let g2_unc = [
        ("0a7ecb9c6d6f0af8d922c9b348d686f7f827c5f5d7a53036e5dd6c4cfe088806375d730251df57c03b0eaa41ca2a9cc51817cfd6118c065e9b337e42a6b66621e2ffa79f576ae57dcb4916459b0131d42383b790a4f60c5aeb339b61a78d85a808b73e0701084dc16b5d7aa8c2f5385f83a217bc29934d0d02c51365410232e3c0288438e3110aa6e8cdef7bd32c46d60d0104952aaa0f0545cbe1548b70eed8b543ce19ede34cc51a387d092221417db0253f4651666b17303e225eac706107", "8a7ecb9c6d6f0af8d922c9b348d686f7f827c5f5d7a53036e5dd6c4cfe088806375d730251df57c03b0eaa41ca2a9cc51817cfd6118c065e9b337e42a6b66621e2ffa79f576ae57dcb4916459b0131d42383b790a4f60c5aeb339b61a78d85a8"),
        ("13e02b6052719f607dacd3a088274f65596bd0d09920b61ab5da61bbdc7f5049334cf11213945d57e5ac7d055d042b7e024aa2b2f08f0a91260805272dc51051c6e47ad4fa403b02b4510b647ae3d1770bac0326a805bbefd48056c8c121bdb80606c4a02ea734cc32acd2b02bc28b99cb3e287e85a763af267492ab572e99ab3f370d275cec1da1aaa9075ff05f79be0ce5d527727d6e118cc9cdc6da2e351aadfd9baa8cbdd3a76d429a695160d12c923ac9cc3baca289e193548608b82801", "93e02b6052719f607dacd3a088274f65596bd0d09920b61ab5da61bbdc7f5049334cf11213945d57e5ac7d055d042b7e024aa2b2f08f0a91260805272dc51051c6e47ad4fa403b02b4510b647ae3d1770bac0326a805bbefd48056c8c121bdb8"),
        ("140acf170629d78244fb753f05fb79578add9217add53996d5de7c3005880c0dea903f851d6be749ebfb81c9721871370ef60428444d76f4ff81515628a4eb63e72c3cd7651a23c4eca109d1d88fec5a53626b36c76407926f308366b5ded1b219a481d87c6f87a4021fa8aa32851874f01b3eb011f6ed69c7884717fb0f5239bdc7310c2bc287659cd4a93976deaac20f4a21f0b004c767be4a21f36861616a5399b3e27431dc8133f325603230eaf1debdce8077105ab46baafa4836842305", "b40acf170629d78244fb753f05fb79578add9217add53996d5de7c3005880c0dea903f851d6be749ebfb81c9721871370ef60428444d76f4ff81515628a4eb63e72c3cd7651a23c4eca109d1d88fec5a53626b36c76407926f308366b5ded1b2"),
    ];
    for (unc, comp) in g2_unc {
        let u = h48(unc);
        let mut first = u[..48].to_vec();
        first[0] &= 0x1f;
        let want = (Fp2 { c1: int(&first), c0: int(&u[48..96]) }, Fp2 { c1: int(&u[96..144]), c0: int(&u[144..]) });
        match f.decode(Group::G2, &h48(comp)) {
            Decoded::Point(x, y) => expect("G2 uncompressed vector", x == want.0 && y == want.1 && f.encode(Group::G2, Some((&x, &y))) == h48(comp)),
            _ => expect("G2 uncompressed vector decodes", false),
        }
    }
    // a blspy signature is a subgroup point (signature.rs test_verify)
    match f.decode(Group::G2, &h48("b45825c0ee7759945c0189b4c38b7e54231ebadc83a851bec3bb7cf954a124ae0cc8e8e5146558332ea152f63bf8846e04826185ef60e817f271f8d500126561319203f9acb95809ed20c193757233454be1562a5870570941a84605bd2c9c9a")) {
        Decoded::Point(x, y) => expect("blspy signature in subgroup", f.in_subgroup(&x, &y)),
        _ => expect("blspy signature decodes", false),
    }
    // secret key -> public key vectors (secret_key.rs test_public_key)
    let sk_pk = [
        ("5aac8405befe4cb3748a67177c56df26355f1f98d979afdb0b2f97858d2f71c3", "b9de000821a610ef644d160c810e35113742ff498002c2deccd8f1a349e423047e9b3fc17ebfc733dbee8fd902ba2961"),
        ("23f1fb291d3bd7434282578b842d5ea4785994bb89bd2c94896d1b4be6c70ba2", "96f304a5885e67abdeab5e1ed0576780a1368777ea7760124834529e8694a1837a20ffea107b9769c4f92a1f6c167e69"),
        ("2bc1d6d6efe58d365c29ccb7ad12c8457c0eec70a29003073692ac4cb1cd7ba2", "b10568446def64b17fc9b6d614ae036deaac3f2d654e12e45ea04b19208246e0d760e8826426e97f9f0666b7ce340d75"),
    ];
    for (sk, pk) in sk_pk {
        expect("sk -> pk vector", ref_pk_bytes(f, &big(sk)) == h48(pk));
    }
    // pk + pk, pk + pk + pk (public_key.rs test_aggregate_pubkey)
    let base = big("52d75c4707e39595b27314547f9723e5530c01198af3fc5849d9a7af65631efb");
    if let Decoded::Point(x, y) = f.decode(Group::G1, &ref_pk_bytes(f, &base)) {
        let j = f.jac_from_affine(&x, &y);
        let two = f.jac_add(&j, &j);
        let three = f.jac_add(&two, &j);
        expect("pk+pk vector", f.encode_jac(Group::G1, &two) == h48("b1b8033286299e7f238aede0d3fea48d133a1e233139085f72c102c2e6cc1f8a4ea64ed2838c10bbd2ef8f78ef271bf3"));
        expect("pk+pk+pk vector", f.encode_jac(Group::G1, &three) == h48("a8bc2047d90c04a12e8c38050ec0feb4417b4d5689165cd2cea8a7903aad1778e36548a46d427b5ec571364515e456d6"));
    } else {
        expect("pk of the blspy key decodes", false);
    }
    // unhardened children (secret_key.rs test_derive_unhardened)
    let kids = [
        "399638f99d446500f3c3a363f24c2b0634ad7caf646f503455093f35f29290bd",
        "3dcb4098ad925d8940e2f516d2d5a4dbab393db928a8c6cb06b93066a09a843a",
        "13115c8fb68a3d667938dac2ffc6b867a4a0f216bbb228aa43d6bdde14245575",
        "52e7e9f2fb51f2c5705aea8e11ac82737b95e664ae578f015af22031d956f92b",
    ];
    for (i, k) in kids.iter().enumerate() {
        expect("derive_unhardened vector", ref_derive(f, &base, i as u32) == big(k));
    }
    // synthetic keys (derive_synthetic.rs): wallet path 12381/8444/2/index, default hidden puzzle
    let root = big("6bb19282e27bc6e7e397fb19efc2627a412410fdfd13bf14f4ce5bfdce084c71");
    let mut inter = root;
    for step in [12381u32, 8444, 2] {
        inter = ref_derive(f, &inter, step);
    }
    let syn = [
        ("64c91fe4534fc21c36096be012e0e14de484180a1a510783367bcd5ccecaad0c", "b0c8cf08fdbe7fdb7bb1795740153b944c32364b100c372a05833554cb97794563b096cb5f57bfa09f38d7aebb48704e"),
        ("13a0f95de0dd347c769ee79e9828a698bfe53429233375e891f05b4e0eaa8219", "8b1b92da63fdf8c4b53349da2fdd84685303587653f1a75826a56a97ea50b86ca8a0fbf6a5d6605c70b6be324bc59c85"),
        ("4399fcc4435e014f24fa31f8acf419367e0fbac70c9d6df53a7cc31623a10eac", "a472c01f0b32457aea348ef0493e1d394445df528e0d4139056ba6b4eb57eed593732c830acd897dab502f119d1ae2ff"),
        ("5ef7d10f546d45ae919277568d2142f9e907933d4393111c54b13425c20abce1", "8b9e4040514e55110cd899b43a5fb8fa6f74e28620f80d20401101f88a77624128c818238073f618b72065a7a7264402"),
        ("0c39c6c5d70ee05cbd3da44ae918af21469f235dc0bea0116566a4379d33f1f5", "ac334afc58318068c6ec2daffb336cedc8a01d382e87852c62846fa17f9249c8b0896d1c09a26c80ec945f93002d0ff4"),
        ("39fbf8ed5b0b7071ba155d7a0180af13ea88aec08d74afaa86ea11ad61cb06ec", "8d63ad4f29c7f163f6742f41bb3dc08ea6975ecad0b76324545e6154d89370a695b9ae803bc65c3384d8557f3de67a40"),
    ];
    let results: Vec<bool> = syn
        .par_iter()
        .enumerate()
        .map(|(i, (sk_hex, pk_hex))| {
            let child = ref_derive(f, &inter, i as u32);
            let s = ref_synthetic(f, &child, &cx.default_hidden_hash);
            s == big(sk_hex) && ref_pk_bytes(f, &s) == h48(pk_hex)
        })
        .collect();
    expect("synthetic key vectors (own tree hash of (=), signed offset)", results.iter().all(|b| *b));
    bad
}

// ------------------------------------------------------------------------------------------
// alphabets

const INDICES: [u32; 6] = [0, 1, 2, (1 << 31) - 1, 1 << 31, u32::MAX];

fn seed_bytes(i: u8) -> Vec<u8> {
    vec![i; 32]
}

/// (label, secret key bytes): seeds [i;32] through from_seed, then the boundary scalars
fn key_alphabet(cx: &Ctx, nseeds: u8, problems: &mut Vec<String>) -> Vec<[u8; 32]> {
    let mut v: Vec<[u8; 32]> = Vec::new();
    for i in 0..nseeds {
        match catch(|| SecretKey::from_seed(&seed_bytes(i)).to_bytes()) {
            Ok(b) => v.push(b),
            Err(p) => problems.push(format!("from_seed([{i};32]) panicked: {p}")),
        }
    }
    let r = &cx.f.r;
    for s in [
        BigUint::from(0u32),
        BigUint::from(1u32),
        BigUint::from(2u32),
        BigUint::from(3u32),
        r - 1u32,
        r - 2u32,
        (r - 1u32) >> 1,
        (r + 1u32) >> 1,
    ] {
        v.push(be32(&s));
    }
    v
}

fn paths(max_len: usize) -> Vec<Vec<u32>> {
    let mut out: Vec<Vec<u32>> = Vec::new();
    let mut level: Vec<Vec<u32>> = vec![vec![]];
    for _ in 0..max_len {
        let mut next = Vec::new();
        for p in &level {
            for i in INDICES {
                let mut q = p.clone();
                q.push(i);
                next.push(q);
            }
        }
        out.extend(next.iter().cloned());
        level = next;
    }
    out
}

fn sub_byte(base: &[u8], pos: usize, val: u8) -> Vec<u8> {
    let mut s = base.to_vec();
    s[pos] = val;
    s
}

fn pad48(v: &BigUint) -> Option<Vec<u8>> {
    let b = v.to_bytes_be();
    if b.len() > 48 {
        return None;
    }
    let mut out = vec![0u8; 48];
    out[48 - b.len()..].copy_from_slice(&b);
    Some(out)
}

/// strings shared by both groups: n = 48 or 96
fn point_strings(cx: &Ctx, g: Group, bases: &[Vec<u8>], positions_of: &dyn Fn(usize) -> Vec<usize>, small: (u32, u32)) -> BTreeSet<Vec<u8>> {
    let n = if g == Group::G1 { 48 } else { 96 };
    let p = &cx.f.p;
    let mut set: BTreeSet<Vec<u8>> = BTreeSet::new();
    for (bi, base) in bases.iter().enumerate() {
        // all 8 combinations of the three flag bits
        for flags in 0..8u8 {
            set.insert(sub_byte(base, 0, (base[0] & 0x1f) | (flags << 5)));
        }
        // single-byte substitutions by all 256 values
        for pos in positions_of(bi) {
            for v in 0..=255u8 {
                set.insert(sub_byte(base, pos, v));
            }
        }
        // the same point with a coordinate that is not reduced: x + k*p
        let flags = base[0] & 0xe0;
        let mut first = base[..48].to_vec();
        first[0] &= 0x1f;
        let a = int(&first);
        for k in 1..=8u32 {
            let alias = &a + p * k;
            if alias.bits() <= 381 {
                if let Some(mut b) = pad48(&alias) {
                    b[0] |= flags;
                    let mut s = base.clone();
                    s[..48].copy_from_slice(&b);
                    set.insert(s);
                }
            }
            if g == Group::G2 {
                let alias = int(&base[48..]) + p * k;
                if let Some(b) = pad48(&alias) {
                    let mut s = base.clone();
                    s[48..].copy_from_slice(&b);
                    set.insert(s);
                }
            }
        }
        // length rule of the generic Streamable entry points
        set.insert(base[..n - 1].to_vec());
        let mut longer = base.clone();
        longer.push(0);
        set.insert(longer);
    }
    // byte 0 = anything, rest zero (infinity and its non-canonical relatives, x = 0, x = k * 2^376)
    for v in 0..=255u8 {
        set.insert(sub_byte(&vec![0u8; n], 0, v));
    }
    // one stray bit anywhere behind the common first bytes (every position: the zero test is word-aligned code)
    for b0 in [0xc0u8, 0xe0, 0x80, 0xa0, 0x40, 0x00] {
        for pos in 1..n {
            for v in [0x01u8, 0x80] {
                let mut s = vec![0u8; n];
                s[0] = b0;
                s[pos] = v;
                set.insert(s);
            }
        }
    }
    // coordinates around the modulus
    let one = BigUint::from(1u32);
    let around: Vec<BigUint> = vec![BigUint::from(0u32), one.clone(), p - 2u32, p - 1u32, p.clone(), p + 1u32, p + 2u32, (&one << 381u32) - 1u32];
    for a in &around {
        for sign in [0x80u8, 0xa0] {
            let Some(mut first) = pad48(a) else { continue };
            first[0] |= sign;
            if g == Group::G1 {
                set.insert(first);
            } else {
                for b in &around {
                    let Some(second) = pad48(b) else { continue };
                    let mut s = first.clone();
                    s.extend_from_slice(&second);
                    set.insert(s);
                }
            }
        }
    }
    // small x with both sign flags: about half are on the curve, essentially none in the subgroup
    for c1 in 0..small.0 {
        for c0 in 0..small.1 {
            for sign in [0x80u8, 0xa0] {
                let mut s = vec![0u8; n];
                if g == Group::G1 {
                    s[44..48].copy_from_slice(&c0.to_be_bytes());
                } else {
                    s[44..48].copy_from_slice(&c1.to_be_bytes());
                    s[92..96].copy_from_slice(&c0.to_be_bytes());
                }
                s[0] |= sign;
                set.insert(s);
            }
        }
    }
    set
}

fn sk_strings(cx: &Ctx, seeds: &[[u8; 32]]) -> BTreeSet<Vec<u8>> {
    let r = &cx.f.r;
    let mut set: BTreeSet<Vec<u8>> = BTreeSet::new();
    let one = BigUint::from(1u32);
    let top = (&one << 256u32) - 1u32;
    for v in [
        BigUint::from(0u32),
        one.clone(),
        BigUint::from(2u32),
        r - 2u32,
        r - 1u32,
        r.clone(),
        r + 1u32,
        r + 2u32,
        r * 2u32 - 1u32,
        r * 2u32,
        r * 2u32 + 1u32,
        &one << 255u32,
        (&one << 255u32) - 1u32,
        top.clone(),
        &top - 1u32,
    ] {
        set.insert(be32(&v).to_vec());
    }
    let mut bases: Vec<[u8; 32]> = vec![be32(&(r - 1u32)), be32(r), [0u8; 32]];
    bases.extend(seeds.iter().copied());
    for b in &bases {
        for pos in 0..32 {
            for v in 0..=255u8 {
                set.insert(sub_byte(b, pos, v));
            }
        }
        set.insert(b[..31].to_vec());
        let mut longer = b.to_vec();
        longer.push(0);
        set.insert(longer);
    }
    set
}

fn modr_strings(cx: &Ctx) -> BTreeSet<Vec<u8>> {
    let r = &cx.f.r;
    let one = BigUint::from(1u32);
    let mut bases: Vec<[u8; 32]> = vec![[0u8; 32], [0xffu8; 32], be32(r), be32(&(r * 2u32)), be32(&((&one << 255u32) - 1u32)), be32(&(&one << 255u32))];
    // -r and -2r as 256-bit two's complement
    bases.push(be32(&((&one << 256u32) - r)));
    bases.push(be32(&((&one << 256u32) - r * 2u32)));
    let mut set: BTreeSet<Vec<u8>> = BTreeSet::new();
    for b in &bases {
        for d in [0u32, 1, 2] {
            let v = int(b);
            set.insert(be32(&((&v + d) % (&one << 256u32))).to_vec());
            if v >= BigUint::from(d) {
                set.insert(be32(&(&v - d)).to_vec());
            }
        }
        for pos in 0..32 {
            for v in 0..=255u8 {
                set.insert(sub_byte(b, pos, v));
            }
        }
    }
    set
}

// ------------------------------------------------------------------------------------------
// driver

#[derive(Default)]
struct Acc {
    evals: u64,
    buckets: BTreeMap<String, u64>,
    families: BTreeMap<&'static str, u64>,
    distinct: Vec<u64>,
    viols: Vec<(String, Value, String)>,
    machinery: Vec<String>,
    /// first case (by index in the deterministic case order) of every outcome bucket
    first: BTreeMap<String, usize>,
}

impl Acc {
    fn merge(mut self, o: Acc) -> Acc {
        self.evals += o.evals;
        for (k, v) in o.buckets {
            *self.buckets.entry(k).or_insert(0) += v;
        }
        for (k, v) in o.families {
            *self.families.entry(k).or_insert(0) += v;
        }
        self.distinct.extend(o.distinct);
        self.viols.extend(o.viols);
        self.machinery.extend(o.machinery);
        for (k, v) in o.first {
            let e = self.first.entry(k).or_insert(v);
            *e = (*e).min(v);
        }
        self
    }
}

fn run_cases(rep: &Report, cx: &Ctx, cases: &[Case]) -> BTreeMap<String, usize> {
    let acc = cases
        .par_iter()
        .enumerate()
        .fold(Acc::default, |mut acc, (i, c)| {
            let o = run_case(cx, c);
            acc.evals += 1;
            let e = acc.first.entry(o.bucket.clone()).or_insert(i);
            *e = (*e).min(i);
            *acc.buckets.entry(o.bucket).or_insert(0) += 1;
            *acc.families.entry(c.family()).or_insert(0) += 1;
            acc.distinct.push(fxhash(c));
            for (sig, detail) in o.viols {
                acc.viols.push((sig, c.to_json(), detail));
            }
            acc.machinery.extend(o.machinery);
            acc
        })
        .reduce(Acc::default, Acc::merge);
    rep.evals(acc.evals);
    for (k, v) in &acc.buckets {
        rep.outcome_n(k, *v);
    }
    for (k, v) in &acc.families {
        rep.extra_add(&format!("cases_{k}"), *v);
    }
    rep.distinct_many(acc.distinct);
    for (sig, case, detail) in acc.viols {
        rep.violation(&sig, case, detail);
    }
    for m in acc.machinery.iter().take(5) {
        rep.machinery_error(m);
    }
    acc.first
}

fn make_ctx() -> Ctx {
    Ctx { f: Field::new(), default_hidden_hash: Sx::cons(Sx::int(9), Sx::nil()).tree_hash() }
}

fn run(rep: &Report) {
    let cx = make_ctx();
    let quick = rep.tier == Tier::Quick;
    rep.set_rule(
        "keys: from_seed([i;32]) for i<32 (quick) / i<64 (thorough) plus scalars {0,1,2,3,r-1,r-2,(r-1)/2,(r+1)/2}; \
         derivation: every path over indices {0,1,2,2^31-1,2^31,2^32-1} of length <=2 (quick) / <=3 (thorough) from every key, both routes at every step, plus the wallet paths 12381/8444/2[/idx]; \
         synthetic: every key x hidden hash in {derive_synthetic(), explicit default, 00.., ff.., [k;32] k=1..4 (thorough ..12)}; addition: every ordered pair of keys; \
         signing: every key x 6 messages (lengths 0,1,5,32,256,1000); pairing values: ordered pairs of 10 (quick) / all (thorough) non-zero keys; \
         byte strings: for the base encodings (G1: G, -G, 1/4 seed keys, 1/2 keys whose x+p still fits 381 bits; G2: generator, a signature, thorough also -generator and a second signature): all 8 flag combinations, \
         every single-byte substitution by all 256 values at every byte position (quick: G1 first base only, G2 first base at bytes 0-3,44-51,92-95; the other bases at bytes {0,1,47} (G2 also {48,95})), \
         non-reduced aliases x+kp, lengths n-1 / n+1; byte0 in 0..255 with the rest zero; one stray bit {01,80} at every position behind first byte {c0,e0,80,a0,40,00}; coordinates {0,1,p-2..p+2,2^381-1} (G2: all pairs); \
         small x (G1 x<2048 quick / <8192 thorough; G2 c1<8,c0<64 quick / c1<16,c0<128 thorough) with both sign flags; every public key / signature produced by the laws at depth <=1 (quick) / <=2 (thorough); \
         secret-key strings: boundaries around 0, r, 2r, 2^255, 2^256 and every single-byte substitution of {r-1, r, 0, 2 seed keys}, lengths 31/33; mod_by_group_order on boundaries and every single-byte substitution of {0, ff.., r, 2r, 2^255-1, 2^255, -r, -2r}. \
         distinct = distinct cases (family + full input); all cases are distinct by construction",
    );
    rep.assume("reference arithmetic in c16_common (num-bigint Fp/Fp2, Jacobian double-and-add, ZCash encoding) is the definition; it is re-validated at start-up against the blspy / bls-signatures vectors quoted in the repo's unit tests");
    rep.assume("SHA-256 from the sha2 crate; the reference child / synthetic secret keys hash the public-key bytes produced by the real public_key(), which the G1 string checks and the vectors tie to the reference");
    rep.assume("synthetic offset is python's int.from_bytes(sha256(pk||hash), 'big', signed=True) % r (chia wallet definition, confirmed by the repo's vectors)");

    // 0. the reference must reproduce the external vectors before it may judge anything
    let bad = self_test(&cx);
    if !bad.is_empty() {
        for b in bad {
            rep.machinery_error(&b);
        }
        return;
    }
    rep.extra("reference_self_test", json!("passed: generators, 4 G1 + 3 G2 uncompressed vectors, blspy signature, 3 sk->pk, pk+pk, pk+pk+pk, 4 unhardened children, 6 synthetic sk/pk vectors"));
    if cx.default_hidden_hash != DEFAULT_HIDDEN_PUZZLE_HASH {
        rep.violation(
            "C16/synthetic/default-hidden-hash",
            json!({"kind":"constant"}),
            format!("DEFAULT_HIDDEN_PUZZLE_HASH {} is not the tree hash of (=) {}", hx(&DEFAULT_HIDDEN_PUZZLE_HASH), hx(&cx.default_hidden_hash)),
        );
    }

    let mut problems = Vec::new();
    let nseeds: u8 = rep.tier.pick(32, 64);
    let keys = key_alphabet(&cx, nseeds, &mut problems);
    for p in problems {
        rep.violation("C16/seed/panic", json!({"kind":"seed"}), p);
    }
    rep.extra("keys", json!(keys.len()));

    let mut cases: Vec<Case> = Vec::new();

    // ---- laws
    for i in 0..nseeds {
        cases.push(Case::Seed(seed_bytes(i)));
    }
    let all_paths = paths(rep.tier.pick(2, 3));
    let mut hs: Vec<Option<[u8; 32]>> = vec![None, Some(DEFAULT_HIDDEN_PUZZLE_HASH), Some([0u8; 32]), Some([0xffu8; 32])];
    for b in 1..=rep.tier.pick(4u8, 12u8) {
        hs.push(Some([b; 32]));
    }
    let msgs: Vec<Vec<u8>> = vec![vec![], vec![0], b"hello".to_vec(), vec![0xff; 32], (0..=255u8).collect(), (0..1000u32).map(|i| (i * 7 % 251) as u8).collect()];
    for k in &keys {
        for p in &all_paths {
            cases.push(Case::Derive { sk: *k, path: p.clone() });
        }
        cases.push(Case::Wallet { sk: *k, idx: None });
        for i in INDICES {
            cases.push(Case::Wallet { sk: *k, idx: Some(i) });
        }
        for h in &hs {
            cases.push(Case::Synthetic { sk: *k, h: *h });
        }
        for k2 in &keys {
            cases.push(Case::Add { a: *k, b: *k2 });
        }
        for m in &msgs {
            cases.push(Case::Sign { sk: *k, msg: m.clone() });
        }
    }
    // pairing values: non-zero keys only (the pairing of the point at infinity is not a value this API promises)
    let nonzero: Vec<[u8; 32]> = keys.iter().rev().filter(|k| **k != [0u8; 32]).copied().collect();
    let gt_keys: Vec<[u8; 32]> = nonzero.iter().take(rep.tier.pick(10, usize::MAX)).copied().collect();
    rep.extra("gt_keys", json!(gt_keys.len()));
    for a in &gt_keys {
        for b in &gt_keys {
            cases.push(Case::Gt { a: *a, b: *b });
        }
    }

    // ---- byte strings
    let pk_of = |b: &[u8; 32]| SecretKey::from_bytes(b).map(|k| k.public_key().to_bytes().to_vec());
    let mut g1_bases: Vec<Vec<u8>> = Vec::new();
    let mut g2_bases: Vec<Vec<u8>> = Vec::new();
    let built = catch(|| {
        let mut g1: Vec<Vec<u8>> = Vec::new();
        g1.push(PublicKey::generator().to_bytes().to_vec());
        // keys whose x coordinate leaves room for the alias x + p below 2^381
        let room = (BigUint::from(1u32) << 381u32) - &cx.f.p;
        let mut found = 0;
        for s in 2..400u32 {
            if let Ok(b) = pk_of(&be32(&BigUint::from(s))) {
                let mut first = b.clone();
                first[0] &= 0x1f;
                if int(&first) < room {
                    g1.push(b);
                    found += 1;
                    if found == if quick { 1 } else { 2 } {
                        break;
                    }
                }
            }
        }
        if let Ok(b) = pk_of(&be32(&(&cx.f.r - 1u32))) {
            g1.push(b);
        }
        for k in keys.iter().take(if quick { 1 } else { 4 }) {
            if let Ok(b) = pk_of(k) {
                g1.push(b);
            }
        }
        let mut g2: Vec<Vec<u8>> = Vec::new();
        g2.push(Signature::generator().to_bytes().to_vec());
        if let Ok(k) = SecretKey::from_bytes(&keys[0]) {
            g2.push(sign(&k, b"hello").to_bytes().to_vec());
        }
        if !quick {
            let mut neg = Signature::generator();
            neg.negate();
            g2.push(neg.to_bytes().to_vec());
            if let Ok(k) = SecretKey::from_bytes(&keys[1]) {
                g2.push(sign(&k, b"").to_bytes().to_vec());
            }
        }
        (g1, g2)
    });
    match built {
        Ok((a, b)) => {
            g1_bases = a;
            g2_bases = b;
        }
        Err(p) => rep.machinery_error(&format!("building base encodings panicked: {p}")),
    }
    rep.extra("g1_base_encodings", json!(g1_bases.iter().map(|b| hx(b)).collect::<Vec<_>>()));
    rep.extra("g2_base_encodings", json!(g2_bases.len()));
    let g1_small = rep.tier.pick((1u32, 2048u32), (1, 8192));
    let g2_small = rep.tier.pick((8u32, 64u32), (16, 128));
    // byte positions that get all 256 substitutions, per base encoding
    let g1_pos = |bi: usize| -> Vec<usize> {
        if !quick || bi == 0 { (0..48).collect() } else { vec![0, 1, 47] }
    };
    let g2_pos = |bi: usize| -> Vec<usize> {
        if !quick {
            (0..96).collect()
        } else if bi == 0 {
            // both ends of both coordinates
            (0..4).chain(44..52).chain(92..96).collect()
        } else {
            vec![0, 1, 47, 48, 95]
        }
    };
    for s in point_strings(&cx, Group::G1, &g1_bases, &g1_pos, g1_small) {
        cases.push(Case::G1(s));
    }
    for s in point_strings(&cx, Group::G2, &g2_bases, &g2_pos, g2_small) {
        cases.push(Case::G2(s));
    }
    // every public key / signature the laws produce (derivation depth <= 1 quick / <= 2 thorough, every synthetic key,
    // every signature) also goes through the full reference decoder + subgroup test. A panic while producing them is
    // not reported here: the law cases above run the same calls and report it with a replayable case.
    let prod_paths = paths(rep.tier.pick(1, 2));
    let produced: Vec<Case> = keys
        .par_iter()
        .flat_map_iter(|k| {
            let mut v: Vec<Case> = Vec::new();
            if let Ok(sk) = SecretKey::from_bytes(k) {
                let pk = sk.public_key();
                v.push(Case::G1(pk.to_bytes().to_vec()));
                for p in &prod_paths {
                    let r = catch(|| {
                        let mut q = pk;
                        for i in p {
                            q = q.derive_unhardened(*i);
                        }
                        q.to_bytes().to_vec()
                    });
                    v.extend(r.ok().map(Case::G1));
                }
                for h in &hs {
                    let r = catch(|| match h {
                        None => pk.derive_synthetic().to_bytes().to_vec(),
                        Some(h) => pk.derive_synthetic_hidden(h).to_bytes().to_vec(),
                    });
                    v.extend(r.ok().map(Case::G1));
                }
                for m in &msgs {
                    let r = catch(|| sign(&sk, m).to_bytes().to_vec());
                    v.extend(r.ok().map(Case::G2));
                }
            }
            v.into_iter()
        })
        .collect();
    rep.extra("produced_encodings_through_reference", json!(produced.len()));
    cases.extend(produced);
    let seed_keys: Vec<[u8; 32]> = keys.iter().take(2).copied().collect();
    for s in sk_strings(&cx, &seed_keys) {
        cases.push(Case::Sk(s));
    }
    for s in modr_strings(&cx) {
        cases.push(Case::ModR(s));
    }

    // dedupe (the produced encodings may coincide with base encodings), keep a deterministic order
    let set: BTreeSet<Case> = cases.into_iter().collect();
    let cases: Vec<Case> = set.into_iter().collect();
    rep.extra("cases_total", json!(cases.len()));

    let first = run_cases(rep, &cx, &cases);

    // samples: the first case of a few telling outcome classes
    for want in [
        "g1 ref=on-curve-outside-subgroup checked=Err unchecked=Ok",
        "g2 ref=coordinate>=p",
        "g1 ref=noncanonical-infinity",
        "synthetic digest in [r, 2^255)",
        "derive path-length 2",
        "sk ref=>=r",
    ] {
        if let Some((bucket, i)) = first.iter().find(|(b, _)| b.starts_with(want)) {
            rep.sample(json!({"case": cases[*i].to_json(), "outcome": bucket}));
        }
    }
}

fn replay(case: &Value) -> String {
    let cx = make_ctx();
    let Some(c) = Case::from_json(case) else {
        return format!("case {case} is not replayable on its own (it is re-checked by every run)");
    };
    let o = run_case(&cx, &c);
    let mut s = format!("case {}\noutcome bucket: {}\n", c.to_json(), o.bucket);
    if o.viols.is_empty() {
        s.push_str("no violation observed\n");
    }
    for (sig, d) in o.viols {
        s.push_str(&format!("VIOLATION {sig}: {d}\n"));
    }
    for m in o.machinery {
        s.push_str(&format!("MACHINERY: {m}\n"));
    }
    s
}

fn main() {
    mc::cli::main("C16", "exploration", run, replay)
}
