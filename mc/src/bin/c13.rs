//! C13 — wire encoding is a canonical bijection consistent with hashing.
//! Engine E style bounded-exhaustive enumeration with two explorers sharing `c13_common`:
//! values (tape-driven builders, <= 1 / <= 2 deviations from the all-zero tape, plus hand-written
//! letters for the version-packed codecs) and bytes (the complete stated neighbourhood of every
//! selected encoding). Every member runs through the real to_bytes / from_bytes /
//! from_bytes_unchecked / hash of /repo.

#[path = "c13_common/mod.rs"]
mod common;

use common::registry::{check_quality_vectors, registry};
use common::*;
use mc::report::{Report, Tier, fxhash};
use rayon::prelude::*;
use serde_json::{Value, json};
use std::cell::RefCell;
use std::collections::{BTreeMap, BTreeSet};

const PROP: &str = "C13";
const SELFTEST_PROP: &str = "C13-selftest";

#[derive(Default)]
struct Acc {
    /// [kind][0 rejected by both, 1 accepted canonical, 2 trusted only]
    k: [[u64; 3]; 6],
    probes: u64,
    trusted_only_noncanonical: u64,
    v2_commit_ok: u64,
    decoded_nonwf: u64,
    findings: Vec<Finding>,
    /// per signature: cases beyond the ones kept in `findings`
    more: BTreeMap<String, u64>,
}

fn kind_idx(k: MutKind) -> usize {
    match k {
        MutKind::Base => 0,
        MutKind::Sub => 1,
        MutKind::Window => 2,
        MutKind::Prefix => 3,
        MutKind::Append => 4,
        MutKind::Raw => 5,
    }
}
const KINDS: [&str; 6] = ["base", "sub", "win", "prefix", "append", "raw"];
const RES: [&str; 3] = ["rejected", "accepted-canonical", "trusted-only"];

fn case_of(e: &TypeEntry, base: &Base, kind: MutKind, b: &[u8]) -> Value {
    if b.len() > 8192 {
        json!({"kind": "raw", "type": e.name, "base": base.origin})
    } else {
        case_bytes(e.name, &base.origin, kind, b)
    }
}

/// the C13 oracle on one probed byte string
fn judge(e: &TypeEntry, base: &Base, kind: MutKind, b: &[u8], p: &Probe, acc: &mut Acc) {
    acc.probes += 1;
    let mut bad: Vec<(&str, String)> = Vec::new();
    if let Dec::Panic(m) = &p.un {
        bad.push(("panic/decode-untrusted", format!("from_bytes panicked: {m}")));
    }
    if let Dec::Panic(m) = &p.tr {
        bad.push(("panic/decode-trusted", format!("from_bytes_unchecked panicked: {m}")));
    }
    let ki = kind_idx(kind);
    if kind == MutKind::Base && base.from_wellformed && p.un == Dec::Err {
        bad.push(("bytes/valid-encoding-rejected", "from_bytes rejects the encoding of a well-formed value".into()));
    }
    if p.un == Dec::Ok {
        let post = p.un_post.as_ref().expect("post of accepted value");
        match &post.reenc {
            Err(m) => bad.push(("panic/to_bytes", format!("to_bytes of the decoded value panicked: {m}"))),
            Ok(None) => bad.push(("bytes/decoded-value-not-encodable", "the decoded value has no encoding (to_bytes returned an error)".into())),
            Ok(Some(false)) => bad.push(("bytes/non-canonical", "accepted by from_bytes but re-encoding gives different bytes: a second encoding of the same value".into())),
            Ok(Some(true)) => {}
        }
        match &p.tr {
            Dec::Ok => match &p.agree {
                Some(Ok(true)) => {}
                Some(Ok(false)) => bad.push(("bytes/trusted-decodes-differently", "from_bytes and from_bytes_unchecked both accept but return different values".into())),
                Some(Err(m)) => bad.push(("panic/eq", format!("comparing the two decoded values panicked: {m}"))),
                None => {}
            },
            Dec::Err => bad.push(("bytes/trusted-rejects", "from_bytes accepts but from_bytes_unchecked rejects".into())),
            Dec::Panic(_) => {}
        }
        if let Some(m) = &post.inspect_panic {
            bad.push(("panic/quality-string", format!("quality_string()/compute_plot_id() of a decoded proof of space panicked: {m}")));
        }
        match &post.hash {
            HashObs::Match => {
                if post.v2_pos > 0 {
                    acc.v2_commit_ok += 1;
                }
            }
            HashObs::Mismatch { got, want } => bad.push((
                if post.v2_pos > 0 { "bytes/hash-commitment-mismatch" } else { "bytes/hash-mismatch" },
                format!("hash() of the decoded value = {} but SHA-256 of the accepted bytes{} = {}", hex::encode(got), if post.v2_pos > 0 { " (v2 proofs replaced by their quality strings)" } else { "" }, hex::encode(want)),
            )),
            HashObs::Panic(m) => {
                if m.contains(POS_HASH_PANIC) && post.v2_invalid > 0 {
                    bad.push(("panic/pos-v2-hash", format!("accepted by from_bytes, re-encodes identically, holds a version-2 proof of space whose quality_string() is None, hash() panics: {m}")));
                } else {
                    bad.push(("panic/hash", format!("hash() of the decoded value panicked: {m}")));
                }
            }
            HashObs::NoExpectation | HashObs::Skipped => {}
        }
        if !post.wf {
            acc.decoded_nonwf += 1;
        }
        acc.k[ki][1] += 1;
    } else if p.tr == Dec::Ok {
        acc.k[ki][2] += 1;
        if let Some(tp) = &p.tr_post {
            if !matches!(tp.reenc, Ok(Some(true))) {
                acc.trusted_only_noncanonical += 1;
            }
        }
    } else {
        acc.k[ki][0] += 1;
    }
    for (s, d) in bad {
        if acc.findings.iter().filter(|f| f.sig.ends_with(s)).count() < 3 {
            acc.findings.push(Finding { sig: format!("{PROP}/{s}"), case: case_of(e, base, kind, b), detail: format!("type {} {} of {}: {d}; bytes {}", e.name, kind.name(), base.origin, if b.len() <= 200 { hex::encode(b) } else { format!("{}.. ({} bytes)", hex::encode(&b[..200]), b.len()) }) });
        } else {
            *acc.more.entry(format!("{PROP}/{s}")).or_insert(0) += 1;
        }
    }
}

struct Rec<'a> {
    rep: &'a Report,
    sigs: RefCell<BTreeSet<String>>,
}
impl Rec<'_> {
    fn violation(&self, sig: &str, case: Value, detail: String) {
        self.sigs.borrow_mut().insert(sig.to_string());
        self.rep.violation(sig, case, detail);
    }
}

fn run(rep: &Report) {
    run_on(rep, registry(), true);
}

fn run_on(rep: &Report, reg: Vec<TypeEntry>, full: bool) -> BTreeSet<String> {
    let rec = Rec { rep, sigs: RefCell::new(BTreeSet::new()) };
    let thorough = rep.tier == Tier::Thorough;
    let tp = tier_params(thorough);
    rep.set_rule(&format!(
        "VALUES per streamable type: the type's builder (derive(Arbitrary) of /repo, hand-written builders for chia-consensus/chia-datalayer/GTElement) driven by a tape of (consumed+{TAPE_SLACK}) zero bytes; every tape with one deviation (every position x {{01,02,7f,80,ff}}){}; plus hand-written letters (ProofOfSpace v1 x4 Option combinations and the 7 recorded v2 proofs, FullBlock/UnfinishedBlock v0/v1 with/without generator, packed-Option structs x4, containers holding a v2 proof). BYTES per type: bases = every letter + for each of the {} shortest distinct encoding lengths the lexicographically smallest enumerated encoding, separately for well-formed values and for values that are not well-formed (zero-seed BLS points replaced by the identity so decoding needs no curve arithmetic; the first {} also unreplaced) + raw adversarial letters; per base every single-byte substitution at every position by {{00,01,02,03,7f,80,fe,ff, old^80, old^40, old^20, old^01}} (all 255 for bases <= {} bytes), every 4-byte window := {{ffffffff,00000000,80000000,00200001,old+1,old-1}}, every proper prefix, one appended byte {{00,ff}}. distinct = distinct (type, encoding) pairs produced by the value explorer",
        if thorough { " and every tape with two deviations where the first changes the encoding length (one representative first deviation per distinct resulting value) and the second lies at a later position" } else { "" },
        tp.base.max_lengths, tp.base.raw_bls_bases, tp.full_alphabet_max_len
    ));
    rep.assume("SHA-256 from the sha2 crate (mc::sx::sha256) is the reference hash");
    rep.assume("well-formedness of ProofOfSpace / FullBlock / UnfinishedBlock values is taken from the struct comments in /repo (fields not serialized by the value's version are zero/None/empty; v2 proofs carry exactly one of pool key / contract hash); the round-trip equation is demanded of well-formed values only");
    rep.assume("quality strings of version-2 proofs come from ProofOfSpace::quality_string(), itself checked against the 7 recorded vectors in quality-string-tests/");

    let pat = BlsPatterns::new();
    let pc = ProbeCfg { begin: no_begin, end: no_end, debug: false, hash_always: false };
    let vcfg = ValueCfg { two_dev: thorough, check: true, prop: PROP };

    // recorded quality strings
    for (name, r) in if full { check_quality_vectors() } else { Vec::new() } {
        rep.eval();
        match r {
            Ok(()) => rep.outcome("quality-vector/ok"),
            Err(d) => rec.violation("C13/value/pos-v2-quality-vector", json!({"kind": "quality-vector", "name": name}), d),
        }
    }

    let t0 = std::time::Instant::now();
    // ---- values
    let sets: Vec<ValueSet> = reg.par_iter().map(|e| (e.values)(&vcfg)).collect();
    let mut per_type = serde_json::Map::new();
    let mut total_values = 0u64;
    for (e, vs) in reg.iter().zip(&sets) {
        rep.evals(vs.tapes);
        total_values += vs.tapes;
        for (k, n) in &vs.counters {
            if k.starts_with("value/") {
                rep.outcome_n(k, *n);
            }
        }
        if vs.gen_failed > 0 {
            rep.outcome_n("value/builder-produced-nothing", vs.gen_failed);
        }
        rep.distinct_many(vs.seen.iter().map(|h| fxhash(&(e.name, h))));
        for f in &vs.findings {
            rec.violation(&f.sig, f.case.clone(), f.detail.clone());
        }
        for (sig, n) in &vs.sig_counts {
            let kept = vs.findings.iter().filter(|f| &f.sig == sig).count() as u64;
            for _ in kept..*n {
                rec.violation(sig, Value::Null, String::new());
            }
        }
        per_type.insert(e.name.to_string(), json!({"tape_len": vs.tape_len, "values": vs.tapes, "distinct_values": vs.seen.len(), "distinct_lengths": vs.by_len.len(), "letters": vs.letters.len()}));
    }
    for vs in &sets {
        if let Some(s) = &vs.sample {
            if rep.want_sample() && vs.tape_len > 200 {
                rep.sample(s.clone());
            }
        }
    }

    eprintln!("C13 timing: values {:.1}s", t0.elapsed().as_secs_f64());
    // ---- bases
    let mut bases: Vec<Base> = Vec::new();
    let mut capped_types = Vec::new();
    for (i, (e, vs)) in reg.iter().zip(&sets).enumerate() {
        let (b, capped) = select_bases(i, e, vs, &pat, &tp.base, &pc);
        if capped {
            capped_types.push(e.name);
        }
        if let Some(o) = per_type.get_mut(e.name) {
            o["bases"] = json!(b.len());
            o["base_bytes"] = json!(b.iter().map(|x| x.bytes.len()).sum::<usize>());
        }
        bases.extend(b);
    }
    rep.extra("types", json!(reg.len()));
    rep.extra("bases", json!(bases.len()));
    rep.extra("values_run", json!(total_values));
    rep.extra("types_with_more_distinct_lengths_than_swept", json!(capped_types));
    bases.sort_by(|a, b| b.bytes.len().cmp(&a.bytes.len()).then(a.type_idx.cmp(&b.type_idx)).then(a.bytes.cmp(&b.bytes)));

    eprintln!("C13 timing: +bases {:.1}s ({} bases)", t0.elapsed().as_secs_f64(), bases.len());
    // ---- bytes
    let accs: Vec<(usize, Acc)> = bases
        .par_iter()
        .map(|base| {
            let e = &reg[base.type_idx];
            let mut acc = Acc::default();
            if base.mutate {
                let full = base.bytes.len() <= tp.full_alphabet_max_len;
                for_each_mutant(&base.bytes, full, &mut |kind, b| {
                    let kind = if kind == MutKind::Base { base.kind } else { kind };
                    let p = (e.probe)(b, &pc);
                    judge(e, base, kind, b, &p, &mut acc);
                });
            } else {
                let p = (e.probe)(&base.bytes, &pc);
                judge(e, base, base.kind, &base.bytes, &p, &mut acc);
            }
            (base.type_idx, acc)
        })
        .collect();
    eprintln!("C13 timing: +bytes {:.1}s", t0.elapsed().as_secs_f64());
    let mut per_type_probes: BTreeMap<usize, (u64, u64)> = BTreeMap::new();
    let mut tot = Acc::default();
    for (ti, a) in accs {
        rep.evals(a.probes);
        let pt = per_type_probes.entry(ti).or_insert((0, 0));
        pt.0 += a.probes;
        for ki in 0..6 {
            pt.1 += a.k[ki][1];
            for ri in 0..3 {
                tot.k[ki][ri] += a.k[ki][ri];
            }
        }
        tot.trusted_only_noncanonical += a.trusted_only_noncanonical;
        tot.v2_commit_ok += a.v2_commit_ok;
        tot.decoded_nonwf += a.decoded_nonwf;
        for (sig, n) in a.more {
            *tot.more.entry(sig).or_insert(0) += n;
        }
        for f in a.findings {
            rec.violation(&f.sig, f.case, f.detail);
        }
    }
    // cases beyond the three kept per base only count
    for (sig, n) in &tot.more {
        for _ in 0..*n {
            rec.violation(sig, Value::Null, String::new());
        }
    }
    for ki in 0..6 {
        for ri in 0..3 {
            rep.outcome_n(&format!("bytes/{}/{}", KINDS[ki], RES[ri]), tot.k[ki][ri]);
        }
    }
    for (ti, (probes, accepted)) in per_type_probes {
        if let Some(o) = per_type.get_mut(reg[ti].name) {
            o["byte_strings"] = json!(probes);
            o["accepted"] = json!(accepted);
        }
    }
    rep.extra("per_type", Value::Object(per_type));
    rep.extra("trusted_only_accepts_that_reencode_differently", json!(tot.trusted_only_noncanonical));
    rep.extra("accepted_byte_strings_with_valid_v2_proof_hash_equals_commitment_form", json!(tot.v2_commit_ok));
    rep.extra("decoded_values_not_wellformed", json!(tot.decoded_nonwf));
    rep.sample(json!({"type": "Option<u32>", "base": "0100000000", "mutant": "sub pos 0 := 02", "expect": "rejected by both decoders; if accepted, re-encoding must give 0200000000"}));

    // ---- registry self check
    if !full {
        return rec.sigs.into_inner();
    }
    let cov = scan::coverage(&reg);
    rep.extra("source_scan", json!({
        "streamable_types_found_in_repo": cov.found,
        "covered": cov.covered,
        "NOT_covered": cov.uncovered,
        "test_only_not_covered": cov.test_only,
        "registry_lines_not_seen_by_scan": cov.unknown_to_scan,
    }));
    if !cov.uncovered.is_empty() {
        eprintln!("C13 note: streamable types in /repo not in the registry: {:?}", cov.uncovered);
    }
    rec.sigs.into_inner()
}

fn replay(case: &Value) -> String {
    mc::report::quiet_panics();
    let reg = registry();
    let name = case["type"].as_str().unwrap_or("");
    if case["kind"] == "quality-vector" {
        return format!("{:#?}", check_quality_vectors());
    }
    let Some(e) = reg.iter().find(|e| e.name == name) else { return format!("unknown type {name}") };
    let pc = ProbeCfg { begin: no_begin, end: no_end, debug: true, hash_always: false };
    match case["kind"].as_str() {
        Some("bytes") => {
            let b = hex::decode(case["hex"].as_str().unwrap_or("")).unwrap_or_default();
            format!("type {name}, {} bytes\n{:#?}", b.len(), (e.probe)(&b, &pc))
        }
        Some("raw") => {
            let want = case["base"].as_str().unwrap_or("");
            for (label, b) in (e.raw)() {
                if want.ends_with(label) {
                    return format!("type {name}, raw letter {label}, {} bytes\n{:#?}", b.len(), (e.probe)(&b, &pc));
                }
            }
            "raw letter not found".into()
        }
        _ => (e.replay_value)(case),
    }
}

/// run the explorers over the deliberately broken codecs of `common::selftest` and demand the
/// planted defects; writes its evidence under the property name below and removes it again
fn selftest(expected_idx: usize, with_greedy: bool) -> ! {
    mc::report::quiet_panics();
    let (reg, e13, e14) = common::selftest::entries(with_greedy);
    let expected = if expected_idx == 13 { e13 } else { e14 };
    let rep = Report::new(SELFTEST_PROP, "exploration", Tier::Quick, 0);
    let sigs = run_on(&rep, reg, false);
    let code = rep.finish();
    let _ = std::fs::remove_file(format!("/verif/evidence/{SELFTEST_PROP}.json"));
    if let Ok(rd) = std::fs::read_dir("/verif/replays") {
        for e in rd.flatten() {
            if e.file_name().to_string_lossy().starts_with(&format!("{SELFTEST_PROP}-")) {
                let _ = std::fs::remove_file(e.path());
            }
        }
    }
    let missing: Vec<&str> = expected.iter().copied().filter(|s| !sigs.contains(&format!("{PROP}/{s}"))).collect();
    println!("self-test: reported {sigs:?}");
    if missing.is_empty() && code == 1 {
        println!("self-test passed: every planted defect was reported");
        std::process::exit(0)
    }
    println!("self-test FAILED: not reported {missing:?} (exit code of the run {code})");
    std::process::exit(3)
}

fn main() {
    if std::env::var_os("C13_SELFTEST").is_some() {
        selftest(13, false);
    }
    mc::cli::main(PROP, "exploration", run, replay)
}
