//! C15 — all signature verification paths agree, with or without the pairing cache.
//! Three parts: E (inputs), H (cache operation histories), S (schedules of real threads at
//! lock granularity through hook H1).

use chia_bls::{
    BlsCache, GTElement, PublicKey, SecretKey, Signature, aggregate, aggregate_verify,
    aggregate_verify_gt, hash_to_g2, sign, verify,
};
#[allow(unused_imports)]
use std::ops::Deref;
use mc::report::{Report, catch, fxhash};
use mc::sched::{self, Body, Execution, Instance};
use rayon::prelude::*;
use serde_json::{Value, json};
use std::num::NonZeroUsize;
use std::sync::Arc;

#[allow(dead_code)]
struct World {
    sks: Vec<SecretKey>,
    pks: Vec<PublicKey>,
    /// pair alphabet: (key index, or usize::MAX for the default infinity key, or usize::MAX - 1 for an
    /// infinity key produced by arithmetic (pk + (-pk): same group element and encoding, other
    /// internal coordinates), message)
    pairs: Vec<(usize, Vec<u8>)>,
    off_subgroup: Signature,
    /// signatures of the individual pairs (None for the infinity key) and the "extra" factor
    pair_sigs: Vec<Option<Signature>>,
    extra_sig: Signature,
}

fn world() -> World {
    let sks: Vec<SecretKey> = (1..=3u8).map(|i| SecretKey::from_seed(&[i; 32])).collect();
    let pks = sks.iter().map(SecretKey::public_key).collect();
    let pairs = vec![
        (0, b"hello".to_vec()),
        (0, b"world".to_vec()),
        (1, b"hello".to_vec()),
        (1, b"".to_vec()),
        (usize::MAX, b"hello".to_vec()),
        (usize::MAX - 1, b"hello".to_vec()),
    ];
    // an on-curve G2 point outside the prime-order subgroup: scan compressed encodings
    let mut off = None;
    for x in 1u8..=255 {
        let mut buf = [0u8; 96];
        buf[0] = 0x80;
        buf[95] = x;
        if let Ok(s) = Signature::from_bytes_unchecked(&buf) {
            if !s.is_valid() {
                off = Some(s);
                break;
            }
        }
    }
    let pair_sigs = pairs.iter().map(|p: &(usize, Vec<u8>)| if p.0 >= usize::MAX - 1 { None } else { Some(sign(&sks[p.0], &p.1)) }).collect();
    let extra_sig = sign(&sks[2], b"extra");
    World {
        sks,
        pks,
        pairs,
        off_subgroup: off.expect("no off-subgroup G2 point found in scan"),
        pair_sigs,
        extra_sig,
    }
}

impl World {
    fn pk(&self, i: usize) -> PublicKey {
        if i == usize::MAX {
            PublicKey::default()
        } else if i == usize::MAX - 1 {
            let mut neg = self.pks[0].clone();
            neg.negate();
            &self.pks[0] + &neg
        } else {
            self.pks[i].clone()
        }
    }
    fn correct(&self, list: &[usize]) -> Signature {
        aggregate(list.iter().filter_map(|i| self.pair_sigs[*i].as_ref()))
    }
    fn materialize(&self, list: &[usize]) -> Vec<(PublicKey, Vec<u8>)> {
        list.iter().map(|i| (self.pk(self.pairs[*i].0), self.pairs[*i].1.clone())).collect()
    }
    fn has_inf(&self, list: &[usize]) -> bool {
        list.iter().any(|i| self.pairs[*i].0 >= usize::MAX - 1)
    }
}

fn aug(pk: &PublicKey, msg: &[u8]) -> Vec<u8> {
    let mut v = pk.to_bytes().to_vec();
    v.extend_from_slice(msg);
    v
}

fn gt_of(pk: &PublicKey, msg: &[u8]) -> GTElement {
    hash_to_g2(&aug(pk, msg)).pair(pk)
}

const SIG_KINDS: [&str; 6] = ["correct", "missing-one", "one-extra", "identity", "generator", "off-subgroup"];

fn make_sig(w: &World, list: &[usize], kind: usize) -> Signature {
    match kind {
        0 => w.correct(list),
        1 => {
            if list.is_empty() {
                w.correct(list)
            } else {
                w.correct(&list[1..])
            }
        }
        2 => {
            let mut s = w.correct(list);
            s.aggregate(&w.extra_sig);
            s
        }
        3 => Signature::default(),
        4 => Signature::generator(),
        _ => w.off_subgroup.clone(),
    }
}

/// part E: one case = (pair list, signature kind)
fn input_case(w: &World, list: &[usize], kind: usize) -> Result<String, (String, String)> {
    let pairs = w.materialize(list);
    let sig = make_sig(w, list, kind);
    let correct = w.correct(list);
    let expected = !w.has_inf(list) && sig.is_valid() && sig == correct;
    let mut observed: Vec<(String, bool)> = Vec::new();
    let av = aggregate_verify(&sig, pairs.iter().map(|(p, m)| (p, m.as_slice())));
    observed.push(("aggregate_verify".into(), av));
    if pairs.len() == 1 {
        observed.push(("verify".into(), verify(&sig, &pairs[0].0, &pairs[0].1)));
    }
    if !w.has_inf(list) {
        let gts: Vec<GTElement> = pairs.iter().map(|(p, m)| gt_of(p, m)).collect();
        observed.push(("aggregate_verify_gt".into(), aggregate_verify_gt(&sig, gts.iter())));
    }
    for cap in [1usize, 2, 50_000] {
        let cache = BlsCache::new(NonZeroUsize::new(cap).unwrap());
        let r1 = cache.aggregate_verify(pairs.iter().map(|(p, m)| (p, m.as_slice())), &sig);
        observed.push((format!("BlsCache(cap {cap}) cold"), r1));
        let r2 = cache.aggregate_verify(pairs.iter().map(|(p, m)| (p, m.as_slice())), &sig);
        observed.push((format!("BlsCache(cap {cap}) warm"), r2));
        if cache.len() > cap {
            return Err(("capacity".into(), format!("cache holds {} entries, capacity {cap}", cache.len())));
        }
    }
    for (path, v) in &observed {
        if *v != expected {
            let site = if path.starts_with("BlsCache") { "cache" } else { path.as_str() };
            let cls = if w.has_inf(list) { "infinity-key" } else { "plain" };
            return Err((
                format!("{site}/{cls}/{}", SIG_KINDS[kind]),
                format!("list {list:?} sig {}: expected {expected}, observed {observed:?}", SIG_KINDS[kind]),
            ));
        }
    }
    Ok(format!("{}", if expected { "valid" } else { "invalid" }))
}

fn all_lists(n_letters: usize, max_len: usize) -> Vec<Vec<usize>> {
    let mut out = vec![vec![]];
    let mut cur: Vec<Vec<usize>> = vec![vec![]];
    for _ in 0..max_len {
        let mut next = Vec::new();
        for l in &cur {
            for x in 0..n_letters {
                let mut m = l.clone();
                m.push(x);
                next.push(m);
            }
        }
        out.extend(next.iter().cloned());
        cur = next;
    }
    out
}

// ---------------------------------------------------------------- part H

#[derive(Clone, Debug)]
enum COp {
    /// verify list (indices into the 3 real pairs) with the correct / a wrong signature
    Verify(Vec<usize>, bool),
    /// update(aug_msg of pair, its correct pairing)
    Update(usize),
    Evict(Vec<usize>),
}

fn cop_json(o: &COp) -> Value {
    match o {
        COp::Verify(l, ok) => json!({"op":"verify","list":l,"correct_sig":ok}),
        COp::Update(p) => json!({"op":"update","pair":p}),
        COp::Evict(l) => json!({"op":"evict","list":l}),
    }
}
fn cop_from(v: &Value) -> COp {
    let l = |v: &Value| v.as_array().unwrap().iter().map(|x| x.as_u64().unwrap() as usize).collect::<Vec<_>>();
    match v["op"].as_str().unwrap() {
        "verify" => COp::Verify(l(&v["list"]), v["correct_sig"].as_bool().unwrap()),
        "update" => COp::Update(v["pair"].as_u64().unwrap() as usize),
        _ => COp::Evict(l(&v["list"])),
    }
}

fn cache_alphabet() -> Vec<COp> {
    // pairs 0,1,2 = (pk1,hello),(pk1,world),(pk2,hello): 0 and 2 share the message, 0 and 1 the key
    let lists: Vec<Vec<usize>> = vec![vec![0], vec![1], vec![2], vec![0, 1], vec![0, 2], vec![1, 2], vec![0, 1, 2], vec![0, 0]];
    let mut ops = Vec::new();
    for l in &lists {
        ops.push(COp::Verify(l.clone(), true));
    }
    for l in [vec![0], vec![0, 2], vec![0, 1, 2]] {
        ops.push(COp::Verify(l, false));
    }
    for p in 0..3 {
        ops.push(COp::Update(p));
    }
    for l in [vec![0], vec![1, 2], vec![0, 1, 2]] {
        ops.push(COp::Evict(l));
    }
    ops
}

/// apply one op; returns Err(description) on an oracle failure
fn cache_step(w: &World, cache: &BlsCache, cap: usize, op: &COp) -> Result<&'static str, (String, String)> {
    let r = match op {
        COp::Verify(l, correct) => {
            let pairs = w.materialize(l);
            let sig = if *correct { w.correct(l) } else { make_sig(w, l, 2) };
            let got = cache.aggregate_verify(pairs.iter().map(|(p, m)| (p, m.as_slice())), &sig);
            if got != *correct {
                return Err(("history/verdict".into(), format!("verify {l:?} correct_sig={correct} returned {got}")));
            }
            if *correct { "verify-valid" } else { "verify-invalid" }
        }
        COp::Update(p) => {
            let (pk, m) = &w.materialize(&[*p])[0];
            cache.update(&aug(pk, m), gt_of(pk, m));
            "update"
        }
        COp::Evict(l) => {
            let pairs = w.materialize(l);
            cache.evict(pairs.iter().map(|(p, m)| (p, m.as_slice())));
            "evict"
        }
    };
    if cache.len() > cap {
        return Err(("history/capacity".into(), format!("cache holds {} entries, capacity {cap}", cache.len())));
    }
    Ok(r)
}

struct HState {
    cache: BlsCache,
    hist: Vec<COp>,
}

fn part_h(rep: &Report, w: &World) {
    let depth = rep.tier.pick(3, 4);
    let ops = cache_alphabet();
    for cap in [1usize, 2, 3] {
        let mut frontier = vec![HState { cache: BlsCache::new(NonZeroUsize::new(cap).unwrap()), hist: vec![] }];
        rep.state();
        for _d in 0..depth {
            let next: Vec<HState> = frontier
                .par_iter()
                .flat_map_iter(|s| {
                    let mut out = Vec::new();
                    for op in &ops {
                        let c = s.cache.clone();
                        rep.eval();
                        rep.transition();
                        rep.trace();
                        let mut hist = s.hist.clone();
                        hist.push(op.clone());
                        match catch(|| cache_step(w, &c, cap, op)) {
                            Ok(Ok(kind)) => {
                                rep.outcome(&format!("H/{kind}/len{}", c.len()));
                                rep.state();
                                rep.distinct(fxhash(&(cap, format!("{hist:?}"))));
                                out.push(HState { cache: c, hist });
                            }
                            Ok(Err((sig, d))) => rep.violation(
                                &format!("C15/{sig}"),
                                json!({"part":"H","capacity":cap,"history": hist.iter().map(cop_json).collect::<Vec<_>>()}),
                                d,
                            ),
                            Err(p) => rep.violation(
                                "C15/history/panic",
                                json!({"part":"H","capacity":cap,"history": hist.iter().map(cop_json).collect::<Vec<_>>()}),
                                p,
                            ),
                        }
                    }
                    out.into_iter()
                })
                .collect();
            frontier = next;
        }
        if let Some(s) = frontier.first() {
            rep.sample(json!({"part":"H","capacity":cap,"history": s.hist.iter().map(cop_json).collect::<Vec<_>>()}));
        }
    }
    rep.extra("H_depth", json!(depth));
    rep.extra("H_alphabet", json!(ops.iter().map(cop_json).collect::<Vec<_>>()));
}

// ---------------------------------------------------------------- part S

#[derive(Clone, Debug)]
enum TOp {
    Verify(Vec<usize>, bool),
    Update(usize),
    Evict(Vec<usize>),
}

#[derive(Clone, Debug)]
struct Scenario {
    name: &'static str,
    cap: usize,
    threads: Vec<Vec<TOp>>,
    /// Some(b): this scenario is explored only up to b preemptions even in the thorough tier
    /// (and skipped in quick); None: follows the tier's bound
    own_bound: Option<usize>,
}

fn scenarios() -> Vec<Scenario> {
    let mut v = Vec::new();
    for cap in [1usize, 2] {
        v.push(Scenario { name: "overlap-2", cap, threads: vec![vec![TOp::Verify(vec![0, 1], true)], vec![TOp::Verify(vec![1, 2], true)]], own_bound: None });
        v.push(Scenario { name: "same-list-2", cap, threads: vec![vec![TOp::Verify(vec![0, 1], true)], vec![TOp::Verify(vec![0, 1], true)]], own_bound: None });
        v.push(Scenario { name: "valid-vs-invalid", cap, threads: vec![vec![TOp::Verify(vec![0, 2], true)], vec![TOp::Verify(vec![0, 2], false)]] , own_bound: None });
        v.push(Scenario {
            name: "two-verifiers+evict-update",
            cap,
            threads: vec![vec![TOp::Verify(vec![0], true), TOp::Verify(vec![1], true)], vec![TOp::Verify(vec![1], true)], vec![TOp::Evict(vec![0, 1]), TOp::Update(2)]],
            own_bound: None,
        });
        // three verifiers with pairwise overlapping two-pair lists (too many interleavings to
        // exhaust: preemption-bounded even in the thorough tier)
        v.push(Scenario {
            name: "three-verifiers-overlap",
            cap,
            threads: vec![vec![TOp::Verify(vec![0, 1], true)], vec![TOp::Verify(vec![1, 2], true)], vec![TOp::Verify(vec![2, 0], true)]],
            own_bound: Some(3),
        });
    }
    v.push(Scenario { name: "three-single", cap: 2, threads: vec![vec![TOp::Verify(vec![0], true)], vec![TOp::Verify(vec![1], true)], vec![TOp::Verify(vec![2], true)]] , own_bound: None });
    v
}

fn make_instance(w: &Arc<World>, sc: &Scenario) -> (Instance<Vec<bool>>, Arc<BlsCache>) {
    let cache = Arc::new(BlsCache::new(NonZeroUsize::new(sc.cap).unwrap()));
    let mut bodies: Vec<Body<Vec<bool>>> = Vec::new();
    for ops in &sc.threads {
        let ops = ops.clone();
        let w = w.clone();
        let cache = cache.clone();
        bodies.push(Box::new(move || {
            let mut verdicts = Vec::new();
            for op in &ops {
                match op {
                    TOp::Verify(l, correct) => {
                        let pairs = w.materialize(l);
                        let sig = if *correct { w.correct(l) } else { make_sig(&w, l, 2) };
                        verdicts.push(cache.aggregate_verify(pairs.iter().map(|(p, m)| (p, m.as_slice())), &sig));
                    }
                    TOp::Update(p) => {
                        let (pk, m) = &w.materialize(&[*p])[0];
                        cache.update(&aug(pk, m), gt_of(pk, m));
                    }
                    TOp::Evict(l) => {
                        let pairs = w.materialize(l);
                        cache.evict(pairs.iter().map(|(p, m)| (p, m.as_slice())));
                    }
                }
            }
            verdicts
        }));
    }
    let c2 = cache.clone();
    let cap = sc.cap;
    let invariant = Box::new(move || {
        let l = c2.len();
        if l > cap { Some(format!("cache holds {l} entries, capacity {cap}")) } else { None }
    });
    (Instance { bodies, invariant }, cache)
}

fn expected_verdicts(sc: &Scenario) -> Vec<Vec<bool>> {
    sc.threads.iter().map(|t| t.iter().filter_map(|o| if let TOp::Verify(_, c) = o { Some(*c) } else { None }).collect()).collect()
}

fn check_execution(rep: &Report, w: &World, sc_idx: usize, sc: &Scenario, x: &Execution<Vec<bool>>, cache: &BlsCache) {
    rep.eval();
    rep.trace();
    rep.transitions.fetch_add(x.points.len() as u64, std::sync::atomic::Ordering::Relaxed);
    let case = json!({"part":"S","scenario": sc_idx, "name": sc.name, "capacity": sc.cap, "choices": x.choices()});
    if x.deadlock {
        rep.violation("C15/schedule/deadlock", case.clone(), format!("deadlock; trace {:?}", x.trace));
        return;
    }
    for f in &x.invariant_failures {
        rep.violation("C15/schedule/capacity", case.clone(), format!("{f}; trace {:?}", x.trace));
    }
    let exp = expected_verdicts(sc);
    for (t, r) in x.results.iter().enumerate() {
        match r {
            Some(Ok(v)) if *v == exp[t] => {}
            other => {
                let d = match other {
                    Some(Ok(v)) => format!("thread {t} verdicts {v:?}, expected {:?}", exp[t]),
                    Some(Err(p)) => format!("thread {t} panicked: {p}"),
                    None => format!("thread {t} did not return"),
                };
                rep.violation("C15/schedule/verdict", case.clone(), format!("{d}; trace {:?}", x.trace));
            }
        }
    }
    // the warmed cache must still be transparent
    let all = [0usize, 1, 2];
    let pairs = w.materialize(&all);
    let good = cache.aggregate_verify(pairs.iter().map(|(p, m)| (p, m.as_slice())), &w.correct(&all));
    let bad = cache.aggregate_verify(pairs.iter().map(|(p, m)| (p, m.as_slice())), &make_sig(w, &all, 2));
    if !good || bad {
        rep.violation("C15/schedule/warm-cache-verdict", case.clone(), format!("after the run, list [0,1,2]: valid sig -> {good}, invalid sig -> {bad}"));
    }
    if cache.len() > sc.cap {
        rep.violation("C15/schedule/capacity", case.clone(), format!("after the run: len {} > capacity {}", cache.len(), sc.cap));
    }
    rep.outcome(&format!("S/{}/cap{}/preemptions{}", sc.name, sc.cap, x.preemptions));
    rep.distinct(fxhash(&(sc_idx, x.choices())));
}

fn part_s(rep: &Report, w: &Arc<World>) {
    let thorough = rep.tier == mc::Tier::Thorough;
    let scs: Vec<Scenario> = scenarios().into_iter().filter(|s| thorough || s.own_bound.is_none()).collect();
    let bound: Option<usize> = rep.tier.pick(Some(3), None);
    let stats: Vec<(usize, sched::ExploreStats)> = scs
        .par_iter()
        .enumerate()
        .map(|(i, sc)| {
            // determinism self-check: the non-preemptive schedule replayed twice gives identical traces
            let (i1, _c1) = make_instance(w, sc);
            let x1 = sched::run_schedule(i1, &[]);
            let (i2, _c2) = make_instance(w, sc);
            let x2 = sched::run_schedule(i2, &x1.choices());
            if x1.trace != x2.trace || x1.results.iter().map(|r| format!("{r:?}")).collect::<Vec<_>>() != x2.results.iter().map(|r| format!("{r:?}")).collect::<Vec<_>>() {
                rep.machinery_error(&format!("scenario {} is not deterministic under replay", sc.name));
            }
            let make = || make_instance(w, sc);
            let check = |x: &Execution<Vec<bool>>, cache: &Arc<BlsCache>| check_execution(rep, w, i, sc, x, cache);
            let st = sched::explore(&make, sc.own_bound.or(bound), &check);
            (i, st)
        })
        .collect();
    let mut summary = Vec::new();
    for (i, st) in &stats {
        summary.push(json!({"scenario": scs[*i].name, "capacity": scs[*i].cap, "threads": scs[*i].threads.len(),
            "schedules": st.executions, "by_preemptions": st.by_preemptions, "max_scheduling_points": st.max_points}));
        rep.states.fetch_add(st.executions, std::sync::atomic::Ordering::Relaxed);
    }
    rep.extra("S_scenarios", json!(summary));
    rep.extra("S_preemption_bound", json!(bound.map_or("unbounded (all interleavings at lock granularity)".to_string(), |b| format!("{b}"))));
    if let Some((i, _)) = stats.first() {
        rep.sample(json!({"part":"S","scenario": scs[*i].name, "threads": format!("{:?}", scs[*i].threads)}));
    }
}

fn run(rep: &Report) {
    let w = Arc::new(world());
    rep.set_rule("E: every pair list of length 0..3 (quick: 0..2) over {(pk1,hello),(pk1,world),(pk2,hello),(pk2,''),(inf,hello)} x 6 signature kinds through verify / aggregate_verify / aggregate_verify_gt / BlsCache(cap 1,2,50000; cold+warm); H: every history of <= 3 (quick) / 4 (thorough) cache operations from a 17-letter alphabet on capacities 1,2,3 (no state merging, cache cloned per transition); S: every interleaving at lock granularity with <= 3 preemptions (quick) / unbounded (thorough) of 9 thread scenarios. distinct = distinct (list,sig) cases + histories + schedules");
    rep.assume("expected verdict: no infinity key, signature in the subgroup and equal (as a group element) to the aggregate of the individual signatures; uniqueness of the BLS signature for a given pair list is assumed (pairing non-degeneracy)");
    rep.assume("S: all shared state of BlsCache is behind the hooked mutex (workspace denies unsafe outside the blst FFI), so lock granularity is sufficient");

    // part E
    let t_e = std::time::Instant::now();
    let max_len = rep.tier.pick(2, 3);
    let lists = all_lists(w.pairs.len(), max_len);
    let cases: Vec<(Vec<usize>, usize)> = lists.iter().flat_map(|l| (0..6).map(move |k| (l.clone(), k))).collect();
    cases.par_iter().for_each(|(l, k)| {
        rep.eval();
        let case = json!({"part":"E","list": l, "sig_kind": k});
        match catch(|| input_case(&w, l, *k)) {
            Ok(Ok(v)) => {
                rep.outcome(&format!("E/{}/{v}", SIG_KINDS[*k]));
                rep.distinct(fxhash(&(l, k)));
            }
            Ok(Err((sig, d))) => rep.violation(&format!("C15/{sig}"), case, d),
            Err(p) => rep.violation("C15/input/panic", case, p),
        }
    });
    rep.sample(json!({"part":"E","list":[[ "pk1","hello"],["inf","hello"]],"sig":"sign(sk1,hello)","expected":"invalid on every path"}));
    rep.extra("E_lists", json!(lists.len()));
    rep.extra("E_wall_s", json!(t_e.elapsed().as_secs_f64()));

    let t = std::time::Instant::now();
    part_h(rep, &w);
    rep.extra("H_wall_s", json!(t.elapsed().as_secs_f64()));
    let t = std::time::Instant::now();
    part_s(rep, &w);
    rep.extra("S_wall_s", json!(t.elapsed().as_secs_f64()));
}

fn replay(case: &Value) -> String {
    let w = Arc::new(world());
    match case["part"].as_str() {
        Some("E") => {
            let l: Vec<usize> = case["list"].as_array().unwrap().iter().map(|x| x.as_u64().unwrap() as usize).collect();
            format!("{:?}", input_case(&w, &l, case["sig_kind"].as_u64().unwrap() as usize))
        }
        Some("H") => {
            let cap = case["capacity"].as_u64().unwrap() as usize;
            let cache = BlsCache::new(NonZeroUsize::new(cap).unwrap());
            let mut out = String::new();
            for o in case["history"].as_array().unwrap() {
                let op = cop_from(o);
                out += &format!("{op:?} -> {:?} (len {})\n", cache_step(&w, &cache, cap, &op), cache.len());
            }
            out
        }
        Some("S") => {
            let name = case["name"].as_str().unwrap();
            let cap = case["capacity"].as_u64().unwrap() as usize;
            let sc = scenarios().into_iter().find(|s| s.name == name && s.cap == cap).expect("scenario");
            let choices: Vec<u32> = case["choices"].as_array().unwrap().iter().map(|x| x.as_u64().unwrap() as u32).collect();
            let (inst, cache) = make_instance(&w, &sc);
            let x = sched::run_schedule(inst, &choices);
            format!("results {:?}\ninvariant failures {:?}\ndeadlock {}\nfinal len {} (capacity {})\ntrace {:?}", x.results, x.invariant_failures, x.deadlock, cache.len(), sc.cap, x.trace)
        }
        _ => "unknown case".into(),
    }
}

fn main() {
    mc::cli::main("C15", "model_checking", run, replay)
}
