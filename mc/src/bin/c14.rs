//! C14 — decoding arbitrary bytes is total and bounded.
//! Same byte explorer as C13 (`c13_common`) plus monitors: every byte string of the stated
//! neighbourhoods goes through from_bytes and from_bytes_unchecked of the real code under
//! `catch`, with a counting global allocator measuring the peak live bytes of each decode; every
//! decoded value is then re-encoded, hashed, compared and Debug-printed under `catch`.
//!
//! Process layout: the binary re-executes itself as a child (env C14_CHILD) that does the whole
//! run. Things `catch` cannot turn into a value kill the child: an allocation request above
//! 1 GiB (refused by the allocator), a stack overflow / abort / fatal signal inside the code
//! under test, or a case that does not finish within the watchdog limit. The child leaves a
//! breadcrumb file naming the byte string it was decoding; the parent turns it into a normal
//! violation with a replay file and exit code 1.

#[path = "c13_common/mod.rs"]
mod common;

use common::registry::registry;
use common::*;
use mc::report::{Report, Tier};
use rayon::prelude::*;
use serde_json::{Value, json};
use std::alloc::{GlobalAlloc, Layout, System};
use std::cell::Cell;
use std::cell::RefCell;
use std::collections::{BTreeMap, BTreeSet};
use std::sync::atomic::{AtomicBool, AtomicPtr, AtomicU64, AtomicUsize, Ordering};

const PROP: &str = "C14";
const SELFTEST_PROP: &str = "C14-selftest";

// ---------------------------------------------------------------------------------------------
// counting allocator
// ---------------------------------------------------------------------------------------------

/// any single request above this is refused loudly
const MAX_SINGLE_REQUEST: usize = 1 << 30;

thread_local! {
    static CUR: Cell<isize> = const { Cell::new(0) };
    static PEAK: Cell<isize> = const { Cell::new(0) };
    static MARK: Cell<isize> = const { Cell::new(0) };
    static MY_SLOT: Cell<usize> = const { Cell::new(usize::MAX) };
}

struct Counting;

#[inline]
fn note(delta: isize) {
    let _ = CUR.try_with(|c| {
        let v = c.get() + delta;
        c.set(v);
        if delta > 0 {
            let _ = PEAK.try_with(|p| {
                if v > p.get() {
                    p.set(v);
                }
            });
        }
    });
}

unsafe impl GlobalAlloc for Counting {
    unsafe fn alloc(&self, l: Layout) -> *mut u8 {
        if l.size() > MAX_SINGLE_REQUEST {
            oversize(l.size());
        }
        note(l.size() as isize);
        unsafe { System.alloc(l) }
    }
    unsafe fn alloc_zeroed(&self, l: Layout) -> *mut u8 {
        if l.size() > MAX_SINGLE_REQUEST {
            oversize(l.size());
        }
        note(l.size() as isize);
        unsafe { System.alloc_zeroed(l) }
    }
    unsafe fn dealloc(&self, p: *mut u8, l: Layout) {
        note(-(l.size() as isize));
        unsafe { System.dealloc(p, l) }
    }
    unsafe fn realloc(&self, p: *mut u8, l: Layout, new_size: usize) -> *mut u8 {
        if new_size > MAX_SINGLE_REQUEST {
            oversize(new_size);
        }
        // old and new block coexist while the data is copied
        note(new_size as isize);
        let r = unsafe { System.realloc(p, l, new_size) };
        note(-(l.size() as isize));
        r
    }
}

#[global_allocator]
static ALLOC: Counting = Counting;

fn meter_begin() {
    let c = CUR.with(Cell::get);
    MARK.with(|m| m.set(c));
    PEAK.with(|p| p.set(c));
}
fn meter_end() -> u64 {
    (PEAK.with(Cell::get) - MARK.with(Cell::get)).max(0) as u64
}

// ---------------------------------------------------------------------------------------------
// breadcrumbs: which byte string is each worker decoding right now
// ---------------------------------------------------------------------------------------------

const NSLOTS: usize = 128;
struct Slot {
    busy: AtomicBool,
    tick: AtomicU64,
    type_idx: AtomicUsize,
    ptr: AtomicPtr<u8>,
    len: AtomicUsize,
}
#[allow(clippy::declare_interior_mutable_const)]
const EMPTY_SLOT: Slot = Slot { busy: AtomicBool::new(false), tick: AtomicU64::new(0), type_idx: AtomicUsize::new(0), ptr: AtomicPtr::new(std::ptr::null_mut()), len: AtomicUsize::new(0) };
static SLOTS: [Slot; NSLOTS] = [EMPTY_SLOT; NSLOTS];
static NEXT_SLOT: AtomicUsize = AtomicUsize::new(0);
static CRUMB_WRITTEN: AtomicBool = AtomicBool::new(false);
static OVERSIZE: AtomicU64 = AtomicU64::new(0);
/// NUL-terminated path of the breadcrumb file (leaked once at start-up)
static CRUMB_PATH: AtomicPtr<libc::c_char> = AtomicPtr::new(std::ptr::null_mut());

fn my_slot() -> Option<&'static Slot> {
    let mut i = MY_SLOT.with(Cell::get);
    if i == usize::MAX {
        i = NEXT_SLOT.fetch_add(1, Ordering::Relaxed);
        MY_SLOT.with(|s| s.set(i));
    }
    SLOTS.get(i)
}

fn enter(type_idx: usize, b: &[u8]) {
    if let Some(s) = my_slot() {
        s.type_idx.store(type_idx, Ordering::Relaxed);
        s.ptr.store(b.as_ptr().cast_mut(), Ordering::Relaxed);
        s.len.store(b.len(), Ordering::Relaxed);
        s.tick.fetch_add(1, Ordering::Relaxed);
        s.busy.store(true, Ordering::Release);
    }
}
fn leave() {
    if let Some(s) = my_slot() {
        s.busy.store(false, Ordering::Release);
    }
}

fn raw_write(fd: libc::c_int, b: &[u8]) {
    let mut off = 0;
    while off < b.len() {
        let n = unsafe { libc::write(fd, b[off..].as_ptr().cast(), b.len() - off) };
        if n <= 0 {
            return;
        }
        off += n as usize;
    }
}
fn raw_write_num(fd: libc::c_int, mut n: u64) {
    let mut buf = [0u8; 20];
    let mut i = buf.len();
    loop {
        i -= 1;
        buf[i] = b'0' + (n % 10) as u8;
        n /= 10;
        if n == 0 {
            break;
        }
    }
    raw_write(fd, &buf[i..]);
}

/// no allocation, only open/write/close: usable from a signal handler and from the allocator
fn write_crumb(reason: &[u8], slot: Option<usize>) {
    if CRUMB_WRITTEN.swap(true, Ordering::SeqCst) {
        return;
    }
    let path = CRUMB_PATH.load(Ordering::Relaxed);
    if path.is_null() {
        return;
    }
    let fd = unsafe { libc::open(path, libc::O_WRONLY | libc::O_CREAT | libc::O_TRUNC, 0o644) };
    if fd < 0 {
        return;
    }
    raw_write(fd, b"reason=");
    raw_write(fd, reason);
    raw_write(fd, b"\nsize=");
    raw_write_num(fd, OVERSIZE.load(Ordering::Relaxed));
    if let Some(s) = slot.and_then(|i| SLOTS.get(i)) {
        if s.busy.load(Ordering::Acquire) {
            raw_write(fd, b"\ntype=");
            raw_write_num(fd, s.type_idx.load(Ordering::Relaxed) as u64);
            let p = s.ptr.load(Ordering::Relaxed);
            let len = s.len.load(Ordering::Relaxed);
            raw_write(fd, b"\nlen=");
            raw_write_num(fd, len as u64);
            raw_write(fd, b"\nhex=");
            if !p.is_null() {
                const HEX: &[u8; 16] = b"0123456789abcdef";
                let bytes = unsafe { std::slice::from_raw_parts(p, len) };
                let mut out = [0u8; 512];
                for chunk in bytes.chunks(256) {
                    for (i, b) in chunk.iter().enumerate() {
                        out[2 * i] = HEX[(b >> 4) as usize];
                        out[2 * i + 1] = HEX[(b & 15) as usize];
                    }
                    raw_write(fd, &out[..2 * chunk.len()]);
                }
            }
        }
    }
    raw_write(fd, b"\n");
    unsafe { libc::close(fd) };
}

fn oversize(size: usize) -> ! {
    OVERSIZE.store(size as u64, Ordering::Relaxed);
    let slot = MY_SLOT.try_with(Cell::get).ok().filter(|i| *i != usize::MAX);
    write_crumb(b"oversize", slot);
    raw_write(2, b"C14: allocation request above 1 GiB refused, aborting the child\n");
    unsafe { libc::abort() }
}

extern "C" fn on_fatal_signal(sig: libc::c_int) {
    let slot = MY_SLOT.try_with(Cell::get).ok().filter(|i| *i != usize::MAX);
    let reason: &[u8] = match sig {
        libc::SIGABRT => b"abort",
        libc::SIGSEGV => b"sigsegv",
        libc::SIGBUS => b"sigbus",
        libc::SIGILL => b"sigill",
        libc::SIGFPE => b"sigfpe",
        _ => b"signal",
    };
    write_crumb(reason, slot);
    // SA_RESETHAND: returning re-raises / re-faults with the default action
}

fn install_monitors(hang_secs: u64) {
    if let Some(p) = std::env::var_os("C14_CRUMB") {
        if let Ok(c) = std::ffi::CString::new(p.to_string_lossy().as_bytes()) {
            CRUMB_PATH.store(c.into_raw(), Ordering::Relaxed);
        }
    }
    unsafe {
        for sig in [libc::SIGABRT, libc::SIGSEGV, libc::SIGBUS, libc::SIGILL, libc::SIGFPE] {
            let mut sa: libc::sigaction = std::mem::zeroed();
            sa.sa_sigaction = on_fatal_signal as usize;
            sa.sa_flags = libc::SA_ONSTACK | libc::SA_RESETHAND;
            libc::sigemptyset(&mut sa.sa_mask);
            libc::sigaction(sig, &sa, std::ptr::null_mut());
        }
    }
    std::thread::spawn(move || {
        let mut last = [0u64; NSLOTS];
        let mut stale = [0u64; NSLOTS];
        loop {
            std::thread::sleep(std::time::Duration::from_secs(1));
            for (i, s) in SLOTS.iter().enumerate() {
                let t = s.tick.load(Ordering::Relaxed);
                if s.busy.load(Ordering::Acquire) && t == last[i] {
                    stale[i] += 1;
                    if stale[i] >= hang_secs {
                        write_crumb(b"hang", Some(i));
                        raw_write(2, b"C14: a case did not finish within the watchdog limit, stopping the child\n");
                        unsafe { libc::_exit(70) };
                    }
                } else {
                    stale[i] = 0;
                }
                last[i] = t;
            }
        }
    });
}

// ---------------------------------------------------------------------------------------------
// the oracle
// ---------------------------------------------------------------------------------------------

/// static nesting depth of Vec assumed for every type (the deepest in /repo and in the
/// combinator instantiations of the registry is 3)
const VEC_DEPTH: u64 = 3;
const PREALLOC_CAP: u64 = 2 << 20;
/// in-memory bytes allowed per input byte (struct representation vs wire form, Vec doubling)
const BYTES_PER_INPUT_BYTE: u64 = 512;
const SLACK: u64 = 1 << 20;

fn alloc_bound(len: usize) -> u64 {
    BYTES_PER_INPUT_BYTE * len as u64 + PREALLOC_CAP * VEC_DEPTH + SLACK
}

#[derive(Default)]
struct Acc {
    /// [kind][0 rejected by both, 1 accepted, 2 trusted only]
    k: [[u64; 3]; 6],
    probes: u64,
    max_peak: u64,
    /// max over cases of peak / bound(len), in 1/1000 units
    max_fraction_of_bound: u64,
    reenc_err: u64,
    /// bases that are encodings of well-formed values and are rejected by from_bytes
    valid_rejected: u64,
    findings: Vec<Finding>,
    more: BTreeMap<String, u64>,
}

fn kind_idx(k: MutKind) -> usize {
    match k {
        MutKind::Base => 0,
        MutKind::Sub => 1,
        MutKind::Window => 2,
        MutKind::Prefix => 3,
        MutKind::Append => 4,
        MutKind::Raw => 5,
    }
}
const KINDS: [&str; 6] = ["base", "sub", "win", "prefix", "append", "raw"];
const RES: [&str; 3] = ["rejected", "accepted", "trusted-only"];

fn case_of(e: &TypeEntry, base: &Base, kind: MutKind, b: &[u8]) -> Value {
    if b.len() > 8192 {
        json!({"kind": "raw", "type": e.name, "base": base.origin})
    } else {
        case_bytes(e.name, &base.origin, kind, b)
    }
}

fn judge_post(which: &str, post: &Post, bad: &mut Vec<(String, String)>, acc: &mut Acc) {
    match &post.reenc {
        Err(m) => bad.push(("panic/to_bytes".into(), format!("to_bytes of the {which}-decoded value panicked: {m}"))),
        Ok(None) => acc.reenc_err += 1,
        Ok(Some(_)) => {}
    }
    if let HashObs::Panic(m) = &post.hash {
        if m.contains(POS_HASH_PANIC) && post.v2_invalid > 0 {
            bad.push(("panic/pos-v2-hash".into(), format!("{which} decoder accepts, the value holds a version-2 proof of space whose quality_string() is None, hash() panics: {m}")));
        } else {
            bad.push(("panic/hash".into(), format!("hash() of the {which}-decoded value panicked: {m}")));
        }
    }
    if let Some(Err(m)) = &post.debug {
        bad.push(("panic/debug".into(), format!("Debug of the {which}-decoded value panicked: {m}")));
    }
    if let Err(m) = &post.self_eq {
        bad.push(("panic/eq".into(), format!("comparing the {which}-decoded value panicked: {m}")));
    }
    if let Some(m) = &post.inspect_panic {
        bad.push(("panic/quality-string".into(), format!("quality_string() of a {which}-decoded proof of space panicked: {m}")));
    }
}

fn judge(e: &TypeEntry, base: &Base, base_ok: bool, kind: MutKind, b: &[u8], p: &Probe, acc: &mut Acc) {
    acc.probes += 1;
    let mut bad: Vec<(String, String)> = Vec::new();
    if let Dec::Panic(m) = &p.un {
        bad.push(("panic/decode-untrusted".into(), format!("from_bytes panicked: {m}")));
    }
    if let Dec::Panic(m) = &p.tr {
        bad.push(("panic/decode-trusted".into(), format!("from_bytes_unchecked panicked: {m}")));
    }
    let bound = alloc_bound(b.len());
    for (which, peak) in [("from_bytes", p.un_peak), ("from_bytes_unchecked", p.tr_peak)] {
        acc.max_peak = acc.max_peak.max(peak);
        acc.max_fraction_of_bound = acc.max_fraction_of_bound.max(peak * 1000 / bound);
        if peak > bound {
            bad.push(("alloc/out-of-proportion".into(), format!("{which} of {} input bytes had {peak} bytes live at its peak, bound {bound} = {BYTES_PER_INPUT_BYTE}*len + {VEC_DEPTH}*2MiB + 1MiB", b.len())));
        }
    }
    if let Some(post) = &p.un_post {
        judge_post("untrusted", post, &mut bad, acc);
    }
    if let Some(post) = &p.tr_post {
        judge_post("trusted", post, &mut bad, acc);
    }
    if let Some(Err(m)) = &p.agree {
        bad.push(("panic/eq".into(), format!("comparing the untrusted- and trusted-decoded values panicked: {m}")));
    }
    let accepted = p.un == Dec::Ok || p.tr == Dec::Ok;
    if base_ok && accepted {
        let who = if p.un == Dec::Ok { "from_bytes" } else { "from_bytes_unchecked" };
        match kind {
            MutKind::Prefix => bad.push(("length/truncated-accepted".into(), format!("{who} accepts a proper prefix ({} of {} bytes) of an encoding it also accepts", b.len(), base.bytes.len()))),
            MutKind::Append => bad.push(("length/trailing-accepted".into(), format!("{who} accepts an accepted encoding followed by one more byte"))),
            _ => {}
        }
    }
    if kind == MutKind::Base && base.from_wellformed && p.un == Dec::Err {
        acc.valid_rejected += 1;
    }
    let ki = kind_idx(kind);
    acc.k[ki][if p.un == Dec::Ok { 1 } else if p.tr == Dec::Ok { 2 } else { 0 }] += 1;
    for (s, d) in bad {
        let sig = format!("{PROP}/{s}");
        if acc.findings.iter().filter(|f| f.sig == sig).count() < 3 {
            acc.findings.push(Finding { sig, case: case_of(e, base, kind, b), detail: format!("type {} {} of {}: {d}; bytes {}", e.name, kind.name(), base.origin, if b.len() <= 200 { hex::encode(b) } else { format!("{}.. ({} bytes)", hex::encode(&b[..200]), b.len()) }) });
        } else {
            *acc.more.entry(sig).or_insert(0) += 1;
        }
    }
}

/// C14_SELFTEST=oversize|hang|abort|overflow makes the harness itself misbehave inside the first
/// monitored case, to check that the parent turns a dead child into a violation
#[allow(unconditional_recursion)]
fn selftest_fault() {
    static DONE: AtomicBool = AtomicBool::new(false);
    let Ok(kind) = std::env::var("C14_SELFTEST") else { return };
    if DONE.swap(true, Ordering::SeqCst) {
        return;
    }
    fn deep(n: u64) -> u64 {
        let pad = [n; 64];
        if n == u64::MAX { 0 } else { deep(n + 1) + std::hint::black_box(pad)[7] }
    }
    match kind.as_str() {
        "oversize" => {
            let v: Vec<u8> = Vec::with_capacity(3 << 30);
            std::hint::black_box(v);
        }
        "hang" => loop {
            std::thread::sleep(std::time::Duration::from_millis(100));
        },
        "abort" => std::process::abort(),
        "overflow" => {
            std::hint::black_box(deep(0));
        }
        _ => {}
    }
}

fn probe_cfg() -> ProbeCfg {
    ProbeCfg { begin: meter_begin, end: meter_end, debug: true, hash_always: true }
}

struct Rec<'a> {
    rep: &'a Report,
    sigs: RefCell<BTreeSet<String>>,
}
impl Rec<'_> {
    fn violation(&self, sig: &str, case: Value, detail: String) {
        self.sigs.borrow_mut().insert(sig.to_string());
        self.rep.violation(sig, case, detail);
    }
}

fn run(rep: &Report) {
    run_on(rep, registry(), true);
}

fn run_on(rep: &Report, reg: Vec<TypeEntry>, full: bool) -> BTreeSet<String> {
    let rec = Rec { rep, sigs: RefCell::new(BTreeSet::new()) };
    let thorough = rep.tier == Tier::Thorough;
    install_monitors(if thorough { 60 } else { 30 });
    let tp = tier_params(thorough);
    rep.set_rule(&format!(
        "byte strings per streamable type (both decoders each): bases = encodings found by the C13 value explorer (builder driven by an all-zero tape with <= 1{} deviations, one encoding per distinct length for the {} shortest lengths, also of values that are not well-formed, zero-seed BLS points replaced by the identity; the first {} also unreplaced) + hand-written letters (v1/v2 proofs of space, v0/v1 blocks, packed Options) + raw adversarial letters (1e5 x ff and a 1e5-deep left spine in Program and inside a FullBlock, back references, over-long atom length prefixes, ffffffff at each Vec nesting level, 1 MiB generator buffer, invalid UTF-8, non-canonical BLS encodings); per base every single-byte substitution at every position by {{00,01,02,03,7f,80,fe,ff, old^80, old^40, old^20, old^01}} (all 255 for bases <= {} bytes), every 4-byte window := {{2^32-1, 0, 2^31, 2^21+1, old+1, old-1}}, every proper prefix, one appended byte {{00,ff}}. distinct = distinct (type, base encoding) pairs",
        if thorough { " or 2" } else { "" },
        tp.base.max_lengths, tp.base.raw_bls_bases, tp.full_alphabet_max_len
    ));
    rep.assume(&format!("memory bound per decode: peak live bytes <= {BYTES_PER_INPUT_BYTE}*len + {VEC_DEPTH}*2 MiB (pre-allocation cap times the deepest static Vec nesting) + 1 MiB; a single request above 1 GiB kills the child and is reported"));
    rep.assume("a case that keeps one worker busy longer than the watchdog limit (30 s quick / 60 s thorough; cases take microseconds to milliseconds) counts as not terminating");
    rep.assume("proper prefixes and one-byte extensions are demanded to be rejected only relative to a base the untrusted decoder accepts");

    let pat = BlsPatterns::new();
    let pc = probe_cfg();
    let vcfg = ValueCfg { two_dev: thorough, check: false, prop: PROP };

    let sets: Vec<ValueSet> = reg.par_iter().map(|e| (e.values)(&vcfg)).collect();
    let mut per_type = serde_json::Map::new();
    let mut bases: Vec<Base> = Vec::new();
    for (i, (e, vs)) in reg.iter().zip(&sets).enumerate() {
        let (b, _capped) = select_bases(i, e, vs, &pat, &tp.base, &pc);
        per_type.insert(e.name.to_string(), json!({"values_enumerated": vs.tapes, "distinct_encodings": vs.seen.len(), "bases": b.len()}));
        rep.distinct_many(b.iter().map(|x| mc::report::fxhash(&(e.name, &x.bytes))));
        bases.extend(b);
    }
    rep.extra("types", json!(reg.len()));
    rep.extra("bases", json!(bases.len()));
    bases.sort_by(|a, b| b.bytes.len().cmp(&a.bytes.len()).then(a.type_idx.cmp(&b.type_idx)).then(a.bytes.cmp(&b.bytes)));

    let accs: Vec<(usize, Acc)> = bases
        .par_iter()
        .map(|base| {
            let e = &reg[base.type_idx];
            let mut acc = Acc::default();
            if base.mutate {
                let full = base.bytes.len() <= tp.full_alphabet_max_len;
                let mut base_ok = false;
                for_each_mutant(&base.bytes, full, &mut |kind, b| {
                    enter(base.type_idx, b);
                    selftest_fault();
                    let p = (e.probe)(b, &pc);
                    leave();
                    if kind == MutKind::Base {
                        base_ok = p.un == Dec::Ok;
                    }
                    let kind = if kind == MutKind::Base { base.kind } else { kind };
                    judge(e, base, base_ok, kind, b, &p, &mut acc);
                });
            } else {
                enter(base.type_idx, &base.bytes);
                let p = (e.probe)(&base.bytes, &pc);
                leave();
                judge(e, base, false, base.kind, &base.bytes, &p, &mut acc);
            }
            (base.type_idx, acc)
        })
        .collect();

    let mut tot = Acc::default();
    let mut per_type_stats: BTreeMap<usize, (u64, u64, u64, u64)> = BTreeMap::new();
    for (ti, a) in accs {
        rep.evals(2 * a.probes);
        let pt = per_type_stats.entry(ti).or_insert((0, 0, 0, 0));
        pt.0 += a.probes;
        pt.2 = pt.2.max(a.max_peak);
        pt.3 = pt.3.max(a.max_fraction_of_bound);
        for ki in 0..6 {
            pt.1 += a.k[ki][1] + a.k[ki][2];
            for ri in 0..3 {
                tot.k[ki][ri] += a.k[ki][ri];
            }
        }
        tot.reenc_err += a.reenc_err;
        tot.valid_rejected += a.valid_rejected;
        tot.max_peak = tot.max_peak.max(a.max_peak);
        for (sig, n) in a.more {
            *tot.more.entry(sig).or_insert(0) += n;
        }
        for f in a.findings {
            rec.violation(&f.sig, f.case, f.detail);
        }
    }
    for (sig, n) in &tot.more {
        for _ in 0..*n {
            rec.violation(sig, Value::Null, String::new());
        }
    }
    for ki in 0..6 {
        for ri in 0..3 {
            rep.outcome_n(&format!("bytes/{}/{}", KINDS[ki], RES[ri]), tot.k[ki][ri]);
        }
    }
    for (ti, (probes, accepted, peak, ratio)) in per_type_stats {
        if let Some(o) = per_type.get_mut(reg[ti].name) {
            o["byte_strings"] = json!(probes);
            o["accepted_by_a_decoder"] = json!(accepted);
            o["max_peak_live_bytes_in_one_decode"] = json!(peak);
            o["max_peak_as_fraction_of_bound"] = json!(ratio as f64 / 1000.0);
        }
    }
    if tot.valid_rejected > 0 {
        // not a C14 violation (an error is a permitted answer) but the neighbourhoods explored are
        // then anchored on strings the decoder does not accept: the exploration is not meaningful
        rep.machinery_error(&format!("{} base encodings produced by to_bytes of well-formed values are rejected by from_bytes (a C13 violation); the C14 byte neighbourhoods are anchored on them", tot.valid_rejected));
    }
    rep.extra("per_type", Value::Object(per_type));
    rep.extra("max_peak_live_bytes_in_one_decode", json!(tot.max_peak));
    rep.extra("decoded_values_whose_to_bytes_returns_an_error", json!(tot.reenc_err));
    rep.sample(json!({"type": "Vec<u32>", "bytes": "ffffffff", "expect": "both decoders return an error, peak live bytes <= 2 MiB + slack, no request above 1 GiB"}));
    rep.sample(json!({"type": "Program", "bytes": "ff x 100000", "expect": "error, no stack overflow"}));
    rep.sample(json!({"type": "ProofOfSpace", "bytes": "recorded v2 proof with one proof byte replaced", "expect": "decodes; to_bytes, hash, ==, Debug complete without panicking"}));

    if !full {
        return rec.sigs.into_inner();
    }
    let cov = scan::coverage(&reg);
    rep.extra("source_scan", json!({
        "streamable_types_found_in_repo": cov.found,
        "covered": cov.covered,
        "NOT_covered": cov.uncovered,
        "test_only_not_covered": cov.test_only,
        "registry_lines_not_seen_by_scan": cov.unknown_to_scan,
    }));
    rec.sigs.into_inner()
}

fn replay(case: &Value) -> String {
    mc::report::quiet_panics();
    install_monitors(60);
    let reg = registry();
    let name = case["type"].as_str().unwrap_or("");
    let Some((ti, e)) = reg.iter().enumerate().find(|(_, e)| e.name == name) else { return format!("unknown type {name}") };
    let pc = probe_cfg();
    let go = |b: &[u8]| {
        enter(ti, b);
        let p = (e.probe)(b, &pc);
        leave();
        format!("type {name}, {} bytes, allocation bound {}\n{:#?}", b.len(), alloc_bound(b.len()), p)
    };
    match case["kind"].as_str() {
        Some("bytes") => go(&hex::decode(case["hex"].as_str().unwrap_or("")).unwrap_or_default()),
        Some("raw") => {
            let want = case["base"].as_str().unwrap_or("");
            for (label, b) in (e.raw)() {
                if want.ends_with(label) {
                    return go(&b);
                }
            }
            "raw letter not found".into()
        }
        _ => "unknown case kind".into(),
    }
}

// ---------------------------------------------------------------------------------------------
// parent: run the child, translate a dead child into a violation
// ---------------------------------------------------------------------------------------------

fn parse_crumb(txt: &str) -> BTreeMap<String, String> {
    txt.lines().filter_map(|l| l.split_once('=')).map(|(k, v)| (k.to_string(), v.to_string())).collect()
}

fn parent() -> ! {
    let args: Vec<String> = std::env::args().skip(1).collect();
    let crumb = format!("/verif/target/.c14-crumb-{}.txt", std::process::id());
    let _ = std::fs::create_dir_all("/verif/target");
    let _ = std::fs::remove_file(&crumb);
    let exe = std::env::current_exe().expect("current_exe");
    let status = std::process::Command::new(exe).args(&args).env("C14_CHILD", "1").env("C14_CRUMB", &crumb).status();
    let status = match status {
        Ok(s) => s,
        Err(e) => {
            eprintln!("MACHINERY-ERROR: cannot start the C14 child: {e}");
            std::process::exit(2)
        }
    };
    let crumb_txt = std::fs::read_to_string(&crumb).ok();
    let _ = std::fs::remove_file(&crumb);
    let selftest = matches!(std::env::var("C14_SELFTEST").as_deref(), Ok("codecs" | "greedy"));
    if crumb_txt.is_none() {
        if let Some(c) = status.code() {
            if (0..=2).contains(&c) || selftest {
                std::process::exit(c);
            }
        }
    }
    // the child died: allocation guard, watchdog, abort or fatal signal
    use std::os::unix::process::ExitStatusExt;
    let c = parse_crumb(crumb_txt.as_deref().unwrap_or(""));
    let reason = c.get("reason").cloned().unwrap_or_else(|| match status.signal() {
        Some(s) => format!("signal-{s}"),
        None => format!("exit-{}", status.code().unwrap_or(-1)),
    });
    let reg = if selftest { common::selftest::entries(true).0 } else { registry() };
    let tname = c.get("type").and_then(|t| t.parse::<usize>().ok()).and_then(|i| reg.get(i)).map(|e| e.name).unwrap_or("(unknown)");
    let hexs = c.get("hex").cloned().unwrap_or_default();
    let len = c.get("len").cloned().unwrap_or_default();
    let (sig, what) = match reason.as_str() {
        "oversize" => ("C14/alloc/oversize-request".to_string(), format!("a single allocation request of {} bytes (> 1 GiB) while decoding", c.get("size").cloned().unwrap_or_default())),
        "hang" => ("C14/hang".to_string(), "the case did not finish within the watchdog limit; it was decoding".to_string()),
        other => (format!("C14/crash/{other}"), format!("the process was killed ({other}; {status}) while decoding")),
    };
    let detail = format!("type {tname}: {what} a {len}-byte input {}", if hexs.len() <= 400 { hexs.clone() } else { format!("{}..", &hexs[..400]) });
    if args.iter().any(|a| a == "--replay") {
        println!("the replay child died: {detail}");
        std::process::exit(0);
    }
    let mut tier = match std::env::var("VERIF_TIER").as_deref() {
        Ok("thorough") => Tier::Thorough,
        _ => Tier::Quick,
    };
    if args.iter().any(|a| a == "thorough") {
        tier = Tier::Thorough;
    }
    let seed = std::env::var("VERIF_SEED").ok().and_then(|s| s.parse().ok()).unwrap_or(0);
    let rep = Report::new(if selftest { SELFTEST_PROP } else { PROP }, "exploration", tier, seed);
    rep.eval();
    rep.cap("the child process died at the case below; the rest of the enumeration did not run");
    rep.violation(&sig, json!({"kind": "bytes", "type": tname, "mutation": "(child died)", "base": "(see breadcrumb)", "hex": hexs}), detail);
    let code = rep.finish();
    if selftest {
        let _ = std::fs::remove_file(format!("/verif/evidence/{SELFTEST_PROP}.json"));
        if let Ok(rd) = std::fs::read_dir("/verif/replays") {
            for e in rd.flatten() {
                if e.file_name().to_string_lossy().starts_with(&format!("{SELFTEST_PROP}-")) {
                    let _ = std::fs::remove_file(e.path());
                }
            }
        }
        let ok = sig == "C14/alloc/oversize-request" && tname == "Greedy";
        println!("self-test {}: dead child reported as {sig} on type {tname}", if ok { "passed" } else { "FAILED" });
        std::process::exit(if ok { 0 } else { 3 });
    }
    std::process::exit(code)
}


/// run the explorers over the deliberately broken codecs of `common::selftest` and demand the
/// planted defects; writes its evidence under the property name below and removes it again
fn selftest(expected_idx: usize, with_greedy: bool) -> ! {
    mc::report::quiet_panics();
    let (reg, e13, e14) = common::selftest::entries(with_greedy);
    let expected = if expected_idx == 13 { e13 } else { e14 };
    let rep = Report::new(SELFTEST_PROP, "exploration", Tier::Quick, 0);
    let sigs = run_on(&rep, reg, false);
    let code = rep.finish();
    let _ = std::fs::remove_file(format!("/verif/evidence/{SELFTEST_PROP}.json"));
    if let Ok(rd) = std::fs::read_dir("/verif/replays") {
        for e in rd.flatten() {
            if e.file_name().to_string_lossy().starts_with(&format!("{SELFTEST_PROP}-")) {
                let _ = std::fs::remove_file(e.path());
            }
        }
    }
    let missing: Vec<&str> = expected.iter().copied().filter(|s| !sigs.contains(&format!("{PROP}/{s}"))).collect();
    println!("self-test: reported {sigs:?}");
    if missing.is_empty() && code == 1 {
        println!("self-test passed: every planted defect was reported");
        std::process::exit(0)
    }
    println!("self-test FAILED: not reported {missing:?} (exit code of the run {code})");
    std::process::exit(3)
}

fn main() {
    if std::env::var_os("C14_CHILD").is_some() {
        match std::env::var("C14_SELFTEST").as_deref() {
            Ok("codecs") => selftest(14, false),
            Ok("greedy") => selftest(14, true),
            _ => {}
        }
        mc::cli::main(PROP, "exploration", run, replay)
    } else {
        parent()
    }
}
