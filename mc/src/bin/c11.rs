//! C11 — all integer encoders agree on the canonical CLVM integer form.
//! Engine E, full enumeration of stated value / atom sets against the reference codec in `mc::sx`.

use chia_consensus::consensus_constants::TEST_CONSTANTS;
use chia_consensus::flags::ConsensusFlags;
use chia_consensus::make_aggsig_final_message::u64_to_bytes;
use chia_consensus::run_block_generator::run_block_generator2;
use chia_consensus::sanitize_int::{SanitizedUint, sanitize_uint};
use chia_consensus::solution_generator::{calculate_generator_length, solution_generator};
use chia_consensus::validation_error::{ErrorCode, ValidationErr};
use chia_protocol::{Bytes32, Coin, CoinSpend, Program};
use clvm_traits::{FromClvm, ToClvm};
use clvmr::Allocator;
use mc::report::{Report, Tier, catch, fxhash};
use mc::sx::{Sx, enc_i128, enc_u64, enc_u128, sha256};
use num_bigint::BigInt;
use rayon::prelude::*;
use serde_json::{Value, json};

const PARENT: [u8; 32] = [0x11; 32];
const PH: [u8; 32] = [0x22; 32];

fn boundary_values() -> Vec<u64> {
    let mut v = vec![0u64, 1, 2, u64::MAX, u64::MAX - 1, u64::MAX - 2];
    for k in 1..=8u32 {
        for base in [1u128 << (8 * k - 1), 1u128 << (8 * k)] {
            for d in -2i128..=2 {
                let x = base as i128 + d;
                if x >= 0 && x <= u64::MAX as i128 {
                    v.push(x as u64);
                }
            }
        }
    }
    v.sort_unstable();
    v.dedup();
    v
}

/// the cheap encoders: returns a description of the first disagreement
fn check_cheap(v: u64, a: &mut Allocator) -> Option<(String, String)> {
    let own = enc_u64(v);
    // 1. u64_to_bytes
    let r = u64_to_bytes(v);
    if r != own {
        return Some(("u64_to_bytes".into(), format!("got {} want {}", hex::encode(r), hex::encode(&own))));
    }
    // 2. Coin::coin_id
    let id = Coin::new(Bytes32::new(PARENT), Bytes32::new(PH), v).coin_id();
    let want = sha256(&[&PARENT, &PH, &own]);
    if id.as_ref() != want {
        return Some(("Coin::coin_id".into(), format!("got {} want {}", hex::encode(id), hex::encode(want))));
    }
    // 3. interpreter's form
    let n = a.new_number(v.into()).expect("new_number");
    if a.atom(n).as_ref() != own.as_slice() {
        return Some(("Allocator::new_number".into(), format!("got {} want {}", hex::encode(a.atom(n).as_ref()), hex::encode(&own))));
    }
    // 4. ToClvm / FromClvm
    let n2 = v.to_clvm(a).expect("to_clvm");
    if a.atom(n2).as_ref() != own.as_slice() {
        return Some(("ToClvm<u64>".into(), format!("got {} want {}", hex::encode(a.atom(n2).as_ref()), hex::encode(&own))));
    }
    let own_node = a.new_atom(&own).unwrap();
    match u64::from_clvm(a, own_node) {
        Ok(d) if d == v => {}
        other => return Some(("FromClvm<u64>".into(), format!("got {other:?} want {v}"))),
    }
    // 5. sanitize_uint width 8 (and width 4 when it fits)
    match sanitize_uint(a, own_node, 8, ValidationErr::Err(ErrorCode::InvalidCoinAmount)) {
        Ok(SanitizedUint::Ok(d)) if d == v => {}
        other => return Some(("sanitize_uint(8)".into(), format!("got {other:?} want Ok({v})"))),
    }
    let r4 = sanitize_uint(a, own_node, 4, ValidationErr::Err(ErrorCode::InvalidCoinAmount));
    let want4 = if v <= u32::MAX as u64 { Ok(SanitizedUint::Ok(v)) } else { Ok(SanitizedUint::PositiveOverflow) };
    if r4 != want4 {
        return Some(("sanitize_uint(4)".into(), format!("got {r4:?} want {want4:?}")));
    }
    None
}

/// the expensive places: length predictor, generator serialiser, coin id reported by validation
fn check_heavy(v: u64) -> Option<(String, String)> {
    let own = enc_u64(v);
    let spend = CoinSpend::new(
        Coin::new(Bytes32::new(PARENT), Bytes32::new(PH), v),
        Program::from(vec![1u8]),
        Program::from(vec![0x80u8]),
    );
    let predicted = calculate_generator_length(std::slice::from_ref(&spend));
    let generator = solution_generator([(spend.coin, &[1u8][..], &[0x80u8][..])]).expect("solution_generator");
    // own rendering of (q . (((parent puzzle amount solution))))
    let own_gen = Sx::cons(
        Sx::int(1),
        Sx::list(&[Sx::list(&[Sx::list(&[
            Sx::atom(&PARENT),
            Sx::int(1),
            Sx::Atom(own.clone()),
            Sx::nil(),
        ])])]),
    )
    .serialize();
    if generator != own_gen {
        return Some(("solution_generator".into(), format!("got {} want {}", hex::encode(&generator), hex::encode(&own_gen))));
    }
    if predicted != own_gen.len() {
        return Some(("calculate_generator_length".into(), format!("predicted {predicted} actual {}", own_gen.len())));
    }
    // validated coin id
    let blocks: &[&[u8]] = &[];
    let r = run_block_generator2(
        &own_gen,
        blocks,
        11_000_000_000,
        ConsensusFlags::DONT_VALIDATE_SIGNATURE,
        &chia_bls::Signature::default(),
        None,
        &TEST_CONSTANTS,
    );
    match r {
        Ok((_a, c)) => {
            let puzzle_hash = Sx::int(1).tree_hash();
            let want = sha256(&[&PARENT, &puzzle_hash, &own]);
            if c.spends.len() != 1 || c.spends[0].coin_id.as_slice() != want.as_slice() || c.spends[0].coin_amount != v {
                return Some(("run_block_generator2 coin id".into(), format!("spends {:?}", c.spends.iter().map(|s| (hex::encode(*s.coin_id), s.coin_amount)).collect::<Vec<_>>())));
            }
        }
        Err(e) => return Some(("run_block_generator2".into(), format!("rejected canonical amount: {e:?}"))),
    }
    None
}

#[derive(Debug, PartialEq, Eq, Clone, Copy)]
enum Class {
    Value(u64),
    Redundant,
    Negative,
    Overflow,
}

/// reference classification of an atom as a condition integer of `width` bytes
fn classify(atom: &[u8], width: usize) -> Class {
    if atom.is_empty() {
        return Class::Value(0);
    }
    if atom[0] & 0x80 != 0 {
        return Class::Negative;
    }
    if atom[0] == 0 && (atom.len() == 1 || atom[1] & 0x80 == 0) {
        return Class::Redundant;
    }
    // numeric value
    let mut val: u128 = 0;
    let mut over = false;
    for &b in atom {
        if val >> 120 != 0 {
            over = true;
        }
        val = (val << 8) | b as u128;
    }
    if over || val >= 1u128 << (8 * width) {
        Class::Overflow
    } else {
        Class::Value(val as u64)
    }
}

fn check_atom(atom: &[u8], a: &mut Allocator) -> Option<(String, String)> {
    let n = a.new_atom(atom).unwrap();
    for width in [4usize, 8] {
        let want = classify(atom, width);
        let got = sanitize_uint(a, n, width, ValidationErr::Err(ErrorCode::InvalidCoinAmount));
        let ok = match (&got, want) {
            (Ok(SanitizedUint::Ok(g)), Class::Value(w)) => *g == w,
            (Ok(SanitizedUint::NegativeOverflow), Class::Negative) => true,
            (Ok(SanitizedUint::PositiveOverflow), Class::Overflow) => true,
            (Err(_), Class::Redundant) => true,
            _ => false,
        };
        if !ok {
            return Some((format!("sanitize_uint({width})"), format!("atom {} got {got:?} want {want:?}", hex::encode(atom))));
        }
    }
    // typed decoders must never return a numerically different value
    let num = BigInt::from_signed_bytes_be(atom);
    macro_rules! dec {
        ($t:ty) => {
            if let Ok(v) = <$t>::from_clvm(a, n) {
                if BigInt::from(v) != num {
                    return Some((
                        format!("FromClvm<{}>", stringify!($t)),
                        format!("atom {} decoded to {v}, numeric value {num}", hex::encode(atom)),
                    ));
                }
            }
        };
    }
    dec!(u8);
    dec!(i8);
    dec!(u16);
    dec!(i16);
    dec!(u32);
    dec!(i32);
    dec!(u64);
    dec!(i64);
    dec!(u128);
    dec!(i128);
    None
}

fn nth_atom(mut idx: u64, len: usize) -> Vec<u8> {
    const L: [u8; 5] = [0x00, 0x01, 0x7f, 0x80, 0xff];
    let mut v = vec![0u8; len];
    for i in (0..len).rev() {
        v[i] = L[(idx % 5) as usize];
        idx /= 5;
    }
    v
}

fn check_widths(rep: &Report) {
    // every boundary of every width through ToClvm / FromClvm against own codec and the interpreter's
    macro_rules! width {
        ($t:ty, $bits:expr, $signed:expr) => {{
            let mut vals: Vec<i128> = Vec::new();
            let min = <$t>::MIN as i128;
            // u128::MAX does not fit i128: handled separately below
            let max: i128 = if $bits == 128 && !$signed { i128::MAX } else { <$t>::MAX as i128 };
            for b in [min, min + 1, -1, 0, 1, max - 1, max] {
                vals.push(b);
            }
            for k in 1..=16u32 {
                for base in [1i128.checked_shl(8 * k - 1), if 8 * k < 127 { 1i128.checked_shl(8 * k) } else { None }] {
                    if let Some(base) = base {
                        for d in -2i128..=2 {
                            for s in [1i128, -1] {
                                if let Some(x) = base.checked_mul(s).and_then(|x| x.checked_add(d)) {
                                    vals.push(x);
                                }
                            }
                        }
                    }
                }
            }
            vals.sort_unstable();
            vals.dedup();
            let mut a = Allocator::new();
            for x in vals {
                if x < min || x > max {
                    continue;
                }
                let v = x as $t;
                rep.eval();
                let own = enc_i128(x);
                let n = v.to_clvm(&mut a).expect("to_clvm");
                let got = a.atom(n).as_ref().to_vec();
                let interp = a.new_number(BigInt::from(x)).unwrap();
                let interp_b = a.atom(interp).as_ref().to_vec();
                let back = <$t>::from_clvm(&a, n);
                rep.distinct(fxhash(&(stringify!($t), x)));
                if got != own || interp_b != own || back.as_ref().ok() != Some(&v) {
                    rep.violation(
                        &format!("C11/width/{}", stringify!($t)),
                        json!({"kind": "width", "type": stringify!($t), "value": x.to_string()}),
                        format!("{} value {x}: ToClvm {} interpreter {} own {} FromClvm {back:?}", stringify!($t), hex::encode(&got), hex::encode(&interp_b), hex::encode(&own)),
                    );
                } else {
                    rep.outcome(concat!("width-ok/", stringify!($t)));
                }
            }
        }};
    }
    width!(u8, 8, false);
    width!(i8, 8, true);
    width!(u16, 16, false);
    width!(i16, 16, true);
    width!(u32, 32, false);
    width!(i32, 32, true);
    width!(u64, 64, false);
    width!(i64, 64, true);
    width!(u128, 128, false);
    width!(i128, 128, true);
    // u128 above i128::MAX
    let mut a = Allocator::new();
    for v in [u128::MAX, u128::MAX - 1, 1u128 << 127, (1u128 << 127) + 1] {
        rep.eval();
        let own = enc_u128(v);
        let n = v.to_clvm(&mut a).unwrap();
        let got = a.atom(n).as_ref().to_vec();
        let back = u128::from_clvm(&a, n);
        if got != own || back.as_ref().ok() != Some(&v) {
            rep.violation("C11/width/u128", json!({"kind":"width","type":"u128","value": v.to_string()}), format!("u128 {v}: ToClvm {} own {} back {back:?}", hex::encode(&got), hex::encode(&own)));
        } else {
            rep.outcome("width-ok/u128");
        }
    }
}

fn run(rep: &Report) {
    rep.set_rule("values: every u64 boundary 2^(8k-1), 2^(8k) ±{0,1,2} plus the dense range [0,2^27) (quick) / [0,2^32) (thorough) through every encoder/decoder against the harness codec; heavy places (generator serialiser, length predictor, validated coin id) on boundaries + [0,2^16) (quick) / [0,2^20) (thorough); all atoms of length <= 10 over bytes {00,01,7f,80,ff} through sanitize_uint(4|8) and every FromClvm integer decoder; 45 boundary integers (12 primitive types, BigInt, BigInt beyond 128 bits) through an encoder that keeps the trait's default integer routines. distinct = distinct values / atoms whose reference class was exercised");
    rep.assume("reference codec in mc::sx (enc_u64/enc_i128) is the definition of the minimal two's-complement form");
    rep.assume("SHA-256 from the sha2 crate");

    let bvals = boundary_values();
    let dense: u64 = rep.tier.pick(1 << 27, 1u64 << 32);
    let heavy_dense: u64 = rep.tier.pick(1 << 16, 1 << 20);

    // cheap encoders on boundaries + dense range
    let chunk: u64 = 1 << 16;
    let nchunks = dense / chunk;
    let bad: Vec<(u64, String, String)> = (0..=nchunks)
        .into_par_iter()
        .flat_map_iter(|c| {
            let mut a = Allocator::new();
            let mut out = Vec::new();
            let vals: Box<dyn Iterator<Item = u64>> = if c == nchunks {
                Box::new(bvals.clone().into_iter())
            } else {
                Box::new(c * chunk..(c + 1) * chunk)
            };
            let mut n = 0u64;
            for v in vals {
                if n % 4096 == 0 {
                    a = Allocator::new();
                }
                n += 1;
                match catch(|| check_cheap(v, &mut a)) {
                    Ok(None) => {}
                    Ok(Some((site, d))) => out.push((v, site, d)),
                    Err(p) => out.push((v, "panic".into(), p)),
                }
            }
            rep.evals(n);
            rep.outcome_n(if c == nchunks { "cheap-ok/boundary" } else { "cheap-ok/dense" }, n - out.len() as u64);
            out.into_iter()
        })
        .collect();
    rep.extra("dense_range_end_exclusive", json!(dense));
    rep.extra("boundary_values", json!(bvals.len()));
    for (v, site, d) in bad {
        rep.violation(&format!("C11/encoder/{site}"), json!({"kind":"value","value": v}), format!("value {v:#x}: {site}: {d}"));
    }
    // length classes exercised
    for v in &bvals {
        rep.distinct(fxhash(&("class", enc_u64(*v).len(), v)));
    }

    // heavy
    let hv: Vec<u64> = bvals.iter().copied().chain(0..heavy_dense).collect();
    let bad: Vec<(u64, String, String)> = hv
        .par_iter()
        .filter_map(|&v| {
            rep.eval();
            match catch(|| check_heavy(v)) {
                Ok(None) => {
                    rep.outcome("heavy-ok");
                    None
                }
                Ok(Some((s, d))) => Some((v, s, d)),
                Err(p) => Some((v, "panic".into(), p)),
            }
        })
        .collect();
    for (v, site, d) in bad {
        rep.violation(&format!("C11/encoder/{site}"), json!({"kind":"heavy","value": v}), format!("value {v:#x}: {site}: {d}"));
    }
    rep.sample(json!({"value": "0x80", "own_encoding": hex::encode(enc_u64(0x80)), "checked": ["u64_to_bytes","Coin::coin_id","new_number","ToClvm","FromClvm","sanitize_uint","solution_generator","calculate_generator_length","run_block_generator2 coin id"]}));

    // widths
    check_widths(rep);

    // atoms
    let maxlen = 10usize;
    for len in 0..=maxlen {
        let total = 5u64.pow(len as u32);
        let per = 1u64 << 14;
        let shards = total.div_ceil(per);
        let bad: Vec<(Vec<u8>, String, String)> = (0..shards)
            .into_par_iter()
            .flat_map_iter(|s| {
                let mut a = Allocator::new();
                let mut out = Vec::new();
                let mut classes = [0u64; 4];
                let lo = s * per;
                let hi = ((s + 1) * per).min(total);
                for i in lo..hi {
                    let atom = nth_atom(i, len);
                    match classify(&atom, 8) {
                        Class::Value(_) => classes[0] += 1,
                        Class::Redundant => classes[1] += 1,
                        Class::Negative => classes[2] += 1,
                        Class::Overflow => classes[3] += 1,
                    }
                    match catch(|| check_atom(&atom, &mut a)) {
                        Ok(None) => {}
                        Ok(Some((site, d))) => out.push((atom, site, d)),
                        Err(p) => out.push((atom, "panic".into(), p)),
                    }
                }
                rep.evals(hi - lo);
                rep.outcome_n("atom/value", classes[0]);
                rep.outcome_n("atom/redundant-zero", classes[1]);
                rep.outcome_n("atom/negative", classes[2]);
                rep.outcome_n("atom/overflow", classes[3]);
                out.into_iter()
            })
            .collect();
        for (atom, site, d) in bad {
            rep.violation(&format!("C11/atom/{site}"), json!({"kind":"atom","atom": hex::encode(&atom)}), d);
        }
    }
    default_encoder_section(rep);
    rep.sample(json!({"atom": "00ffffffff", "class_width4": "Value(4294967295)", "class_width8": "Value(4294967295)"}));
    rep.sample(json!({"atom": "0001", "class": "Redundant -> must be an error"}));
    rep.extra("atoms_max_len", json!(maxlen));
    if rep.tier == Tier::Quick {
        rep.extra("note", json!("quick tier: dense range [0,2^27); thorough covers [0,2^32)"));
    }
}

/// an encoder that keeps the trait's DEFAULT integer routines (`ClvmEncoder::encode_bigint`), which
/// the allocator overrides: the bytes it produces for an integer are what TreeHasher hashes
#[derive(Clone)]
struct RawNode(Vec<u8>);
struct RawEncoder;
impl ToClvm<RawEncoder> for RawNode {
    fn to_clvm(&self, _e: &mut RawEncoder) -> Result<RawNode, clvm_traits::ToClvmError> {
        Ok(self.clone())
    }
}
impl clvm_traits::ClvmEncoder for RawEncoder {
    type Node = RawNode;
    fn encode_atom(&mut self, atom: clvm_traits::Atom<'_>) -> Result<RawNode, clvm_traits::ToClvmError> {
        Ok(RawNode(atom.as_ref().to_vec()))
    }
    fn encode_pair(&mut self, first: RawNode, rest: RawNode) -> Result<RawNode, clvm_traits::ToClvmError> {
        Ok(RawNode([vec![0xff], first.0, rest.0].concat()))
    }
}

fn default_encoder_section(rep: &Report) {
    use clvm_traits::ClvmEncoder;
    let mut vals: Vec<i128> = vec![0, 1, -1, 0x7f, 0x80, 0xff, 0x100, -0x80, -0x81, 0x7fff, 0x8000, -0x8000, -0x8001, i128::MAX, i128::MIN];
    for k in [31u32, 32, 63, 64, 126] {
        for d in [-1i128, 0, 1] {
            vals.push((1i128 << k) + d);
            vals.push(-(1i128 << k) + d);
        }
    }
    macro_rules! prim {
        ($v:expr, $want:expr, $($t:ty),*) => {$(
            if let Ok(x) = <$t>::try_from($v) {
                rep.eval();
                match catch(|| x.to_clvm(&mut RawEncoder).map(|n| n.0).map_err(|e| format!("{e:?}"))) {
                    Ok(Ok(b)) if b == $want => rep.outcome("default-encoder/primitive ok"),
                    other => rep.violation(concat!("C11/default-encoder/ToClvm<", stringify!($t), ">"), json!({"kind": "default-encoder", "value": $v.to_string()}), format!("{} as {} through an encoder with the default integer routines: {:?}, canonical {}", $v, stringify!($t), other.map(|r| r.map(hex::encode)), hex::encode(&$want))),
                }
            }
        )*};
    }
    for v in &vals {
        let want = enc_i128(*v);
        prim!(*v, want, u8, u16, u32, u64, u128, usize, i8, i16, i32, i64, i128, isize);
        for shift in [0u32, 130] {
            let b: BigInt = BigInt::from(*v) << shift;
            let want = if b == BigInt::from(0) { vec![] } else { b.to_signed_bytes_be() };
            rep.eval();
            match catch(|| RawEncoder.encode_bigint(b.clone()).map(|n| n.0).map_err(|e| format!("{e:?}"))) {
                Ok(Ok(got)) if got == want => rep.outcome("default-encoder/bigint ok"),
                other => rep.violation("C11/default-encoder/encode_bigint", json!({"kind": "default-encoder", "value": b.to_string()}), format!("BigInt {b}: default encode_bigint gives {:?}, canonical {}", other.map(|r| r.map(hex::encode)), hex::encode(&want))),
            }
        }
    }
}

fn replay(case: &Value) -> String {
    let mut a = Allocator::new();
    match case["kind"].as_str() {
        Some("value") => format!("{:?}", check_cheap(case["value"].as_u64().unwrap(), &mut a)),
        Some("heavy") => format!("{:?}", check_heavy(case["value"].as_u64().unwrap())),
        Some("atom") => format!("{:?}", check_atom(&hex::decode(case["atom"].as_str().unwrap()).unwrap(), &mut a)),
        Some("default-encoder") => {
            use clvm_traits::ClvmEncoder;
            let b: BigInt = case["value"].as_str().unwrap().parse().unwrap();
            format!("BigInt {b}: default encode_bigint -> {:?}", RawEncoder.encode_bigint(b.clone()).map(|n| hex::encode(n.0)).map_err(|e| format!("{e:?}")))
        }
        _ => "width cases are re-run by the check itself".into(),
    }
}

fn main() {
    mc::cli::main("C11", "exploration", run, replay)
}
