//! C10 — block builders emit exactly the accepted bundles within the cost limit.
//! Engine H: every history of <= 4 (quick) / <= 5 (thorough) add_spend_bundles calls over a
//! 30-letter alphabet (6 bundle shapes x 5 declared-cost policies, incl. "lands exactly on the
//! limit" and "one more than that") followed by finalize, for both builders, each re-executed on
//! a fresh real builder. Oracles: own decoding of the generator, own signature aggregate,
//! consensus cost of the generator, and the differential undo oracle (history with the rejected
//! adds deleted must give byte-identical output).

use chia_bls::Signature;
use chia_consensus::build_compressed_block::BlockBuilder;
use chia_consensus::build_interned_block::InternedBlockBuilder;
use chia_consensus::consensus_constants::{ConsensusConstants, TEST_CONSTANTS};
use chia_consensus::flags::ConsensusFlags;
use chia_protocol::{Bytes32, Coin, CoinSpend, Program, SpendBundle};
use mc::drive::{self, PH2};
use mc::genr::{GSpend, run_bundle, run_gen2};
use mc::report::{Report, catch, fxhash};
use mc::sx::{Sx, sha256};
use serde_json::{Value, json};
use std::collections::{BTreeMap, HashSet};
use std::sync::Mutex;

const MAX_BLOCK: u64 = 16_000_000;

fn constants() -> ConsensusConstants {
    let mut c = TEST_CONSTANTS.clone();
    c.max_block_cost_clvm = MAX_BLOCK;
    c
}

#[derive(Clone, Copy, Debug, PartialEq, Eq, Hash, PartialOrd, Ord)]
enum Shape {
    /// one spend
    One,
    /// two spends sharing One's puzzle subtree
    TwoShared,
    /// one spend with a 40 kB solution (never fits: always exercises the undo path)
    Big,
    /// a puzzle reveal that cannot be decoded: add must return Err and change nothing
    Undecodable,
    /// batch of [One, TwoShared]
    Batch,
    /// batch of [a valid one-spend bundle, a bundle whose reveal cannot be decoded]: the add must
    /// return Err and leave nothing of the first bundle behind
    BatchBad,
}

#[derive(Clone, Copy, Debug, PartialEq, Eq, Hash)]
enum CostPolicy {
    Truthful,
    /// padded so that the add lands exactly on the block limit
    Exact,
    /// one more than Exact: passes the early check, rejected after serialisation
    ExactPlusOne,
    /// rejected by the early check
    LimitPlusOne,
    Zero,
}

const SHAPES: [Shape; 6] = [Shape::One, Shape::TwoShared, Shape::Big, Shape::Undecodable, Shape::Batch, Shape::BatchBad];
const POLICIES: [CostPolicy; 5] = [CostPolicy::Truthful, CostPolicy::Exact, CostPolicy::ExactPlusOne, CostPolicy::LimitPlusOne, CostPolicy::Zero];

/// a puzzle with some structure so that the compressors have something to share
fn shared_puzzle() -> Sx {
    // (a (q . 5) (c (q . <32 bytes>) 1))  -> returns the first element of the solution (the conditions)
    let q = |x: Sx| Sx::cons(Sx::int(1), x);
    Sx::list(&[Sx::atom(&[2]), q(Sx::int(5)), Sx::list(&[Sx::atom(&[4]), q(Sx::atom(&[0xab; 32])), Sx::int(1)])])
}

fn gspends(shape: Shape, pos: usize) -> Vec<Vec<GSpend>> {
    let parent = |k: u8| sha256(&[b"c10", &[k, pos as u8]]);
    let conds = |n: u64| Sx::list(&[drive::cond(51, &[Sx::atom(&PH2), Sx::int(n)])]);
    let one = |k: u8| GSpend { parent: parent(k), amount: 10, puzzle: shared_puzzle(), solution: Sx::list(&[conds(1 + k as u64)]) };
    match shape {
        Shape::One => vec![vec![one(1)]],
        Shape::TwoShared => vec![vec![one(2), one(3)]],
        Shape::Big => vec![vec![GSpend { parent: parent(4), amount: 10, puzzle: shared_puzzle(), solution: Sx::list(&[conds(1), Sx::atom(&vec![0x5a; 40_000])]) }]],
        Shape::Undecodable => vec![vec![one(5)]], // reveal replaced by garbage in `bundles`
        Shape::Batch => vec![vec![one(6)], vec![one(7), one(8)]],
        Shape::BatchBad => vec![vec![one(9)], vec![one(10)]], // second reveal replaced by garbage in `bundles`
    }
}

fn sig_for(shape: Shape, pos: usize, idx: usize) -> Signature {
    static CACHE: std::sync::OnceLock<BTreeMap<(Shape, usize, usize), Signature>> = std::sync::OnceLock::new();
    CACHE
        .get_or_init(|| {
            let mut m = BTreeMap::new();
            for s in SHAPES {
                for p in 0..6 {
                    for i in 0..2 {
                        m.insert((s, p, i), sig_uncached(s, p, i));
                    }
                }
            }
            m
        })
        .get(&(shape, pos, idx))
        .cloned()
        .unwrap_or_else(|| sig_uncached(shape, pos, idx))
}

fn sig_uncached(shape: Shape, pos: usize, idx: usize) -> Signature {
    // distinct non-trivial G2 elements: generator * small scalar
    let mut s = Signature::generator();
    let k = 1 + (shape as usize) * 100 + pos * 10 + idx;
    s.scalar_multiply(&(k as u32).to_be_bytes());
    s
}

fn bundles(shape: Shape, pos: usize) -> Vec<SpendBundle> {
    static CACHE: std::sync::OnceLock<BTreeMap<(Shape, usize), Vec<SpendBundle>>> = std::sync::OnceLock::new();
    CACHE
        .get_or_init(|| {
            let mut m = BTreeMap::new();
            for s in SHAPES {
                for p in 0..6 {
                    m.insert((s, p), bundles_uncached(s, p));
                }
            }
            m
        })
        .get(&(shape, pos))
        .cloned()
        .unwrap_or_else(|| bundles_uncached(shape, pos))
}

fn bundles_uncached(shape: Shape, pos: usize) -> Vec<SpendBundle> {
    gspends(shape, pos)
        .iter()
        .enumerate()
        .map(|(i, sp)| {
            let mut cs: Vec<CoinSpend> = sp.iter().map(GSpend::coin_spend).collect();
            if shape == Shape::Undecodable || (shape == Shape::BatchBad && i == 1) {
                let c: Coin = cs[0].coin;
                cs[0] = CoinSpend::new(Coin::new(c.parent_coin_info, Bytes32::new([9; 32]), c.amount), Program::from(vec![0xff, 0xff, 0x01]), Program::from(vec![0x80]));
            }
            SpendBundle::new(cs, sig_for(shape, pos, i))
        })
        .collect()
}

/// execution + condition cost of the batch according to run_spendbundle
fn truthful(shape: Shape, pos: usize) -> u64 {
    if shape == Shape::Undecodable || shape == Shape::BatchBad {
        return 1_000_000;
    }
    let c = constants();
    bundles(shape, pos)
        .iter()
        .map(|b| {
            let (r, _) = run_bundle(b, u64::MAX / 4, ConsensusFlags::DONT_VALIDATE_SIGNATURE, &c).expect("letter bundle is valid");
            r.execution_cost + r.condition_cost
        })
        .sum()
}

trait Builder {
    fn fresh() -> Self;
    fn add(&mut self, b: &[SpendBundle], cost: u64) -> Result<Result<(bool, bool), String>, String>;
    fn cost(&self) -> u64;
    fn fin(self) -> Result<Result<(Vec<u8>, Signature, u64), String>, String>;
    const INTERNED: bool;
}

struct Compressed(BlockBuilder);
impl Builder for Compressed {
    const INTERNED: bool = false;
    fn fresh() -> Self {
        Compressed(BlockBuilder::new().expect("new"))
    }
    fn add(&mut self, b: &[SpendBundle], cost: u64) -> Result<Result<(bool, bool), String>, String> {
        let c = constants();
        catch(|| self.0.add_spend_bundles(b.iter(), cost, &c).map(|(ok, r)| (ok, r == chia_consensus::build_compressed_block::BuildBlockResult::Done)).map_err(|e| format!("{e:?}")))
    }
    fn cost(&self) -> u64 {
        self.0.cost()
    }
    fn fin(self) -> Result<Result<(Vec<u8>, Signature, u64), String>, String> {
        let c = constants();
        catch(|| self.0.finalize(&c).map_err(|e| format!("{e:?}")))
    }
}

struct Interned(InternedBlockBuilder);
impl Builder for Interned {
    const INTERNED: bool = true;
    fn fresh() -> Self {
        Interned(InternedBlockBuilder::new(&constants()))
    }
    fn add(&mut self, b: &[SpendBundle], cost: u64) -> Result<Result<(bool, bool), String>, String> {
        catch(|| self.0.add_spend_bundles(b.iter(), cost).map(|(ok, r)| (ok, r == chia_consensus::build_interned_block::BuildBlockResult::Done)).map_err(|e| format!("{e:?}")))
    }
    fn cost(&self) -> u64 {
        self.0.cost()
    }
    fn fin(mut self) -> Result<Result<(Vec<u8>, Signature, u64), String>, String> {
        catch(|| self.0.finalize().map_err(|e| format!("{e:?}")))
    }
}

/// concrete add: the bundles and the declared number
#[derive(Clone)]
struct Add {
    shape: Shape,
    pos: usize,
    declared: u64,
    truthful: bool,
}

/// resolve a letter history into concrete adds by dry-running the real builder (needed for
/// the Exact policies), returns the concrete adds
fn resolve<B: Builder>(hist: &[(Shape, CostPolicy)], tcost: &BTreeMap<(Shape, usize), u64>) -> Result<Vec<Add>, String> {
    let mut out: Vec<Add> = Vec::new();
    for (pos, (shape, pol)) in hist.iter().enumerate() {
        let t = tcost[&(*shape, pos)];
        let declared = match pol {
            CostPolicy::Truthful => t,
            CostPolicy::Zero => 0,
            CostPolicy::LimitPlusOne => MAX_BLOCK + 1,
            CostPolicy::Exact | CostPolicy::ExactPlusOne => {
                // dry run: replay the concrete prefix, add truthfully, read the estimate
                let mut b = B::fresh();
                for a in &out {
                    let _ = b.add(&bundles(a.shape, a.pos), a.declared)?;
                }
                let before = b.cost();
                let r = b.add(&bundles(*shape, pos), t)?;
                let exact = match r {
                    Ok((true, _)) => {
                        let after = b.cost();
                        // after = size term + block_cost_before + t  =>  exact = max - (after - t)
                        MAX_BLOCK.saturating_sub(after - t)
                    }
                    // does not fit truthfully (or Err): fall back to "fills what the estimate says is left"
                    _ => MAX_BLOCK.saturating_sub(before),
                };
                if *pol == CostPolicy::Exact { exact } else { exact + 1 }
            }
        };
        out.push(Add { shape: *shape, pos, declared, truthful: *pol == CostPolicy::Truthful });
    }
    Ok(out)
}

thread_local! {
    static LOCAL: std::cell::RefCell<BTreeMap<String, u64>> = const { std::cell::RefCell::new(BTreeMap::new()) };
    static SIDE: std::cell::RefCell<Vec<(String, String)>> = const { std::cell::RefCell::new(Vec::new()) };
}

struct RunOut {
    results: Vec<String>,
    accepted: Vec<usize>,
    costs: Vec<u64>,
    fin: (Vec<u8>, Signature, u64),
}

fn execute<B: Builder>(adds: &[Add]) -> Result<RunOut, (String, String)> {
    let mut b = B::fresh();
    let mut results = Vec::new();
    let mut accepted = Vec::new();
    let mut costs = Vec::new();
    for (i, a) in adds.iter().enumerate() {
        match b.add(&bundles(a.shape, a.pos), a.declared) {
            Err(p) => return Err(("add-panic".into(), format!("add {i} ({:?}) panicked: {p}", a.shape))),
            Ok(Err(e)) => {
                if a.shape != Shape::Undecodable && a.shape != Shape::BatchBad {
                    return Err(("add-error".into(), format!("add {i} ({:?}) returned Err({e})", a.shape)));
                }
                results.push("err".into());
            }
            Ok(Ok((ok, done))) => {
                if (a.shape == Shape::Undecodable || a.shape == Shape::BatchBad) && ok {
                    return Err(("undecodable-accepted".into(), format!("add {i}: a bundle whose puzzle reveal cannot be decoded was accepted")));
                }
                if ok {
                    accepted.push(i);
                }
                results.push(format!("{}{}", if ok { "added" } else { "declined" }, if done { "/done" } else { "" }));
            }
        }
        let c = b.cost();
        if c > MAX_BLOCK {
            return Err(("estimate-above-limit".into(), format!("after add {i} cost() = {c} > max {MAX_BLOCK}")));
        }
        costs.push(c);
    }
    let last_estimate = b.cost();
    let fin = match b.fin() {
        Err(p) => return Err(("finalize-panic".into(), format!("finalize panicked: {p}"))),
        Ok(Err(e)) => return Err(("finalize-error".into(), format!("finalize returned Err({e})"))),
        Ok(Ok(f)) => f,
    };
    if fin.2 > MAX_BLOCK {
        return Err(("final-cost-above-limit".into(), format!("finalize returned cost {} > max {MAX_BLOCK}", fin.2)));
    }
    if last_estimate < fin.2 {
        let d = format!("cost() before finalize = {last_estimate} < final cost {} ({} accepted adds)", fin.2, accepted.len());
        if accepted.is_empty() {
            // recorded, not fatal for the rest of the oracles (see known_findings.json)
            SIDE.with(|c| c.borrow_mut().push(("estimate-underestimates/no-accepted-add".to_string(), d)));
        } else {
            return Err(("estimate-underestimates".into(), d));
        }
    }
    Ok(RunOut { results, accepted, costs, fin })
}

fn check_history<B: Builder>(hist: &[(Shape, CostPolicy)], tcost: &BTreeMap<(Shape, usize), u64>, states: &Mutex<HashSet<u64>>) -> Result<(String, u64), (String, String)> {
    let adds = resolve::<B>(hist, tcost).map_err(|p| ("add-panic".to_string(), format!("panic during dry run: {p}")))?;
    let out = execute::<B>(&adds)?;
    let mut transitions = adds.len() as u64;
    // (b) the generator decodes to exactly the spends of the accepted adds
    let mut a = clvmr::Allocator::new();
    let node = clvmr::serde::node_from_bytes_backrefs(&mut a, &out.fin.0).map_err(|e| ("generator-undecodable".to_string(), format!("{e:?}")))?;
    let tree = Sx::from_node(&a, node);
    let (qq, rest) = tree.as_pair().ok_or(("generator-shape".to_string(), "not a pair".to_string()))?;
    if qq.as_atom() != Some(&[1u8][..]) {
        return Err(("generator-shape".into(), "generator is not a quote".into()));
    }
    let (outer, oterm) = rest.unlist();
    if outer.len() != 1 || !oterm.is_nil() {
        return Err(("generator-shape".into(), format!("quoted value is not a one-element list: {rest:?}")));
    }
    let (tuples, sterm) = outer[0].unlist();
    if !sterm.is_nil() {
        return Err(("generator-shape".into(), "spend list is not nil-terminated".into()));
    }
    let mut got: Vec<Sx> = tuples.into_iter().cloned().collect();
    got.sort();
    let mut want: Vec<Sx> = out.accepted.iter().flat_map(|i| gspends(adds[*i].shape, adds[*i].pos).into_iter().flatten().map(|s| s.tuple()).collect::<Vec<_>>()).collect();
    want.sort();
    if got != want {
        return Err(("spends-differ".into(), format!("history {hist:?}\nresults {:?}\ngenerator holds {} spends, accepted adds hold {}", out.results, got.len(), want.len())));
    }
    // (c) signature
    let mut agg = Signature::default();
    for i in &out.accepted {
        for (j, _) in gspends(adds[*i].shape, adds[*i].pos).iter().enumerate() {
            agg.aggregate(&sig_for(adds[*i].shape, adds[*i].pos, j));
        }
    }
    if agg != out.fin.1 {
        return Err(("signature".into(), format!("history {hist:?} results {:?}: returned signature is not the aggregate of the accepted bundles' signatures", out.results)));
    }
    // (d) consensus cost
    let flags = ConsensusFlags::DONT_VALIDATE_SIGNATURE | if B::INTERNED { ConsensusFlags::INTERNED_GENERATOR } else { ConsensusFlags::empty() };
    let sig = Signature::default();
    let c = constants();
    let consensus = run_gen2(&out.fin.0, &[], u64::MAX / 4, flags, &sig, &c).map_err(|e| ("generator-invalid".to_string(), format!("history {hist:?}: consensus rejects the generator: {e:?}")))?;
    if out.accepted.iter().all(|i| adds[*i].truthful) && consensus.cost != out.fin.2 {
        return Err(("final-cost".into(), format!("history {hist:?} results {:?}: returned cost {} but consensus charges {}", out.results, out.fin.2, consensus.cost)));
    }
    // (g) differential undo oracle
    if out.accepted.len() != adds.len() {
        let reduced: Vec<Add> = out.accepted.iter().map(|i| adds[*i].clone()).collect();
        let r2 = execute::<B>(&reduced).map_err(|(s, d)| (format!("undo/{s}"), format!("reduced history: {d}")))?;
        transitions += reduced.len() as u64;
        if r2.accepted.len() != reduced.len() {
            return Err(("undo/reduced-history-declines".into(), format!("history {hist:?} results {:?}: an add that was accepted is declined once the rejected adds are removed ({:?})", out.results, r2.results)));
        }
        if r2.fin.1 != out.fin.1 {
            return Err(("undo/signature-differs".into(), format!("history {hist:?} results {:?}: signature differs from the history with rejected adds removed", out.results)));
        }
        if r2.fin.0 == out.fin.0 && r2.fin.2 != out.fin.2 {
            return Err(("undo/cost-differs".into(), format!("history {hist:?} results {:?}: same generator but cost {} vs {} for the history with rejected adds removed", out.results, out.fin.2, r2.fin.2)));
        }
        if r2.fin.0 != out.fin.0 {
            // classify: same decoded tree (only the choice of back-references differs) or not;
            // a cost difference must be exactly the byte term of the length difference
            let mut a2 = clvmr::Allocator::new();
            let n2 = clvmr::serde::node_from_bytes_backrefs(&mut a2, &r2.fin.0).map_err(|e| ("undo/generator-undecodable".to_string(), format!("{e:?}")))?;
            let tree2 = Sx::from_node(&a2, n2);
            let dlen = out.fin.0.len() as i128 - r2.fin.0.len() as i128;
            let dcost = out.fin.2 as i128 - r2.fin.2 as i128;
            let class = if tree2 != tree {
                "undo/generator-tree-differs"
            } else if dcost != dlen * c.cost_per_byte as i128 {
                "undo/cost-differs"
            } else if dlen != 0 {
                "undo/generator-bytes-differ/same-tree/size-differs"
            } else {
                "undo/generator-bytes-differ/same-tree/same-size"
            };
            if std::env::var_os("MC_C10_DUMP").is_some() {
                eprintln!("with rejected adds   : {}", hex::encode(&out.fin.0));
                eprintln!("rejected adds removed: {}", hex::encode(&r2.fin.0));
            }
            return Err((class.into(), format!("history {hist:?} results {:?}: generator bytes differ from the history with rejected adds removed ({} vs {} bytes, cost {} vs {}, decoded tree equal: {}, signature equal)", out.results, out.fin.0.len(), r2.fin.0.len(), out.fin.2, r2.fin.2, tree2 == tree)));
        }
    }
    let key = fxhash(&(B::INTERNED, &out.accepted, out.costs.last(), out.results.last()));
    states.lock().unwrap().insert(key);
    Ok((out.results.join(","), transitions))
}

fn all_histories(max: usize) -> Vec<Vec<(Shape, CostPolicy)>> {
    let letters: Vec<(Shape, CostPolicy)> = SHAPES.iter().flat_map(|s| POLICIES.iter().map(move |p| (*s, *p))).collect();
    let mut out = vec![vec![]];
    let mut cur: Vec<Vec<(Shape, CostPolicy)>> = vec![vec![]];
    for _ in 0..max {
        let mut next = Vec::new();
        for h in &cur {
            for l in &letters {
                let mut n = h.clone();
                n.push(*l);
                next.push(n);
            }
        }
        out.extend(next.iter().cloned());
        cur = next;
    }
    out
}

fn hist_json(h: &[(Shape, CostPolicy)], interned: bool) -> Value {
    json!({"interned": interned, "history": h.iter().map(|(s, p)| json!([format!("{s:?}"), format!("{p:?}")])).collect::<Vec<_>>()})
}

fn parse_hist(v: &Value) -> Vec<(Shape, CostPolicy)> {
    v["history"]
        .as_array()
        .unwrap()
        .iter()
        .map(|e| {
            let s = SHAPES.iter().find(|s| format!("{s:?}") == e[0].as_str().unwrap()).unwrap();
            let p = POLICIES.iter().find(|p| format!("{p:?}") == e[1].as_str().unwrap()).unwrap();
            (*s, *p)
        })
        .collect()
}

fn run(rep: &Report) {
    let depth = rep.tier.pick(4, 5);
    rep.set_rule(&format!("every history of <= {depth} add_spend_bundles calls over 30 letters = bundle shape {{one spend, two spends sharing its puzzle, 40 kB solution, undecodable reveal, batch of two bundles, batch of a valid and an undecodable bundle}} x declared cost {{truthful, lands exactly on the limit, that + 1, limit + 1, 0}}, followed by finalize, on a fresh BlockBuilder and a fresh InternedBlockBuilder (max block cost {MAX_BLOCK}); states = distinct (accepted adds, cost() estimate, last result) tuples; distinct = distinct histories x builder"));
    rep.assume("truthful cost = execution + condition cost reported by run_spendbundle; 'lands exactly' is computed by a dry run of the same history on the real builder; generator decoded with clvmr's back-reference parser + harness Sx");
    // truthful costs per (shape, position)
    let mut tcost = BTreeMap::new();
    for s in SHAPES {
        for pos in 0..depth {
            tcost.insert((s, pos), truthful(s, pos));
        }
    }
    // Engine E: the history is a choice sequence (builder, length, then one of 25 letters per add);
    // `explore_full` enumerates every sequence, sharded over the pool below the first two picks
    let letters: Vec<(Shape, CostPolicy)> = SHAPES.iter().flat_map(|s| POLICIES.iter().map(move |p| (*s, *p))).collect();
    let states = Mutex::new(HashSet::new());
    let expected: u64 = 2 * all_histories(depth).len() as u64;
    let executions = mc::engine::explore_full(3, |ch| {
        let interned = ch.flag();
        let n = ch.pick(depth as u32 + 1) as usize;
        let h: Vec<(Shape, CostPolicy)> = (0..n).map(|_| *ch.pick_from(&letters)).collect();
        if ch.probing {
            return;
        }
        let h = &h;
        let tag = if interned { "interned" } else { "compressed" };
        let r = if interned { catch(|| check_history::<Interned>(h, &tcost, &states)) } else { catch(|| check_history::<Compressed>(h, &tcost, &states)) };
        let side: Vec<(String, String)> = SIDE.with(|c| std::mem::take(&mut *c.borrow_mut()));
        for (sig, det) in side.into_iter().take(1) {
            rep.violation(&format!("C10/{tag}/{sig}"), hist_json(h, interned), det);
        }
        rep.eval();
        rep.trace();
        match r {
            Ok(Ok((res, t))) => {
                rep.transitions.fetch_add(t, std::sync::atomic::Ordering::Relaxed);
                let cls = if res.contains("declined") || res.contains("err") { if res.contains("added") { "mixed" } else { "all-rejected" } } else { "all-added" };
                LOCAL.with(|l| *l.borrow_mut().entry(format!("{tag}/{cls}")).or_insert(0) += 1);
                rep.distinct(fxhash(&(interned, format!("{h:?}"))));
            }
            Ok(Err((sig, det))) => rep.violation(&format!("C10/{tag}/{sig}"), hist_json(h, interned), det),
            Err(p) => rep.violation(&format!("C10/{tag}/harness-panic"), hist_json(h, interned), p),
        }
        // flush the per-thread histogram now and then (cheap: a handful of keys)
        LOCAL.with(|l| {
            let mut l = l.borrow_mut();
            if l.values().sum::<u64>() >= 256 {
                for (k, n) in std::mem::take(&mut *l) {
                    rep.outcome_n(&k, n);
                }
            }
        });
    });
    // flush what is left in every pool thread
    rayon::broadcast(|_| {
        LOCAL.with(|l| {
            for (k, n) in std::mem::take(&mut *l.borrow_mut()) {
                rep.outcome_n(&k, n);
            }
        })
    });
    LOCAL.with(|l| {
        for (k, n) in std::mem::take(&mut *l.borrow_mut()) {
            rep.outcome_n(&k, n);
        }
    });
    rep.extra("histories_per_builder", json!(expected / 2));
    rep.extra("engine_E_executions", json!(executions));
    if executions != expected {
        rep.machinery_error(&format!("engine E visited {executions} choice sequences, the product has {expected}"));
    }
    rep.states.store(states.lock().unwrap().len() as u64, std::sync::atomic::Ordering::Relaxed);
    rep.sample(json!({"history": [["One", "Truthful"], ["TwoShared", "ExactPlusOne"], ["Batch", "Truthful"]], "meaning": "second add passes the early check, is rejected after serialisation (undo), third add must behave as if the second never happened"}));
    rep.sample(json!({"history": [["Batch", "Exact"], ["One", "Zero"]], "meaning": "first add lands exactly on the block limit; the builder is full afterwards"}));
}

fn replay(case: &Value) -> String {
    let h = parse_hist(case);
    let depth = h.len().max(1);
    let mut tcost = BTreeMap::new();
    for s in SHAPES {
        for pos in 0..depth {
            tcost.insert((s, pos), truthful(s, pos));
        }
    }
    let states = Mutex::new(HashSet::new());
    if case["interned"].as_bool().unwrap() {
        format!("{:?}", check_history::<Interned>(&h, &tcost, &states))
    } else {
        format!("{:?}", check_history::<Compressed>(&h, &tcost, &states))
    }
}

fn main() {
    mc::cli::main("C10", "model_checking", run, replay)
}
