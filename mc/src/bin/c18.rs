//! C18 — DataLayer MerkleBlob stays a valid authenticated map under any history.
//! Engine H: BFS over operation histories on the real MerkleBlob, state key = (blob bytes,
//! free-index list in order), reference = BTreeMap + independent recomputation of the root.

use chia_datalayer::{
    Hash, InsertLocation, KeyId, MerkleBlob, Node, Side, TreeIndex, ValueId,
};
use chia_protocol::Bytes32;
use mc::bfs;
use mc::report::{Report, catch, fxhash};
use mc::sx::sha256;
use serde_json::{Value, json};
use std::collections::{BTreeMap, BTreeSet};

type Model = BTreeMap<i64, (i64, [u8; 32])>;

#[derive(Clone, Debug, PartialEq, Eq)]
enum HashSel {
    /// sha256(key || value)
    Own,
    /// the hash currently stored for another key (smallest other key in the model)
    OwnedByOther,
    /// a second fresh hash for the same (key, value): the leaf hash changes, the value id does not
    Alt,
}

#[derive(Clone, Debug, PartialEq, Eq)]
enum Loc {
    Auto,
    AsRoot,
    Leaf(u32, bool), // index, right?
}

#[derive(Clone, Debug, PartialEq, Eq)]
enum Op {
    Insert { k: i64, v: i64, h: HashSel, loc: Loc },
    Upsert { k: i64, v: i64, h: HashSel },
    Delete { k: i64 },
    Batch { items: Vec<(i64, i64)> },
    Lazy,
    Reload,
}

impl Op {
    fn to_json(&self) -> Value {
        match self {
            Op::Insert { k, v, h, loc } => json!({"op":"insert","k":k,"v":v,"h":format!("{h:?}"),
                "loc": match loc { Loc::Auto => json!("auto"), Loc::AsRoot => json!("root"), Loc::Leaf(i, r) => json!({"index": i, "right": r}) }}),
            Op::Upsert { k, v, h } => json!({"op":"upsert","k":k,"v":v,"h":format!("{h:?}")}),
            Op::Delete { k } => json!({"op":"delete","k":k}),
            Op::Batch { items } => json!({"op":"batch","items":items}),
            Op::Lazy => json!({"op":"lazy"}),
            Op::Reload => json!({"op":"reload"}),
        }
    }
    fn from_json(v: &Value) -> Op {
        let h = |v: &Value| if v["h"] == "Own" { HashSel::Own } else if v["h"] == "Alt" { HashSel::Alt } else { HashSel::OwnedByOther };
        match v["op"].as_str().unwrap() {
            "insert" => Op::Insert {
                k: v["k"].as_i64().unwrap(),
                v: v["v"].as_i64().unwrap(),
                h: h(v),
                loc: match &v["loc"] {
                    Value::String(s) if s == "auto" => Loc::Auto,
                    Value::String(_) => Loc::AsRoot,
                    o => Loc::Leaf(o["index"].as_u64().unwrap() as u32, o["right"].as_bool().unwrap()),
                },
            },
            "upsert" => Op::Upsert { k: v["k"].as_i64().unwrap(), v: v["v"].as_i64().unwrap(), h: h(v) },
            "delete" => Op::Delete { k: v["k"].as_i64().unwrap() },
            "batch" => Op::Batch {
                items: v["items"].as_array().unwrap().iter().map(|p| (p[0].as_i64().unwrap(), p[1].as_i64().unwrap())).collect(),
            },
            "lazy" => Op::Lazy,
            _ => Op::Reload,
        }
    }
    fn kind(&self) -> &'static str {
        match self {
            Op::Insert { loc: Loc::Auto, h: HashSel::Own, .. } => "insert-auto",
            Op::Insert { loc: Loc::AsRoot, .. } => "insert-root",
            Op::Insert { loc: Loc::Leaf(..), .. } => "insert-leaf",
            Op::Insert { .. } => "insert-hashcollide",
            Op::Upsert { h: HashSel::Own, .. } => "upsert",
            Op::Upsert { h: HashSel::Alt, .. } => "upsert-newhash-samevalue",
            Op::Upsert { .. } => "upsert-hashcollide",
            Op::Delete { .. } => "delete",
            Op::Batch { .. } => "batch",
            Op::Lazy => "lazy",
            Op::Reload => "reload",
        }
    }
}

fn leaf_hash(k: i64, v: i64) -> [u8; 32] {
    sha256(&[&k.to_be_bytes(), &v.to_be_bytes()])
}

fn sel_hash(model: &Model, k: i64, v: i64, h: &HashSel) -> Option<[u8; 32]> {
    match h {
        HashSel::Own => Some(leaf_hash(k, v)),
        HashSel::Alt => Some(sha256(&[b"alt", &k.to_be_bytes(), &v.to_be_bytes()])),
        HashSel::OwnedByOther => model.iter().find(|(ok, _)| **ok != k).map(|(_, (_, h))| *h),
    }
}

#[derive(Clone)]
struct State {
    blob: MerkleBlob,
    model: Model,
    hist: Vec<Op>,
}

fn state_key(b: &MerkleBlob) -> Vec<u8> {
    let mut k = b.read_blob().clone();
    k.extend_from_slice(b"|free|");
    for i in b.verif_free_indexes() {
        k.extend_from_slice(&i.0.to_be_bytes());
    }
    k
}

/// contents as seen through the public API: key -> (value, leaf hash)
fn contents(b: &MerkleBlob) -> Result<Model, String> {
    let kv = b.get_keys_values().map_err(|e| format!("get_keys_values: {e}"))?;
    let mut m = Model::new();
    for (k, v) in kv {
        let (_, leaf, _) = b.get_leaf_by_key(k).map_err(|e| format!("get_leaf_by_key({k:?}): {e}"))?;
        if leaf.value != v || leaf.key != k {
            return Err(format!("leaf for {k:?} holds {:?}/{:?}", leaf.key, leaf.value));
        }
        m.insert(k.0, (v.0, leaf.hash.0.to_bytes()));
    }
    Ok(m)
}

/// independent walk of the node graph from index 0: returns (root hash recomputed bottom-up,
/// leaves found as key -> (value, hash)), checking parent links on the way
fn walk(b: &MerkleBlob, idx: TreeIndex, parent: Option<TreeIndex>, leaves: &mut Model, depth: usize) -> Result<[u8; 32], String> {
    if depth > 64 {
        return Err("tree deeper than 64 (cycle?)".into());
    }
    let node = b.get_node(idx).map_err(|e| format!("get_node({idx}): {e}"))?;
    match node {
        Node::Leaf(l) => {
            if l.parent.0 != parent {
                return Err(format!("leaf {idx} parent {:?} expected {parent:?}", l.parent.0));
            }
            if leaves.insert(l.key.0, (l.value.0, l.hash.0.to_bytes())).is_some() {
                return Err(format!("key {} reachable twice", l.key.0));
            }
            Ok(l.hash.0.to_bytes())
        }
        Node::Internal(n) => {
            if n.parent.0 != parent {
                return Err(format!("internal {idx} parent {:?} expected {parent:?}", n.parent.0));
            }
            let l = walk(b, n.left, Some(idx), leaves, depth + 1)?;
            let r = walk(b, n.right, Some(idx), leaves, depth + 1)?;
            Ok(sha256(&[&[2u8], &l, &r]))
        }
    }
}

/// state invariant; returns Err(description)
fn invariant(b: &MerkleBlob, model: &Model) -> Result<(), (String, String)> {
    let bad = |sig: &str, d: String| Err((sig.to_string(), d));
    // 1. integrity
    match catch(|| b.check_integrity()) {
        Ok(Ok(())) => {}
        Ok(Err(e)) => return bad("integrity", format!("check_integrity failed: {e}")),
        Err(p) => return bad("integrity-panic", format!("check_integrity panicked: {p}")),
    }
    // 2. contents = model
    match catch(|| contents(b)) {
        Ok(Ok(c)) => {
            if &c != model {
                return bad("contents", format!("contents {c:?} != model {model:?}"));
            }
        }
        Ok(Err(e)) => return bad("contents", e),
        Err(p) => return bad("contents-panic", p),
    }
    // 3. reload equivalent
    let reloaded = match catch(|| MerkleBlob::new(b.read_blob().clone())) {
        Ok(Ok(r)) => r,
        Ok(Err(e)) => return bad("reload", format!("reload of own bytes failed: {e}")),
        Err(p) => return bad("reload-panic", p),
    };
    match catch(|| contents(&reloaded)) {
        Ok(Ok(c)) if &c == model => {}
        other => return bad("reload", format!("reloaded contents {other:?} != model {model:?}")),
    }
    // 4. hashes: on a clone, recompute lazily, compare with independent recomputation, proofs
    let mut c = b.clone();
    c.check_integrity_on_drop = false;
    match catch(|| c.calculate_lazy_hashes()) {
        Ok(Ok(())) => {}
        Ok(Err(e)) => return bad("lazy", format!("calculate_lazy_hashes failed: {e}")),
        Err(p) => return bad("lazy-panic", p),
    }
    if model.is_empty() {
        if !c.read_blob().is_empty() && c.get_hash_at_index(TreeIndex(0)).ok().flatten().is_some() {
            return bad("root", "empty map reports a root hash".into());
        }
        return Ok(());
    }
    let mut leaves = Model::new();
    let root = match catch(|| walk(&c, TreeIndex(0), None, &mut leaves, 0)) {
        Ok(Ok(r)) => r,
        Ok(Err(e)) => return bad("walk", e),
        Err(p) => return bad("walk-panic", p),
    };
    if &leaves != model {
        return bad("walk", format!("leaves reachable from the root {leaves:?} != model {model:?}"));
    }
    match catch(|| c.get_hash_at_index(TreeIndex(0))) {
        Ok(Ok(Some(h))) if h.0.to_bytes() == root => {}
        other => return bad("root", format!("root after calculate_lazy_hashes {other:?} != recomputed {}", hex::encode(root))),
    }
    for (k, (_, h)) in model {
        let p = match catch(|| c.get_proof_of_inclusion(KeyId(*k))) {
            Ok(Ok(p)) => p,
            other => return bad("proof", format!("no proof for key {k}: {:?}", other.map(|r| r.map(|_| ()).map_err(|e| e.to_string())))),
        };
        if p.node_hash.0.to_bytes() != *h {
            return bad("proof", format!("proof for key {k} starts at the wrong leaf hash"));
        }
        // own fold
        let mut cur = *h;
        for l in &p.layers {
            let o = l.other_hash.0.to_bytes();
            cur = match l.other_hash_side {
                Side::Left => sha256(&[&[2u8], &o, &cur]),
                Side::Right => sha256(&[&[2u8], &cur, &o]),
            };
            if cur != l.combined_hash.0.to_bytes() {
                return bad("proof", format!("proof for key {k}: layer hash mismatch"));
            }
        }
        if cur != root || !p.valid() || p.root_hash().0.to_bytes() != root {
            return bad("proof", format!("proof for key {k} does not end in the root (valid()={})", p.valid()));
        }
    }
    // reloaded blob, hashed, has the same root
    let mut r = reloaded;
    r.check_integrity_on_drop = false;
    if let Ok(Ok(())) = catch(|| r.calculate_lazy_hashes()) {
        match r.get_hash_at_index(TreeIndex(0)) {
            Ok(Some(h)) if h.0.to_bytes() == root => {}
            other => return bad("reload", format!("reloaded root {other:?} != {}", hex::encode(root))),
        }
    } else {
        return bad("reload", "calculate_lazy_hashes failed on the reloaded blob".into());
    }
    Ok(())
}

fn to_hash(h: [u8; 32]) -> Hash {
    Hash(Bytes32::new(h))
}

/// what a plain map would do: None = the operation is not representable (must not be Ok)
fn model_apply(model: &Model, op: &Op) -> Option<Model> {
    let mut m = model.clone();
    let hashes: BTreeSet<[u8; 32]> = model.values().map(|v| v.1).collect();
    match op {
        Op::Insert { k, v, h, .. } => {
            let h = sel_hash(model, *k, *v, h)?;
            if m.contains_key(k) || hashes.contains(&h) {
                return None;
            }
            m.insert(*k, (*v, h));
        }
        Op::Upsert { k, v, h } => {
            let h = sel_hash(model, *k, *v, h)?;
            let others: BTreeSet<[u8; 32]> = model.iter().filter(|(ok, _)| *ok != k).map(|(_, v)| v.1).collect();
            if others.contains(&h) {
                return None;
            }
            m.insert(*k, (*v, h));
        }
        Op::Delete { k } => {
            m.remove(k)?;
        }
        Op::Batch { items } => {
            let mut hs = hashes;
            for (k, v) in items {
                let h = leaf_hash(*k, *v);
                if m.contains_key(k) || !hs.insert(h) {
                    return None;
                }
                m.insert(*k, (*v, h));
            }
        }
        Op::Lazy | Op::Reload => {}
    }
    Some(m)
}

enum Applied {
    Ok(MerkleBlob),
    Err(String, MerkleBlob),
    Panic(String),
    Skip,
}

fn apply(blob: &MerkleBlob, model: &Model, op: &Op) -> Applied {
    let mut b = blob.clone();
    b.check_integrity_on_drop = false;
    let r = match op {
        Op::Insert { k, v, h, loc } => {
            let Some(h) = sel_hash(model, *k, *v, h) else { return Applied::Skip };
            let loc = match loc {
                Loc::Auto => InsertLocation::Auto {},
                Loc::AsRoot => InsertLocation::AsRoot {},
                Loc::Leaf(i, r) => InsertLocation::Leaf { index: TreeIndex(*i), side: if *r { Side::Right } else { Side::Left } },
            };
            catch(|| b.insert(KeyId(*k), ValueId(*v), &to_hash(h), loc).map(|_| ()))
        }
        Op::Upsert { k, v, h } => {
            let Some(h) = sel_hash(model, *k, *v, h) else { return Applied::Skip };
            catch(|| b.upsert(KeyId(*k), ValueId(*v), &to_hash(h)))
        }
        Op::Delete { k } => catch(|| b.delete(KeyId(*k))),
        Op::Batch { items } => {
            let v: Vec<((KeyId, ValueId), Hash)> = items.iter().map(|(k, v)| ((KeyId(*k), ValueId(*v)), to_hash(leaf_hash(*k, *v)))).collect();
            catch(|| b.batch_insert(v))
        }
        Op::Lazy => catch(|| b.calculate_lazy_hashes()),
        Op::Reload => match catch(|| MerkleBlob::new(blob.read_blob().clone())) {
            Ok(Ok(mut nb)) => {
                nb.check_integrity_on_drop = false;
                return Applied::Ok(nb);
            }
            Ok(Err(e)) => return Applied::Err(e.to_string(), b),
            Err(p) => return Applied::Panic(p),
        },
    };
    match r {
        Ok(Ok(())) => Applied::Ok(b),
        Ok(Err(e)) => Applied::Err(e.to_string(), b),
        Err(p) => {
            std::mem::forget(b);
            Applied::Panic(p)
        }
    }
}

fn alphabet(blob: &MerkleBlob, keys: &[i64], batch_max: usize) -> Vec<Op> {
    let mut ops = Vec::new();
    let blocks = (blob.read_blob().len() / chia_datalayer::BLOCK_SIZE) as u32;
    for &k in keys {
        ops.push(Op::Insert { k, v: 10, h: HashSel::Own, loc: Loc::Auto });
    }
    for &k in keys {
        ops.push(Op::Delete { k });
    }
    for &k in keys {
        for v in [10, 20] {
            ops.push(Op::Upsert { k, v, h: HashSel::Own });
        }
        ops.push(Op::Upsert { k, v: 10, h: HashSel::Alt });
        ops.push(Op::Upsert { k, v: 20, h: HashSel::OwnedByOther });
        ops.push(Op::Insert { k, v: 10, h: HashSel::OwnedByOther, loc: Loc::Auto });
        ops.push(Op::Insert { k, v: 10, h: HashSel::Own, loc: Loc::AsRoot });
    }
    // explicit locations: every block index incl. one past the end, both sides; one key suffices
    // per (present/absent) class: use the smallest absent key and the smallest key overall
    for &k in keys.iter().take(2) {
        for i in 0..=blocks {
            for r in [false, true] {
                ops.push(Op::Insert { k, v: 10, h: HashSel::Own, loc: Loc::Leaf(i, r) });
            }
        }
    }
    // batches of 0..=batch_max entries over (key, 10)
    ops.push(Op::Batch { items: vec![] });
    let mut cur: Vec<Vec<(i64, i64)>> = vec![vec![]];
    for _ in 0..batch_max {
        let mut next = Vec::new();
        for b in &cur {
            for &k in keys {
                let mut nb = b.clone();
                nb.push((k, 10));
                next.push(nb);
            }
        }
        for b in &next {
            ops.push(Op::Batch { items: b.clone() });
        }
        cur = next;
    }
    ops.push(Op::Lazy);
    ops.push(Op::Reload);
    ops
}

fn classify_batch(model: &Model, items: &[(i64, i64)]) -> &'static str {
    let mut seen = BTreeSet::new();
    for (k, _) in items {
        if !seen.insert(*k) {
            return "duplicate-in-batch";
        }
    }
    if items.iter().any(|(k, _)| model.contains_key(k)) {
        return "key-present";
    }
    "other"
}

/// root-cause signature of a transition violation
fn signature(model: &Model, op: &Op, what: &str) -> String {
    match op {
        Op::Batch { items } => format!("C18/batch_insert/{}/{}", classify_batch(model, items), what),
        Op::Upsert { h: HashSel::OwnedByOther, k, .. } if model.contains_key(k) => format!("C18/upsert/hash-owned-by-other/{what}"),
        Op::Insert { loc: Loc::Leaf(..), .. } => format!("C18/insert-at-leaf/{what}"),
        _ => format!("C18/{}/{what}", op.kind()),
    }
}

fn run(rep: &Report) {
    let keys: Vec<i64> = rep.tier.pick(vec![1, 2, 3], vec![1, 2, 3, 4]);
    let depth = std::env::var("C18_DEPTH").ok().and_then(|s| s.parse().ok()).unwrap_or(6);
    let batch_max = rep.tier.pick(2, 3);
    let max_states = rep.tier.pick(1_000_000, 8_000_000);
    rep.set_rule(&format!(
        "BFS from the empty blob, depth {depth}, keys {keys:?}, values {{10,20}}, operations: insert(Auto|AsRoot|Leaf{{every block index incl. one past the end, both sides}}), insert/upsert with a hash owned by another key, upsert, delete (present and absent), batch_insert of every list of <= {batch_max} entries (duplicates included), calculate_lazy_hashes, reload from bytes; state key = blob bytes + free-index list in order (exact, no hashing); distinct_nontrivial = distinct states whose map is non-empty"
    ));
    rep.assume("contents are read through get_keys_values/get_leaf_by_key/get_node; free list through hook H3");
    rep.assume("Err is always an acceptable answer provided the blob is left unchanged; Ok must match the plain map");

    let mut init = MerkleBlob::new(vec![]).unwrap();
    init.check_integrity_on_drop = false;
    let s0 = State { blob: init, model: Model::new(), hist: vec![] };
    let k0 = state_key(&s0.blob);

    let res = bfs::run(
        vec![(k0, s0)],
        depth,
        max_states,
        |s: &State, _d| {
            let mut out = Vec::new();
            let mut oc: BTreeMap<String, u64> = BTreeMap::new();
            let mut evals = 0u64;
            let key_before = state_key(&s.blob);
            for op in alphabet(&s.blob, &keys, batch_max) {
                let case = || {
                    let mut h: Vec<Value> = s.hist.iter().map(Op::to_json).collect();
                    h.push(op.to_json());
                    json!({"history": h})
                };
                match apply(&s.blob, &s.model, &op) {
                    Applied::Skip => continue,
                    Applied::Panic(p) => {
                        evals += 1;
                        *oc.entry(format!("{}/panic", op.kind())).or_insert(0) += 1;
                        rep.violation(&signature(&s.model, &op, "panic"), case(), format!("{:?} panicked: {p}", op));
                    }
                    Applied::Err(e, after) => {
                        evals += 1;
                        *oc.entry(format!("{}/err", op.kind())).or_insert(0) += 1;
                        // failed operation must leave everything unchanged
                        if state_key(&after) != key_before || contents(&after).ok().as_ref() != Some(&s.model) {
                            rep.violation(
                                &signature(&s.model, &op, "err-but-mutated"),
                                case(),
                                format!("{op:?} returned Err({e}) but the blob changed (blocks {} -> {})", s.blob.read_blob().len() / chia_datalayer::BLOCK_SIZE, after.read_blob().len() / chia_datalayer::BLOCK_SIZE),
                            );
                        }
                    }
                    Applied::Ok(after) => {
                        evals += 1;
                        *oc.entry(format!("{}/ok", op.kind())).or_insert(0) += 1;
                        match model_apply(&s.model, &op) {
                            None => {
                                rep.violation(
                                    &signature(&s.model, &op, "ok-but-unrepresentable"),
                                    case(),
                                    format!("{op:?} returned Ok on map {:?}, but a map with unique keys and leaf hashes cannot represent the result", s.model),
                                );
                            }
                            Some(m2) => {
                                let mut hist = s.hist.clone();
                                hist.push(op.clone());
                                if rep.want_sample() && hist.len() == 3 {
                                    rep.sample(json!({"history": hist.iter().map(Op::to_json).collect::<Vec<_>>(), "resulting_map": format!("{m2:?}")}));
                                }
                                let k = state_key(&after);
                                out.push((k, State { blob: after, model: m2, hist }));
                            }
                        }
                    }
                }
            }
            rep.evals(evals);
            for (k, n) in oc {
                rep.outcome_n(&k, n);
            }
            out
        },
        |s: &State, _d| {
            rep.state();
            if !s.model.is_empty() {
                rep.distinct(fxhash(&state_key(&s.blob)));
            }
            if let Err((sig, d)) = invariant(&s.blob, &s.model) {
                let last = s.hist.last().cloned().unwrap_or(Op::Lazy);
                // the model before the last op is needed for classification; recompute it
                let mut m = Model::new();
                for op in &s.hist[..s.hist.len().saturating_sub(1)] {
                    if let Some(n) = model_apply(&m, op) {
                        m = n;
                    }
                }
                rep.violation(
                    &signature(&m, &last, &format!("state-{sig}")),
                    json!({"history": s.hist.iter().map(Op::to_json).collect::<Vec<_>>()}),
                    format!("after {:?}: {d}", s.hist),
                );
                return false;
            }
            true
        },
    );
    rep.transitions.store(res.transitions, std::sync::atomic::Ordering::Relaxed);
    rep.traces.store(res.transitions, std::sync::atomic::Ordering::Relaxed);
    rep.extra("depth_completed", json!(res.depth_completed));
    rep.extra("level_sizes", json!(res.level_sizes));
    rep.extra("dedup_hits", json!(res.dedup_hits));
    if res.capped {
        rep.cap(&format!("state budget {max_states} reached; all states up to depth {} were expanded", res.depth_completed));
    }
}

fn replay(case: &Value) -> String {
    let mut out = String::new();
    let mut blob = MerkleBlob::new(vec![]).unwrap();
    blob.check_integrity_on_drop = false;
    let mut model = Model::new();
    for j in case["history"].as_array().unwrap() {
        let op = Op::from_json(j);
        let r = apply(&blob, &model, &op);
        match r {
            Applied::Ok(b) => {
                out += &format!("{op:?} -> Ok\n");
                if let Some(m) = model_apply(&model, &op) {
                    model = m;
                } else {
                    out += "   (a plain map cannot represent this)\n";
                }
                blob = b;
            }
            Applied::Err(e, b) => {
                out += &format!("{op:?} -> Err({e}) changed={}\n", state_key(&b) != state_key(&blob));
                blob = b;
            }
            Applied::Panic(p) => out += &format!("{op:?} -> PANIC {p}\n"),
            Applied::Skip => out += &format!("{op:?} -> skipped (no other key to borrow a hash from)\n"),
        }
        out += &format!("   invariant: {:?}\n", invariant(&blob, &model));
    }
    out
}

fn main() {
    mc::cli::main("C18", "model_checking", run, replay)
}
