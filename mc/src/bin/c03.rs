//! C03 — time-lock aggregation and checking equal per-condition semantics.
//! Engine E: every multiset of <= 2 (quick) / <= 3 (thorough) lock/birth conditions over 10 kinds
//! x 8 argument letters on one coin, parsed by the real `parse_spends`, converted to owned
//! conditions and checked by the real `check_time_locks(nowrap = true)` on a full grid of chain
//! states; oracle = conjunction of the original assertions, each by its arithmetic definition
//! (u128, saturating at the type maximum). Rejected bundles must be unsatisfiable (decided
//! exactly) or contain an individually invalid assertion.

use chia_consensus::check_time_locks::check_time_locks;
use chia_protocol::{Bytes32, Coin, CoinRecord};
use mc::drive::{BIG_COST, P1, PH1, PH2, coin_id, cond, output, real_parse, spend};
use mc::refcond::{IntClass, RFlags, classify_int};
use mc::report::{Report, catch, fxhash};
use mc::sx::Sx;
use rayon::prelude::*;
use serde_json::{Value, json};
use std::collections::{BTreeMap, HashMap};

const KINDS: [u8; 10] = [80, 81, 82, 83, 84, 85, 86, 87, 74, 75];

fn arg_letters() -> Vec<Vec<u8>> {
    vec![
        vec![0xff],
        vec![],
        vec![1],
        vec![2],
        vec![0, 0xff, 0xff, 0xff, 0xff],
        vec![1, 0, 0, 0, 0],
        vec![0, 0xff, 0xff, 0xff, 0xff, 0xff, 0xff, 0xff, 0xff],
        vec![1, 0, 0, 0, 0, 0, 0, 0, 0],
    ]
}

#[derive(Clone, Copy, Debug, PartialEq, Eq)]
enum Sem {
    /// always true
    Taut,
    /// can never hold / malformed: the bundle must be rejected at parse time
    Invalid,
    AfterAbsH(u128),
    AfterAbsS(u128),
    AfterRelH(u128),
    AfterRelS(u128),
    BeforeAbsH(u128),
    BeforeAbsS(u128),
    BeforeRelH(u128),
    BeforeRelS(u128),
    BirthH(u128),
    BirthS(u128),
}

const MH: u128 = u32::MAX as u128;
const MS: u128 = u64::MAX as u128;

fn is_seconds(op: u8) -> bool {
    matches!(op, 80 | 81 | 84 | 85 | 74)
}

/// the meaning of one assertion by its definition
fn sem(op: u8, arg: &[u8]) -> Sem {
    let width = if is_seconds(op) { 8 } else { 4 };
    let c = classify_int(arg, width);
    match (op, c) {
        (_, IntClass::Redundant) => Sem::Invalid,
        (80..=83, IntClass::Neg) => Sem::Taut,
        (80..=83, IntClass::Over) => Sem::Invalid,
        (84..=87, IntClass::Neg) => Sem::Invalid,
        (84..=87, IntClass::Over) => Sem::Taut,
        (74 | 75, IntClass::Neg | IntClass::Over) => Sem::Invalid,
        (80, IntClass::Val(v)) => Sem::AfterRelS(v as u128),
        (81, IntClass::Val(v)) => Sem::AfterAbsS(v as u128),
        (82, IntClass::Val(v)) => Sem::AfterRelH(v as u128),
        (83, IntClass::Val(v)) => Sem::AfterAbsH(v as u128),
        (84, IntClass::Val(v)) => Sem::BeforeRelS(v as u128),
        (85, IntClass::Val(v)) => Sem::BeforeAbsS(v as u128),
        (86, IntClass::Val(v)) => Sem::BeforeRelH(v as u128),
        (87, IntClass::Val(v)) => Sem::BeforeAbsH(v as u128),
        (74, IntClass::Val(v)) => Sem::BirthS(v as u128),
        (75, IntClass::Val(v)) => Sem::BirthH(v as u128),
        _ => unreachable!(),
    }
}

#[derive(Clone, Copy, Debug)]
struct Chain {
    height: u128,
    time: u128,
    conf: u128,
    ctime: u128,
}

fn holds(s: Sem, c: &Chain) -> bool {
    match s {
        Sem::Taut => true,
        Sem::Invalid => false,
        Sem::AfterAbsH(v) => c.height >= v,
        Sem::AfterAbsS(v) => c.time >= v,
        Sem::AfterRelH(v) => c.height >= (c.conf + v).min(MH),
        Sem::AfterRelS(v) => c.time >= (c.ctime + v).min(MS),
        Sem::BeforeAbsH(v) => c.height < v,
        Sem::BeforeAbsS(v) => c.time < v,
        Sem::BeforeRelH(v) => c.height < (c.conf + v).min(MH),
        Sem::BeforeRelS(v) => c.time < (c.ctime + v).min(MS),
        Sem::BirthH(v) => c.conf == v,
        Sem::BirthS(v) => c.ctime == v,
    }
}

/// exact satisfiability of one dimension (heights or seconds) of a conjunction
fn dim_satisfiable(sems: &[Sem], seconds: bool) -> bool {
    let m = if seconds { MS } else { MH };
    let mut abs_after: Vec<u128> = vec![];
    let mut abs_before: Vec<u128> = vec![];
    let mut rel_after: Vec<u128> = vec![];
    let mut rel_before: Vec<u128> = vec![];
    let mut birth: Vec<u128> = vec![];
    for s in sems {
        match (*s, seconds) {
            (Sem::AfterAbsH(v), false) | (Sem::AfterAbsS(v), true) => abs_after.push(v),
            (Sem::BeforeAbsH(v), false) | (Sem::BeforeAbsS(v), true) => abs_before.push(v),
            (Sem::AfterRelH(v), false) | (Sem::AfterRelS(v), true) => rel_after.push(v),
            (Sem::BeforeRelH(v), false) | (Sem::BeforeRelS(v), true) => rel_before.push(v),
            (Sem::BirthH(v), false) | (Sem::BirthS(v), true) => birth.push(v),
            _ => {}
        }
    }
    // candidate confirmation values: breakpoints of the piecewise-linear bounds +-1
    let mut conf_c: Vec<u128> = vec![0, 1, m - 1, m];
    conf_c.extend(birth.iter().copied());
    for r in rel_after.iter().chain(rel_before.iter()) {
        for base in std::iter::once(m).chain(abs_after.iter().copied()).chain(abs_before.iter().copied()) {
            if base >= *r {
                let x = base - r;
                for d in [x.saturating_sub(1), x, (x + 1).min(m)] {
                    conf_c.push(d);
                }
            }
        }
    }
    for conf in conf_c {
        if conf > m || birth.iter().any(|b| *b != conf) {
            continue;
        }
        // now must lie in [lo, hi)
        let mut lo: u128 = 0;
        let mut hi: u128 = m + 1;
        for a in &abs_after {
            lo = lo.max(*a);
        }
        for b in &abs_before {
            hi = hi.min(*b);
        }
        for r in &rel_after {
            lo = lo.max((conf + r).min(m));
        }
        for r in &rel_before {
            hi = hi.min((conf + r).min(m));
        }
        if lo < hi {
            return true;
        }
    }
    false
}

fn satisfiable(sems: &[Sem]) -> bool {
    !sems.contains(&Sem::Invalid) && dim_satisfiable(sems, false) && dim_satisfiable(sems, true)
}

fn grid() -> Vec<Chain> {
    let hs = [0u128, 1, 2, 3, MH - 1, MH];
    let ts = [0u128, 1, 2, 3, MS - 1, MS];
    let cs = [0u128, 1, 2, MH];
    let cts = [0u128, 1, 2, MS];
    let mut v = Vec::new();
    for &height in &hs {
        for &time in &ts {
            for &conf in &cs {
                for &ctime in &cts {
                    v.push(Chain { height, time, conf, ctime });
                }
            }
        }
    }
    v
}

fn record(parent: [u8; 32], ph: [u8; 32], amount: u64, c: &Chain) -> CoinRecord {
    CoinRecord {
        coin: Coin { parent_coin_info: Bytes32::new(parent), puzzle_hash: Bytes32::new(ph), amount },
        confirmed_block_index: c.conf as u32,
        spent_block_index: 0,
        coinbase: false,
        timestamp: c.ctime as u64,
    }
}

fn multisets(n_letters: usize, max: usize) -> Vec<Vec<usize>> {
    let mut out = vec![vec![]];
    fn rec(start: usize, n: usize, left: usize, cur: &mut Vec<usize>, out: &mut Vec<Vec<usize>>) {
        if left == 0 {
            return;
        }
        for i in start..n {
            cur.push(i);
            out.push(cur.clone());
            rec(i, n, left - 1, cur, out);
            cur.pop();
        }
    }
    rec(0, n_letters, max, &mut vec![], &mut out);
    out
}

struct Ctx {
    letters: Vec<(u8, Vec<u8>)>,
    grid: Vec<Chain>,
}

fn conds_of(ctx: &Ctx, ms: &[usize]) -> Vec<Sx> {
    ms.iter().map(|i| cond(ctx.letters[*i].0, &[Sx::Atom(ctx.letters[*i].1.clone())])).collect()
}

/// one multiset on the plain coin A, one visitor
fn check_plain(ctx: &Ctx, ms: &[usize], mempool: bool) -> Result<(&'static str, u64), (String, String)> {
    let sems: Vec<Sem> = ms.iter().map(|i| sem(ctx.letters[*i].0, &ctx.letters[*i].1)).collect();
    let out = output(&[spend(&P1, &PH1, 5, Sx::list(&conds_of(ctx, ms)))]);
    let f = RFlags { mempool, ..Default::default() };
    let real = real_parse(&out, f, BIG_COST);
    let a_id = coin_id(&P1, &PH1, 5);
    match real {
        Err(e) => {
            if sems.contains(&Sem::Invalid) {
                return Ok(("rejected/invalid-assertion", 1));
            }
            if !satisfiable(&sems) {
                return Ok(("rejected/unsatisfiable", 1));
            }
            Err(("parse/rejects-satisfiable".into(), format!("bundle {out:?} rejected with {e:?} although its assertions {sems:?} are satisfiable")))
        }
        Ok(ro) => {
            if sems.contains(&Sem::Invalid) {
                return Err(("parse/accepts-invalid".into(), format!("bundle {out:?} accepted although it contains an assertion that can never hold or is malformed: {sems:?}")));
            }
            let mut n = 0u64;
            let mut any_pass = false;
            for c in &ctx.grid {
                let mut recs = HashMap::new();
                recs.insert(Bytes32::new(a_id), record(P1, PH1, 5, c));
                let got = check_time_locks(&recs, &ro.owned, c.height as u32, c.time as u64, true).is_ok();
                let want = sems.iter().all(|s| holds(*s, c));
                n += 1;
                any_pass |= got;
                if got != want {
                    let culprit = sems.iter().find(|s| holds(**s, c) != got).map(|s| format!("{s:?}")).unwrap_or_default();
                    let kind = culprit.split('(').next().unwrap_or("").to_string();
                    return Err((
                        format!("check/{}/{kind}", if got { "passes-but-assertion-fails" } else { "fails-but-assertions-hold" }),
                        format!("bundle {out:?}\nstate {c:?}\ncheck_time_locks -> {got}, per-assertion conjunction -> {want} ({sems:?})\nowned: hr {:?} sr {:?} bhr {:?} bsr {:?} bh {:?} bs {:?} ha {} sa {} bha {:?} bsa {:?}", ro.owned.spends[0].height_relative, ro.owned.spends[0].seconds_relative, ro.owned.spends[0].before_height_relative, ro.owned.spends[0].before_seconds_relative, ro.owned.spends[0].birth_height, ro.owned.spends[0].birth_seconds, ro.owned.height_absolute, ro.owned.seconds_absolute, ro.owned.before_height_absolute, ro.owned.before_seconds_absolute),
                    ));
                }
            }
            Ok((if any_pass { "accepted/passes-in-some-state" } else { "accepted/never-passes-on-grid" }, n))
        }
    }
}

/// two independent coins A and C, one assertion each: absolute locks aggregate over the bundle,
/// relative and birth ones are evaluated against each coin's own record
fn check_two(ctx: &Ctx, la: usize, lc: usize) -> Result<(&'static str, u64), (String, String)> {
    use mc::drive::P2;
    let sa = sem(ctx.letters[la].0, &ctx.letters[la].1);
    let sc = sem(ctx.letters[lc].0, &ctx.letters[lc].1);
    let out = output(&[spend(&P1, &PH1, 5, Sx::list(&conds_of(ctx, &[la]))), spend(&P2, &PH1, 7, Sx::list(&conds_of(ctx, &[lc])))]);
    let real = real_parse(&out, RFlags::default(), BIG_COST);
    let a_id = coin_id(&P1, &PH1, 5);
    let c_id = coin_id(&P2, &PH1, 7);
    match real {
        Err(e) => {
            if sa == Sem::Invalid || sc == Sem::Invalid {
                return Ok(("two/rejected/invalid-assertion", 1));
            }
            // absolute assertions of the two spends are one conjunction; relative ones are independent
            let abs: Vec<Sem> = [sa, sc].into_iter().filter(|s| matches!(s, Sem::AfterAbsH(_) | Sem::AfterAbsS(_) | Sem::BeforeAbsH(_) | Sem::BeforeAbsS(_))).collect();
            if !satisfiable(&abs) {
                return Ok(("two/rejected/unsatisfiable", 1));
            }
            Err(("two/parse-rejects-satisfiable".into(), format!("bundle {out:?} rejected with {e:?} although {sa:?} on A and {sc:?} on C are jointly satisfiable")))
        }
        Ok(ro) => {
            if sa == Sem::Invalid || sc == Sem::Invalid {
                return Err(("parse/accepts-invalid".into(), format!("bundle {out:?} accepted with an invalid assertion")));
            }
            let mut n = 0u64;
            // C's record takes the corner values, A's the full grid
            for cc in [Chain { height: 0, time: 0, conf: 0, ctime: 0 }, Chain { height: 0, time: 0, conf: MH, ctime: MS }, Chain { height: 0, time: 0, conf: 2, ctime: 1 }] {
                for c in &ctx.grid {
                    let mut recs = HashMap::new();
                    recs.insert(Bytes32::new(a_id), record(P1, PH1, 5, c));
                    recs.insert(Bytes32::new(c_id), record(P2, PH1, 7, &cc));
                    let got = check_time_locks(&recs, &ro.owned, c.height as u32, c.time as u64, true).is_ok();
                    let state_c = Chain { height: c.height, time: c.time, conf: cc.conf, ctime: cc.ctime };
                    let want = holds(sa, c) && holds(sc, &state_c);
                    n += 1;
                    if got != want {
                        return Err((format!("check-two/{}", if got { "passes-but-assertion-fails" } else { "fails-but-assertions-hold" }), format!("bundle {out:?}\nstate A {c:?} C {state_c:?}\ncheck_time_locks -> {got}, per-assertion conjunction -> {want} ({sa:?} on A, {sc:?} on C)")));
                    }
                }
            }
            Ok(("two/accepted", n))
        }
    }
}

/// the multiset on an ephemeral coin B (created by A in the same bundle)
fn check_ephemeral(ctx: &Ctx, ms: &[usize]) -> Result<&'static str, (String, String)> {
    // both listing orders: the creating spend first, and the created coin's spend first
    let first = check_ephemeral_order(ctx, ms, false)?;
    check_ephemeral_order(ctx, ms, true)?;
    Ok(first)
}

fn check_ephemeral_order(ctx: &Ctx, ms: &[usize], child_first: bool) -> Result<&'static str, (String, String)> {
    let sems: Vec<Sem> = ms.iter().map(|i| sem(ctx.letters[*i].0, &ctx.letters[*i].1)).collect();
    let a_id = coin_id(&P1, &PH1, 5);
    let parent = spend(&P1, &PH1, 5, Sx::list(&[cond(51, &[Sx::atom(&PH2), Sx::int(3)])]));
    let child = spend(&a_id, &PH2, 3, Sx::list(&conds_of(ctx, ms)));
    let out = if child_first { output(&[child, parent]) } else { output(&[parent, child]) };
    let relative_class = ms.iter().any(|i| matches!(ctx.letters[*i].0, 80 | 82 | 84 | 86 | 74 | 75));
    let real = real_parse(&out, RFlags::default(), BIG_COST);
    match (real.is_ok(), relative_class) {
        (true, true) => Err(("ephemeral/relative-accepted".into(), format!("bundle {out:?}: relative/birth assertion on a coin created in the same bundle was accepted"))),
        (true, false) => {
            if sems.contains(&Sem::Invalid) {
                Err(("parse/accepts-invalid".into(), format!("bundle {out:?} accepted with an invalid assertion")))
            } else {
                Ok("ephemeral/absolute-only-accepted")
            }
        }
        (false, true) => Ok("ephemeral/relative-rejected"),
        (false, false) => {
            if sems.contains(&Sem::Invalid) || !satisfiable(&sems) {
                Ok("ephemeral/absolute-rejected-unsat")
            } else {
                Err(("ephemeral/absolute-rejected".into(), format!("bundle {out:?}: only absolute, satisfiable assertions on the ephemeral coin, yet rejected")))
            }
        }
    }
}

fn run(rep: &Report) {
    let args = arg_letters();
    let letters: Vec<(u8, Vec<u8>)> = KINDS.iter().flat_map(|k| args.iter().map(move |a| (*k, a.clone()))).collect();
    let ctx = Ctx { letters, grid: grid() };
    let max = rep.tier.pick(3, 4);
    let ms = multisets(ctx.letters.len(), max);
    rep.set_rule(&format!("every multiset of <= {max} conditions over 10 lock/birth kinds x 8 argument atoms (ff, '', 01, 02, 2^32-1, 2^32, 2^64-1, 2^64) on coin A, both visitors, x 576 chain states (height in {{0,1,2,3,2^32-2,2^32-1}} x timestamp in {{0,1,2,3,2^64-2,2^64-1}} x confirmed index in {{0,1,2,2^32-1}} x coin timestamp in {{0,1,2,2^64-1}}); plus every multiset of <= {} on an ephemeral coin (its spend listed after and before the creating spend); plus two independent coins A and C with one letter each (all 6400 ordered pairs) x A's full grid x 3 records for C. distinct = distinct multisets", max.min(2)));
    rep.assume("per-assertion semantics: after-kinds now >= bound, before-kinds now < bound, birth = equality, relative bound = min(confirmed + arg, type max); negative after / oversize before are tautologies, negative before / oversize after / negative or oversize birth can never hold");
    rep.assume("satisfiability of rejected bundles is decided exactly per dimension over the breakpoints of the piecewise-linear bounds");
    rep.extra("multisets", json!(ms.len()));
    rep.extra("grid_states", json!(ctx.grid.len()));

    ms.par_chunks(64).for_each(|chunk| {
        let mut buckets: BTreeMap<String, u64> = BTreeMap::new();
        let mut evals = 0u64;
        for m in chunk {
            for mempool in [false, true] {
                let case = json!({"kind":"plain","multiset": m, "mempool": mempool});
                match catch(|| check_plain(&ctx, m, mempool)) {
                    Ok(Ok((b, n))) => {
                        evals += n;
                        *buckets.entry(b.to_string()).or_insert(0) += 1;
                    }
                    Ok(Err((sig, d))) => rep.violation(&format!("C03/{sig}"), case, d),
                    Err(p) => rep.violation("C03/panic", case, p),
                }
            }
            rep.distinct(fxhash(m));
            if m.len() <= 2 {
                let case = json!({"kind":"ephemeral","multiset": m});
                match catch(|| check_ephemeral(&ctx, m)) {
                    Ok(Ok(b)) => {
                        evals += 1;
                        *buckets.entry(b.to_string()).or_insert(0) += 1;
                    }
                    Ok(Err((sig, d))) => rep.violation(&format!("C03/{sig}"), case, d),
                    Err(p) => rep.violation("C03/panic", case, p),
                }
            }
        }
        rep.evals(evals);
        for (k, n) in buckets {
            rep.outcome_n(&k, n);
        }
    });
    // two coins, one assertion each
    let nl = ctx.letters.len();
    let pairs: Vec<(usize, usize)> = (0..nl).flat_map(|a| (0..nl).map(move |c| (a, c))).collect();
    pairs.par_chunks(64).for_each(|chunk| {
        let mut buckets: BTreeMap<String, u64> = BTreeMap::new();
        let mut evals = 0u64;
        for (a, c) in chunk {
            let case = json!({"kind":"two","a": a, "c": c});
            match catch(|| check_two(&ctx, *a, *c)) {
                Ok(Ok((b, n))) => {
                    evals += n;
                    *buckets.entry(b.to_string()).or_insert(0) += 1;
                }
                Ok(Err((sig, d))) => rep.violation(&format!("C03/{sig}"), case, d),
                Err(p) => rep.violation("C03/panic", case, p),
            }
        }
        rep.evals(evals);
        for (k, n) in buckets {
            rep.outcome_n(&k, n);
        }
    });
    rep.sample(json!({"multiset": "[(82 . 01), (86 . 02)]", "meaning": "height >= min(conf+1,max) and height < min(conf+2,max)", "checked_on": "576 chain states"}));
    rep.sample(json!({"multiset": "[(84 . 0x010000000000000000)]", "meaning": "oversize before-bound: tautology, still a relative-class condition (rejected on an ephemeral coin)"}));
}

fn replay(case: &Value) -> String {
    let args = arg_letters();
    let letters: Vec<(u8, Vec<u8>)> = KINDS.iter().flat_map(|k| args.iter().map(move |a| (*k, a.clone()))).collect();
    let ctx = Ctx { letters, grid: grid() };
    let empty = vec![];
    let m: Vec<usize> = case["multiset"].as_array().unwrap_or(&empty).iter().map(|x| x.as_u64().unwrap() as usize).collect();
    let desc: Vec<String> = m.iter().map(|i| format!("({} . {})", ctx.letters[*i].0, hex::encode(&ctx.letters[*i].1))).collect();
    if case["kind"] == "plain" {
        format!("{desc:?}: {:?}", check_plain(&ctx, &m, case["mempool"].as_bool().unwrap()))
    } else if case["kind"] == "two" {
        format!("{:?}", check_two(&ctx, case["a"].as_u64().unwrap() as usize, case["c"].as_u64().unwrap() as usize))
    } else {
        format!("{desc:?} on ephemeral coin: {:?}", check_ephemeral(&ctx, &m))
    }
}

fn main() {
    mc::cli::main("C03", "exploration", run, replay)
}
