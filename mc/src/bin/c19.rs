//! C19 — mempool rewrites (fast-forward, dedup) preserve spend validity and meaning.
//! Engine E (bounded exhaustive enumeration), two parts:
//!
//! *Fast-forward*: singleton spends are built by the harness (own curry / tree hash / solution
//! codec in `Sx`; the top-layer module bytes come from the external crate chia-puzzles) over
//! launcher ids x inner puzzles/condition sets x amounts x lineages, plus the two recorded
//! ff-tests/*.spend. Every spend is rebased onto every target (new parent's parent x new parent
//! amount x new amount) and every case is also put through a catalogue of single-field and
//! "re-seated" (hashes re-derived so that only one check can notice) corruptions. An independent
//! predicate `genuine` (own decoder) decides which cases must be refused; for every accepted
//! case the rewritten solution is decoded (only the three lineage/amount fields may change), run
//! through clvmr directly and through run_spendbundle on the new coin.
//!
//! *Dedup*: every condition list of bounded length over a stated alphabet is run as the
//! solution of an identity-puzzle coin (so all lists spend the *same* coin) next to a funding
//! helper spend, with and without COMPUTE_FINGERPRINT. Eligible spends are grouped by
//! fingerprint: every group must have one parsed-condition summary; eligibility implies no
//! signature / message letter and created >= consumed (by the harness' own letter metadata).

use chia_bls::Signature;
use chia_consensus::conditions::ELIGIBLE_FOR_DEDUP;
use chia_consensus::consensus_constants::TEST_CONSTANTS;
use chia_consensus::fast_forward::fast_forward_singleton;
use chia_consensus::flags::{ConsensusFlags, MEMPOOL_MODE};
use chia_consensus::spendbundle_conditions::run_spendbundle;
use chia_protocol::{Bytes32, Coin, CoinSpend, Program, SpendBundle};
use chia_puzzles::{SINGLETON_LAUNCHER_HASH, SINGLETON_TOP_LAYER_V1_1, SINGLETON_TOP_LAYER_V1_1_HASH};
use chia_traits::Streamable;
use clvmr::Allocator;
use mc::drive::{self, H1, P1, P2, PH1, PH2, canon_real};
use mc::refcond::CSummary;
use mc::report::{Report, Tier, catch, fxhash};
use mc::sx::{Sx, enc_i128, enc_u64, sha256};
use rayon::prelude::*;
use serde_json::{Value, json};
use std::collections::BTreeMap;
use std::sync::{Arc, OnceLock};

const MAX_COST: u64 = 11_000_000_000;
type Loc = BTreeMap<String, u64>;

static GENUINE_ACCEPTED: std::sync::atomic::AtomicU64 = std::sync::atomic::AtomicU64::new(0);

fn bump(loc: &mut Loc, k: &str) {
    *loc.entry(k.to_string()).or_insert(0) += 1;
}

// ------------------------------------------------------------------------------------------
// own coin / curry / decoders
// ------------------------------------------------------------------------------------------

#[derive(Clone, Copy, PartialEq, Eq, Debug)]
struct RCoin {
    parent: [u8; 32],
    ph: [u8; 32],
    amount: u64,
}

impl RCoin {
    fn id(&self) -> [u8; 32] {
        sha256(&[&self.parent, &self.ph, &enc_u64(self.amount)])
    }
    fn real(&self) -> Coin {
        Coin::new(Bytes32::new(self.parent), Bytes32::new(self.ph), self.amount)
    }
    fn json(&self) -> Value {
        json!({"parent": hex::encode(self.parent), "ph": hex::encode(self.ph), "amount": self.amount})
    }
    fn from_json(v: &Value) -> RCoin {
        RCoin { parent: h32(v["parent"].as_str().unwrap()), ph: h32(v["ph"].as_str().unwrap()), amount: v["amount"].as_u64().unwrap() }
    }
}

fn h32(s: &str) -> [u8; 32] {
    hex::decode(s).unwrap().try_into().unwrap()
}

fn h_atom(a: &[u8]) -> [u8; 32] {
    sha256(&[&[1u8], a])
}
fn h_pair(l: &[u8; 32], r: &[u8; 32]) -> [u8; 32] {
    sha256(&[&[2u8], l, r])
}

/// `(a (q . module) (c (q . arg1) (c (q . arg2) ... 1)))` — the standard curry form
fn curry(module: &Sx, args: &[Sx]) -> Sx {
    let mut tail = Sx::int(1);
    for a in args.iter().rev() {
        tail = Sx::list(&[Sx::atom(&[4]), Sx::cons(Sx::int(1), a.clone()), tail]);
    }
    Sx::list(&[Sx::atom(&[2]), Sx::cons(Sx::int(1), module.clone()), tail])
}

/// tree hash of `curry(module, args)` from the tree hashes of its parts (tree-hash definition)
fn curry_hash(module_hash: &[u8; 32], arg_hashes: &[[u8; 32]]) -> [u8; 32] {
    let nil = h_atom(&[]);
    let q = h_atom(&[1]);
    let mut tail = h_atom(&[1]);
    for a in arg_hashes.iter().rev() {
        tail = h_pair(&h_atom(&[4]), &h_pair(&h_pair(&q, a), &h_pair(&tail, &nil)));
    }
    h_pair(&h_atom(&[2]), &h_pair(&h_pair(&q, module_hash), &h_pair(&tail, &nil)))
}

fn uncurry(p: &Sx) -> Option<(Sx, Vec<Sx>)> {
    let (items, term) = p.unlist();
    if items.len() != 3 || !term.is_nil() || items[0].as_atom()? != [2u8] {
        return None;
    }
    let (q, module) = items[1].as_pair()?;
    if q.as_atom()? != [1u8] {
        return None;
    }
    let mut args = Vec::new();
    let mut cur = items[2];
    loop {
        if let Some(a) = cur.as_atom() {
            return if a == [1u8] { Some((module.clone(), args)) } else { None };
        }
        let (it, term) = cur.unlist();
        if it.len() != 3 || !term.is_nil() || it[0].as_atom()? != [4u8] {
            return None;
        }
        let (q, arg) = it[1].as_pair()?;
        if q.as_atom()? != [1u8] {
            return None;
        }
        args.push(arg.clone());
        cur = it[2];
    }
}

/// canonical or zero-padded non-negative integer of at most 64 bits
fn dec_u64(a: &[u8]) -> Option<u64> {
    if a.first().is_some_and(|b| b & 0x80 != 0) {
        return None;
    }
    let digits: Vec<u8> = a.iter().copied().skip_while(|b| *b == 0).collect();
    if digits.len() > 8 {
        return None;
    }
    Some(digits.iter().fold(0u64, |v, b| (v << 8) | *b as u64))
}

#[derive(Clone)]
struct Parts {
    module: Sx,
    mh: Vec<u8>,
    lid: Vec<u8>,
    lph: Vec<u8>,
    inner: Sx,
    pp: Vec<u8>,
    pinner: Vec<u8>,
    pamt: Vec<u8>,
    amount: Vec<u8>,
    isol: Sx,
}

impl Parts {
    fn strukt(&self) -> Sx {
        Sx::cons(Sx::atom(&self.mh), Sx::cons(Sx::atom(&self.lid), Sx::atom(&self.lph)))
    }
    fn puzzle(&self) -> Sx {
        curry(&self.module, &[self.strukt(), self.inner.clone()])
    }
    fn solution(&self) -> Sx {
        Sx::list(&[Sx::list(&[Sx::atom(&self.pp), Sx::atom(&self.pinner), Sx::atom(&self.pamt)]), Sx::atom(&self.amount), self.isol.clone()])
    }
    fn eve_solution(&self) -> Sx {
        Sx::list(&[Sx::list(&[Sx::atom(&self.pp), Sx::atom(&self.pamt)]), Sx::atom(&self.amount), self.isol.clone()])
    }
}

struct PuzzleParts {
    module: Sx,
    mh: Vec<u8>,
    lid: Vec<u8>,
    lph: Vec<u8>,
    inner: Sx,
}

fn decode_puzzle(p: &Sx) -> Result<PuzzleParts, &'static str> {
    let (module, args) = uncurry(p).ok_or("puzzle is not a curried program")?;
    if args.len() != 2 {
        return Err("puzzle is not curried with exactly two arguments");
    }
    let (mh, rest) = args[0].as_pair().ok_or("singleton struct is not a pair")?;
    let (lid, lph) = rest.as_pair().ok_or("singleton struct has no launcher part")?;
    let at = |s: &Sx| s.as_atom().map(<[u8]>::to_vec).ok_or("singleton struct member is a pair");
    Ok(PuzzleParts { module, mh: at(mh)?, lid: at(lid)?, lph: at(lph)?, inner: args[1].clone() })
}

struct SolutionParts {
    pp: Vec<u8>,
    pinner: Vec<u8>,
    pamt: Vec<u8>,
    amount: Vec<u8>,
    isol: Sx,
}

fn decode_solution(s: &Sx) -> Result<SolutionParts, &'static str> {
    let (items, term) = s.unlist();
    if items.len() != 3 || !term.is_nil() {
        return Err("solution is not a three-element list");
    }
    let (lin, lterm) = items[0].unlist();
    if lin.len() != 3 || !lterm.is_nil() {
        return Err("lineage proof is not a three-element list");
    }
    let at = |s: &Sx| s.as_atom().map(<[u8]>::to_vec).ok_or("lineage/amount member is a pair");
    Ok(SolutionParts { pp: at(lin[0])?, pinner: at(lin[1])?, pamt: at(lin[2])?, amount: at(items[1])?, isol: items[2].clone() })
}

fn decode_parts(puzzle: &Sx, solution: &Sx) -> Result<Parts, &'static str> {
    let p = decode_puzzle(puzzle)?;
    let s = decode_solution(solution)?;
    Ok(Parts { module: p.module, mh: p.mh, lid: p.lid, lph: p.lph, inner: p.inner, pp: s.pp, pinner: s.pinner, pamt: s.pamt, amount: s.amount, isol: s.isol })
}

/// the top layer module, parsed once and kept alive for the whole run, with its own tree hash
static TOP: OnceLock<(Sx, [u8; 32])> = OnceLock::new();

fn top_layer() -> Sx {
    TOP.get_or_init(|| {
        let m = Sx::parse(&SINGLETON_TOP_LAYER_V1_1).expect("chia-puzzles singleton top layer parses");
        let h = m.tree_hash();
        (m, h)
    })
    .0
    .clone()
}

/// `Sx::tree_hash` with one shortcut: a subtree that *is* (pointer-identical to) the module kept
/// alive in `TOP` is not re-hashed — its hash was computed once by `Sx::tree_hash`
fn fast_hash(s: &Sx) -> [u8; 32] {
    match s {
        Sx::Atom(a) => h_atom(a),
        Sx::Pair(l, r) => {
            if let Some((Sx::Pair(tl, tr), th)) = TOP.get() {
                if Arc::ptr_eq(l, tl) && Arc::ptr_eq(r, tr) {
                    return *th;
                }
            }
            h_pair(&fast_hash(l), &fast_hash(r))
        }
    }
}

// ------------------------------------------------------------------------------------------
// fast-forward: cases
// ------------------------------------------------------------------------------------------

#[derive(Clone)]
struct FfCase {
    /// "genuine" or the corruption class
    class: String,
    /// where the case comes from (base name / target)
    name: String,
    puzzle: Sx,
    solution: Sx,
    coin: RCoin,
    new_coin: RCoin,
    new_parent: RCoin,
    /// by construction
    expect_genuine: bool,
}

impl FfCase {
    fn json(&self) -> Value {
        json!({"kind": "ff", "class": self.class, "name": self.name, "puzzle": hex::encode(self.puzzle.serialize()), "solution": hex::encode(self.solution.serialize()),
            "coin": self.coin.json(), "new_coin": self.new_coin.json(), "new_parent": self.new_parent.json(), "expect_genuine": self.expect_genuine})
    }
    fn from_json(v: &Value) -> FfCase {
        FfCase {
            class: v["class"].as_str().unwrap().to_string(),
            name: v["name"].as_str().unwrap().to_string(),
            puzzle: Sx::parse(&hex::decode(v["puzzle"].as_str().unwrap()).unwrap()).unwrap(),
            solution: Sx::parse(&hex::decode(v["solution"].as_str().unwrap()).unwrap()).unwrap(),
            coin: RCoin::from_json(&v["coin"]),
            new_coin: RCoin::from_json(&v["new_coin"]),
            new_parent: RCoin::from_json(&v["new_parent"]),
            expect_genuine: v["expect_genuine"].as_bool().unwrap(),
        }
    }
}

/// The independent predicate: is this a genuine singleton spend of `coin` with matching lineage,
/// and is (new_parent, new_coin) a well-formed rebase target? Written from the definition of the
/// singleton top layer (curried module, struct layout, lineage proof), not from fast_forward.rs.
fn genuine(c: &FfCase) -> Result<(), &'static str> {
    let top: [u8; 32] = SINGLETON_TOP_LAYER_V1_1_HASH;
    let p = decode_puzzle(&c.puzzle)?;
    if fast_hash(&p.module) != top {
        return Err("curried program is not the singleton top layer");
    }
    if p.mh.as_slice() != top {
        return Err("singleton struct names another module hash");
    }
    if p.lid.len() != 32 || p.lph.len() != 32 {
        return Err("singleton struct hashes are not 32 bytes");
    }
    let s = decode_solution(&c.solution)?;
    if s.pp.len() != 32 || s.pinner.len() != 32 {
        return Err("lineage hashes are not 32 bytes");
    }
    let pamt = dec_u64(&s.pamt).ok_or("lineage parent amount is not a u64")?;
    let amount = dec_u64(&s.amount).ok_or("solution amount is not a u64")?;
    if c.coin.ph != fast_hash(&c.puzzle) {
        return Err("coin puzzle hash is not the tree hash of the puzzle");
    }
    let strukt = Sx::cons(Sx::atom(&p.mh), Sx::cons(Sx::atom(&p.lid), Sx::atom(&p.lph)));
    let parent_ph = curry_hash(&top, &[strukt.tree_hash(), s.pinner.clone().try_into().unwrap()]);
    let lineage_parent = RCoin { parent: s.pp.clone().try_into().unwrap(), ph: parent_ph, amount: pamt };
    if lineage_parent.id() != c.coin.parent {
        return Err("coin parent is not the id of the lineage parent");
    }
    if parent_ph != c.coin.ph {
        return Err("lineage parent has another puzzle hash (inner puzzle changed)");
    }
    if amount != c.coin.amount {
        return Err("solution amount differs from the coin amount");
    }
    if c.coin.amount & 1 == 0 || c.new_coin.amount & 1 == 0 || c.new_parent.amount & 1 == 0 {
        return Err("an amount is even");
    }
    if c.new_coin.parent != c.new_parent.id() {
        return Err("new coin is not a child of the new parent");
    }
    if c.coin.ph != c.new_parent.ph || c.coin.ph != c.new_coin.ph {
        return Err("puzzle hashes differ");
    }
    Ok(())
}

fn cond(op: u8, args: &[Sx]) -> Sx {
    drive::cond(op, args)
}

struct Base {
    name: String,
    parts: Parts,
    coin: RCoin,
}

fn ff_amounts(t: Tier) -> Vec<u64> {
    t.pick(vec![1, 3, (1 << 63) + 1], vec![1, 3, 0x81, (1 << 63) + 1, u64::MAX])
}

/// all constructed genuine singleton spends
fn bases(t: Tier, env_pk: &[u8]) -> Vec<Base> {
    let module = top_layer();
    let top: [u8; 32] = SINGLETON_TOP_LAYER_V1_1_HASH;
    assert_eq!(module.tree_hash(), top, "own tree hash of the chia-puzzles module differs from the published hash");
    let launchers: Vec<[u8; 32]> = t.pick(vec![[0xa1; 32]], vec![[0xa1; 32], [0xa2; 32]]);
    let pps: Vec<[u8; 32]> = t.pick(vec![[0xc1; 32]], vec![[0xc1; 32], [0xc2; 32]]);
    let amounts = ff_amounts(t);
    let pamts: Vec<u64> = vec![1, 3, (1 << 63) + 1];
    let ident = Sx::int(1);
    let ident_hash = ident.tree_hash();
    let other_inner: [u8; 32] = [0x5a; 32];
    let pk = Sx::atom(env_pk);
    let mut out = Vec::new();
    for lid in &launchers {
        for &amount in &amounts {
            for pp in &pps {
                for &pamt in &pamts {
                    // kind 0: inner puzzle `1` (re-creates itself), conditions in the inner solution
                    // kind 1: inner puzzle (q . conds), nil inner solution
                    for kind in 0..2 {
                        let target = if kind == 0 { ident_hash } else { other_inner };
                        let cc = |am: Sx, memo: Option<Sx>| {
                            let mut v = vec![Sx::atom(&target), am];
                            if let Some(m) = memo {
                                v.push(m);
                            }
                            cond(51, &v)
                        };
                        // the full puzzle hash / coin are only known after the puzzle is built; kind 0 can refer to them
                        let strukt_parts = (top.to_vec(), lid.to_vec(), SINGLETON_LAUNCHER_HASH.to_vec());
                        let mut sets: Vec<(&str, Vec<Sx>)> = vec![
                            ("self", vec![cc(Sx::int(amount), None)]),
                            ("one", vec![cc(Sx::int(1), None)]),
                            ("self+even", vec![cc(Sx::int(amount), None), cond(51, &[Sx::atom(&PH2), Sx::int(2)])]),
                            ("self+locks", vec![cc(Sx::int(amount), None), cond(83, &[Sx::int(5)]), cond(80, &[Sx::int(7)])]),
                            ("self+sigs", vec![cc(Sx::int(amount), None), cond(50, &[pk.clone(), Sx::atom(b"m")]), cond(49, &[pk.clone(), Sx::atom(b"u")])]),
                            ("self+memo+remark+ann", vec![cc(Sx::int(amount), Some(Sx::list(&[Sx::atom(&H1), Sx::atom(b"memo")]))), cond(1, &[Sx::atom(b"r")]), cond(60, &[Sx::atom(b"ann")]), cond(62, &[Sx::atom(b"pann")])]),
                            ("self+my-amount", vec![cc(Sx::int(amount), None), cond(73, &[Sx::int(amount)])]),
                            ("melt", vec![cc(Sx::Atom(enc_i128(-113)), None)]),
                            ("none", vec![]),
                            ("two-odd", vec![cc(Sx::int(1), None), cc(Sx::int(3), None)]),
                        ];
                        if kind == 0 {
                            let tmp = Parts { module: module.clone(), mh: strukt_parts.0.clone(), lid: strukt_parts.1.clone(), lph: strukt_parts.2.clone(), inner: ident.clone(), pp: vec![], pinner: vec![], pamt: vec![], amount: vec![], isol: Sx::nil() };
                            let ph = fast_hash(&tmp.puzzle());
                            let parent = RCoin { parent: *pp, ph, amount: pamt }.id();
                            let coin = RCoin { parent, ph, amount };
                            sets.push(("self+my-puzzle", vec![cc(Sx::int(amount), None), cond(72, &[Sx::atom(&ph)])]));
                            sets.push(("self+my-coin", vec![cc(Sx::int(amount), None), cond(70, &[Sx::atom(&coin.id())])]));
                            sets.push(("self+my-parent", vec![cc(Sx::int(amount), None), cond(71, &[Sx::atom(&parent)])]));
                        }
                        for (sname, conds) in sets {
                            let (inner, isol) = if kind == 0 { (ident.clone(), Sx::list(&conds)) } else { (Sx::cons(Sx::int(1), Sx::list(&conds)), Sx::nil()) };
                            let inner_hash = inner.tree_hash();
                            let parts = Parts {
                                module: module.clone(),
                                mh: strukt_parts.0.clone(),
                                lid: strukt_parts.1.clone(),
                                lph: strukt_parts.2.clone(),
                                inner,
                                pp: pp.to_vec(),
                                pinner: inner_hash.to_vec(),
                                pamt: enc_u64(pamt),
                                amount: enc_u64(amount),
                                isol,
                            };
                            let ph = fast_hash(&parts.puzzle());
                            // harness self-check: hash-level curry agrees with the tree hash of the built puzzle
                            assert_eq!(ph, curry_hash(&top, &[parts.strukt().tree_hash(), inner_hash]), "curry_hash self-check");
                            let coin = RCoin { parent: RCoin { parent: *pp, ph, amount: pamt }.id(), ph, amount };
                            out.push(Base { name: format!("L{:02x}/{}/{sname}/amt{amount:#x}/pp{:02x}/pamt{pamt:#x}", lid[0], if kind == 0 { "ident" } else { "quote" }, pp[0]), parts, coin });
                        }
                    }
                }
            }
        }
    }
    out
}

/// the two recorded spends
fn seed_bases() -> Vec<Base> {
    let mut out = Vec::new();
    for f in ["e3c0", "bb13"] {
        let bytes = std::fs::read(format!("/repo/ff-tests/{f}.spend")).expect("read ff-tests seed");
        let spend = CoinSpend::from_bytes(&bytes).expect("parse seed CoinSpend");
        let puzzle = Sx::parse(spend.puzzle_reveal.as_ref()).expect("seed puzzle is plainly serialized");
        let solution = Sx::parse(spend.solution.as_ref()).expect("seed solution is plainly serialized");
        let mut parts = decode_parts(&puzzle, &solution).expect("seed decodes as a singleton spend");
        if parts.module == top_layer() {
            // same tree: share the long-lived copy so that `fast_hash` can skip it
            parts.module = top_layer();
        }
        assert_eq!(parts.puzzle(), puzzle, "seed puzzle re-renders");
        assert_eq!(parts.solution(), solution, "seed solution re-renders");
        let coin = RCoin { parent: spend.coin.parent_coin_info.to_bytes(), ph: spend.coin.puzzle_hash.to_bytes(), amount: spend.coin.amount };
        out.push(Base { name: format!("seed/{f}"), parts, coin });
    }
    out
}

fn targets(b: &Base, t: Tier, seed: bool) -> Vec<(RCoin, RCoin)> {
    let mut npps: Vec<[u8; 32]> = vec![[0xab; 32], [0x00; 32], [0xff; 32]];
    let own_pp: [u8; 32] = b.parts.pp.clone().try_into().unwrap();
    npps.push(own_pp);
    let mut amts: Vec<u64> = if seed { vec![b.coin.amount, 1, 3, 5] } else { t.pick(vec![1, 3, (1 << 63) + 1], vec![1, 3, 0x81, u64::MAX]) };
    amts.dedup();
    let mut out = Vec::new();
    for npp in &npps {
        for &npa in &amts {
            for &na in &amts {
                let np = RCoin { parent: *npp, ph: b.coin.ph, amount: npa };
                out.push((np, RCoin { parent: np.id(), ph: b.coin.ph, amount: na }));
            }
        }
    }
    out
}

fn flip(h: &[u8]) -> Vec<u8> {
    let mut v = h.to_vec();
    if let Some(l) = v.last_mut() {
        *l ^= 1;
    }
    v
}
fn flip32(h: &[u8; 32]) -> [u8; 32] {
    flip(h).try_into().unwrap()
}
/// an odd amount different from `a`
fn other_odd(a: u64) -> u64 {
    if a >= u64::MAX - 1 { a - 2 } else { a + 2 }
}
/// an even amount next to `a`
fn even_near(a: u64) -> u64 {
    if a == u64::MAX { a - 1 } else { a + 1 }
}

/// every corruption of a genuine case; each must be refused
/// (`full` = also the solution- and puzzle-side classes, which do not depend on the target)
fn corruptions(g: &FfCase, p: &Parts, full: bool) -> Vec<FfCase> {
    let top: [u8; 32] = SINGLETON_TOP_LAYER_V1_1_HASH;
    let mut out: Vec<FfCase> = Vec::new();
    let mut add = |class: &str, puzzle: Sx, solution: Sx, coin: RCoin, new_coin: RCoin, new_parent: RCoin| {
        out.push(FfCase { class: class.to_string(), name: g.name.clone(), puzzle, solution, coin, new_coin, new_parent, expect_genuine: false });
    };
    let (pz, sol, c, nc, np) = (g.puzzle.clone(), g.solution.clone(), g.coin, g.new_coin, g.new_parent);
    // all three puzzle hashes moved to `ph`, the new coin re-derived from the new parent
    let reseat = |ph: [u8; 32]| -> (RCoin, RCoin) {
        let np2 = RCoin { ph, ..np };
        (RCoin { parent: np2.id(), ph, amount: nc.amount }, np2)
    };
    let px: [u8; 32] = [0x99; 32];

    // ---- coin fields
    add("coin/parent", pz.clone(), sol.clone(), RCoin { parent: flip32(&c.parent), ..c }, nc, np);
    add("coin/puzzle-hash", pz.clone(), sol.clone(), RCoin { ph: px, ..c }, nc, np);
    add("coin/amount-even", pz.clone(), sol.clone(), RCoin { amount: even_near(c.amount), ..c }, nc, np);
    add("coin/amount-other-odd", pz.clone(), sol.clone(), RCoin { amount: other_odd(c.amount), ..c }, nc, np);
    add("new-coin/parent", pz.clone(), sol.clone(), c, RCoin { parent: flip32(&nc.parent), ..nc }, np);
    add("new-coin/puzzle-hash", pz.clone(), sol.clone(), c, RCoin { ph: px, ..nc }, np);
    add("new-coin/amount-even", pz.clone(), sol.clone(), c, RCoin { amount: even_near(nc.amount), ..nc }, np);
    add("new-parent/parent", pz.clone(), sol.clone(), c, nc, RCoin { parent: flip32(&np.parent), ..np });
    add("new-parent/puzzle-hash", pz.clone(), sol.clone(), c, nc, RCoin { ph: px, ..np });
    add("new-parent/amount-even", pz.clone(), sol.clone(), c, nc, RCoin { amount: even_near(np.amount), ..np });
    add("new-parent/amount-other-odd", pz.clone(), sol.clone(), c, nc, RCoin { amount: other_odd(np.amount), ..np });
    {
        // new parent with an even amount and the new coin re-derived from it
        let np2 = RCoin { amount: even_near(np.amount), ..np };
        add("new-parent/amount-even-reseated", pz.clone(), sol.clone(), c, RCoin { parent: np2.id(), ..nc }, np2);
        // only the new parent carries another puzzle hash (its inner puzzle changed in the spend that
        // created the new coin); the new coin is re-derived from it and keeps the singleton's hash
        let np3 = RCoin { ph: px, ..np };
        add("new-parent/puzzle-hash-reseated", pz.clone(), sol.clone(), c, RCoin { parent: np3.id(), ..nc }, np3);
        // coin and new coin agree on another puzzle hash, the new parent keeps the real one
        add("coin+new-coin/other-puzzle-hash", pz.clone(), sol.clone(), RCoin { ph: px, ..c }, RCoin { ph: px, ..nc }, np);
        // both target coins carry another puzzle hash, consistently
        let (nc2, np2) = reseat(px);
        add("target/other-puzzle-hash-reseated", pz.clone(), sol.clone(), c, nc2, np2);
        // all three coins carry another puzzle hash, consistently: only the puzzle's tree hash tells
        add("all/other-puzzle-hash-reseated", pz.clone(), sol.clone(), RCoin { ph: px, ..c }, nc2, np2);
    }

    if !full {
        return out;
    }
    // ---- solution fields
    let with = |f: &dyn Fn(&mut Parts)| -> Parts {
        let mut q = p.clone();
        f(&mut q);
        q
    };
    add("solution/lineage-parent-parent", pz.clone(), with(&|q| q.pp = flip(&q.pp)).solution(), c, nc, np);
    add("solution/lineage-inner-hash", pz.clone(), with(&|q| q.pinner = flip(&q.pinner)).solution(), c, nc, np);
    add("solution/lineage-amount-other-odd", pz.clone(), with(&|q| q.pamt = enc_u64(other_odd(dec_u64(&q.pamt).unwrap()))).solution(), c, nc, np);
    add("solution/lineage-amount-even", pz.clone(), with(&|q| q.pamt = enc_u64(even_near(dec_u64(&q.pamt).unwrap()))).solution(), c, nc, np);
    add("solution/amount-other-odd", pz.clone(), with(&|q| q.amount = enc_u64(other_odd(dec_u64(&q.amount).unwrap()))).solution(), c, nc, np);
    add("solution/amount-even", pz.clone(), with(&|q| q.amount = enc_u64(even_near(dec_u64(&q.amount).unwrap()))).solution(), c, nc, np);
    add("solution/eve-proof", pz.clone(), p.eve_solution(), c, nc, np);
    {
        // the parent had another inner puzzle; the coin's parent id is re-derived accordingly (a valid
        // spend of a singleton whose puzzle hash changed: not fast-forwardable onto an unchanged lineage)
        let q = with(&|q| q.pinner = flip(&q.pinner));
        let parent_ph = curry_hash(&top, &[q.strukt().tree_hash(), q.pinner.clone().try_into().unwrap()]);
        let c2 = RCoin { parent: RCoin { parent: q.pp.clone().try_into().unwrap(), ph: parent_ph, amount: dec_u64(&q.pamt).unwrap() }.id(), ..c };
        add("solution/lineage-inner-hash-reseated", pz.clone(), q.solution(), c2, nc, np);
    }
    {
        // a genuine *eve* spend: launcher id = id of the launcher coin, which is the coin's parent
        let launcher = RCoin { parent: p.pp.clone().try_into().unwrap(), ph: SINGLETON_LAUNCHER_HASH, amount: dec_u64(&p.pamt).unwrap() };
        let q = with(&|q| {
            q.lid = launcher.id().to_vec();
            q.lph = SINGLETON_LAUNCHER_HASH.to_vec();
        });
        let pz2 = q.puzzle();
        let ph = fast_hash(&pz2);
        let (nc2, np2) = reseat(ph);
        add("solution/eve-proof-reseated", pz2, q.eve_solution(), RCoin { parent: launcher.id(), ph, amount: c.amount }, nc2, np2);
    }

    // ---- puzzle
    add("puzzle/struct-mod-hash", with(&|q| q.mh = flip(&q.mh)).puzzle(), sol.clone(), c, nc, np);
    {
        // wrong mod hash in the struct, every hash re-derived the way the (corrupt) struct dictates
        let q = with(&|q| q.mh = flip(&q.mh));
        let pz2 = q.puzzle();
        let ph = fast_hash(&pz2);
        let fake_mod: [u8; 32] = q.mh.clone().try_into().unwrap();
        let parent_ph = curry_hash(&fake_mod, &[q.strukt().tree_hash(), q.pinner.clone().try_into().unwrap()]);
        let c2 = RCoin { parent: RCoin { parent: q.pp.clone().try_into().unwrap(), ph: parent_ph, amount: dec_u64(&q.pamt).unwrap() }.id(), ph, amount: c.amount };
        let (nc2, np2) = reseat(ph);
        add("puzzle/struct-mod-hash-reseated", pz2, sol.clone(), c2, nc2, np2);
    }
    for (cls, fake) in [("puzzle/program-wrapped", Sx::cons(Sx::int(1), p.module.clone())), ("puzzle/program-nil", Sx::nil())] {
        let q = with(&|q| q.module = fake.clone());
        add(cls, q.puzzle(), sol.clone(), c, nc, np);
        // the struct still names the real module, so the lineage parent's hash is the genuine one;
        // the three coins carry the fake puzzle's own tree hash
        let pz2 = q.puzzle();
        let ph = fast_hash(&pz2);
        let (nc2, np2) = reseat(ph);
        add(&format!("{cls}-reseated"), pz2, sol.clone(), RCoin { ph, ..c }, nc2, np2);
    }
    add("puzzle/launcher-id", with(&|q| q.lid = flip(&q.lid)).puzzle(), sol.clone(), c, nc, np);
    add("puzzle/launcher-puzzle-hash", with(&|q| q.lph = flip(&q.lph)).puzzle(), sol.clone(), c, nc, np);
    add("puzzle/inner-puzzle", with(&|q| q.inner = Sx::cons(Sx::int(1), q.inner.clone())).puzzle(), sol.clone(), c, nc, np);
    {
        // not curried at all: the bare inner puzzle, coins re-seated on its hash
        let pz2 = p.inner.clone();
        let ph = fast_hash(&pz2);
        let (nc2, np2) = reseat(ph);
        add("puzzle/bare-inner-reseated", pz2, sol.clone(), RCoin { ph, ..c }, nc2, np2);
        // the real module curried with a third argument, coins re-seated on its hash
        let pz3 = curry(&p.module, &[p.strukt(), p.inner.clone(), Sx::atom(b"x")]);
        let ph = fast_hash(&pz3);
        let (nc3, np3) = reseat(ph);
        add("puzzle/three-curried-args-reseated", pz3, sol.clone(), RCoin { ph, ..c }, nc3, np3);
    }
    out
}

// ------------------------------------------------------------------------------------------
// fast-forward: running the real code and the oracles
// ------------------------------------------------------------------------------------------

fn real_ff(c: &FfCase) -> Result<Result<Sx, String>, String> {
    catch(|| {
        let mut a = Allocator::new();
        let p = c.puzzle.to_node(&mut a);
        let s = c.solution.to_node(&mut a);
        fast_forward_singleton(&mut a, p, s, &c.coin.real(), &c.new_coin.real(), &c.new_parent.real()).map(|n| Sx::from_node(&a, n)).map_err(|e| format!("{e:?}"))
    })
}

/// run a puzzle with clvmr directly (outside /repo); None = the program fails
fn clvm_run(puzzle: &Sx, solution: &Sx) -> Option<Sx> {
    let mut a = Allocator::new();
    let p = puzzle.to_node(&mut a);
    let s = solution.to_node(&mut a);
    let dialect = clvmr::chia_dialect::ChiaDialect::new(ConsensusFlags::empty().to_clvm_flags());
    clvmr::run_program::run_program(&mut a, &dialect, p, s, MAX_COST).ok().map(|r| Sx::from_node(&a, r.1))
}

const FUND_PARENT: [u8; 32] = [0x77; 32];
const FUND_PARENT2: [u8; 32] = [0x78; 32];

/// run_spendbundle(MEMPOOL_MODE) on the singleton spend + two funding spends `(q)` of 2^64-1 mojos
/// each (the spends create at most 2^64+1, so neither minting nor reserve fees can reject, whatever
/// the amount of the coin); returns the summary
fn mempool_run(coin: &RCoin, puzzle: &Sx, solution: &Sx) -> Result<CSummary, String> {
    let fund_puzzle = Sx::cons(Sx::int(1), Sx::nil());
    let mut spends = vec![CoinSpend::new(coin.real(), Program::from(puzzle.serialize()), Program::from(solution.serialize()))];
    for parent in [FUND_PARENT, FUND_PARENT2] {
        let fund = RCoin { parent, ph: fund_puzzle.tree_hash(), amount: u64::MAX };
        spends.push(CoinSpend::new(fund.real(), Program::from(fund_puzzle.serialize()), Program::from(Sx::nil().serialize())));
    }
    let bundle = SpendBundle::new(spends, Signature::default());
    let mut a = Allocator::new();
    match run_spendbundle(&mut a, &bundle, MAX_COST, MEMPOOL_MODE | ConsensusFlags::DONT_VALIDATE_SIGNATURE, &TEST_CONSTANTS) {
        Ok((c, _)) => Ok(canon_real(&a, &c, true)),
        Err(e) => Err(format!("{e:?}")),
    }
}

fn opcode_of(c: &Sx) -> Option<u8> {
    match c.as_pair()?.0.as_atom()? {
        [b] => Some(*b),
        _ => None,
    }
}
fn first_arg(c: &Sx) -> Option<&[u8]> {
    c.as_pair()?.1.as_pair()?.0.as_atom()
}

/// do all ASSERT_MY_* conditions of `conds` hold for `coin`, and is nothing else in it bound to a
/// coin identity (announcement / concurrent-spend / message / ephemeral conditions)?
fn portable(conds: &[&Sx], coin: &RCoin) -> bool {
    conds.iter().all(|c| match opcode_of(c) {
        Some(70) => first_arg(c) == Some(&coin.id()[..]),
        Some(71) => first_arg(c) == Some(&coin.parent[..]),
        Some(72) => first_arg(c) == Some(&coin.ph[..]),
        Some(73) => first_arg(c).and_then(dec_u64) == Some(coin.amount) && first_arg(c).map(<[u8]>::to_vec) == Some(enc_u64(coin.amount)),
        Some(61 | 64 | 66 | 67 | 76) => false,
        _ => true,
    })
}

/// Err((signature suffix, detail))
fn ff_check(c: &FfCase, loc: &mut Loc) -> Result<(), (String, String)> {
    let verdict = genuine(c);
    if verdict.is_ok() != c.expect_genuine {
        // the generator and the predicate disagree: a harness bug, never a verdict
        panic!("harness: case {} / {} constructed as genuine={} but the predicate says {:?}", c.class, c.name, c.expect_genuine, verdict);
    }
    let r = match real_ff(c) {
        Ok(r) => r,
        Err(p) => return Err(("ff/panic".into(), format!("fast_forward_singleton panicked: {p}"))),
    };
    let ns = match (r, &verdict) {
        (Err(_), Err(_)) => {
            bump(loc, "ff/corruption-refused");
            return Ok(());
        }
        (Ok(_), Err(why)) => return Err((format!("ff/accepts/{}", c.class), format!("not a genuine singleton spend / rebase target ({why}), yet fast_forward_singleton returned Ok"))),
        (Err(_), Ok(())) => {
            // the property has no liveness clause: refusing a genuine spend is allowed. It is counted,
            // and `run` reports a machinery error if no genuine spend at all is accepted (vacuity).
            bump(loc, "ff/genuine-refused");
            return Ok(());
        }
        (Ok(ns), Ok(())) => ns,
    };
    // 1. the rewritten solution differs from the original only in the three fields
    let old = decode_solution(&c.solution).expect("genuine solution decodes");
    let new = match decode_solution(&ns) {
        Ok(n) => n,
        Err(e) => return Err(("ff/rewrite-shape".into(), format!("rewritten solution {ns:?}: {e}"))),
    };
    if new.pinner != old.pinner || new.isol != old.isol {
        return Err(("ff/rewrite-changes-other-fields".into(), format!("original {:?}\nrewritten {ns:?}", c.solution)));
    }
    if new.pp.as_slice() != c.new_parent.parent || dec_u64(&new.pamt) != Some(c.new_parent.amount) || dec_u64(&new.amount) != Some(c.new_coin.amount) {
        return Err(("ff/rewrite-wrong-values".into(), format!("rewritten {ns:?} for new parent {:?} new coin {:?}", c.new_parent, c.new_coin)));
    }
    // 2. run both through clvmr
    let Some(o) = clvm_run(&c.puzzle, &c.solution) else {
        // the original spend is not valid (fast_forward_singleton does not run it): nothing to preserve
        bump(loc, "ff/genuine-accepted/original-does-not-run");
        return Ok(());
    };
    let Some(n) = clvm_run(&c.puzzle, &ns) else {
        return Err(("ff/rewritten-does-not-run".into(), format!("the original runs, the rewritten solution {ns:?} makes the puzzle fail")));
    };
    let (oc, ot) = o.unlist();
    let (ncs, nt) = n.unlist();
    if oc.len() != ncs.len() || ot != nt {
        return Err(("ff/conditions-changed".into(), format!("original output {o:?}\nrewritten output {n:?}")));
    }
    let my_amount_old = cond(73, &[Sx::int(c.coin.amount)]);
    let my_amount_new = cond(73, &[Sx::int(c.new_coin.amount)]);
    let my_parent_old = cond(71, &[Sx::atom(&c.coin.parent)]);
    let my_parent_new = cond(71, &[Sx::atom(&c.new_coin.parent)]);
    for (x, y) in oc.iter().zip(ncs.iter()) {
        let ok = x == y || (**x == my_amount_old && **y == my_amount_new) || (**x == my_parent_old && **y == my_parent_new);
        if !ok {
            return Err(("ff/conditions-changed".into(), format!("condition {x:?} became {y:?}\noriginal output {o:?}\nrewritten output {n:?}")));
        }
    }
    // the top layer's self-assertions name the new coin
    if !ncs.iter().any(|x| **x == my_amount_new) || !ncs.iter().any(|x| **x == my_parent_new) {
        return Err(("ff/self-assertion-wrong".into(), format!("rewritten output {n:?} lacks ASSERT_MY_AMOUNT {} / ASSERT_MY_PARENT_ID {}", c.new_coin.amount, hex::encode(c.new_coin.parent))));
    }
    // 3. mempool validation on the new coin
    let orig = mempool_run(&c.coin, &c.puzzle, &c.solution);
    let rewritten = mempool_run(&c.new_coin, &c.puzzle, &ns);
    match (&orig, &rewritten) {
        (Ok(a), Ok(b)) => {
            let strip = |s: &CSummary| -> Vec<([u8; 32], u64, Option<Vec<u8>>)> { s.spends[0].create_coin.clone() };
            if strip(a) != strip(b) {
                return Err(("ff/created-coins-differ".into(), format!("original creates {:?}\nrewritten creates {:?}", strip(a), strip(b))));
            }
            if b.spends[0].coin_id != c.new_coin.id() || b.spends[0].amount != c.new_coin.amount {
                return Err(("ff/rewritten-spends-another-coin".into(), format!("{:?}", b.spends[0])));
            }
            bump(loc, "ff/genuine-accepted/valid-on-new-coin");
        }
        (Ok(_), Err(e)) => {
            if portable(&ncs, &c.new_coin) {
                return Err(("ff/rewritten-rejected-by-mempool".into(), format!("original accepted on the old coin, all self-assertions of the rewritten output hold for the new coin, yet run_spendbundle rejects it: {e}\nrewritten output {n:?}")));
            }
            bump(loc, "ff/genuine-accepted/inner-condition-bound-to-old-coin");
        }
        (Err(_), _) => bump(loc, "ff/genuine-accepted/original-rejected-by-mempool"),
    }
    Ok(())
}

fn run_ff(rep: &Report) {
    // both tiers use the deep alphabets (seconds); the thorough tier additionally applies every
    // corruption class to every target
    let deep = rep.tier == Tier::Thorough;
    let t = Tier::Thorough;
    let env = drive::env();
    let pk = env.valid_keys.iter().next().unwrap().clone();
    let mut all = bases(t, &pk);
    let constructed = all.len();
    let seeds = seed_bases();
    let nseeds = seeds.len();
    all.extend(seeds);
    rep.extra("ff_bases", json!({"constructed": constructed, "recorded": nseeds}));
    let totals: Vec<(u64, u64, u64, Option<Value>)> = all
        .par_iter()
        .enumerate()
        .map(|(bi, b)| {
            let mut loc = Loc::new();
            let mut d = Vec::new();
            let (mut n_gen, mut n_cor, mut classes) = (0u64, 0u64, 0u64);
            let seed = b.name.starts_with("seed/");
            let tg = targets(b, t, seed);
            for (ti, (np, nc)) in tg.iter().enumerate() {
                let g = FfCase {
                    class: "genuine".into(),
                    name: format!("{}/-> pp{:02x} pamt{:#x} amt{:#x}", b.name, np.parent[0], np.amount, nc.amount),
                    puzzle: b.parts.puzzle(),
                    solution: b.parts.solution(),
                    coin: b.coin,
                    new_coin: *nc,
                    new_parent: *np,
                    expect_genuine: true,
                };
                let mut cases = vec![g.clone()];
                // seeds: the whole corruption catalogue on every target; quick: the whole catalogue on
                // every third target; thorough: the coin-side classes on every target, the (target
                // independent) solution- and puzzle-side classes on every fourth target
                let full = seed || deep || (bi + ti) % 4 == 0;
                if full || t == Tier::Thorough {
                    let cs = corruptions(&g, &b.parts, full);
                    classes = classes.max(cs.len() as u64);
                    cases.extend(cs);
                }
                for c in &cases {
                    if c.expect_genuine {
                        n_gen += 1;
                    } else {
                        n_cor += 1;
                    }
                    match catch(|| ff_check(c, &mut loc)) {
                        Ok(Ok(())) => d.push(fxhash(&(c.class.as_str(), fast_hash(&c.puzzle), c.solution.tree_hash(), c.coin.id(), c.new_coin.id(), c.new_parent.id()))),
                        Ok(Err((sig, det))) => rep.violation(&format!("C19/{sig}"), c.json(), format!("{} [{}]: {det}", c.class, c.name)),
                        Err(p) => rep.machinery_error(&format!("ff harness panic on {} [{}]: {p}", c.class, c.name)),
                    }
                }
            }
            let sample = (bi == 0 || seed).then(|| json!({"part": "fast-forward", "base": b.name, "coin": b.coin.json(), "solution": format!("{:?}", b.parts.solution()), "targets": tg.len(), "corruption_classes": classes}));
            rep.evals(n_gen + n_cor);
            for (k, n) in loc {
                if k.starts_with("ff/genuine-accepted") {
                    GENUINE_ACCEPTED.fetch_add(n, std::sync::atomic::Ordering::Relaxed);
                }
                rep.outcome_n(&k, n);
            }
            rep.distinct_many(d);
            (n_gen, n_cor, classes, sample)
        })
        .collect();
    for t in &totals {
        if let Some(s) = &t.3 {
            rep.sample(s.clone());
        }
    }
    if GENUINE_ACCEPTED.load(std::sync::atomic::Ordering::Relaxed) == 0 {
        rep.machinery_error("vacuous fast-forward part: not a single genuine singleton spend was accepted");
    }
    rep.extra("ff_cases", json!({"genuine": totals.iter().map(|t| t.0).sum::<u64>(), "corrupted": totals.iter().map(|t| t.1).sum::<u64>(), "corruption_classes": totals.iter().map(|t| t.2).max().unwrap_or(0)}));
}

// ------------------------------------------------------------------------------------------
// dedup
// ------------------------------------------------------------------------------------------

#[derive(Clone)]
struct Letter {
    name: String,
    sx: Sx,
    sig: bool,
    msg: bool,
    /// value created by this letter (0 for anything but CREATE_COIN)
    creates: u64,
    /// part of the small core alphabet used for the longest lists of the quick tier
    core: bool,
    /// extension letter: only in lists of at most two letters
    ext: bool,
}

const FUND: u64 = 1_000_000;
const DEDUP_AMOUNTS: [u64; 3] = [0, 2, 300];

struct Scene {
    helper: usize,
    amount: u64,
    main: RCoin,
    helper_coin: RCoin,
    helper_puzzle: Sx,
    letters: Vec<Letter>,
}

fn helper_puzzle(h: usize, main_ph: &[u8; 32]) -> Sx {
    let msg = Sx::atom(b"msg");
    let conds = match h {
        0 => vec![],
        // helper sends (committing to its coin id) to a coin with the main puzzle hash
        1 => vec![cond(66, &[Sx::int(0b111_010), msg, Sx::atom(main_ph)])],
        // helper receives (as its coin id) from a coin with the main puzzle hash
        _ => vec![cond(67, &[Sx::int(0b010_111), msg, Sx::atom(main_ph)])],
    };
    Sx::cons(Sx::int(1), Sx::list(&conds))
}

fn scene(helper: usize, amount: u64, env_pk: &[u8]) -> Scene {
    let ident = Sx::int(1);
    let main_ph = ident.tree_hash();
    let main = RCoin { parent: P1, ph: main_ph, amount };
    let hp = helper_puzzle(helper, &main_ph);
    let helper_coin = RCoin { parent: P2, ph: hp.tree_hash(), amount: FUND };
    // the ids of the sending (1) and the receiving (2) helper, whichever helper is present
    let h_send = RCoin { parent: P2, ph: helper_puzzle(1, &main_ph).tree_hash(), amount: FUND }.id();
    let h_recv = RCoin { parent: P2, ph: helper_puzzle(2, &main_ph).tree_hash(), amount: FUND }.id();
    let (a, b) = (Sx::atom(&PH2), Sx::atom(&PH1));
    let h32x = Sx::atom(&H1);
    let pk = Sx::atom(env_pk);
    let msg = Sx::atom(b"msg");
    let ann = |id: &[u8], m: &[u8]| Sx::atom(&sha256(&[id, m]));
    let mut v: Vec<Letter> = Vec::new();
    // cls: 1 = core letter, 0 = ordinary letter, 2 = extension letter (second values of one-argument
    // conditions; only used in lists of at most two letters)
    let mut add = |name: &str, sx: Sx, kind: u8, creates: u64, cls: u8| v.push(Letter { name: name.to_string(), sx, sig: kind == 1, msg: kind == 2, creates, core: cls == 1, ext: cls == 2 });
    // ---- CREATE_COIN: hint shapes, atom-boundary splits, second target
    add("cc(A,1)", cond(51, &[a.clone(), Sx::int(1)]), 0, 1, 1);
    add("cc(A,1,())", cond(51, &[a.clone(), Sx::int(1), Sx::nil()]), 0, 1, 0);
    add("cc(A,1,(()))", cond(51, &[a.clone(), Sx::int(1), Sx::list(&[Sx::nil()])]), 0, 1, 1);
    add("cc(A,1,(h32))", cond(51, &[a.clone(), Sx::int(1), Sx::list(&[h32x.clone()])]), 0, 1, 1);
    add("cc(A,1,(h33))", cond(51, &[a.clone(), Sx::int(1), Sx::list(&[Sx::atom(&[0x31; 33])])]), 0, 1, 1);
    // a one-byte hint equal to the REMARK opcode: its length-prefixed image equals that of a following
    // bare REMARK, so any CREATE_COIN shape that fails to contribute its fourth atom collides with it
    add("cc(A,1,(01))", cond(51, &[a.clone(), Sx::int(1), Sx::list(&[Sx::atom(&[1])])]), 0, 1, 1);
    add("cc(A,1,((h32.x)))", cond(51, &[a.clone(), Sx::int(1), Sx::list(&[Sx::cons(h32x.clone(), Sx::atom(b"x"))])]), 0, 1, 0);
    add("cc(A,1,(h32 extra))", cond(51, &[a.clone(), Sx::int(1), Sx::list(&[h32x.clone(), Sx::atom(b"extra")])]), 0, 1, 0);
    add("cc(A,1,h32-atom)", cond(51, &[a.clone(), Sx::int(1), h32x.clone()]), 0, 1, 0);
    add("cc(A,1,(00000000))", cond(51, &[a.clone(), Sx::int(1), Sx::list(&[Sx::atom(&[0, 0, 0, 0])])]), 0, 1, 1);
    add("cc(A,0102,(03))", cond(51, &[a.clone(), Sx::atom(&[1, 2]), Sx::list(&[Sx::atom(&[3])])]), 0, 258, 1);
    add("cc(A,01,(0203))", cond(51, &[a.clone(), Sx::atom(&[1]), Sx::list(&[Sx::atom(&[2, 3])])]), 0, 1, 1);
    add("cc(A,0102)", cond(51, &[a.clone(), Sx::atom(&[1, 2])]), 0, 258, 1);
    add("cc(A,010203)", cond(51, &[a.clone(), Sx::atom(&[1, 2, 3])]), 0, 66051, 0);
    add("cc(A,2)", cond(51, &[a.clone(), Sx::int(2)]), 0, 2, 1);
    add("cc(B,1)", cond(51, &[b.clone(), Sx::int(1)]), 0, 1, 1);
    add("cc(B,1,(h32))", cond(51, &[b.clone(), Sx::int(1), Sx::list(&[h32x.clone()])]), 0, 1, 0);
    add("cc(A,1,(h32),x)!", cond(51, &[a.clone(), Sx::int(1), Sx::list(&[h32x.clone()]), Sx::atom(b"x")]), 0, 1, 0);
    add("cc(A,0001)!", cond(51, &[a.clone(), Sx::atom(&[0, 1])]), 0, 1, 0);
    // ---- RESERVE_FEE / REMARK: boundary splits across conditions
    add("fee(01)", cond(52, &[Sx::atom(&[1])]), 0, 0, 1);
    add("fee(0101)", cond(52, &[Sx::atom(&[1, 1])]), 0, 0, 1);
    add("fee(0)", cond(52, &[Sx::nil()]), 0, 0, 0);
    add("remark()", cond(1, &[]), 0, 0, 1);
    add("remark(x)", cond(1, &[Sx::atom(b"x")]), 0, 0, 1);
    add("remark(x y)", cond(1, &[Sx::atom(b"x"), Sx::atom(b"y")]), 0, 0, 0);
    add("remark(.7)", Sx::cons(Sx::atom(&[1]), Sx::atom(&[7])), 0, 0, 0);
    // ---- announcements
    add("cca(ab)", cond(60, &[Sx::atom(b"ab")]), 0, 0, 1);
    add("cca(a)", cond(60, &[Sx::atom(b"a")]), 0, 0, 0);
    add("cca(b<)", cond(60, &[Sx::atom(b"b<")]), 0, 0, 0);
    add("cpa(ab)", cond(62, &[Sx::atom(b"ab")]), 0, 0, 0);
    add("aca(ab)", cond(61, &[ann(&main.id(), b"ab")]), 0, 0, 0);
    add("apa(ab)", cond(63, &[ann(&main_ph, b"ab")]), 0, 0, 0);
    add("concurrent(helper)", cond(64, &[Sx::atom(&helper_coin.id())]), 0, 0, 0);
    // ---- self assertions and time locks
    add("my-amount", cond(73, &[Sx::int(amount)]), 0, 0, 1);
    add("my-amount-wrong!", cond(73, &[Sx::int(amount + 1)]), 0, 0, 0);
    add("my-puzzle", cond(72, &[Sx::atom(&main_ph)]), 0, 0, 0);
    add("my-parent", cond(71, &[Sx::atom(&P1)]), 0, 0, 0);
    add("my-coin", cond(70, &[Sx::atom(&main.id())]), 0, 0, 0);
    add("height-abs(5)", cond(83, &[Sx::int(5)]), 0, 0, 1);
    add("height-abs(0005)!", cond(83, &[Sx::atom(&[0, 5])]), 0, 0, 0);
    add("height-abs(ff)", cond(83, &[Sx::atom(&[0xff])]), 0, 0, 0);
    add("height-abs(80)", cond(83, &[Sx::atom(&[0x80])]), 0, 0, 0);
    add("height-abs(0105)", cond(83, &[Sx::atom(&[1, 5])]), 0, 0, 0);
    add("seconds-abs(5)", cond(81, &[Sx::int(5)]), 0, 0, 0);
    add("seconds-rel(5)", cond(80, &[Sx::int(5)]), 0, 0, 0);
    add("height-rel(1)", cond(82, &[Sx::int(1)]), 0, 0, 0);
    add("before-seconds-abs(100)", cond(85, &[Sx::int(100)]), 0, 0, 0);
    add("before-height-abs(100)", cond(87, &[Sx::int(100)]), 0, 0, 0);
    add("before-height-abs(over)", cond(87, &[Sx::atom(&[1, 0, 0, 0, 0])]), 0, 0, 0);
    add("birth-seconds(5)", cond(74, &[Sx::int(5)]), 0, 0, 0);
    add("birth-height(5)", cond(75, &[Sx::int(5)]), 0, 0, 0);
    add("ephemeral!", cond(76, &[]), 0, 0, 0);
    // ---- every signature condition
    for op in 43u8..=50 {
        add(&format!("agg-sig-{op}"), cond(op, &[pk.clone(), Sx::atom(b"m")]), 1, 0, if op == 50 || op == 49 { 1 } else { 0 });
    }
    // ---- message conditions: to/from self, to/from the helper
    add("send(self)", cond(66, &[Sx::int(0b010_010), msg.clone(), Sx::atom(&main_ph)]), 2, 0, 1);
    add("recv(self)", cond(67, &[Sx::int(0b010_010), msg.clone(), Sx::atom(&main_ph)]), 2, 0, 1);
    add("recv(from helper)", cond(67, &[Sx::int(0b111_010), msg.clone(), Sx::atom(&h_send)]), 2, 0, 1);
    add("send(to helper)", cond(66, &[Sx::int(0b010_111), msg.clone(), Sx::atom(&h_recv)]), 2, 0, 1);
    // ---- what mempool mode refuses
    add("unknown(02)!", Sx::list(&[Sx::atom(&[2]), Sx::atom(b"x")]), 0, 0, 0);
    add("softfork!", cond(90, &[Sx::int(1)]), 0, 0, 0);
    add("two-byte(0133)!", Sx::list(&[Sx::atom(&[1, 0x33]), Sx::atom(b"x")]), 0, 0, 0);
    // ---- extension letters: a second value for every one-argument time lock, the relative before-locks
    add("seconds-abs(0105)", cond(81, &[Sx::atom(&[1, 5])]), 0, 0, 2);
    add("seconds-rel(0105)", cond(80, &[Sx::atom(&[1, 5])]), 0, 0, 2);
    add("height-rel(0105)", cond(82, &[Sx::atom(&[1, 5])]), 0, 0, 2);
    add("before-seconds-abs(0100)", cond(85, &[Sx::atom(&[1, 0])]), 0, 0, 2);
    add("before-height-abs(0100)", cond(87, &[Sx::atom(&[1, 0])]), 0, 0, 2);
    add("before-seconds-rel(100)", cond(84, &[Sx::int(100)]), 0, 0, 2);
    add("before-seconds-rel(0100)", cond(84, &[Sx::atom(&[1, 0])]), 0, 0, 2);
    add("before-height-rel(100)", cond(86, &[Sx::int(100)]), 0, 0, 2);
    add("before-height-rel(0100)", cond(86, &[Sx::atom(&[1, 0])]), 0, 0, 2);
    add("birth-seconds(0105)", cond(74, &[Sx::atom(&[1, 5])]), 0, 0, 2);
    add("birth-height(0105)", cond(75, &[Sx::atom(&[1, 5])]), 0, 0, 2);
    add("fee(02)", cond(52, &[Sx::atom(&[2])]), 0, 0, 2);
    Scene { helper, amount, main, helper_coin, helper_puzzle: hp, letters: v }
}

#[derive(Clone, Debug)]
struct DRun {
    eligible: bool,
    fp: [u8; 32],
    meaning: [u8; 32],
    rendered: String,
}

/// run_spendbundle on (main coin with identity puzzle and `conds` as the solution, helper)
fn dedup_run(sc: &Scene, conds: &Sx, fingerprint: bool, render: bool) -> Result<Result<DRun, String>, String> {
    let ident = Sx::int(1);
    let spends = vec![
        CoinSpend::new(sc.main.real(), Program::from(ident.serialize()), Program::from(conds.serialize())),
        CoinSpend::new(sc.helper_coin.real(), Program::from(sc.helper_puzzle.serialize()), Program::from(Sx::nil().serialize())),
    ];
    let bundle = SpendBundle::new(spends, Signature::default());
    let mut flags = MEMPOOL_MODE | ConsensusFlags::DONT_VALIDATE_SIGNATURE;
    if fingerprint {
        flags |= ConsensusFlags::COMPUTE_FINGERPRINT;
    }
    catch(|| {
        let mut a = Allocator::new();
        match run_spendbundle(&mut a, &bundle, MAX_COST, flags, &TEST_CONSTANTS) {
            Ok((c, _)) => {
                let s = c.spends.iter().find(|s| s.coin_id.to_bytes() == sc.main.id()).expect("main spend reported");
                let eligible = s.flags & ELIGIBLE_FOR_DEDUP != 0;
                let fp = s.fingerprint;
                // parsed conditions without cost accounting (byte / execution cost legitimately differ)
                let mut sum = canon_real(&a, &c, true);
                sum.condition_cost = 0;
                for sp in &mut sum.spends {
                    sp.condition_cost = 0;
                }
                let txt = format!("{sum:?}");
                Ok(DRun { eligible, fp, meaning: sha256(&[txt.as_bytes()]), rendered: if render { render_summary(&sum, &sc.main.id()) } else { String::new() } })
            }
            Err(e) => Err(format!("{e:?}")),
        }
    })
}

/// human-readable form of what was parsed for the main coin (+ the bundle-wide fields)
fn render_summary(sum: &CSummary, main_id: &[u8; 32]) -> String {
    let mut out = String::new();
    for sp in sum.spends.iter().filter(|s| &s.coin_id == main_id) {
        let cc: Vec<String> = sp.create_coin.iter().map(|(ph, am, hint)| format!("({}.. {am} hint {})", hex::encode(&ph[..4]), hint.as_ref().map_or("none".to_string(), hex::encode))).collect();
        let sigs: usize = sp.agg_sigs.iter().map(Vec::len).sum();
        out += &format!(
            "create_coin [{}] rel(h {:?} s {:?} bh {:?} bs {:?}) birth(h {:?} s {:?}) agg_sigs {sigs} flags {:#x}",
            cc.join(" "), sp.height_relative, sp.seconds_relative, sp.before_height_relative, sp.before_seconds_relative, sp.birth_height, sp.birth_seconds, sp.flags
        );
    }
    out + &format!(" | bundle: reserve_fee {} abs(h {} s {} bh {:?} bs {:?}) unsafe_sigs {} removed {} added {}", sum.reserve_fee, sum.height_absolute, sum.seconds_absolute, sum.before_height_absolute, sum.before_seconds_absolute, sum.agg_sig_unsafe.len(), sum.removal_amount, sum.addition_amount)
}

fn list_of(sc: &Scene, idx: &[usize]) -> Sx {
    Sx::list(&idx.iter().map(|i| sc.letters[*i].sx.clone()).collect::<Vec<_>>())
}

/// all index lists of length <= maxlen over `alphabet`
fn all_lists(alphabet: &[usize], maxlen: usize) -> Vec<Vec<usize>> {
    let mut out: Vec<Vec<usize>> = vec![vec![]];
    let mut level: Vec<Vec<usize>> = vec![vec![]];
    for _ in 0..maxlen {
        let mut next = Vec::with_capacity(level.len() * alphabet.len());
        for l in &level {
            for a in alphabet {
                let mut n = l.clone();
                n.push(*a);
                next.push(n);
            }
        }
        out.extend(next.iter().cloned());
        level = next;
    }
    out
}

struct Rec {
    fp: [u8; 32],
    meaning: [u8; 32],
    list: u32,
}

fn dedup_case_json(sc: &Scene, lists: &[&Vec<usize>]) -> Value {
    json!({"kind": "dedup", "helper": sc.helper, "amount": sc.amount,
        "lists": lists.iter().map(|l| json!({"letters": l.iter().map(|i| sc.letters[*i].name.clone()).collect::<Vec<_>>(), "conditions": hex::encode(list_of(sc, l).serialize())})).collect::<Vec<_>>()})
}

/// the eligibility implication, by the harness' own letter metadata
fn eligibility_violation(sc: &Scene, l: &[usize]) -> Option<&'static str> {
    if l.iter().any(|i| sc.letters[*i].sig) {
        return Some("dedup/eligible-with-signature-condition");
    }
    if l.iter().any(|i| sc.letters[*i].msg) {
        return Some("dedup/eligible-with-message-condition");
    }
    let created: u128 = l.iter().map(|i| sc.letters[*i].creates as u128).sum();
    if created < sc.amount as u128 {
        return Some("dedup/eligible-with-excess-value");
    }
    None
}

fn run_dedup(rep: &Report) {
    let t = Tier::Thorough;
    let env = drive::env();
    let pk = env.valid_keys.iter().next().unwrap().clone();
    let mut total_lists = 0u64;
    let mut total_groups = 0u64;
    let mut total_eligible = 0u64;
    let mut max_group = 0u64;
    let mut multi_groups = 0u64;
    let mut nletters = 0;
    let mut ncore = 0;
    let mut nmain = 0;
    for helper in 0..3usize {
        for amount in DEDUP_AMOUNTS {
            let sc = scene(helper, amount, &pk);
            let all: Vec<usize> = (0..sc.letters.len()).collect();
            let main: Vec<usize> = all.iter().copied().filter(|i| !sc.letters[*i].ext).collect();
            let core: Vec<usize> = all.iter().copied().filter(|i| sc.letters[*i].core).collect();
            nletters = all.len();
            nmain = main.len();
            ncore = core.len();
            // every list of <= 2 letters over the whole alphabet; thorough: every list of 3 main
            // letters; quick: every list of 3 core letters
            let mut lists = all_lists(&all, 2);
            lists.extend(all_lists(t.pick(&core, &main), 3).into_iter().filter(|l| l.len() == 3));
            total_lists += lists.len() as u64;
            let recs: Vec<Rec> = lists
                .par_chunks(512)
                .enumerate()
                .flat_map_iter(|(ci, chunk)| {
                    let mut loc = Loc::new();
                    let mut out = Vec::new();
                    for (k, l) in chunk.iter().enumerate() {
                        let li = (ci * 512 + k) as u32;
                        let conds = list_of(&sc, l);
                        let plain = dedup_run(&sc, &conds, false, false);
                        let with_fp = dedup_run(&sc, &conds, true, false);
                        for (mode, r) in [("plain", &plain), ("fingerprinting", &with_fp)] {
                            match r {
                                Err(p) => rep.violation("C19/dedup/panic", dedup_case_json(&sc, &[l]), format!("run_spendbundle ({mode}) panicked: {p}")),
                                Ok(Ok(d)) if d.eligible => {
                                    if let Some(sig) = eligibility_violation(&sc, l) {
                                        rep.violation(&format!("C19/{sig}"), dedup_case_json(&sc, &[l]), format!("helper {helper}, coin amount {amount}, {mode} run: spend flagged ELIGIBLE_FOR_DEDUP; letters {:?}", l.iter().map(|i| sc.letters[*i].name.as_str()).collect::<Vec<_>>()));
                                    }
                                }
                                _ => {}
                            }
                        }
                        match (&plain, &with_fp) {
                            (Ok(Ok(p)), Ok(Ok(f))) => {
                                let harmless = eligibility_violation(&sc, l).is_none();
                                if f.eligible {
                                    bump(&mut loc, "dedup/accepted/eligible");
                                    out.push(Rec { fp: f.fp, meaning: f.meaning, list: li });
                                } else if harmless {
                                    bump(&mut loc, "dedup/accepted/not-eligible-although-harmless");
                                } else {
                                    bump(&mut loc, "dedup/accepted/not-eligible");
                                }
                                if p.eligible != f.eligible || p.meaning != f.meaning {
                                    bump(&mut loc, "dedup/plain-and-fingerprinting-runs-differ");
                                }
                            }
                            (Ok(Ok(p)), Ok(Err(_))) => bump(&mut loc, if p.eligible { "dedup/accepted-eligible-but-fingerprint-refused" } else { "dedup/accepted-but-fingerprinting-run-rejects" }),
                            (Ok(Err(_)), Ok(Ok(_))) => bump(&mut loc, "dedup/rejected-but-fingerprinting-run-accepts"),
                            (Ok(Err(_)), Ok(Err(_))) => bump(&mut loc, "dedup/rejected"),
                            _ => {}
                        }
                    }
                    rep.evals(2 * chunk.len() as u64);
                    for (k, n) in loc {
                        rep.outcome_n(&k, n);
                    }
                    out.into_iter()
                })
                .collect();
            // group by fingerprint (deterministic: sorted by fingerprint, then list index)
            let mut recs = recs;
            recs.sort_by(|a, b| (a.fp, a.list).cmp(&(b.fp, b.list)));
            total_eligible += recs.len() as u64;
            let mut i = 0;
            let mut d = Vec::new();
            while i < recs.len() {
                let mut j = i + 1;
                while j < recs.len() && recs[j].fp == recs[i].fp {
                    if recs[j].meaning != recs[i].meaning {
                        let (la, lb) = (&lists[recs[i].list as usize], &lists[recs[j].list as usize]);
                        let ra = dedup_run(&sc, &list_of(&sc, la), true, true);
                        let rb = dedup_run(&sc, &list_of(&sc, lb), true, true);
                        rep.violation(
                            "C19/dedup/equal-fingerprint-different-conditions",
                            dedup_case_json(&sc, &[la, lb]),
                            format!("helper {helper}, coin amount {amount}: two eligible spends of the same coin share fingerprint {} but parse to different conditions\nA {:?}: {:?}\nB {:?}: {:?}",
                                hex::encode(recs[i].fp), la.iter().map(|x| sc.letters[*x].name.as_str()).collect::<Vec<_>>(), ra.map(|r| r.map(|d| d.rendered)),
                                lb.iter().map(|x| sc.letters[*x].name.as_str()).collect::<Vec<_>>(), rb.map(|r| r.map(|d| d.rendered))),
                        );
                    }
                    j += 1;
                }
                total_groups += 1;
                let size = (j - i) as u64;
                max_group = max_group.max(size);
                if size > 1 {
                    multi_groups += 1;
                }
                d.push(fxhash(&(helper, amount, recs[i].fp)));
                i = j;
            }
            rep.distinct_many(d);
            if helper == 0 && amount == 0 {
                rep.sample(json!({"part": "dedup", "helper": "funding spend without conditions", "coin_amount": amount, "letters": sc.letters.iter().map(|l| l.name.clone()).collect::<Vec<_>>()}));
            }
        }
    }
    rep.extra("dedup", json!({"letters": nletters, "main_letters": nmain, "core_letters": ncore, "scenes": 9, "lists": total_lists, "eligible_spends": total_eligible, "fingerprint_groups": total_groups, "groups_with_more_than_one_list": multi_groups, "largest_group": max_group}));
}

// ------------------------------------------------------------------------------------------

fn run(rep: &Report) {
    rep.set_rule(
        "fast-forward: singleton spends = the real top layer curried (own curry) with launcher id {a1 | thorough +a2} x inner puzzle {`1` with the conditions in the inner solution (re-creates itself), (q . conds)} x 10-13 condition sets (odd CREATE_COIN of the coin amount / of 1, + even output, + time locks, + AGG_SIG_ME/UNSAFE, + memo/REMARK/announcements, + inner ASSERT_MY_AMOUNT / _PUZZLEHASH / _COIN_ID / _PARENT_ID, melt -113, no output, two odd outputs) x coin amount {1,3,2^63+1 | thorough +0x81,2^64-1} x lineage (parent's parent {c1 | thorough +c2} x parent amount {1,3,2^63+1}), plus the 2 recorded ff-tests/*.spend; rebase targets = new parent's parent {ab..,00..,ff..,the original one} x new parent amount x new coin amount ({1,3,2^63+1} quick, {1,3,0x81,2^64-1} thorough, {own,1,3,5} for the recorded spends); every genuine (spend,target) pair is also put through 36 corruption classes (each field of the three coins, each lineage/solution field, Eve proof, struct mod hash, curried program, launcher id/hash, inner puzzle, arity, bare inner puzzle; plain and 're-seated' = all dependent hashes re-derived so that exactly one relation is broken) — quick: the 16 coin-side classes on every target and the 20 solution/puzzle-side classes on every fourth target, thorough: all classes on every target; the alphabets marked 'thorough' are used by both tiers. dedup: one coin (identity puzzle, parent 11.., amount {0,2,300}) next to a helper spend of 10^6 mojos {no conditions, sends a message to the coin, receives a message from it}; condition lists = every list of <=2 of the 79 letters plus every list of 3 of the 67 main letters (quick: of the 24 core letters); letters: CREATE_COIN with hint absent/nil/empty/4 zero bytes/one byte 01 (= a following REMARK's image)/32/33 bytes/pair/atom memos/extra memo, amount|hint atom-boundary splits ([0102][03] vs [01][0203]), second puzzle hash, extra argument, redundant zero; RESERVE_FEE/REMARK boundary splits and REMARK shapes; announcements; ASSERT_MY_*; every time lock with two values and tautologies; all 8 AGG_SIG_*; SEND/RECEIVE_MESSAGE to self and to/from the helper; unknown / SOFTFORK / two-byte opcodes; each list run with and without COMPUTE_FINGERPRINT. distinct = distinct (class, puzzle, solution, three coins) fast-forward cases + distinct (scene, fingerprint) groups of eligible spends",
    );
    rep.assume("fast_forward_singleton does not run the puzzle: for constructed spends whose original does not run (no odd output, two odd outputs) only acceptance/refusal and the shape of the rewrite are checked");
    rep.assume("run_spendbundle acceptance of the rewritten spend is demanded only when the original is accepted on the old coin and every ASSERT_MY_* of the rewritten output holds for the new coin (inner conditions bound to the old coin are the business of ELIGIBLE_FOR_FF, not of the rewrite); two funding spends of 2^64-1 mojos each are added so that value conservation cannot reject");
    rep.assume("the singleton top layer module bytes and hash come from the external crate chia-puzzles 0.20.1 (own tree hash of the bytes is checked against the published hash)");
    rep.assume("'identical parsed conditions' = the canonical summary of run_spendbundle (created coins with hints, fees, time locks, birth assertions, signatures, eligibility flags) without cost fields");
    run_ff(rep);
    run_dedup(rep);
}

fn replay(case: &Value) -> String {
    match case["kind"].as_str() {
        Some("ff") => {
            let c = FfCase::from_json(case);
            let mut loc = Loc::new();
            let g = genuine(&c);
            let r = real_ff(&c);
            let chk = catch(|| ff_check(&c, &mut loc));
            format!("class {} [{}]\nindependent predicate: {:?}\nfast_forward_singleton: {:?}\ncheck: {:?} {:?}", c.class, c.name, g, r, chk, loc)
        }
        Some("dedup") => {
            let env = drive::env();
            let pk = env.valid_keys.iter().next().unwrap().clone();
            let sc = scene(case["helper"].as_u64().unwrap() as usize, case["amount"].as_u64().unwrap(), &pk);
            let mut out = format!("helper variant {}, coin amount {}\n", sc.helper, sc.amount);
            let mut seen: Vec<([u8; 32], [u8; 32])> = Vec::new();
            for l in case["lists"].as_array().unwrap() {
                let conds = Sx::parse(&hex::decode(l["conditions"].as_str().unwrap()).unwrap()).unwrap();
                let idx: Vec<usize> = l["letters"].as_array().unwrap().iter().filter_map(|n| sc.letters.iter().position(|x| Some(x.name.as_str()) == n.as_str())).collect();
                let plain = dedup_run(&sc, &conds, false, true);
                let with_fp = dedup_run(&sc, &conds, true, true);
                if let Ok(Ok(d)) = &with_fp {
                    if d.eligible {
                        seen.push((d.fp, d.meaning));
                    }
                }
                out += &format!(
                    "letters {}\n  conditions {conds:?}\n  harness metadata: what forbids eligibility = {:?}\n  plain run: {:?}\n  fingerprinting run: {:?}\n",
                    l["letters"],
                    eligibility_violation(&sc, &idx),
                    plain.map(|r| r.map(|d| format!("eligible={} {}", d.eligible, d.rendered))),
                    with_fp.map(|r| r.map(|d| format!("eligible={} fingerprint={} {}", d.eligible, hex::encode(d.fp), d.rendered)))
                );
            }
            if seen.len() == 2 {
                out += &format!("equal fingerprints: {}, identical parsed conditions: {}\n", seen[0].0 == seen[1].0, seen[0].1 == seen[1].1);
            }
            out
        }
        _ => "unknown case kind".to_string(),
    }
}

fn main() {
    mc::cli::main("C19", "exploration", run, replay)
}
