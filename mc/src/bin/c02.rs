//! C02 — accepted bundles conserve value and never duplicate coins.
//! Engine E: exhaustive sweep of 1-3 spends x amounts near 2^64 x 0-3 outputs x RESERVE_FEE
//! through all five entry points; the invariant monitor (mc::monitor) is evaluated on every
//! accepted result; acceptance itself is cross-checked against u128 arithmetic.

use chia_bls::Signature;
use chia_consensus::flags::ConsensusFlags;
use chia_consensus::spendbundle_validation::validate_clvm_and_signature;
use mc::drive::{self, BIG_COST, canon_owned, real_parse};
use mc::genr::{self, GSpend, generator_sx, run_bundle, run_gen1, run_gen2, test_constants};
use mc::monitor::check_accepted;
use mc::refcond::RFlags;
use mc::report::{Report, catch, fxhash};
use mc::sx::{Sx, sha256};
use rayon::prelude::*;
use serde_json::{Value, json};
use std::collections::BTreeMap;

const AM: [u64; 4] = [0, 1, 1 << 63, u64::MAX];
const FEES: [Option<u64>; 4] = [None, Some(0), Some(1), Some(u64::MAX)];

fn parent(i: usize) -> [u8; 32] {
    sha256(&[b"c02-parent", &[i as u8]])
}

/// output letters: (puzzle hash index, amount index)
fn out_letters() -> Vec<(usize, usize)> {
    (0..2).flat_map(|p| (0..4).map(move |a| (p, a))).collect()
}

fn multisets(n: usize, max: usize) -> Vec<Vec<usize>> {
    let mut out = vec![vec![]];
    fn rec(start: usize, n: usize, left: usize, cur: &mut Vec<usize>, out: &mut Vec<Vec<usize>>) {
        if left == 0 {
            return;
        }
        for i in start..n {
            cur.push(i);
            out.push(cur.clone());
            rec(i, n, left - 1, cur, out);
            cur.pop();
        }
    }
    rec(0, n, max, &mut vec![], &mut out);
    out
}

#[derive(Clone, Debug)]
struct Case {
    /// per spend: amount index, output letters
    spends: Vec<(usize, Vec<usize>)>,
    fee: usize,
}

fn build(c: &Case) -> Vec<GSpend> {
    let letters = out_letters();
    let phs = [drive::PH1, drive::PH2];
    c.spends
        .iter()
        .enumerate()
        .map(|(i, (a, outs))| {
            let mut conds: Vec<Sx> = outs.iter().map(|o| drive::cond(51, &[Sx::atom(&phs[letters[*o].0]), Sx::int(AM[letters[*o].1])])).collect();
            if i == 0 {
                if let Some(f) = FEES[c.fee] {
                    conds.push(drive::cond(52, &[Sx::int(f)]));
                }
            }
            GSpend::identity(parent(i), AM[*a], Sx::list(&conds))
        })
        .collect()
}

/// what u128 arithmetic says about the case
fn expected_accept(c: &Case) -> bool {
    let letters = out_letters();
    let mut removed: u128 = 0;
    let mut added: u128 = 0;
    for (a, outs) in &c.spends {
        removed += AM[*a] as u128;
        let mut seen = std::collections::BTreeSet::new();
        for o in outs {
            if !seen.insert(*o) {
                return false; // duplicate (ph, amount) within a spend
            }
            added += AM[letters[*o].1] as u128;
        }
    }
    let fee = FEES[c.fee].unwrap_or(0) as u128;
    added <= removed && removed - added >= fee
}

fn check(c: &Case) -> Result<(&'static str, u64), (String, String)> {
    let spends = build(c);
    let want = expected_accept(c);
    let constants = test_constants();
    let sig = Signature::default();
    let inputs: Vec<([u8; 32], [u8; 32], u64)> = spends.iter().map(|s| (s.parent, s.puzzle_hash(), s.amount)).collect();
    let flags = ConsensusFlags::DONT_VALIDATE_SIGNATURE;
    let gen_bytes = generator_sx(&spends).serialize();
    let out = drive::output(&spends.iter().map(|s| drive::spend(&s.parent, &s.puzzle_hash(), s.amount, s.solution.clone())).collect::<Vec<_>>());
    let b = genr::bundle(&spends, &sig);
    let mut n = 0u64;
    let mut results: Vec<(&'static str, Option<mc::refcond::CSummary>)> = Vec::new();
    results.push(("parse_spends", real_parse(&out, RFlags::default(), BIG_COST).ok().map(|r| r.summary)));
    results.push(("parse_spends(mempool)", real_parse(&out, RFlags { mempool: true, ..Default::default() }, BIG_COST).ok().map(|r| r.summary)));
    results.push(("run_block_generator", run_gen1(&gen_bytes, &[], BIG_COST, flags, &sig, constants).ok().map(|r| r.summary)));
    results.push(("run_block_generator2", run_gen2(&gen_bytes, &[], BIG_COST, flags, &sig, constants).ok().map(|r| r.summary)));
    results.push(("run_spendbundle", run_bundle(&b, BIG_COST, flags, constants).ok().map(|r| r.0.summary)));
    results.push(("validate_clvm_and_signature", validate_clvm_and_signature(&b, BIG_COST, constants, ConsensusFlags::empty()).ok().map(|r| canon_owned(&r.0, true))));
    for (path, r) in &results {
        n += 1;
        match r {
            Some(sum) => {
                if !want {
                    return Err((format!("accepts-invalid/{path}"), format!("{path} accepted {c:?} although u128 arithmetic says additions+fee exceed removals or an output is duplicated")));
                }
                check_accepted(sum, Some(&inputs)).map_err(|(s, d)| (format!("monitor/{s}/{path}"), format!("{path} on {c:?}: {d}")))?;
            }
            None => {
                if want {
                    return Err((format!("rejects-valid/{path}"), format!("{path} rejected {c:?} although it conserves value and has no duplicates")));
                }
            }
        }
    }
    Ok((if want { "accepted" } else { "rejected" }, n))
}

fn cases(thorough: bool) -> Vec<Case> {
    let nl = out_letters().len();
    let mut v = Vec::new();
    let outs3 = multisets(nl, 3);
    let outs1 = multisets(nl, 1);
    let outs2 = multisets(nl, if thorough { 2 } else { 1 });
    // one spend, <= 3 outputs
    for a in 0..4 {
        for o in &outs3 {
            for fee in 0..4 {
                v.push(Case { spends: vec![(a, o.clone())], fee });
            }
        }
    }
    // two spends: first <= 3 outputs (thorough) / <= 2, second <= 1 (2 in thorough)
    let first = if thorough { outs3.clone() } else { multisets(nl, 2) };
    for a in 0..4 {
        for o in &first {
            for a2 in 0..4 {
                for o2 in &outs2 {
                    for fee in 0..4 {
                        v.push(Case { spends: vec![(a, o.clone()), (a2, o2.clone())], fee });
                    }
                }
            }
        }
    }
    // three spends, each <= 1 output
    for a in 0..64usize {
        for o1 in &outs1 {
            for o2 in &outs1 {
                for o3 in &outs1 {
                    for fee in 0..4 {
                        v.push(Case { spends: vec![(a & 3, o1.clone()), ((a >> 2) & 3, o2.clone()), ((a >> 4) & 3, o3.clone())], fee });
                    }
                }
            }
        }
    }
    v
}

fn big_cases(rep: &Report) {
    // many spends of 2^64-1 each paying everything to one output each: sums far beyond 64 bits
    let constants = test_constants();
    let sig = Signature::default();
    for n in [300usize, 6000] {
        let spends: Vec<GSpend> = (0..n)
            .map(|i| GSpend::identity(sha256(&[b"big", &(i as u32).to_be_bytes()]), u64::MAX, Sx::list(&[drive::cond(51, &[Sx::atom(&drive::PH2), Sx::int(u64::MAX)])])))
            .collect();
        let inputs: Vec<([u8; 32], [u8; 32], u64)> = spends.iter().map(|s| (s.parent, s.puzzle_hash(), s.amount)).collect();
        let g = generator_sx(&spends).serialize();
        for (path, r) in [
            ("run_block_generator2", run_gen2(&g, &[], BIG_COST, ConsensusFlags::DONT_VALIDATE_SIGNATURE, &sig, constants).map(|r| r.summary)),
            ("run_block_generator", run_gen1(&g, &[], BIG_COST, ConsensusFlags::DONT_VALIDATE_SIGNATURE, &sig, constants).map(|r| r.summary)),
        ] {
            rep.eval();
            match r {
                Ok(sum) => match check_accepted(&sum, Some(&inputs)) {
                    Ok(()) => rep.outcome("big/accepted"),
                    Err((s, d)) => rep.violation(&format!("C02/monitor/{s}/{path}"), json!({"big": n}), d),
                },
                Err(e) => rep.violation(&format!("C02/rejects-valid/{path}"), json!({"big": n}), format!("{n} spends of 2^64-1 each: {e:?}")),
            }
        }
    }
    // one spend with 4000 outputs
    let conds: Vec<Sx> = (0..4000u64).map(|i| drive::cond(51, &[Sx::atom(&sha256(&[b"o", &i.to_be_bytes()])), Sx::int(1)])).collect();
    let s = GSpend::identity(parent(0), 4000, Sx::list(&conds));
    let inputs = vec![(s.parent, s.puzzle_hash(), s.amount)];
    let g = generator_sx(&[s]).serialize();
    rep.eval();
    match run_gen2(&g, &[], BIG_COST, ConsensusFlags::DONT_VALIDATE_SIGNATURE, &sig, constants) {
        Ok(r) => match check_accepted(&r.summary, Some(&inputs)) {
            Ok(()) => rep.outcome("big/accepted"),
            Err((s, d)) => rep.violation(&format!("C02/monitor/{s}/run_block_generator2"), json!({"big": "4000-outputs"}), d),
        },
        Err(e) => rep.violation("C02/rejects-valid/run_block_generator2", json!({"big": "4000-outputs"}), format!("{e:?}")),
    }
}

/// every minimal-encoding length class on both sides: coin of amount a creating a coin of amount b,
/// and the id helper `Coin::coin_id()` on both
fn boundary_sweep(rep: &Report) {
    use chia_protocol::{Bytes32, Coin};
    let am: Vec<u64> = vec![0, 1, 0x7f, 0x80, 0xff, 0x100, 0x7fff, 0x8000, (1 << 23) - 1, 1 << 23, (1 << 31) - 1, 1 << 31, u32::MAX as u64, 1 << 32, (1 << 39) - 1, 1 << 39, (1 << 47) - 1, 1 << 47, (1 << 55) - 1, 1 << 55, (1u64 << 63) - 1, 1 << 63, u64::MAX];
    let constants = test_constants();
    let sig = Signature::default();
    let pairs: Vec<(u64, u64)> = am.iter().flat_map(|a| am.iter().filter(move |b| *b <= a).map(move |b| (*a, *b))).collect();
    pairs.par_iter().for_each(|(a, b)| {
        let s = GSpend::identity(parent(9), *a, Sx::list(&[drive::cond(51, &[Sx::atom(&drive::PH2), Sx::int(*b)])]));
        let inputs = vec![(s.parent, s.puzzle_hash(), s.amount)];
        let g = generator_sx(std::slice::from_ref(&s)).serialize();
        let bundle = genr::bundle(std::slice::from_ref(&s), &sig);
        let case = json!({"boundary": [a, b]});
        for (path, r) in [
            ("run_block_generator2", run_gen2(&g, &[], BIG_COST, ConsensusFlags::DONT_VALIDATE_SIGNATURE, &sig, constants).map(|r| r.summary)),
            ("run_spendbundle", run_bundle(&bundle, BIG_COST, ConsensusFlags::DONT_VALIDATE_SIGNATURE, constants).map(|r| r.0.summary)),
        ] {
            rep.eval();
            match r {
                Err(e) => rep.violation(&format!("C02/rejects-valid/{path}"), case.clone(), format!("coin {a:#x} creating {b:#x}: {e:?}")),
                Ok(sum) => {
                    if let Err((sg, d)) = check_accepted(&sum, Some(&inputs)) {
                        rep.violation(&format!("C02/monitor/{sg}/{path}"), case.clone(), d);
                        continue;
                    }
                    // the id helper agrees with the reported ids, for the spent and the created coin
                    let sp = &sum.spends[0];
                    let spent = Coin::new(Bytes32::new(sp.parent), Bytes32::new(sp.puzzle_hash), sp.amount).coin_id().to_bytes();
                    let child = Coin::new(Bytes32::new(sp.coin_id), Bytes32::new(drive::PH2), *b).coin_id().to_bytes();
                    let want_child = sha256(&[&sp.coin_id, &drive::PH2, &mc::sx::enc_u64(*b)]);
                    if spent != sp.coin_id || child != want_child {
                        rep.violation("C02/coin-id-helper", case.clone(), format!("Coin::coin_id() of the spent coin ({a:#x}) or created coin ({b:#x}) differs from SHA-256(parent|ph|minimal amount)"));
                    } else {
                        rep.outcome("boundary/accepted");
                    }
                }
            }
        }
    });
    rep.extra("boundary_pairs", json!(pairs.len()));
}

fn run(rep: &Report) {
    boundary_sweep(rep);
    let cs = cases(rep.tier == mc::Tier::Thorough);
    rep.set_rule("bundles of 1-3 identity-puzzle spends with coin amounts in {0,1,2^63,2^64-1}, each creating a multiset of outputs over 2 puzzle hashes x the same 4 amounts (1 spend: <=3 outputs; 2 spends: <=2 (+<=1); 3 spends: <=1 each), RESERVE_FEE in {absent,0,1,2^64-1}, through parse_spends (both visitors), run_block_generator, run_block_generator2, run_spendbundle, validate_clvm_and_signature; plus 300 and 6000 spends of 2^64-1 and one spend with 4000 outputs; plus every pair (a >= b) of the 23 minimal-encoding length-class boundary amounts as (spent coin, created coin) incl. the Coin::coin_id() helper. distinct = distinct cases");
    rep.assume("acceptance oracle: u128 sums of the case's own amounts; monitor: mc::monitor::check_accepted on every accepted summary");
    rep.extra("cases", json!(cs.len()));
    cs.par_chunks(256).for_each(|chunk| {
        let mut evals = 0u64;
        let mut b: BTreeMap<&'static str, u64> = BTreeMap::new();
        let mut d = Vec::new();
        for c in chunk {
            let case = json!({"spends": c.spends, "fee": c.fee});
            match catch(|| check(c)) {
                Ok(Ok((k, n))) => {
                    evals += n;
                    *b.entry(k).or_insert(0) += 1;
                    d.push(fxhash(&format!("{c:?}")));
                }
                Ok(Err((sig, det))) => rep.violation(&format!("C02/{sig}"), case, det),
                Err(p) => rep.violation("C02/panic", case, p),
            }
        }
        rep.evals(evals);
        for (k, n) in b {
            rep.outcome_n(k, n);
        }
        rep.distinct_many(d);
    });
    big_cases(rep);
    rep.sample(json!({"spends": [[3, [3, 7]]], "fee": 2, "meaning": "coin 2^64-1 creating (PH1, 2^64-1) and (PH2, 2^64-1), fee 1: additions exceed removals -> every path must reject"}));
    rep.sample(json!({"spends": [[3, [3]], [3, [7]], [2, []]], "fee": 3, "meaning": "three spends, sums beyond 2^64, fee 2^64-1"}));
}

fn replay(case: &Value) -> String {
    if case.get("big").is_some() || case.get("boundary").is_some() {
        return "structured large case: re-run the check".into();
    }
    let spends: Vec<(usize, Vec<usize>)> = case["spends"].as_array().unwrap().iter().map(|s| (s[0].as_u64().unwrap() as usize, s[1].as_array().unwrap().iter().map(|x| x.as_u64().unwrap() as usize).collect())).collect();
    let c = Case { spends, fee: case["fee"].as_u64().unwrap() as usize };
    format!("{c:?} expected_accept={} -> {:?}", expected_accept(&c), check(&c))
}

fn main() {
    mc::cli::main("C02", "exploration", run, replay)
}
