//! C01 — spend conditions are accepted, rejected and summarised exactly per the rules.
//! Engine E: bounded-exhaustive enumeration of generator outputs in three layers, each run
//! through the real `parse_spends` (both visitors, 8 flag subsets) and the reference model
//! `mc::refcond` (DESIGN.md Appendix A). Only verdict + canonical summary are compared.

use mc::drive::{self, BIG_COST, H1, H2, P1, P2, PH1, PH2, all_rflags, coin_id, cond, output, real_parse, rflags_name, spend};
use mc::letters::sigma2;
use mc::refcond::{self, Env, RFlags, ref_validate};
use mc::report::{Report, catch, fxhash};
use mc::sx::{Sx, enc_u64, sha256};
use rayon::prelude::*;
use serde_json::{Value, json};
use std::collections::BTreeMap;

struct Local {
    evals: u64,
    buckets: BTreeMap<String, u64>,
    distinct: Vec<u64>,
}

impl Local {
    fn new() -> Self {
        Self { evals: 0, buckets: BTreeMap::new(), distinct: Vec::new() }
    }
    fn flush(self, rep: &Report) {
        rep.evals(self.evals);
        for (k, n) in self.buckets {
            rep.outcome_n(&k, n);
        }
        rep.distinct_many(self.distinct);
    }
}

/// run one (tree, flags) case; `layer` and `tag` only label the outcome / signature
fn case(rep: &Report, loc: &mut Local, env: &Env, layer: &str, tag: &str, out: &Sx, f: RFlags) {
    loc.evals += 1;
    let r = ref_validate(out, f, env, &refcond::slot_cost);
    let real = catch(|| real_parse(out, f, BIG_COST));
    let mk_case = || json!({"output_hex": hex::encode(out.serialize()), "flags": rflags_name(f)});
    match real {
        Err(p) => {
            rep.violation(&format!("C01/{layer}/panic/{tag}"), mk_case(), format!("parse_spends panicked: {p}\noutput {out:?} flags {}", rflags_name(f)));
        }
        Ok(real) => match (&r, &real) {
            (Err(_), Err(_)) => {
                *loc.buckets.entry(format!("{layer}/reject")).or_insert(0) += 1;
            }
            (Ok(rs), Ok(ro)) => {
                if *rs == ro.summary && ro.cost == rs.condition_cost {
                    *loc.buckets.entry(format!("{layer}/accept")).or_insert(0) += 1;
                    if !f.mempool && !f.no_unknown && !f.strict && !f.cost_conditions {
                        loc.distinct.push(fxhash(rs));
                    }
                } else {
                    rep.violation(
                        &format!("C01/{layer}/summary/{tag}"),
                        mk_case(),
                        format!("both accept, summaries differ\noutput {out:?} flags {}\nreference {rs:?}\nreal      {:?} cost {}", rflags_name(f), ro.summary, ro.cost),
                    );
                }
            }
            (Ok(rs), Err(e)) => {
                rep.violation(
                    &format!("C01/{layer}/rules-accept-code-rejects/{tag}"),
                    mk_case(),
                    format!("rules accept, parse_spends rejects with {e:?}\noutput {out:?} flags {}\nreference {rs:?}", rflags_name(f)),
                );
            }
            (Err(why), Ok(ro)) => {
                rep.violation(
                    &format!("C01/{layer}/rules-reject-code-accepts/{tag}"),
                    mk_case(),
                    format!("rules reject ({why}), parse_spends accepts\noutput {out:?} flags {}\nreal {:?}", rflags_name(f), ro.summary),
                );
            }
        },
    }
}

fn opcode_atoms() -> Vec<(String, Sx)> {
    let mut v: Vec<(String, Sx)> = Vec::new();
    for op in [1u8, 43, 44, 45, 46, 47, 48, 49, 50, 51, 52, 60, 61, 62, 63, 64, 65, 66, 67, 70, 71, 72, 73, 74, 75, 76, 80, 81, 82, 83, 84, 85, 86, 87, 90] {
        v.push((format!("op{op}"), Sx::atom(&[op])));
    }
    for b in [&[0x00u8][..], &[0x02], &[0x2a], &[0x59], &[0x5b], &[0x80], &[0xff], &[0x01, 0x00], &[0x01, 0xff], &[0xff, 0x00], &[0xff, 0xff], &[0x00, 0x33], &[0x00, 0x01], &[0x01, 0x00, 0x00], &[0x00, 0x00, 0x33], &[]] {
        v.push((format!("opx{}", hex::encode(b)), Sx::atom(b)));
    }
    v.push(("op-pair".into(), Sx::cons(Sx::atom(&[51]), Sx::nil())));
    v
}

fn universal_args(env: &Env) -> Vec<Sx> {
    let a_id = coin_id(&P1, &PH1, 5);
    let pk = env.valid_keys.iter().next().unwrap().clone();
    let suffix_msg = {
        let mut m = vec![7u8; 3];
        m.extend_from_slice(&env.suffixes[2]);
        m
    };
    vec![
        Sx::nil(),
        Sx::atom(&[0x00]),
        Sx::atom(&[0x01]),
        Sx::atom(&[0x05]),
        Sx::atom(&[0x7f]),
        Sx::atom(&[0x80]),
        Sx::atom(&[0xff]),
        Sx::atom(&[0x00, 0x80]),
        Sx::atom(&[0x00, 0x05]),
        Sx::atom(&[0x00, 0xff, 0xff, 0xff, 0xff]),
        Sx::atom(&[0x01, 0, 0, 0, 0]),
        Sx::atom(&[0x00, 0xff, 0xff, 0xff, 0xff, 0xff, 0xff, 0xff, 0xff]),
        Sx::atom(&[0x01, 0, 0, 0, 0, 0, 0, 0, 0]),
        Sx::atom(&H1),
        Sx::atom(&a_id),
        Sx::atom(&P1),
        Sx::atom(&PH1),
        Sx::atom(&[0x31; 31]),
        Sx::atom(&[0x31; 33]),
        Sx::Atom(pk),
        Sx::Atom(drive::inf_key()),
        Sx::Atom(drive::bad_key()),
        Sx::atom(&[0x55; 1024]),
        Sx::atom(&[0x55; 1025]),
        Sx::Atom(suffix_msg),
        Sx::list(&[Sx::atom(&H2)]),
        Sx::cons(Sx::atom(&H2), Sx::atom(&[1])),
    ]
}

fn layer1(rep: &Report, env: &Env, flags: &[RFlags]) {
    let ops = opcode_atoms();
    let args = universal_args(env);
    let max_args = rep.tier.pick(2, 3);
    // all arg lists of length 0..=max_args
    let mut lists: Vec<Vec<usize>> = vec![vec![]];
    let mut cur: Vec<Vec<usize>> = vec![vec![]];
    for _ in 0..max_args {
        let mut next = Vec::new();
        for l in &cur {
            for i in 0..args.len() {
                let mut m = l.clone();
                m.push(i);
                next.push(m);
            }
        }
        lists.extend(next.iter().cloned());
        cur = next;
    }
    rep.extra("layer1_arg_letters", json!(args.len()));
    rep.extra("layer1_arg_lists", json!(lists.len()));
    rep.extra("layer1_opcodes", json!(ops.len()));
    let work: Vec<(usize, usize)> = (0..ops.len()).flat_map(|o| (0..lists.len().div_ceil(512)).map(move |c| (o, c))).collect();
    work.par_iter().for_each(|(o, chunk)| {
        let mut loc = Local::new();
        let (tag, op) = &ops[*o];
        for l in lists.iter().skip(chunk * 512).take(512) {
            let items: Vec<Sx> = std::iter::once(op.clone()).chain(l.iter().map(|i| args[*i].clone())).collect();
            for term in [Sx::nil(), Sx::atom(&[1])] {
                let c = Sx::list_term(&items, term);
                let out = output(&[spend(&P1, &PH1, 5, Sx::list(&[c]))]);
                for f in flags {
                    case(rep, &mut loc, env, "L1", tag, &out, *f);
                }
            }
        }
        loc.flush(rep);
    });
    rep.sample(json!({"layer": 1, "shape": "((P1 PH1 5 ((<opcode> <arg>* . <nil|01>))))", "example": format!("{:?}", output(&[spend(&P1, &PH1, 5, Sx::list(&[cond(51, &[Sx::atom(&H2), Sx::int(3), Sx::list(&[Sx::atom(&H1)])])]))]))}));
}

/// messages: every mode value, type-correct commitment args with single off-type substitutions
fn layer1_messages(rep: &Report, env: &Env, flags: &[RFlags]) {
    let off: Vec<Sx> = vec![Sx::nil(), Sx::atom(&[0x31; 31]), Sx::atom(&[0x00, 0x05]), Sx::atom(&[0xff]), Sx::cons(Sx::atom(&H1), Sx::nil()), Sx::atom(&[0x01, 0, 0, 0, 0, 0, 0, 0, 0])];
    let mode_atoms: Vec<Sx> = (0..64u8).map(|m| Sx::int(m as u64)).chain([Sx::atom(&[0x00]), Sx::atom(&[0x40]), Sx::atom(&[0x80]), Sx::atom(&[0x00, 0x01]), Sx::atom(&[0x00, 0x3f]), Sx::cons(Sx::nil(), Sx::nil())]).collect();
    let msgs = [Sx::nil(), Sx::atom(&[0x66; 1024]), Sx::atom(&[0x66; 1025])];
    (0..mode_atoms.len()).into_par_iter().for_each(|mi| {
        let mut loc = Local::new();
        let mode_atom = &mode_atoms[mi];
        let mode_val = if mi < 64 { mi as u8 } else { 0 };
        for op in [66u8, 67] {
            let other_mode = if op == 66 { mode_val & 7 } else { (mode_val >> 3) & 7 };
            // type-correct commitment for coin C = (P2, PH1, 5)
            let mut commit: Vec<Sx> = Vec::new();
            if other_mode == 7 {
                commit.push(Sx::atom(&coin_id(&P2, &PH1, 5)));
            } else {
                if other_mode & 4 != 0 {
                    commit.push(Sx::atom(&P2));
                }
                if other_mode & 2 != 0 {
                    commit.push(Sx::atom(&PH1));
                }
                if other_mode & 1 != 0 {
                    commit.push(Sx::int(5));
                }
            }
            for msg in &msgs {
                let mut variants: Vec<(Vec<Sx>, Sx)> = Vec::new();
                let base: Vec<Sx> = [Sx::atom(&[op]), mode_atom.clone(), msg.clone()].into_iter().chain(commit.iter().cloned()).collect();
                variants.push((base.clone(), Sx::nil()));
                variants.push((base.clone(), Sx::atom(&[1])));
                let mut extra = base.clone();
                extra.push(Sx::atom(&H1));
                variants.push((extra, Sx::nil()));
                if base.len() > 1 {
                    variants.push((base[..base.len() - 1].to_vec(), Sx::nil()));
                }
                for pos in 3..base.len() {
                    for o in &off {
                        let mut v = base.clone();
                        v[pos] = o.clone();
                        variants.push((v, Sx::nil()));
                    }
                }
                for (items, term) in variants {
                    let c = Sx::list_term(&items, term);
                    let out = output(&[spend(&P1, &PH1, 5, Sx::list(&[c]))]);
                    for f in flags {
                        case(rep, &mut loc, env, "L1m", &format!("op{op}"), &out, *f);
                    }
                }
            }
        }
        loc.flush(rep);
    });
}

fn int_letters() -> Vec<Vec<u8>> {
    vec![
        vec![],
        vec![0x00],
        vec![0x01],
        vec![0x7f],
        vec![0x80],
        vec![0xff],
        vec![0x00, 0x7f],
        vec![0x00, 0x80],
        vec![0x00, 0xff],
        vec![0x00, 0xff, 0xff, 0xff, 0xff],
        vec![0x01, 0, 0, 0, 0],
        vec![0x7f, 0xff, 0xff, 0xff, 0xff, 0xff, 0xff, 0xff],
        vec![0x00, 0xff, 0xff, 0xff, 0xff, 0xff, 0xff, 0xff, 0xff],
        vec![0x01, 0, 0, 0, 0, 0, 0, 0, 0],
        vec![0x80, 0, 0, 0, 0, 0, 0, 0, 0],
        vec![0x00, 0x00, 0x01],
        vec![0xff, 0xff],
        // a redundant leading zero on an atom of exactly width + 1 bytes (5 and 9)
        vec![0x00, 0x40, 0, 0, 0],
        vec![0x00, 0x40, 0, 0, 0, 0, 0, 0, 0],
        vec![0x00, 0x7f, 0xff, 0xff, 0xff, 0xff, 0xff, 0xff, 0xff],
    ]
}

/// integer-typed single-argument conditions x every integer letter; CREATE_COIN memo shapes;
/// spend amount atoms
fn layer1_ints(rep: &Report, env: &Env, flags: &[RFlags]) {
    let ints = int_letters();
    let mut loc = Local::new();
    for op in [52u8, 73, 74, 75, 80, 81, 82, 83, 84, 85, 86, 87, 90] {
        for i in &ints {
            for extra in [None, Some(Sx::atom(&[1])), Some(Sx::nil())] {
                let mut items = vec![Sx::atom(&[op]), Sx::Atom(i.clone())];
                if let Some(e) = extra {
                    items.push(e);
                }
                let out = output(&[spend(&P1, &PH1, 5, Sx::list(&[Sx::list(&items)]))]);
                for f in flags {
                    case(rep, &mut loc, env, "L1i", &format!("op{op}"), &out, *f);
                }
            }
        }
    }
    // CREATE_COIN: amount letters x memo shapes
    let memos: Vec<Option<Sx>> = vec![
        None,
        Some(Sx::nil()),
        Some(Sx::list(&[Sx::nil()])),
        Some(Sx::list(&[Sx::atom(&H1)])),
        Some(Sx::list(&[Sx::atom(&[0x31; 31])])),
        Some(Sx::list(&[Sx::atom(&[0x31; 33])])),
        Some(Sx::list(&[Sx::list(&[Sx::atom(&H1)])])),
        Some(Sx::cons(Sx::atom(&H1), Sx::atom(&[1]))),
        Some(Sx::atom(&H1)),
        Some(Sx::list(&[Sx::atom(&H1), Sx::atom(&H2)])),
        Some(Sx::list(&[Sx::atom(&[1])])),
    ];
    for ph in [Sx::atom(&PH2), Sx::atom(&PH1), Sx::atom(&[0x22; 31])] {
        for i in &ints {
            for memo in &memos {
                for tail in [None, Some(Sx::atom(&H2))] {
                    for term in [Sx::nil(), Sx::atom(&[1])] {
                        let mut items = vec![Sx::atom(&[51]), ph.clone(), Sx::Atom(i.clone())];
                        if let Some(m) = memo {
                            items.push(m.clone());
                            if let Some(t) = &tail {
                                items.push(t.clone());
                            }
                        } else if tail.is_some() {
                            continue;
                        }
                        let c = Sx::list_term(&items, term);
                        // coin amount 2^64-1 so that large outputs are not minting
                        let out = output(&[Sx::list(&[Sx::atom(&P1), Sx::atom(&PH1), Sx::int(u64::MAX), Sx::list(&[c])])]);
                        for f in flags {
                            case(rep, &mut loc, env, "L1c", "op51", &out, *f);
                        }
                    }
                }
            }
        }
    }
    // spend amount atoms and parent / puzzle hash lengths
    for i in &ints {
        let out = output(&[Sx::list(&[Sx::atom(&P1), Sx::atom(&PH1), Sx::Atom(i.clone()), Sx::nil()])]);
        for f in flags {
            case(rep, &mut loc, env, "L1a", "amount", &out, *f);
        }
    }
    loc.flush(rep);
}

fn layer2(rep: &Report, env: &Env, flags: &[RFlags]) {
    let s2 = sigma2(env);
    rep.extra("layer2_letters", json!(s2.len()));
    let a_id = coin_id(&P1, &PH1, 5);
    // second spend variants: none, B (child of A: exists as ephemeral iff A creates (PH2,3)), C (same ph), D (double spend)
    let seconds: Vec<(&str, Option<([u8; 32], [u8; 32], u64)>)> = vec![("A", None), ("A+B", Some((a_id, PH2, 3))), ("B+A", Some((a_id, PH2, 3))), ("A+C", Some((P2, PH1, 5))), ("A+D", Some((P1, PH1, 5)))];
    let max_first = rep.tier.pick(2usize, 2);
    // first-spend condition lists: all lists (ordered, with repetition) of length 0..=2
    let mut firsts: Vec<Vec<usize>> = vec![vec![]];
    for i in 0..s2.len() {
        firsts.push(vec![i]);
    }
    if max_first >= 2 {
        for i in 0..s2.len() {
            for j in 0..s2.len() {
                firsts.push(vec![i, j]);
            }
        }
    }
    let second_lists: Vec<Vec<usize>> = std::iter::once(vec![]).chain((0..s2.len()).map(|i| vec![i])).collect();
    rep.extra("layer2_first_lists", json!(firsts.len()));
    firsts.par_chunks(64).for_each(|chunk| {
        let mut loc = Local::new();
        for fl in chunk {
            let c1 = Sx::list(&fl.iter().map(|i| s2[*i].1.clone()).collect::<Vec<_>>());
            let tag = fl.first().map_or("none".to_string(), |i| s2[*i].0.clone());
            for (sname, sec) in &seconds {
                match sec {
                    None => {
                        let out = output(&[spend(&P1, &PH1, 5, c1.clone())]);
                        for f in flags {
                            case(rep, &mut loc, env, "L2", &tag, &out, *f);
                        }
                    }
                    Some((p, ph, am)) => {
                        for sl in &second_lists {
                            let c2 = Sx::list(&sl.iter().map(|i| s2[*i].1.clone()).collect::<Vec<_>>());
                            // "B+A": the child is listed before the spend that creates it
                            let out = if *sname == "B+A" { output(&[spend(p, ph, *am, c2), spend(&P1, &PH1, 5, c1.clone())]) } else { output(&[spend(&P1, &PH1, 5, c1.clone()), spend(p, ph, *am, c2)]) };
                            let tag2 = format!("{tag}|{sname}|{}", sl.first().map_or("none".to_string(), |i| s2[*i].0.clone()));
                            for f in flags {
                                case(rep, &mut loc, env, "L2", &tag2, &out, *f);
                            }
                        }
                    }
                }
            }
        }
        loc.flush(rep);
    });
    // thorough: ordered triples over one representative letter per condition kind
    if rep.tier == mc::Tier::Thorough {
        let mut reps: Vec<usize> = Vec::new();
        let mut seen = std::collections::BTreeSet::new();
        for (i, (n, _)) in s2.iter().enumerate() {
            if seen.insert(n.clone()) {
                reps.push(i);
            }
        }
        rep.extra("layer2_triple_letters", json!(reps.len()));
        let mut triples: Vec<(usize, usize, usize)> = Vec::new();
        for a in &reps {
            for b in &reps {
                for c in &reps {
                    triples.push((*a, *b, *c));
                }
            }
        }
        triples.par_chunks(64).for_each(|chunk| {
            let mut loc = Local::new();
            for (a, b, c) in chunk {
                let c1 = Sx::list(&[s2[*a].1.clone(), s2[*b].1.clone(), s2[*c].1.clone()]);
                for (sname, sec) in &seconds {
                    let out = match sec {
                        None => output(&[spend(&P1, &PH1, 5, c1.clone())]),
                        Some((p, ph, am)) => output(&[spend(&P1, &PH1, 5, c1.clone()), spend(p, ph, *am, Sx::nil())]),
                    };
                    for f in flags {
                        case(rep, &mut loc, env, "L2t", &format!("{}|{sname}", s2[*a].0), &out, *f);
                    }
                }
            }
            loc.flush(rep);
        });
    }
    rep.sample(json!({"layer": 2, "shape": "A=(P1,PH1,5) with <=2 conditions + optional B (child of A) / C (same puzzle hash) / D (same coin) with <=1 condition", "letters": s2.iter().take(6).map(|(n, s)| format!("{n}: {s:?}")).collect::<Vec<_>>()}));
}

/// list-structure layer: every combination of structural defects at the 5 positions
fn layer3(rep: &Report, env: &Env, flags: &[RFlags]) {
    let mut loc = Local::new();
    let good_cond = cond(51, &[Sx::atom(&PH2), Sx::int(3)]);
    let terms = [Sx::nil(), Sx::atom(&[1]), Sx::atom(&[0])];
    // position 1: outer list: (spends . ext) / atom / nil / ((spends) extra)
    // position 2: spend list terminator; position 3: spend tuple truncation / extension / atom
    // position 4: condition list terminator / atom in place of the list; position 5: condition is an atom
    let cond_lists: Vec<Sx> = vec![
        Sx::list(&[good_cond.clone()]),
        Sx::list_term(&[good_cond.clone()], Sx::atom(&[1])),
        Sx::list_term(&[good_cond.clone()], Sx::atom(&[0])),
        Sx::nil(),
        Sx::atom(&[1]),
        Sx::list(&[Sx::atom(&[51])]),
        Sx::list(&[Sx::nil()]),
        Sx::list(&[good_cond.clone(), Sx::atom(&[1])]),
        Sx::list(&[Sx::list(&[Sx::atom(&[51])])]),
    ];
    for cl in &cond_lists {
        let fields_ok = vec![Sx::atom(&P1), Sx::atom(&PH1), Sx::int(5), cl.clone()];
        let mut tuples: Vec<Sx> = vec![Sx::list(&fields_ok)];
        for t in &terms[1..] {
            tuples.push(Sx::list_term(&fields_ok, t.clone()));
        }
        for n in 0..4 {
            tuples.push(Sx::list(&fields_ok[..n]));
        }
        let mut ext = fields_ok.clone();
        ext.push(Sx::atom(&H1));
        tuples.push(Sx::list(&ext));
        tuples.push(Sx::atom(&P1));
        tuples.push(Sx::nil());
        // pair in place of an atom field
        for pos in 0..3 {
            let mut f2 = fields_ok.clone();
            f2[pos] = Sx::cons(fields_ok[pos].clone(), Sx::nil());
            tuples.push(Sx::list(&f2));
        }
        for tup in &tuples {
            for st in &terms {
                for n_spends in [1usize, 2] {
                    let mut spends = vec![tup.clone()];
                    if n_spends == 2 {
                        spends.push(spend(&P2, &PH1, 5, Sx::nil()));
                    }
                    let sl = Sx::list_term(&spends, st.clone());
                    let outers = vec![
                        Sx::list(&[sl.clone()]),
                        Sx::cons(sl.clone(), Sx::atom(&[1])),
                        Sx::list(&[sl.clone(), Sx::atom(&H1)]),
                        sl.clone(),
                    ];
                    for out in &outers {
                        for f in flags {
                            case(rep, &mut loc, env, "L3", "structure", out, *f);
                        }
                    }
                }
            }
        }
    }
    for out in [Sx::nil(), Sx::atom(&[1]), Sx::list(&[Sx::nil()]), Sx::list(&[Sx::atom(&[1])]), Sx::cons(Sx::nil(), Sx::nil())] {
        for f in flags {
            case(rep, &mut loc, env, "L3", "structure", &out, *f);
        }
    }
    loc.flush(rep);
    rep.sample(json!({"layer": 3, "shape": "outer list x spend-list terminator x spend tuple (truncated/extended/atom/pair fields) x condition list (terminator/atom/non-pair condition)"}));
}

/// messages whose two sides carry the same bytes under different mode bits: a coin whose parent
/// id equals its puzzle hash sends to itself; the message balances iff the receiver names the
/// sender by the same mode the sender used (the mode is part of the commitment)
fn layer2_mode_aliasing(rep: &Report, env: &Env, flags: &[RFlags]) {
    let mut loc = Local::new();
    let q: [u8; 32] = [0x77; 32];
    let msg = Sx::atom(b"alias");
    for send_src in [0b100u64, 0b010, 0b110, 0b000] {
        for recv_src in [0b100u64, 0b010, 0b110, 0b000] {
            for dst in [0b000u64, 0b100, 0b010] {
                let commit = |m: u64| -> Vec<Sx> {
                    let mut v = Vec::new();
                    if m & 4 != 0 {
                        v.push(Sx::atom(&q));
                    }
                    if m & 2 != 0 {
                        v.push(Sx::atom(&q));
                    }
                    v
                };
                let mut s_args = vec![Sx::int((send_src << 3) | dst), msg.clone()];
                s_args.extend(commit(dst));
                let mut r_args = vec![Sx::int((recv_src << 3) | dst), msg.clone()];
                r_args.extend(commit(recv_src));
                let out = output(&[spend(&q, &q, 5, Sx::list(&[cond(66, &s_args), cond(67, &r_args)]))]);
                for f in flags {
                    case(rep, &mut loc, env, "L2x", "mode-aliasing", &out, *f);
                }
            }
        }
    }
    loc.flush(rep);
}

/// every ordered triple of locks inside each after/before family (82+86, 80+84, 83+87, 81+85): the
/// impossible-constraint rule and the max/min folds with two locks of the same kind
fn layer2_lock_triples(rep: &Report, env: &Env, flags: &[RFlags]) {
    let s2 = sigma2(env);
    let mut cases: Vec<(String, Sx)> = Vec::new();
    for (after, before) in [(82u8, 86u8), (80, 84), (83, 87), (81, 85)] {
        let fam: Vec<&(String, Sx)> = s2.iter().filter(|(n, _)| *n == format!("op{after}") || *n == format!("op{before}")).collect();
        for x in &fam {
            for y in &fam {
                for z in &fam {
                    cases.push((format!("{}+{}+{}", x.0, y.0, z.0), Sx::list(&[x.1.clone(), y.1.clone(), z.1.clone()])));
                }
            }
        }
    }
    rep.extra("layer2_lock_triples", json!(cases.len()));
    cases.par_chunks(128).for_each(|chunk| {
        let mut loc = Local::new();
        for (tag, conds) in chunk {
            let out = output(&[spend(&P1, &PH1, 5, conds.clone())]);
            for f in flags {
                case(rep, &mut loc, env, "L2k", tag, &out, *f);
            }
        }
        loc.flush(rep);
    });
}

/// bundle-level totals: 1..3 spends whose amounts, created amounts and reserved fees are taken from
/// the u64 boundary set, so that removed - added and the fee total cross 2^64 (128-bit sums in the rules)
fn layer2_totals(rep: &Report, env: &Env, flags: &[RFlags]) {
    let amounts: [u64; 5] = [0, 1, 1000, 1 << 63, u64::MAX];
    let fees: [Option<u64>; 4] = [None, Some(1), Some(5000), Some(u64::MAX)];
    // created amounts of one spend (distinct puzzle hashes); the last two make a single spend's
    // outputs alone exceed 2^64
    let creates: [&[u64]; 5] = [&[], &[1], &[u64::MAX], &[u64::MAX, u64::MAX], &[u64::MAX, u64::MAX, 1]];
    let targets = [PH2, H2, P2];
    let parents = [P1, P2, H1];
    // one spend choice = (amount, fee, created amount)
    let mut choices: Vec<(u64, Option<u64>, &[u64])> = Vec::new();
    for a in amounts {
        for f in fees {
            for c in creates {
                choices.push((a, f, c));
            }
        }
    }
    let mk = |k: usize, ch: &(u64, Option<u64>, &[u64])| {
        let mut conds = Vec::new();
        if let Some(f) = ch.1 {
            conds.push(cond(52, &[Sx::Atom(enc_u64(f))]));
        }
        for (t, c) in ch.2.iter().enumerate() {
            conds.push(cond(51, &[Sx::atom(&targets[t]), Sx::Atom(enc_u64(*c))]));
        }
        spend(&parents[k], &PH1, ch.0, Sx::list(&conds))
    };
    let max_spends = rep.tier.pick(2usize, 3);
    let n = choices.len();
    let mut lists: Vec<Vec<usize>> = Vec::new();
    for i in 0..n {
        lists.push(vec![i]);
        for j in 0..n {
            lists.push(vec![i, j]);
        }
    }
    if max_spends >= 3 {
        // triples: the third spend ranges over the fee-less, output-less choices and the extremes
        let third: Vec<usize> = (0..n).filter(|i| matches!(choices[*i], (_, None, []) | (u64::MAX, Some(u64::MAX), _) | (u64::MAX, _, [u64::MAX, ..]))).collect();
        for i in 0..n {
            for j in 0..n {
                for k in &third {
                    lists.push(vec![i, j, *k]);
                }
            }
        }
    }
    rep.extra("layer2_totals_lists", json!(lists.len()));
    lists.par_chunks(256).for_each(|chunk| {
        let mut loc = Local::new();
        for l in chunk {
            let out = output(&l.iter().enumerate().map(|(k, i)| mk(k, &choices[*i])).collect::<Vec<_>>());
            for f in flags {
                case(rep, &mut loc, env, "L2s", &format!("{}-spends", l.len()), &out, *f);
            }
        }
        loc.flush(rep);
    });
    rep.sample(json!({"layer": "2s", "shape": "spends of 2^64-1 and 1000 mojos, RESERVE_FEE 5000: removed - added = 2^64 + 999 >= 5000 must be accepted (128-bit totals)"}));
}

/// structured big cases: the 1024 announcement cap and the 6000 spend cap
fn layer4(rep: &Report, env: &Env) {
    let mut loc = Local::new();
    for n in [1023usize, 1024, 1025] {
        let conds: Vec<Sx> = (0..n).map(|i| cond(62, &[Sx::Atom(enc_u64(i as u64 + 1))])).collect();
        let out = output(&[spend(&P1, &PH1, 5, Sx::list(&conds))]);
        for f in all_rflags(&[false], false) {
            case(rep, &mut loc, env, "L4", "announce-cap", &out, f);
        }
    }
    for n in [5999usize, 6000, 6001] {
        let spends: Vec<Sx> = (0..n).map(|i| spend(&sha256(&[&(i as u64).to_be_bytes()]), &PH1, 1, Sx::nil())).collect();
        let out = output(&spends);
        for f in all_rflags(&[false, true], true).into_iter().filter(|f| !f.strict && !f.no_unknown) {
            case(rep, &mut loc, env, "L4", "spend-cap", &out, f);
        }
    }
    loc.flush(rep);
}

fn run(rep: &Report) {
    let env = drive::env();
    rep.set_rule("generator outputs in four layers x flag subsets of {NO_UNKNOWN_CONDS, STRICT_ARGS_COUNT, COST_CONDITIONS} x {EmptyVisitor, MempoolVisitor} (signatures not validated): L1 = one condition: 52 opcode atoms x every argument list of length <= 2 (quick) / <= 3 (thorough) over 27 universal letters x {nil, 01} terminator; L1m = SEND/RECEIVE x all 64 modes + 6 malformed modes x 3 message sizes x type-correct commitment with every single off-type substitution, missing/extra argument; L1i = 13 integer conditions x 20 integer atoms x {no extra arg, extra, nil extra}, CREATE_COIN x 3 puzzle hashes x 20 amounts x 11 memo shapes x tail x terminator, 20 spend amount atoms; L2 = spend A with every ordered list of <= 2 of the interaction letters, alone or with B (child, listed after or before A) / C (same puzzle hash) / D (double spend) carrying <= 1 letter (thorough: + every ordered triple over one representative letter per condition kind); L2x = a coin with parent id = puzzle hash messaging itself under every pair of source modes (mode bits are part of the commitment); L2s = every list of 1..2 (thorough: 3) spends over amount {0,1,1000,2^63,2^64-1} x RESERVE_FEE {none,1,5000,2^64-1} x CREATE_COINs {none; 1; 2^64-1; 2^64-1 twice; 2^64-1 twice + 1} (bundle totals and a single spend's outputs crossing 2^64); L2k = every ordered triple of locks inside each after/before family (82+86, 80+84, 83+87, 81+85; 6 values each); L3 = structural defects at the 5 list positions; L4 = 1023/1024/1025 announcements, 5999/6000/6001 spends with LIMIT_SPENDS. distinct = distinct accepted reference summaries under the empty flag set.");
    rep.assume("reference model mc::refcond implements DESIGN.md Appendix A; valid public keys are exactly the harness's three keys (other 48-byte letters are the infinity encoding and an off-curve string, self-checked at start)");
    rep.assume("only accept/reject, the canonical summary and the condition cost are compared, never error codes");
    let flags = all_rflags(&[false, true], false);
    layer1(rep, &env, &flags);
    layer1_messages(rep, &env, &flags);
    layer1_ints(rep, &env, &flags);
    // interactions: quick uses 4 representative flag sets, thorough all 16
    let l2flags: Vec<RFlags> = if rep.tier == mc::Tier::Quick {
        flags.iter().copied().filter(|f| matches!(rflags_name(*f).as_str(), "----b" | "USC-m" | "--C-b" | "-S--m")).collect()
    } else {
        flags.clone()
    };
    rep.extra("layer2_flag_sets", json!(l2flags.iter().map(|f| rflags_name(*f)).collect::<Vec<_>>()));
    layer2(rep, &env, &l2flags);
    layer2_mode_aliasing(rep, &env, &flags);
    layer2_totals(rep, &env, &l2flags);
    layer2_lock_triples(rep, &env, &l2flags);
    layer3(rep, &env, &flags);
    layer4(rep, &env);
}

fn replay(case: &Value) -> String {
    let env = drive::env();
    let bytes = hex::decode(case["output_hex"].as_str().unwrap()).unwrap();
    let out = Sx::parse(&bytes).expect("parse");
    let name = case["flags"].as_str().unwrap();
    let f = RFlags {
        no_unknown: name.contains('U'),
        strict: name.contains('S'),
        cost_conditions: name.contains('C'),
        limit_spends: name.contains('L'),
        mempool: name.ends_with('m'),
    };
    let r = ref_validate(&out, f, &env, &refcond::slot_cost);
    let real = catch(|| real_parse(&out, f, BIG_COST).map(|r| (r.summary, r.cost)));
    format!("output {out:?}\nflags {name}\nreference: {r:?}\nreal: {real:?}")
}

fn main() {
    mc::cli::main("C01", "exploration", run, replay)
}
