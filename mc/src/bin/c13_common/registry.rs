//! The hand-maintained list of streamable types: one line per type. `scan.rs` compares it with
//! the sources at run time and reports what is missing.

use super::*;
use arbitrary::Arbitrary;
use chia_bls::{G1Element, G2Element, GTElement, SecretKey};
use chia_consensus::consensus_constants::ConsensusConstants;
use chia_consensus::owned_conditions::{OwnedSpendBundleConditions, OwnedSpendConditions};
use chia_datalayer as dl;
use chia_protocol::*;

// ---------------------------------------------------------------------------------------------
// types that hold no version-packed struct
// ---------------------------------------------------------------------------------------------

leaf!(u8, i8, u16, i16, u32, i32, u64, i64, u128, i128, bool, (), String);
leaf!(Bytes, Bytes32, Bytes48, Bytes96, Bytes100, BytesImpl<4>, Program, G1Element, G2Element, GTElement, SecretKey);
leaf!(
    BlockRecord, Message, Handshake, ClassgroupElement, Coin, CoinRecord, CoinSpend, CoinState,
    EndOfSubSlotBundle, FeeRate, FeeEstimate, FeeEstimateGroup, TransactionsInfo,
    FoliageTransactionBlock, FoliageBlockData, Foliage, NewPeak, NewTransaction,
    RequestTransaction, RespondTransaction, RequestProofOfWeight, RequestBlock, RejectBlock,
    RequestBlocks, RejectBlocks, NewUnfinishedBlock, RequestUnfinishedBlock,
    NewSignagePointOrEndOfSubSlot, RequestSignagePointOrEndOfSubSlot, RespondSignagePoint,
    RespondEndOfSubSlot, RequestMempoolTransactions, NewCompactVDF, RequestCompactVDF,
    RespondCompactVDF, RequestPeers, RespondPeers, NewUnfinishedBlock2, RequestUnfinishedBlock2,
    PartialProof, TimestampedPeerInfo, PoolTarget, ChallengeChainSubSlot,
    InfusedChallengeChainSubSlot, RewardChainSubSlot, SubSlotProofs, SpendBundle, SubEpochSummary,
    VDFInfo, VDFProof, RequestPuzzleSolution, PuzzleSolutionResponse, RespondPuzzleSolution,
    RejectPuzzleSolution, SendTransaction, TransactionAck, NewPeakWallet, RequestBlockHeader,
    RejectHeaderRequest, RequestRemovals, RespondRemovals, RejectRemovalsRequest,
    RequestAdditions, RespondAdditions, RejectAdditionsRequest, RejectBlockHeaders,
    RequestBlockHeaders, RequestHeaderBlocks, RejectHeaderBlocks, RegisterForPhUpdates,
    RespondToPhUpdates, RegisterForCoinUpdates, RespondToCoinUpdates, CoinStateUpdate,
    RequestChildren, RespondChildren, RequestSesInfo, RespondSesInfo, RequestFeeEstimates,
    RespondFeeEstimates, RequestRemovePuzzleSubscriptions, RespondRemovePuzzleSubscriptions,
    RequestRemoveCoinSubscriptions, RespondRemoveCoinSubscriptions, CoinStateFilters,
    RequestPuzzleState, RespondPuzzleState, RejectPuzzleState, RequestCoinState,
    RespondCoinState, RejectCoinState, RemovedMempoolItem, MempoolItemsAdded,
    MempoolItemsRemoved, RequestCostInfo, RespondCostInfo, SubEpochData,
    ProtocolMessageTypes, NodeType, RejectStateReason, MempoolRemoveReason
);
leaf!(OwnedSpendConditions, OwnedSpendBundleConditions, ConsensusConstants);
leaf!(
    dl::TreeIndex, dl::Parent, dl::Hash, dl::KeyId, dl::ValueId, dl::NodeType, dl::NodeMetadata,
    dl::InternalNode, dl::LeafNode, dl::ProofOfInclusionLayer, dl::ProofOfInclusion, dl::Side
);

// ---------------------------------------------------------------------------------------------
// builders
// ---------------------------------------------------------------------------------------------

fn arb<T: for<'a> Arbitrary<'a>>(u: &mut Unstructured) -> arbitrary::Result<T> {
    T::arbitrary(u)
}

fn zero<T: for<'a> Arbitrary<'a>>() -> T {
    T::arbitrary(&mut Unstructured::new(&[0u8; 0])).expect("zero tape value")
}

fn none<T>() -> Vec<Letter<T>> {
    Vec::new()
}

type R<T> = arbitrary::Result<T>;

fn mk_gt(u: &mut Unstructured) -> R<GTElement> {
    let mut b = [0u8; 576];
    u.fill_buffer(&mut b)?;
    Ok(GTElement::from_bytes(&b))
}

fn mk_osc(u: &mut Unstructured) -> R<OwnedSpendConditions> {
    Ok(OwnedSpendConditions {
        coin_id: u.arbitrary()?,
        parent_id: u.arbitrary()?,
        puzzle_hash: u.arbitrary()?,
        coin_amount: u.arbitrary()?,
        height_relative: u.arbitrary()?,
        seconds_relative: u.arbitrary()?,
        before_height_relative: u.arbitrary()?,
        before_seconds_relative: u.arbitrary()?,
        birth_height: u.arbitrary()?,
        birth_seconds: u.arbitrary()?,
        create_coin: u.arbitrary()?,
        agg_sig_me: u.arbitrary()?,
        agg_sig_parent: u.arbitrary()?,
        agg_sig_puzzle: u.arbitrary()?,
        agg_sig_amount: u.arbitrary()?,
        agg_sig_puzzle_amount: u.arbitrary()?,
        agg_sig_parent_amount: u.arbitrary()?,
        agg_sig_parent_puzzle: u.arbitrary()?,
        flags: u.arbitrary()?,
        execution_cost: u.arbitrary()?,
        condition_cost: u.arbitrary()?,
        fingerprint: u.arbitrary()?,
    })
}

fn mk_osbc(u: &mut Unstructured) -> R<OwnedSpendBundleConditions> {
    // spends: same continue-flag scheme as arbitrary's Vec
    let mut spends = Vec::new();
    while u.arbitrary::<bool>()? {
        spends.push(mk_osc(u)?);
        if spends.len() >= 4 {
            break;
        }
    }
    Ok(OwnedSpendBundleConditions {
        spends,
        reserve_fee: u.arbitrary()?,
        height_absolute: u.arbitrary()?,
        seconds_absolute: u.arbitrary()?,
        before_height_absolute: u.arbitrary()?,
        before_seconds_absolute: u.arbitrary()?,
        agg_sig_unsafe: u.arbitrary()?,
        cost: u.arbitrary()?,
        removal_amount: u.arbitrary()?,
        addition_amount: u.arbitrary()?,
        validated_signature: u.arbitrary()?,
        execution_cost: u.arbitrary()?,
        condition_cost: u.arbitrary()?,
        num_atoms: u.arbitrary()?,
        num_pairs: u.arbitrary()?,
        heap_size: u.arbitrary()?,
    })
}

fn mk_constants(u: &mut Unstructured) -> R<ConsensusConstants> {
    Ok(ConsensusConstants {
        slot_blocks_target: u.arbitrary()?,
        min_blocks_per_challenge_block: u.arbitrary()?,
        max_sub_slot_blocks: u.arbitrary()?,
        num_sps_sub_slot: u.arbitrary()?,
        sub_slot_iters_starting: u.arbitrary()?,
        difficulty_constant_factor: u.arbitrary()?,
        difficulty_starting: u.arbitrary()?,
        difficulty_change_max_factor: u.arbitrary()?,
        sub_epoch_blocks: u.arbitrary()?,
        epoch_blocks: u.arbitrary()?,
        significant_bits: u.arbitrary()?,
        discriminant_size_bits: u.arbitrary()?,
        number_zero_bits_plot_filter_v1: u.arbitrary()?,
        number_zero_bits_plot_filter_v2: u.arbitrary()?,
        min_plot_size_v1: u.arbitrary()?,
        max_plot_size_v1: u.arbitrary()?,
        plot_size_v2: u.arbitrary()?,
        sub_slot_time_target: u.arbitrary()?,
        num_sp_intervals_extra: u.arbitrary()?,
        max_future_time2: u.arbitrary()?,
        number_of_timestamps: u.arbitrary()?,
        genesis_challenge: u.arbitrary()?,
        agg_sig_me_additional_data: u.arbitrary()?,
        agg_sig_parent_additional_data: u.arbitrary()?,
        agg_sig_puzzle_additional_data: u.arbitrary()?,
        agg_sig_amount_additional_data: u.arbitrary()?,
        agg_sig_puzzle_amount_additional_data: u.arbitrary()?,
        agg_sig_parent_amount_additional_data: u.arbitrary()?,
        agg_sig_parent_puzzle_additional_data: u.arbitrary()?,
        genesis_pre_farm_pool_puzzle_hash: u.arbitrary()?,
        genesis_pre_farm_farmer_puzzle_hash: u.arbitrary()?,
        max_vdf_witness_size: u.arbitrary()?,
        mempool_block_buffer: u.arbitrary()?,
        max_coin_amount: u.arbitrary()?,
        max_block_cost_clvm: u.arbitrary()?,
        cost_per_byte: u.arbitrary()?,
        weight_proof_threshold: u.arbitrary()?,
        weight_proof_recent_blocks: u.arbitrary()?,
        max_block_count_per_requests: u.arbitrary()?,
        blocks_cache_size: u.arbitrary()?,
        max_generator_ref_list_size: u.arbitrary()?,
        pool_sub_slot_iters: u.arbitrary()?,
        hard_fork_height: u.arbitrary()?,
        hard_fork2_height: u.arbitrary()?,
        soft_fork8_height: u.arbitrary()?,
        soft_fork9_height: u.arbitrary()?,
        plot_v1_phase_out_epoch_bits: u.arbitrary()?,
        plot_filter_128_height: u.arbitrary()?,
        plot_filter_64_height: u.arbitrary()?,
        plot_filter_32_height: u.arbitrary()?,
        min_plot_strength: u.arbitrary()?,
        max_plot_strength: u.arbitrary()?,
        plot_filter_v2_first_adjustment_height: u.arbitrary()?,
        plot_filter_v2_second_adjustment_height: u.arbitrary()?,
        plot_filter_v2_third_adjustment_height: u.arbitrary()?,
        testnet: u.arbitrary()?,
    })
}

// chia-datalayer (no Arbitrary available): hand-written builders over the same tape
fn mk_tree_index(u: &mut Unstructured) -> R<dl::TreeIndex> {
    Ok(dl::TreeIndex(u.arbitrary()?))
}
fn mk_parent(u: &mut Unstructured) -> R<dl::Parent> {
    Ok(dl::Parent(if u.arbitrary::<bool>()? { Some(mk_tree_index(u)?) } else { None }))
}
fn mk_dl_hash(u: &mut Unstructured) -> R<dl::Hash> {
    Ok(dl::Hash(u.arbitrary()?))
}
fn mk_key_id(u: &mut Unstructured) -> R<dl::KeyId> {
    Ok(dl::KeyId(u.arbitrary()?))
}
fn mk_value_id(u: &mut Unstructured) -> R<dl::ValueId> {
    Ok(dl::ValueId(u.arbitrary()?))
}
fn mk_dl_node_type(u: &mut Unstructured) -> R<dl::NodeType> {
    Ok(if u.arbitrary::<bool>()? { dl::NodeType::Leaf } else { dl::NodeType::Internal })
}
fn mk_side(u: &mut Unstructured) -> R<dl::Side> {
    Ok(if u.arbitrary::<bool>()? { dl::Side::Right } else { dl::Side::Left })
}
fn mk_node_metadata(u: &mut Unstructured) -> R<dl::NodeMetadata> {
    Ok(dl::NodeMetadata { node_type: mk_dl_node_type(u)?, dirty: u.arbitrary()? })
}
fn mk_internal_node(u: &mut Unstructured) -> R<dl::InternalNode> {
    Ok(dl::InternalNode { hash: mk_dl_hash(u)?, parent: mk_parent(u)?, left: mk_tree_index(u)?, right: mk_tree_index(u)? })
}
fn mk_leaf_node(u: &mut Unstructured) -> R<dl::LeafNode> {
    Ok(dl::LeafNode { hash: mk_dl_hash(u)?, parent: mk_parent(u)?, key: mk_key_id(u)?, value: mk_value_id(u)? })
}
fn mk_poi_layer(u: &mut Unstructured) -> R<dl::ProofOfInclusionLayer> {
    Ok(dl::ProofOfInclusionLayer { other_hash_side: mk_side(u)?, other_hash: mk_dl_hash(u)?, combined_hash: mk_dl_hash(u)? })
}
fn mk_poi(u: &mut Unstructured) -> R<dl::ProofOfInclusion> {
    let node_hash = mk_dl_hash(u)?;
    let mut layers = Vec::new();
    while u.arbitrary::<bool>()? {
        layers.push(mk_poi_layer(u)?);
        if layers.len() >= 4 {
            break;
        }
    }
    Ok(dl::ProofOfInclusion { node_hash, layers })
}

// ---------------------------------------------------------------------------------------------
// hand-written letters
// ---------------------------------------------------------------------------------------------

pub const QUALITY_VECTORS: [&str; 7] = ["pool-2-0-0", "contract-2-0-0", "contract-3-0-0", "pool-3-0-0", "pool-2-1-0", "pool-2-0-1", "pool-2-1000-7"];
const QUALITY_DIR: &str = "/repo/crates/chia-protocol/quality-string-tests";
/// plot public key of the recorded proofs (proof_of_space.rs, test_quality_string)
const QUALITY_PLOT_PK: &str = "a9c96f979d895b9ded08907ecd775abf889d51219bb7776dd73fdbac6b0dcc063c72c9e10d96776f486bbd1416b54533";

fn g1_from_hex(h: &str) -> G1Element {
    let b: [u8; 48] = hex::decode(h).expect("hex").try_into().expect("48 bytes");
    G1Element::from_bytes(&b).expect("valid G1")
}

/// a recorded valid version-2 proof of space and its recorded quality string
pub fn quality_vector(name: &str) -> Option<(ProofOfSpace, [u8; 32])> {
    let txt = std::fs::read_to_string(format!("{QUALITY_DIR}/{name}.txt")).ok()?;
    let l: Vec<&str> = txt.lines().map(|line| line.split('#').next().unwrap_or(line).trim()).filter(|s| !s.is_empty()).collect();
    if l.len() != 7 {
        return None;
    }
    let challenge: [u8; 32] = hex::decode(l[0]).ok()?.try_into().ok()?;
    let strength: u8 = l[1].parse().ok()?;
    let plot_index: u16 = l[2].parse().ok()?;
    let meta_group: u8 = l[3].parse().ok()?;
    let (pk, ph) = if l[4].len() == 96 {
        (Some(g1_from_hex(l[4])), None)
    } else {
        let ph: [u8; 32] = hex::decode(l[4]).ok()?.try_into().ok()?;
        (None, Some(Bytes32::new(ph)))
    };
    let proof = hex::decode(l[5]).ok()?;
    let q: [u8; 32] = hex::decode(l[6]).ok()?.try_into().ok()?;
    Some((
        ProofOfSpace::new(Bytes32::new(challenge), pk, ph, g1_from_hex(QUALITY_PLOT_PK), 1, plot_index, meta_group, strength, 0, Bytes::from(proof)),
        q,
    ))
}

fn v2_pos() -> ProofOfSpace {
    quality_vector("pool-2-0-0").expect("quality vector pool-2-0-0").0
}

fn v1_pos(pk: bool, ph: bool, size: u8, proof: &[u8]) -> ProofOfSpace {
    ProofOfSpace::new(
        Bytes32::new([0x11; 32]),
        pk.then(G1Element::default),
        ph.then(|| Bytes32::new([0x22; 32])),
        G1Element::default(),
        0,
        0,
        0,
        0,
        size,
        Bytes::from(proof.to_vec()),
    )
}

fn pos_letters() -> Vec<Letter<ProofOfSpace>> {
    let mut out = vec![
        letter("v1 pool-pk", v1_pos(true, false, 32, &[0x80])),
        letter("v1 contract", v1_pos(false, true, 28, &[1, 2, 3])),
        letter("v1 both", v1_pos(true, true, 38, &[])),
        letter("v1 neither", v1_pos(false, false, 10, &[0xff; 8])),
    ];
    for n in QUALITY_VECTORS {
        if let Some((p, _)) = quality_vector(n) {
            out.push(letter(&format!("v2 {n}"), p));
        }
    }
    out
}

fn pos_raw() -> Vec<(&'static str, Vec<u8>)> {
    // what a Rust-constructed version-2 proof with both / neither of pool key and contract hash
    // serializes to: the parser must reject both
    let mut out = Vec::new();
    let mut both = v2_pos();
    both.pool_contract_puzzle_hash = Some(Bytes32::new([0x33; 32]));
    if let Ok(e) = Streamable::to_bytes(&both) {
        out.push(("v2, pool key and contract hash both present", e));
    }
    let mut neither = v2_pos();
    neither.pool_public_key = None;
    if let Ok(e) = Streamable::to_bytes(&neither) {
        out.push(("v2, neither pool key nor contract hash", e));
    }
    out
}

fn deep_program(n: usize) -> Program {
    let mut b = vec![0xffu8; n];
    b.extend(std::iter::repeat(0x80u8).take(n + 1));
    Program::new(b.into())
}

fn program_letters() -> Vec<Letter<Program>> {
    vec![
        letter("nil", Program::new(vec![0x80].into())),
        letter("atom 01", Program::new(vec![0x01].into())),
        letter("pair", Program::new(vec![0xff, 0x01, 0x80].into())),
        letter("atom abc", Program::new(vec![0x83, 0x61, 0x62, 0x63].into())),
        letter("atom 64 bytes", Program::new([vec![0xc0, 0x40], vec![0x5a; 64]].concat().into())),
        letter("list of 3", Program::new(vec![0xff, 0x01, 0xff, 0x02, 0xff, 0x03, 0x80].into())),
        letter("left spine 200", deep_program(200)),
    ]
}

fn program_raw() -> Vec<(&'static str, Vec<u8>)> {
    let mut unterminated = vec![0xffu8; 100_000];
    unterminated.push(0x01);
    vec![
        ("1e5 x ff, nothing else", vec![0xffu8; 100_000]),
        ("1e5 x ff then one atom", unterminated),
        ("left spine 1e5 deep, complete", deep_program(100_000).as_slice().to_vec()),
        ("back reference fe 02 inside a pair", vec![0xff, 0x01, 0xfe, 0x02]),
        ("back reference alone", vec![0xfe, 0x01]),
        ("back reference with long path", [vec![0xff, 0x01, 0xfe, 0xc0, 0x40], vec![0x01; 64]].concat()),
        ("atom prefix 81 00 (over-long form of a single byte)", vec![0x81, 0x00]),
        ("atom prefix c0 00 (2-byte length 0)", vec![0xc0, 0x00]),
        ("atom prefix e0 00 00 (3-byte length 0)", vec![0xe0, 0x00, 0x00]),
        ("atom prefix f0 00 00 01 61", vec![0xf0, 0x00, 0x00, 0x01, 0x61]),
        ("atom prefix f8 00 00 00 01 61", vec![0xf8, 0x00, 0x00, 0x00, 0x01, 0x61]),
        ("atom prefix fb ff ff ff ff ff (2^34 bytes announced)", vec![0xfb, 0xff, 0xff, 0xff, 0xff, 0xff]),
        ("atom prefix fc 80 00 00 00 00 00", vec![0xfc, 0x80, 0, 0, 0, 0, 0]),
        ("atom prefix fd", vec![0xfd, 0xff, 0xff, 0xff, 0xff, 0xff, 0xff, 0xff]),
        ("atom length bf ff, 3 bytes present", vec![0xbf, 0xff, 1, 2, 3]),
        ("two atoms", vec![0x01, 0x02]),
        ("empty", vec![]),
    ]
}

fn block_tail_letters<T: Clone>(base: &T, set: fn(&mut T, Option<Program>, Vec<u32>, Option<Vec<u8>>, u8), with_pos: fn(&mut T, ProofOfSpace)) -> Vec<Letter<T>> {
    let mk = |label: &str, g: Option<Program>, refs: Vec<u32>, buf: Option<Vec<u8>>, ver: u8| {
        let mut b = base.clone();
        set(&mut b, g, refs, buf, ver);
        letter(label, b)
    };
    let mut out = vec![
        mk("v0 no generator", None, vec![], None, 0),
        mk("v0 no generator, refs", None, vec![7, 0xffff_ffff], None, 0),
        mk("v0 generator", Some(Program::new(vec![0xff, 0x01, 0x80].into())), vec![], None, 0),
        mk("v0 generator, refs", Some(Program::new(vec![0x80].into())), vec![1, 2, 3], None, 0),
        mk("v0 generator left spine 1000", Some(deep_program(1000)), vec![], None, 0),
        mk("v1 no buffer", None, vec![], None, 1),
        mk("v1 empty buffer", None, vec![], Some(vec![]), 1),
        mk("v1 buffer 3 bytes", None, vec![], Some(vec![0xff, 0x01, 0x80]), 1),
        mk("v1 buffer not clvm", None, vec![], Some(vec![0xfe, 0xfe, 0xfe, 0xfe, 0xfe]), 1),
    ];
    let mut b = base.clone();
    with_pos(&mut b, v2_pos());
    out.push(letter("v0 no generator, v2 proof of space", b.clone()));
    set(&mut b, None, vec![], Some(vec![1, 2, 3, 4]), 1);
    out.push(letter("v1 buffer, v2 proof of space", b));
    out
}

fn fullblock_letters() -> Vec<Letter<FullBlock>> {
    block_tail_letters::<FullBlock>(
        &zero(),
        |b, g, r, buf, v| {
            b.transactions_generator = g;
            b.transactions_generator_ref_list = r;
            b.transactions_generator_buffer = buf;
            b.version = v;
        },
        |b, p| b.reward_chain_block.proof_of_space = p,
    )
}

fn unfinished_letters() -> Vec<Letter<UnfinishedBlock>> {
    block_tail_letters::<UnfinishedBlock>(
        &zero(),
        |b, g, r, buf, v| {
            b.transactions_generator = g;
            b.transactions_generator_ref_list = r;
            b.transactions_generator_buffer = buf;
            b.version = v;
        },
        |b, p| b.reward_chain_block.proof_of_space = p,
    )
}

fn fullblock_raw() -> Vec<(&'static str, Vec<u8>)> {
    let mut out = Vec::new();
    let mut b: FullBlock = zero();
    b.transactions_generator = Some(deep_program(100_000));
    if let Ok(e) = Streamable::to_bytes(&b) {
        out.push(("v0, generator left spine 1e5 deep", e));
    }
    let mut b: FullBlock = zero();
    b.version = 1;
    b.transactions_generator_buffer = Some(vec![0u8; 1 << 20]);
    if let Ok(e) = Streamable::to_bytes(&b) {
        out.push(("v1, 1 MiB buffer", e));
    }
    out
}

fn ses_letters() -> Vec<Letter<SubEpochSummary>> {
    let mut out = Vec::new();
    for (a, b) in [(false, false), (true, false), (false, true), (true, true)] {
        out.push(letter(
            &format!("iters {a} merkle {b}"),
            SubEpochSummary::new(Bytes32::new([1; 32]), Bytes32::new([2; 32]), 3, Some(4), a.then_some(5), b.then(|| Bytes32::new([6; 32]))),
        ));
    }
    out
}

fn sed_letters() -> Vec<Letter<SubEpochData>> {
    let mut out = Vec::new();
    for (a, b) in [(false, false), (true, false), (false, true), (true, true)] {
        out.push(letter(
            &format!("difficulty {a} merkle {b}"),
            SubEpochData::new(Bytes32::new([2; 32]), 3, Some(4), a.then_some(5), b.then(|| Bytes32::new([6; 32]))),
        ));
    }
    out
}

fn rcb_letters() -> Vec<Letter<RewardChainBlock>> {
    let base: RewardChainBlock = zero();
    let mut out = Vec::new();
    for (a, b) in [(false, false), (true, false), (false, true), (true, true)] {
        let mut v = base.clone();
        v.infused_challenge_chain_ip_vdf = a.then(|| VDFInfo::new(Bytes32::new([7; 32]), 9, ClassgroupElement::default()));
        v.header_mmr_root = b.then(|| Bytes32::new([8; 32]));
        v.is_transaction_block = a ^ b;
        out.push(letter(&format!("icc vdf {a} mmr root {b}"), v));
    }
    let mut v = base;
    v.proof_of_space = v2_pos();
    out.push(letter("v2 proof of space", v));
    out
}

fn rcbu_letters() -> Vec<Letter<RewardChainBlockUnfinished>> {
    let mut v: RewardChainBlockUnfinished = zero();
    v.proof_of_space = v2_pos();
    vec![letter("v2 proof of space", v)]
}
fn cbi_letters() -> Vec<Letter<ChallengeBlockInfo>> {
    let mut v: ChallengeBlockInfo = zero();
    v.proof_of_space = v2_pos();
    vec![letter("v2 proof of space", v)]
}
fn header_block_letters() -> Vec<Letter<HeaderBlock>> {
    let mut v: HeaderBlock = zero();
    v.reward_chain_block.proof_of_space = v2_pos();
    vec![letter("v2 proof of space", v)]
}
fn ssd_letters() -> Vec<Letter<SubSlotData>> {
    let mut v: SubSlotData = zero();
    v.proof_of_space = Some(v2_pos());
    let mut w: SubSlotData = zero();
    w.proof_of_space = Some(v1_pos(true, false, 32, &[1]));
    vec![letter("v2 proof of space", v), letter("v1 proof of space", w)]
}
fn respond_blocks_letters() -> Vec<Letter<RespondBlocks>> {
    let mut v1: FullBlock = zero();
    v1.version = 1;
    v1.transactions_generator_buffer = Some(vec![9, 9]);
    let mut v: RespondBlocks = zero();
    v.blocks = vec![zero(), v1];
    vec![letter("one v0 block, one v1 block", v)]
}

fn string_letters() -> Vec<Letter<String>> {
    vec![letter("empty", String::new()), letter("abc", "abc".to_string()), letter("utf8", "åäöüî".to_string())]
}
fn string_raw() -> Vec<(&'static str, Vec<u8>)> {
    vec![("invalid utf-8", vec![0, 0, 0, 2, 0xc3, 0x00]), ("lone continuation byte", vec![0, 0, 0, 1, 0x80]), ("overlong nul", vec![0, 0, 0, 2, 0xc0, 0x80])]
}

fn vec_u32_raw() -> Vec<(&'static str, Vec<u8>)> {
    vec![("length 2^32-1, no elements", vec![0xff; 4]), ("length 2^21+1, one element", vec![0, 0x20, 0, 1, 0, 0, 0, 0])]
}
fn vec3_raw() -> Vec<(&'static str, Vec<u8>)> {
    let f = [0xffu8; 4];
    let one = [0u8, 0, 0, 1];
    vec![
        ("ffffffff at level 1", f.to_vec()),
        ("ffffffff at level 2", [one, f].concat()),
        ("ffffffff at level 3", [one, one, f].concat()),
        ("2^21+1 at every level", [[0u8, 0x20, 0, 1]; 3].concat()),
    ]
}
fn g1_raw() -> Vec<(&'static str, Vec<u8>)> {
    let with = |first: u8, rest: u8| {
        let mut v = vec![rest; 48];
        v[0] = first;
        v
    };
    vec![
        ("identity", with(0xc0, 0)),
        ("identity with sign bit", with(0xe0, 0)),
        ("identity flag, non-zero tail", with(0xc0, 1)),
        ("compressed flag, all zero", with(0x80, 0)),
        ("no compression flag", with(0x00, 0)),
        ("all ff", with(0xff, 0xff)),
        ("x = p - 1 region", with(0x9a, 0xff)),
    ]
    .into_iter()
    .chain(small_x(48))
    .collect()
}
/// compressed encodings with a tiny x coordinate, both sign flags: about half are points of the curve
/// and essentially none lies in the prime-order subgroup, i.e. inputs on which only the checked
/// (untrusted) decoder may refuse
fn small_x(len: usize) -> Vec<(&'static str, Vec<u8>)> {
    const NAMES: [&str; 16] = [
        "small x=1 +", "small x=1 -", "small x=2 +", "small x=2 -", "small x=3 +", "small x=3 -", "small x=4 +", "small x=4 -",
        "small x=5 +", "small x=5 -", "small x=6 +", "small x=6 -", "small x=7 +", "small x=7 -", "small x=8 +", "small x=8 -",
    ];
    (0..16)
        .map(|i| {
            let mut v = vec![0u8; len];
            v[0] = if i % 2 == 0 { 0x80 } else { 0xa0 };
            v[len - 1] = (i / 2 + 1) as u8;
            (NAMES[i], v)
        })
        .collect()
}
fn g2_raw() -> Vec<(&'static str, Vec<u8>)> {
    let with = |first: u8, rest: u8| {
        let mut v = vec![rest; 96];
        v[0] = first;
        v
    };
    vec![
        ("identity", with(0xc0, 0)),
        ("identity with sign bit", with(0xe0, 0)),
        ("identity flag, non-zero tail", with(0xc0, 1)),
        ("compressed flag, all zero", with(0x80, 0)),
        ("no compression flag", with(0x00, 0)),
        ("all ff", with(0xff, 0xff)),
    ]
    .into_iter()
    .chain(small_x(96))
    .collect()
}
fn sk_raw() -> Vec<(&'static str, Vec<u8>)> {
    // group order r of BLS12-381 and its neighbours
    let r = hex::decode("73eda753299d7d483339d80809a1d80553bda402fffe5bfeffffffff00000001").unwrap();
    let mut rm1 = r.clone();
    rm1[31] = 0;
    let mut rp1 = r.clone();
    rp1[31] = 2;
    vec![("zero", vec![0; 32]), ("group order", r), ("group order - 1", rm1), ("group order + 1", rp1), ("all ff", vec![0xff; 32])]
}

// ---------------------------------------------------------------------------------------------
// the list
// ---------------------------------------------------------------------------------------------

macro_rules! entry {
    ($name:expr, $krate:expr, $src:expr, $t:ty, $gen:expr, $letters:expr, $raw:expr) => {
        TypeEntry {
            name: $name,
            krate: $krate,
            src: $src,
            values: |cfg| values_of::<$t>($name, cfg, $gen, $letters),
            probe: probe::<$t>,
            replay_value: |c| replay_value::<$t>($name, $gen, $letters, c),
            raw: $raw,
        }
    };
}
/// chia-protocol struct / enum with a derived Arbitrary
macro_rules! p {
    ($t:ident) => {
        entry!(stringify!($t), "chia-protocol", stringify!($t), $t, arb::<$t>, none::<$t>, no_raw)
    };
    ($t:ident, $letters:expr) => {
        entry!(stringify!($t), "chia-protocol", stringify!($t), $t, arb::<$t>, $letters, no_raw)
    };
    ($t:ident, $letters:expr, $raw:expr) => {
        entry!(stringify!($t), "chia-protocol", stringify!($t), $t, arb::<$t>, $letters, $raw)
    };
}
/// instantiation of a chia-traits primitive / combinator
macro_rules! c {
    ($name:expr, $src:expr, $t:ty) => {
        entry!($name, "chia-traits", $src, $t, arb::<$t>, none::<$t>, no_raw)
    };
    ($name:expr, $src:expr, $t:ty, $raw:expr) => {
        entry!($name, "chia-traits", $src, $t, arb::<$t>, none::<$t>, $raw)
    };
}
macro_rules! d {
    ($name:expr, $src:expr, $t:ty, $gen:expr) => {
        entry!($name, "chia-datalayer", $src, $t, $gen, none::<$t>, no_raw)
    };
}

pub fn registry() -> Vec<TypeEntry> {
    vec![
        // chia-traits: primitives and combinators
        c!("u8", "u8", u8),
        c!("i8", "i8", i8),
        c!("u16", "u16", u16),
        c!("i16", "i16", i16),
        c!("u32", "u32", u32),
        c!("i32", "i32", i32),
        c!("u64", "u64", u64),
        c!("i64", "i64", i64),
        c!("u128", "u128", u128),
        c!("i128", "i128", i128),
        c!("bool", "bool", bool),
        c!("()", "unit", ()),
        entry!("String", "chia-traits", "String", String, arb::<String>, string_letters, string_raw),
        c!("Option<u32>", "Option", Option<u32>),
        c!("Option<Option<bool>>", "", Option<Option<bool>>),
        c!("Vec<u32>", "Vec", Vec<u32>, vec_u32_raw),
        c!("Vec<Vec<Vec<u32>>>", "", Vec<Vec<Vec<u32>>>, vec3_raw),
        c!("Vec<Option<String>>", "", Vec<Option<String>>),
        c!("(u8, u32)", "tuple2", (u8, u32)),
        c!("(u32, bool, i8)", "tuple3", (u32, bool, i8)),
        c!("(u8, Option<u16>, Vec<u8>, bool)", "tuple4", (u8, Option<u16>, Vec<u8>, bool)),
        c!("[u16; 3]", "array", [u16; 3]),
        c!("Vec<(Bytes32, Vec<Coin>)>", "", Vec<(Bytes32, Vec<Coin>)>),
        // chia-protocol: byte strings and CLVM programs
        entry!("Bytes", "chia-protocol", "Bytes", Bytes, arb::<Bytes>, none::<Bytes>, vec_u32_raw),
        entry!("Bytes32", "chia-protocol", "BytesImpl", Bytes32, arb::<Bytes32>, none::<Bytes32>, no_raw),
        entry!("BytesImpl<4>", "chia-protocol", "", BytesImpl<4>, arb::<BytesImpl<4>>, none::<BytesImpl<4>>, no_raw),
        entry!("Bytes100", "chia-protocol", "", Bytes100, arb::<Bytes100>, none::<Bytes100>, no_raw),
        entry!("Program", "chia-protocol", "Program", Program, arb::<Program>, program_letters, program_raw),
        // chia-bls
        entry!("G1Element", "chia-bls", "PublicKey", G1Element, arb::<G1Element>, none::<G1Element>, g1_raw),
        entry!("G2Element", "chia-bls", "Signature", G2Element, arb::<G2Element>, none::<G2Element>, g2_raw),
        entry!("SecretKey", "chia-bls", "SecretKey", SecretKey, arb::<SecretKey>, none::<SecretKey>, sk_raw),
        entry!("GTElement", "chia-bls", "GTElement", GTElement, mk_gt, none::<GTElement>, no_raw),
        // chia-protocol: hand-written codecs
        p!(ProofOfSpace, pos_letters, pos_raw),
        p!(FullBlock, fullblock_letters, fullblock_raw),
        p!(UnfinishedBlock, unfinished_letters),
        p!(SubEpochSummary, ses_letters),
        p!(SubEpochData, sed_letters),
        p!(RewardChainBlock, rcb_letters),
        // chia-protocol: derived codecs
        p!(RewardChainBlockUnfinished, rcbu_letters),
        p!(ChallengeBlockInfo, cbi_letters),
        p!(HeaderBlock, header_block_letters),
        p!(SubSlotData, ssd_letters),
        p!(RespondBlocks, respond_blocks_letters),
        p!(BlockRecord),
        p!(Message),
        p!(Handshake),
        p!(ClassgroupElement),
        p!(Coin),
        p!(CoinRecord),
        p!(CoinSpend),
        p!(CoinState),
        p!(EndOfSubSlotBundle),
        p!(FeeRate),
        p!(FeeEstimate),
        p!(FeeEstimateGroup),
        p!(TransactionsInfo),
        p!(FoliageTransactionBlock),
        p!(FoliageBlockData),
        p!(Foliage),
        p!(NewPeak),
        p!(NewTransaction),
        p!(RequestTransaction),
        p!(RespondTransaction),
        p!(RequestProofOfWeight),
        p!(RespondProofOfWeight),
        p!(RequestBlock),
        p!(RejectBlock),
        p!(RequestBlocks),
        p!(RejectBlocks),
        p!(RespondBlock),
        p!(NewUnfinishedBlock),
        p!(RequestUnfinishedBlock),
        p!(RespondUnfinishedBlock),
        p!(NewSignagePointOrEndOfSubSlot),
        p!(RequestSignagePointOrEndOfSubSlot),
        p!(RespondSignagePoint),
        p!(RespondEndOfSubSlot),
        p!(RequestMempoolTransactions),
        p!(NewCompactVDF),
        p!(RequestCompactVDF),
        p!(RespondCompactVDF),
        p!(RequestPeers),
        p!(RespondPeers),
        p!(NewUnfinishedBlock2),
        p!(RequestUnfinishedBlock2),
        p!(PartialProof),
        p!(TimestampedPeerInfo),
        p!(PoolTarget),
        p!(ChallengeChainSubSlot),
        p!(InfusedChallengeChainSubSlot),
        p!(RewardChainSubSlot),
        p!(SubSlotProofs),
        p!(SpendBundle),
        p!(UnfinishedHeaderBlock),
        p!(VDFInfo),
        p!(VDFProof),
        p!(RequestPuzzleSolution),
        p!(PuzzleSolutionResponse),
        p!(RespondPuzzleSolution),
        p!(RejectPuzzleSolution),
        p!(SendTransaction),
        p!(TransactionAck),
        p!(NewPeakWallet),
        p!(RequestBlockHeader),
        p!(RespondBlockHeader),
        p!(RejectHeaderRequest),
        p!(RequestRemovals),
        p!(RespondRemovals),
        p!(RejectRemovalsRequest),
        p!(RequestAdditions),
        p!(RespondAdditions),
        p!(RejectAdditionsRequest),
        p!(RespondBlockHeaders),
        p!(RejectBlockHeaders),
        p!(RequestBlockHeaders),
        p!(RequestHeaderBlocks),
        p!(RejectHeaderBlocks),
        p!(RespondHeaderBlocks),
        p!(RegisterForPhUpdates),
        p!(RespondToPhUpdates),
        p!(RegisterForCoinUpdates),
        p!(RespondToCoinUpdates),
        p!(CoinStateUpdate),
        p!(RequestChildren),
        p!(RespondChildren),
        p!(RequestSesInfo),
        p!(RespondSesInfo),
        p!(RequestFeeEstimates),
        p!(RespondFeeEstimates),
        p!(RequestRemovePuzzleSubscriptions),
        p!(RespondRemovePuzzleSubscriptions),
        p!(RequestRemoveCoinSubscriptions),
        p!(RespondRemoveCoinSubscriptions),
        p!(CoinStateFilters),
        p!(RequestPuzzleState),
        p!(RespondPuzzleState),
        p!(RejectPuzzleState),
        p!(RequestCoinState),
        p!(RespondCoinState),
        p!(RejectCoinState),
        p!(RemovedMempoolItem),
        p!(MempoolItemsAdded),
        p!(MempoolItemsRemoved),
        p!(RequestCostInfo),
        p!(RespondCostInfo),
        p!(SubEpochChallengeSegment),
        p!(SubEpochSegments),
        p!(RecentChainData),
        p!(ProofBlockHeader),
        p!(WeightProof),
        p!(ProtocolMessageTypes),
        p!(NodeType),
        p!(RejectStateReason),
        p!(MempoolRemoveReason),
        // chia-consensus (no Arbitrary feature): hand-written builders
        entry!("OwnedSpendConditions", "chia-consensus", "OwnedSpendConditions", OwnedSpendConditions, mk_osc, none::<OwnedSpendConditions>, no_raw),
        entry!("OwnedSpendBundleConditions", "chia-consensus", "OwnedSpendBundleConditions", OwnedSpendBundleConditions, mk_osbc, none::<OwnedSpendBundleConditions>, no_raw),
        entry!("ConsensusConstants", "chia-consensus", "ConsensusConstants", ConsensusConstants, mk_constants, none::<ConsensusConstants>, no_raw),
        // chia-datalayer (Arbitrary feature unavailable): hand-written builders
        d!("datalayer TreeIndex", "TreeIndex", dl::TreeIndex, mk_tree_index),
        d!("datalayer Parent", "Parent", dl::Parent, mk_parent),
        d!("datalayer Hash", "Hash", dl::Hash, mk_dl_hash),
        d!("datalayer KeyId", "KeyId", dl::KeyId, mk_key_id),
        d!("datalayer ValueId", "ValueId", dl::ValueId, mk_value_id),
        d!("datalayer NodeType", "NodeType", dl::NodeType, mk_dl_node_type),
        d!("datalayer NodeMetadata", "NodeMetadata", dl::NodeMetadata, mk_node_metadata),
        d!("datalayer InternalNode", "InternalNode", dl::InternalNode, mk_internal_node),
        d!("datalayer LeafNode", "LeafNode", dl::LeafNode, mk_leaf_node),
        d!("datalayer ProofOfInclusionLayer", "ProofOfInclusionLayer", dl::ProofOfInclusionLayer, mk_poi_layer),
        d!("datalayer ProofOfInclusion", "ProofOfInclusion", dl::ProofOfInclusion, mk_poi),
        d!("datalayer Side", "Side", dl::Side, mk_side),
    ]
}

/// the seven recorded proofs: quality_string() must reproduce the recorded quality string
pub fn check_quality_vectors() -> Vec<(String, Result<(), String>)> {
    QUALITY_VECTORS
        .iter()
        .map(|n| {
            let r = match quality_vector(n) {
                None => Err("cannot read the vector file".to_string()),
                Some((p, want)) => match catch(|| p.quality_string()) {
                    Err(e) => Err(format!("quality_string panicked: {e}")),
                    Ok(None) => Err("quality_string() is None for a recorded valid proof".into()),
                    Ok(Some(q)) if q.to_bytes() == want => Ok(()),
                    Ok(Some(q)) => Err(format!("quality_string() = {} recorded {}", hex::encode(q.to_bytes()), hex::encode(want))),
                },
            };
            (n.to_string(), r)
        })
        .collect()
}
