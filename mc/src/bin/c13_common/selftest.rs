//! Deliberately broken codecs, never part of a normal run. `C13_SELFTEST=1 c13` /
//! `C14_SELFTEST=codecs c14` run the unchanged explorers and oracles over these types only and
//! demand that each planted defect is reported under the expected signature. They mirror the
//! mutants named in DESIGN.md (lax Option prefix, lax bool, digest skipping a field, trusted
//! decoder disagreeing, pre-allocation without the cap, trailing bytes accepted, panic on input).

use super::*;
use chia_sha2::Sha256;
use chia_traits::chia_error::{Error, Result};
use std::io::Cursor;

macro_rules! plain {
    ($($t:ty),*) => { $( impl Inspect for $t {} )* };
}
plain!(LaxBool, LaxOpt, BadDigest, TrustedDiffers, MediumGreedy, Greedy, TrailingOk, PanicsOnFf, LossyField);

fn byte(input: &mut Cursor<&[u8]>) -> Result<u8> {
    <u8 as Streamable>::parse::<false>(input)
}

/// bool that accepts every non-zero byte as true
#[derive(Debug, PartialEq, Clone)]
pub struct LaxBool(pub bool);
impl Streamable for LaxBool {
    fn update_digest(&self, d: &mut Sha256) {
        self.0.update_digest(d);
    }
    fn stream(&self, out: &mut Vec<u8>) -> Result<()> {
        self.0.stream(out)
    }
    fn parse<const T: bool>(input: &mut Cursor<&[u8]>) -> Result<Self> {
        Ok(LaxBool(byte(input)? != 0))
    }
}

/// Option whose prefix treats everything but 0 as Some
#[derive(Debug, PartialEq, Clone)]
pub struct LaxOpt(pub Option<u32>);
impl Streamable for LaxOpt {
    fn update_digest(&self, d: &mut Sha256) {
        self.0.update_digest(d);
    }
    fn stream(&self, out: &mut Vec<u8>) -> Result<()> {
        self.0.stream(out)
    }
    fn parse<const T: bool>(input: &mut Cursor<&[u8]>) -> Result<Self> {
        Ok(LaxOpt(match byte(input)? {
            0 => None,
            _ => Some(u32::parse::<T>(input)?),
        }))
    }
}

/// update_digest forgets the last field
#[derive(Debug, PartialEq, Clone)]
pub struct BadDigest {
    pub a: u32,
    pub b: u32,
}
impl Streamable for BadDigest {
    fn update_digest(&self, d: &mut Sha256) {
        self.a.update_digest(d);
    }
    fn stream(&self, out: &mut Vec<u8>) -> Result<()> {
        self.a.stream(out)?;
        self.b.stream(out)
    }
    fn parse<const T: bool>(input: &mut Cursor<&[u8]>) -> Result<Self> {
        Ok(Self { a: u32::parse::<T>(input)?, b: u32::parse::<T>(input)? })
    }
}

/// the trusted decoder clears the top bit
#[derive(Debug, PartialEq, Clone)]
pub struct TrustedDiffers(pub u8);
impl Streamable for TrustedDiffers {
    fn update_digest(&self, d: &mut Sha256) {
        self.0.update_digest(d);
    }
    fn stream(&self, out: &mut Vec<u8>) -> Result<()> {
        self.0.stream(out)
    }
    fn parse<const T: bool>(input: &mut Cursor<&[u8]>) -> Result<Self> {
        let b = byte(input)?;
        Ok(Self(if T { b & 0x7f } else { b }))
    }
}

/// a field that is not serialized although it takes part in equality
#[derive(Debug, PartialEq, Clone)]
pub struct LossyField {
    pub a: u8,
    pub b: u8,
}
impl Streamable for LossyField {
    fn update_digest(&self, d: &mut Sha256) {
        self.a.update_digest(d);
    }
    fn stream(&self, out: &mut Vec<u8>) -> Result<()> {
        self.a.stream(out)
    }
    fn parse<const T: bool>(input: &mut Cursor<&[u8]>) -> Result<Self> {
        Ok(Self { a: byte(input)?, b: 0 })
    }
}

fn vec_with_prealloc<const T: bool>(input: &mut Cursor<&[u8]>, cap_elems: usize) -> Result<Vec<u32>> {
    let len = u32::parse::<T>(input)?;
    let mut v = Vec::with_capacity((len as usize).min(cap_elems));
    for _ in 0..len {
        v.push(u32::parse::<T>(input)?);
    }
    Ok(v)
}

/// Vec pre-allocation capped at 64 MiB instead of 2 MiB
#[derive(Debug, PartialEq, Clone)]
pub struct MediumGreedy(pub Vec<u32>);
impl Streamable for MediumGreedy {
    fn update_digest(&self, d: &mut Sha256) {
        self.0.update_digest(d);
    }
    fn stream(&self, out: &mut Vec<u8>) -> Result<()> {
        self.0.stream(out)
    }
    fn parse<const T: bool>(input: &mut Cursor<&[u8]>) -> Result<Self> {
        Ok(Self(vec_with_prealloc::<T>(input, 16 << 20)?))
    }
}

/// Vec pre-allocation without any cap
#[derive(Debug, PartialEq, Clone)]
pub struct Greedy(pub Vec<u32>);
impl Streamable for Greedy {
    fn update_digest(&self, d: &mut Sha256) {
        self.0.update_digest(d);
    }
    fn stream(&self, out: &mut Vec<u8>) -> Result<()> {
        self.0.stream(out)
    }
    fn parse<const T: bool>(input: &mut Cursor<&[u8]>) -> Result<Self> {
        Ok(Self(vec_with_prealloc::<T>(input, usize::MAX)?))
    }
}

/// from_bytes does not insist on consuming the whole input
#[derive(Debug, PartialEq, Clone)]
pub struct TrailingOk(pub u16);
impl Streamable for TrailingOk {
    fn update_digest(&self, d: &mut Sha256) {
        self.0.update_digest(d);
    }
    fn stream(&self, out: &mut Vec<u8>) -> Result<()> {
        self.0.stream(out)
    }
    fn parse<const T: bool>(input: &mut Cursor<&[u8]>) -> Result<Self> {
        Ok(Self(u16::parse::<T>(input)?))
    }
    fn from_bytes(bytes: &[u8]) -> Result<Self> {
        Self::parse::<false>(&mut Cursor::new(bytes))
    }
}

/// the decoder panics on the byte ff, and reads one byte too few otherwise
#[derive(Debug, PartialEq, Clone)]
pub struct PanicsOnFf(pub u8);
impl Streamable for PanicsOnFf {
    fn update_digest(&self, d: &mut Sha256) {
        self.0.update_digest(d);
    }
    fn stream(&self, out: &mut Vec<u8>) -> Result<()> {
        self.0.stream(out)
    }
    fn parse<const T: bool>(input: &mut Cursor<&[u8]>) -> Result<Self> {
        let b = byte(input)?;
        assert!(b != 0xff, "planted panic");
        if b == 0xfe {
            return Err(Error::InvalidBool);
        }
        Ok(Self(b))
    }
}

fn none<T>() -> Vec<Letter<T>> {
    Vec::new()
}

macro_rules! st {
    ($t:ty, $gen:expr) => {
        TypeEntry {
            name: stringify!($t),
            krate: "selftest",
            src: "",
            values: |cfg| values_of::<$t>(stringify!($t), cfg, $gen, none::<$t>),
            probe: probe::<$t>,
            replay_value: |c| replay_value::<$t>(stringify!($t), $gen, none::<$t>, c),
            raw: no_raw,
        }
    };
}

/// (entries, signature suffixes that must be reported for C13, for C14)
pub fn entries(with_greedy: bool) -> (Vec<TypeEntry>, Vec<&'static str>, Vec<&'static str>) {
    let mut v = vec![
        st!(LaxBool, |u| Ok(LaxBool(u.arbitrary()?))),
        st!(LaxOpt, |u| Ok(LaxOpt(u.arbitrary()?))),
        st!(BadDigest, |u| Ok(BadDigest { a: u.arbitrary()?, b: u.arbitrary()? })),
        st!(TrustedDiffers, |u| Ok(TrustedDiffers(u.arbitrary()?))),
        st!(LossyField, |u| Ok(LossyField { a: u.arbitrary()?, b: u.arbitrary()? })),
        st!(MediumGreedy, |u| Ok(MediumGreedy(u.arbitrary()?))),
        st!(TrailingOk, |u| Ok(TrailingOk(u.arbitrary()?))),
        st!(PanicsOnFf, |u| Ok(PanicsOnFf(u.arbitrary()?))),
    ];
    if with_greedy {
        v.push(st!(Greedy, |u| Ok(Greedy(u.arbitrary()?))));
    }
    (
        v,
        vec![
            "bytes/non-canonical",
            "value/hash-mismatch",
            "bytes/hash-mismatch",
            "bytes/trusted-decodes-differently",
            "value/roundtrip-untrusted",
            "panic/decode-untrusted",
        ],
        vec!["alloc/out-of-proportion", "length/trailing-accepted", "panic/decode-untrusted", "panic/decode-trusted"],
    )
}
