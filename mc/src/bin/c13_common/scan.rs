//! Run-time self check: plain text scan of /repo/crates for streamable types, compared with the
//! registry. Reports (does not fail on) types that are not covered, so that a type added to the
//! repository later is noticed in the evidence.

use super::TypeEntry;
use std::collections::BTreeSet;
use std::path::{Path, PathBuf};

pub const REPO_CRATES: &str = "/repo/crates";

fn rs_files(dir: &Path, out: &mut Vec<PathBuf>) {
    let Ok(rd) = std::fs::read_dir(dir) else { return };
    let mut entries: Vec<PathBuf> = rd.flatten().map(|e| e.path()).collect();
    entries.sort();
    for p in entries {
        if p.is_dir() {
            let n = p.file_name().map(|s| s.to_string_lossy().to_string()).unwrap_or_default();
            if n == "target" || n == "fuzz" || n == "tests" || n == "benches" || n == "examples" {
                continue;
            }
            rs_files(&p, out);
        } else if p.extension().is_some_and(|e| e == "rs") {
            out.push(p);
        }
    }
}

fn has_word(line: &str, word: &str) -> bool {
    let b = line.as_bytes();
    let mut from = 0;
    while let Some(i) = line[from..].find(word) {
        let s = from + i;
        let e = s + word.len();
        let before = s == 0 || !(b[s - 1].is_ascii_alphanumeric() || b[s - 1] == b'_');
        let after = e >= b.len() || !(b[e].is_ascii_alphanumeric() || b[e] == b'_');
        if before && after {
            return true;
        }
        from = e;
    }
    false
}

fn ident_after<'a>(line: &'a str, kw: &str) -> Option<&'a str> {
    let i = line.find(kw)?;
    let rest = line[i + kw.len()..].trim_start();
    let end = rest.find(|c: char| !(c.is_ascii_alphanumeric() || c == '_')).unwrap_or(rest.len());
    if end == 0 { None } else { Some(&rest[..end]) }
}

#[derive(Debug, Clone, PartialEq, Eq, PartialOrd, Ord)]
pub struct Found {
    pub krate: String,
    pub name: String,
    pub test_only: bool,
}

/// every (crate, type) that gets a Streamable impl: `#[streamable…]` structs (except
/// `no_streamable`, which come with a hand-written impl that is found separately), items deriving
/// `Streamable`, hand-written `impl … Streamable for X`, `streamable_primitive!(x)`
pub fn scan_repo() -> Vec<Found> {
    let mut files = Vec::new();
    rs_files(Path::new(REPO_CRATES), &mut files);
    let mut out: BTreeSet<Found> = BTreeSet::new();
    for f in files {
        let rel = f.strip_prefix(REPO_CRATES).unwrap_or(&f).to_string_lossy().to_string();
        let krate = rel.trim_start_matches('/').split('/').next().unwrap_or("").to_string();
        // the macro crates only contain the generators; chia-tools only has binaries
        if krate.ends_with("_macro") || krate == "chia-tools" {
            continue;
        }
        let Ok(txt) = std::fs::read_to_string(&f) else { continue };
        let lines: Vec<&str> = txt.lines().collect();
        let mut pending = false;
        let mut pending_test = false;
        let mut in_attr = false; // inside a multi-line #[...]
        let mut attr_depth: i32 = 0;
        let mut attr_has_derive_streamable = false;
        for (i, raw) in lines.iter().enumerate() {
            let line = raw.trim();
            if line.starts_with("//") {
                continue;
            }
            let test_near = |i: usize| (i.saturating_sub(4)..i).any(|j| lines[j].trim().starts_with("#[cfg(test)]"));
            if in_attr || line.starts_with("#[") {
                if !in_attr {
                    attr_depth = 0;
                    attr_has_derive_streamable = false;
                    if line.starts_with("#[streamable") && !line.contains("no_streamable") {
                        pending = true;
                        pending_test = test_near(i);
                    }
                }
                if line.contains("derive") || in_attr {
                    if has_word(line, "Streamable") {
                        attr_has_derive_streamable = true;
                    }
                }
                for c in line.chars() {
                    match c {
                        '[' | '(' => attr_depth += 1,
                        ']' | ')' => attr_depth -= 1,
                        _ => {}
                    }
                }
                in_attr = attr_depth > 0;
                if !in_attr && attr_has_derive_streamable {
                    pending = true;
                    pending_test = pending_test || test_near(i);
                }
                continue;
            }
            if pending {
                let name = ident_after(line, "struct ").or_else(|| ident_after(line, "enum "));
                if let Some(n) = name {
                    out.insert(Found { krate: krate.clone(), name: n.to_string(), test_only: pending_test });
                    pending = false;
                    pending_test = false;
                }
            }
            if line.starts_with("impl") && has_word(line, "Streamable") && line.contains(" for ") {
                let rest = line[line.find(" for ").unwrap() + 5..].trim();
                let rest = rest.trim_end_matches('{').trim();
                let name = if rest.starts_with("$") {
                    continue;
                } else if rest.starts_with("()") {
                    "unit".to_string()
                } else if rest.starts_with('(') {
                    format!("tuple{}", rest.matches(',').count() + 1)
                } else if rest.starts_with('[') {
                    "array".to_string()
                } else {
                    let end = rest.find(|c: char| !(c.is_ascii_alphanumeric() || c == '_')).unwrap_or(rest.len());
                    rest[..end].to_string()
                };
                out.insert(Found { krate: krate.clone(), name, test_only: false });
            }
            if let Some(r) = line.strip_prefix("streamable_primitive!(") {
                if let Some(end) = r.find(')') {
                    out.insert(Found { krate: krate.clone(), name: r[..end].to_string(), test_only: false });
                }
            }
        }
    }
    out.into_iter().collect()
}

pub struct Coverage {
    pub found: usize,
    pub covered: usize,
    pub uncovered: Vec<String>,
    pub test_only: Vec<String>,
    /// registry entries naming a source type the scan did not see (stale registry lines)
    pub unknown_to_scan: Vec<String>,
}

pub fn coverage(reg: &[TypeEntry]) -> Coverage {
    let found = scan_repo();
    let have: BTreeSet<(String, String)> = reg.iter().filter(|e| !e.src.is_empty()).map(|e| (e.krate.to_string(), e.src.to_string())).collect();
    let mut uncovered = Vec::new();
    let mut test_only = Vec::new();
    let mut covered = 0;
    let mut seen: BTreeSet<(String, String)> = BTreeSet::new();
    for f in &found {
        let key = (f.krate.clone(), f.name.clone());
        if !seen.insert(key.clone()) {
            continue;
        }
        if f.test_only {
            test_only.push(format!("{}::{}", f.krate, f.name));
        } else if have.contains(&key) {
            covered += 1;
        } else {
            uncovered.push(format!("{}::{}", f.krate, f.name));
        }
    }
    let unknown_to_scan = have.iter().filter(|k| !seen.contains(*k)).map(|(k, n)| format!("{k}::{n}")).collect();
    Coverage { found: seen.len(), covered, uncovered, test_only, unknown_to_scan }
}
