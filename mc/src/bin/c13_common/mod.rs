//! Shared byte/value explorer of C13 (canonical bijection) and C14 (total, bounded decoding).
//!
//! * `Inspect`     – well-formedness of the version-packed structs (from the struct comments
//!                   in /repo) and collection of nested version-2 proofs of space
//! * `values_of`   – tape-driven value enumeration (Arbitrary impl / hand-written builder driven
//!                   by an all-zero tape with <= 1 or <= 2 deviations) + the C13 value oracle
//! * `probe`       – one byte string through both decoders and every receiver operation,
//!                   everything under `catch`, returning plain observations
//! * `for_each_mutant` – the byte neighbourhood of a base encoding
//! * `registry`    – the hand-maintained list of streamable types (one macro line per type)
//! * `scan`        – run-time text scan of /repo/crates for streamable types not in the registry
#![allow(dead_code)]

use arbitrary::Unstructured;
use chia_protocol::{
    ChallengeBlockInfo, FullBlock, HeaderBlock, ProofBlockHeader, ProofOfSpace, RecentChainData,
    RespondBlock, RespondBlockHeader, RespondBlockHeaders, RespondBlocks, RespondHeaderBlocks,
    RespondProofOfWeight, RespondUnfinishedBlock, RewardChainBlock, RewardChainBlockUnfinished,
    SubEpochChallengeSegment, SubEpochSegments, SubSlotData, UnfinishedBlock,
    UnfinishedHeaderBlock, WeightProof,
};
use chia_traits::Streamable;
use mc::report::{catch, fxhash};
use mc::sx::sha256;
use rayon::prelude::*;
use serde_json::{Value, json};
use std::collections::{BTreeMap, HashSet};
use std::fmt::Debug;

pub const POS_HASH_PANIC: &str = "Can't compute hash of invalid ProofOfSpace";

// ---------------------------------------------------------------------------------------------
// well-formedness + nested v2 proofs of space
// ---------------------------------------------------------------------------------------------

pub struct Vis {
    /// false when a version-packed struct carries data its version does not serialize
    pub wf: bool,
    /// every nested well-formed version-2 proof of space (struct field `version == 1`)
    pub v2: Vec<ProofOfSpace>,
}

impl Vis {
    pub fn new() -> Self {
        Self { wf: true, v2: Vec::new() }
    }
    pub fn of<T: Inspect>(t: &T) -> Self {
        let mut v = Self::new();
        t.visit(&mut v);
        v
    }
}

pub trait Inspect {
    fn visit(&self, _v: &mut Vis) {}
}

impl<T: Inspect> Inspect for Option<T> {
    fn visit(&self, v: &mut Vis) {
        if let Some(x) = self {
            x.visit(v);
        }
    }
}
impl<T: Inspect> Inspect for Vec<T> {
    fn visit(&self, v: &mut Vis) {
        for x in self {
            x.visit(v);
        }
    }
}
impl<T: Inspect, const N: usize> Inspect for [T; N] {
    fn visit(&self, v: &mut Vis) {
        for x in self {
            x.visit(v);
        }
    }
}
impl<A: Inspect, B: Inspect> Inspect for (A, B) {
    fn visit(&self, v: &mut Vis) {
        self.0.visit(v);
        self.1.visit(v);
    }
}
impl<A: Inspect, B: Inspect, C: Inspect> Inspect for (A, B, C) {
    fn visit(&self, v: &mut Vis) {
        self.0.visit(v);
        self.1.visit(v);
        self.2.visit(v);
    }
}
impl<A: Inspect, B: Inspect, C: Inspect, D: Inspect> Inspect for (A, B, C, D) {
    fn visit(&self, v: &mut Vis) {
        self.0.visit(v);
        self.1.visit(v);
        self.2.visit(v);
        self.3.visit(v);
    }
}

macro_rules! leaf {
    ($($t:ty),* $(,)?) => { $( impl Inspect for $t {} )* };
}

/// struct whose listed fields may (transitively) hold a version-packed struct
macro_rules! nest {
    ($($t:ty : $($f:ident),+ ;)*) => { $(
        impl Inspect for $t {
            fn visit(&self, v: &mut Vis) { $( self.$f.visit(v); )+ }
        }
    )* };
}

// From the struct comments in proof_of_space.rs: plot_index/meta_group/strength "are set for v2
// proofs and all zero for v1 proofs", size "is set for v1 proofs, and zero for v2 proofs"; the
// v2 format "requires exactly one of pool_public_key / pool_contract_puzzle_hash"; versions
// other than 0 and 1 have no wire form.
impl Inspect for ProofOfSpace {
    fn visit(&self, v: &mut Vis) {
        match self.version {
            0 => {
                if self.plot_index != 0 || self.meta_group != 0 || self.strength != 0 {
                    v.wf = false;
                }
            }
            1 => {
                if self.size != 0
                    || self.pool_public_key.is_some() == self.pool_contract_puzzle_hash.is_some()
                {
                    v.wf = false;
                } else {
                    v.v2.push(self.clone());
                }
            }
            _ => v.wf = false,
        }
    }
}

// fullblock.rs / unfinished_block.rs: transactions_generator_buffer is "only used when
// version == 1. Mutually exclusive with transactions_generator and
// transactions_generator_ref_list".
macro_rules! block_wf {
    ($t:ty) => {
        impl Inspect for $t {
            fn visit(&self, v: &mut Vis) {
                match self.version {
                    0 => {
                        if self.transactions_generator_buffer.is_some() {
                            v.wf = false;
                        }
                    }
                    1 => {
                        if self.transactions_generator.is_some()
                            || !self.transactions_generator_ref_list.is_empty()
                        {
                            v.wf = false;
                        }
                    }
                    _ => v.wf = false,
                }
                self.reward_chain_block.visit(v);
            }
        }
    };
}
block_wf!(FullBlock);
block_wf!(UnfinishedBlock);

nest! {
    RewardChainBlockUnfinished: proof_of_space;
    RewardChainBlock: proof_of_space;
    ChallengeBlockInfo: proof_of_space;
    HeaderBlock: reward_chain_block;
    UnfinishedHeaderBlock: reward_chain_block;
    SubSlotData: proof_of_space;
    SubEpochChallengeSegment: sub_slots;
    SubEpochSegments: challenge_segments;
    RecentChainData: recent_chain_data;
    ProofBlockHeader: reward_chain_block;
    WeightProof: sub_epoch_segments, recent_chain_data;
    RespondProofOfWeight: wp;
    RespondBlocks: blocks;
    RespondBlock: block;
    RespondUnfinishedBlock: unfinished_block;
    RespondBlockHeader: header_block;
    RespondBlockHeaders: header_blocks;
    RespondHeaderBlocks: header_blocks;
}

pub trait Subject: Streamable + Debug + PartialEq + Inspect + Sized + 'static {}
impl<T: Streamable + Debug + PartialEq + Inspect + Sized + 'static> Subject for T {}

// ---------------------------------------------------------------------------------------------
// independent hash oracle
// ---------------------------------------------------------------------------------------------

fn find_from(hay: &[u8], needle: &[u8], from: usize) -> Option<usize> {
    if needle.is_empty() || hay.len() < needle.len() {
        return None;
    }
    (from..=hay.len() - needle.len()).find(|&i| &hay[i..i + needle.len()] == needle)
}

/// SHA-256 of `enc` with the length-prefixed proof of every nested v2 proof of space replaced by
/// its 32-byte quality string. `qualities[i]` belongs to `v2[i]` (in field order). None if a
/// proof-of-space encoding cannot be located inside `enc` (harness problem).
pub fn commitment_hash(enc: &[u8], v2: &[ProofOfSpace], qualities: &[[u8; 32]]) -> Option<[u8; 32]> {
    let mut out: Vec<u8> = Vec::with_capacity(enc.len());
    let mut pos = 0usize;
    for (p, q) in v2.iter().zip(qualities) {
        let pe = Streamable::to_bytes(p).ok()?;
        let at = find_from(enc, &pe, pos)?;
        let tail = 4 + p.proof.len();
        out.extend_from_slice(&enc[pos..at + pe.len() - tail]);
        out.extend_from_slice(q);
        pos = at + pe.len();
    }
    out.extend_from_slice(&enc[pos..]);
    Some(sha256(&[&out]))
}

// ---------------------------------------------------------------------------------------------
// probe: one byte string through everything a receiver does
// ---------------------------------------------------------------------------------------------

#[derive(Clone, Debug, PartialEq)]
pub enum Dec {
    Err,
    Ok,
    Panic(String),
}

#[derive(Clone, Debug)]
pub enum HashObs {
    /// equals the independent expectation (plain SHA-256, or the commitment form for v2 proofs)
    Match,
    Mismatch { got: [u8; 32], want: [u8; 32] },
    /// returned normally although a nested v2 proof has no quality string (no expectation exists)
    NoExpectation,
    /// not attempted (value is not well-formed and the caller did not ask for it)
    Skipped,
    Panic(String),
}

#[derive(Clone, Debug)]
pub struct Post {
    /// Err(panic) | Ok(None): to_bytes returned an error | Ok(Some(identical to the input))
    pub reenc: Result<Option<bool>, String>,
    pub hash: HashObs,
    pub wf: bool,
    pub v2_pos: usize,
    /// nested v2 proofs whose quality_string() is None
    pub v2_invalid: usize,
    /// Debug rendering (only when asked): Ok(length) or panic
    pub debug: Option<Result<usize, String>>,
    /// v == v
    pub self_eq: Result<bool, String>,
    /// panic inside the inspection itself (quality_string / compute_plot_id on a decoded value)
    pub inspect_panic: Option<String>,
}

#[derive(Clone, Debug)]
pub struct Probe {
    pub un: Dec,
    pub tr: Dec,
    pub un_peak: u64,
    pub tr_peak: u64,
    pub un_post: Option<Post>,
    /// filled when the trusted decoder accepts and the untrusted one does not
    pub tr_post: Option<Post>,
    /// both accepted: untrusted value == trusted value
    pub agree: Option<Result<bool, String>>,
}

#[derive(Clone, Copy)]
pub struct ProbeCfg {
    /// allocation meter around each decode call (no-ops in C13)
    pub begin: fn(),
    pub end: fn() -> u64,
    /// render Debug of every decoded value
    pub debug: bool,
    /// call hash() even on values that are not well-formed (C14: every decoded value)
    pub hash_always: bool,
}

pub fn no_begin() {}
pub fn no_end() -> u64 {
    0
}

pub fn post_ops<T: Subject>(v: &T, input: &[u8], pc: &ProbeCfg) -> Post {
    let reenc = catch(|| Streamable::to_bytes(v)).map(|r| r.ok().map(|b| b == input));
    let mut inspect_panic = None;
    let (wf, v2, quals) = match catch(|| {
        let vis = Vis::of(v);
        let quals: Vec<Option<[u8; 32]>> =
            vis.v2.iter().map(|p| p.quality_string().map(|q| q.to_bytes())).collect();
        (vis.wf, vis.v2, quals)
    }) {
        Ok(x) => x,
        Err(p) => {
            inspect_panic = Some(p);
            (false, Vec::new(), Vec::new())
        }
    };
    let v2_invalid = quals.iter().filter(|q| q.is_none()).count();
    let hash = if !wf && !pc.hash_always {
        HashObs::Skipped
    } else {
        match catch(|| Streamable::hash(v)) {
            Err(p) => HashObs::Panic(p),
            Ok(got) => {
                if !wf {
                    HashObs::Skipped
                } else if v2_invalid > 0 {
                    HashObs::NoExpectation
                } else {
                    let want = if v2.is_empty() {
                        Some(sha256(&[input]))
                    } else {
                        let qs: Vec<[u8; 32]> = quals.iter().map(|q| q.unwrap()).collect();
                        commitment_hash(input, &v2, &qs)
                    };
                    match want {
                        Some(w) if w == got => HashObs::Match,
                        Some(w) => HashObs::Mismatch { got, want: w },
                        None => HashObs::NoExpectation,
                    }
                }
            }
        }
    };
    let debug = if pc.debug { Some(catch(|| format!("{v:?}").len())) } else { None };
    #[allow(clippy::eq_op)]
    let self_eq = catch(|| v == v);
    Post { reenc, hash, wf, v2_pos: v2.len(), v2_invalid, debug, self_eq, inspect_panic }
}

pub fn probe<T: Subject>(b: &[u8], pc: &ProbeCfg) -> Probe {
    (pc.begin)();
    let un_r = catch(|| <T as Streamable>::from_bytes(b));
    let un_peak = (pc.end)();
    (pc.begin)();
    let tr_r = catch(|| <T as Streamable>::from_bytes_unchecked(b));
    let tr_peak = (pc.end)();
    let to_dec = |r: &Result<chia_traits::Result<T>, String>| match r {
        Err(p) => Dec::Panic(p.clone()),
        Ok(Err(_)) => Dec::Err,
        Ok(Ok(_)) => Dec::Ok,
    };
    let un = to_dec(&un_r);
    let tr = to_dec(&tr_r);
    let uv = un_r.ok().and_then(Result::ok);
    let tv = tr_r.ok().and_then(Result::ok);
    let un_post = uv.as_ref().map(|v| post_ops(v, b, pc));
    let tr_post = if uv.is_none() { tv.as_ref().map(|v| post_ops(v, b, pc)) } else { None };
    let agree = match (&uv, &tv) {
        (Some(a), Some(t)) => Some(catch(|| a == t)),
        _ => None,
    };
    Probe { un, tr, un_peak, tr_peak, un_post, tr_post, agree }
}

// ---------------------------------------------------------------------------------------------
// byte neighbourhood of a base encoding
// ---------------------------------------------------------------------------------------------

#[derive(Clone, Copy, Debug, PartialEq, Eq)]
pub enum MutKind {
    Base,
    Sub,
    Window,
    Prefix,
    Append,
    Raw,
}

impl MutKind {
    pub fn name(self) -> &'static str {
        match self {
            MutKind::Base => "base",
            MutKind::Sub => "sub",
            MutKind::Window => "win",
            MutKind::Prefix => "prefix",
            MutKind::Append => "append",
            MutKind::Raw => "raw",
        }
    }
}

pub const SUB_FIXED: [u8; 8] = [0x00, 0x01, 0x02, 0x03, 0x7f, 0x80, 0xfe, 0xff];
pub const SUB_FLIPS: [u8; 4] = [0x80, 0x40, 0x20, 0x01];
/// 2^32-1, 0, 2^31, 2^21+1 planted big-endian, plus old+1 and old-1
pub const WINDOWS: [u32; 4] = [0xffff_ffff, 0, 0x8000_0000, 0x0020_0001];
pub const APPENDED: [u8; 2] = [0x00, 0xff];

/// calls `f(kind, bytes)` for the base and every member of its neighbourhood (never the base
/// itself twice). `full_alphabet`: all 255 other byte values per position instead of the 12.
pub fn for_each_mutant(base: &[u8], full_alphabet: bool, f: &mut dyn FnMut(MutKind, &[u8])) {
    f(MutKind::Base, base);
    let n = base.len();
    let mut buf = base.to_vec();
    for i in 0..n {
        let old = base[i];
        if full_alphabet {
            for v in 0..=255u8 {
                if v != old {
                    buf[i] = v;
                    f(MutKind::Sub, &buf);
                }
            }
        } else {
            let mut cand = [0u8; 12];
            cand[..8].copy_from_slice(&SUB_FIXED);
            for (k, m) in SUB_FLIPS.iter().enumerate() {
                cand[8 + k] = old ^ m;
            }
            cand.sort_unstable();
            let mut prev: Option<u8> = None;
            for v in cand {
                if Some(v) == prev || v == old {
                    continue;
                }
                prev = Some(v);
                buf[i] = v;
                f(MutKind::Sub, &buf);
            }
        }
        buf[i] = old;
    }
    if n >= 4 {
        for i in 0..=n - 4 {
            let old = u32::from_be_bytes(base[i..i + 4].try_into().unwrap());
            let mut cand = [WINDOWS[0], WINDOWS[1], WINDOWS[2], WINDOWS[3], old.wrapping_add(1), old.wrapping_sub(1)];
            cand.sort_unstable();
            let mut prev: Option<u32> = None;
            for v in cand {
                if Some(v) == prev || v == old {
                    continue;
                }
                prev = Some(v);
                buf[i..i + 4].copy_from_slice(&v.to_be_bytes());
                f(MutKind::Window, &buf);
            }
            buf[i..i + 4].copy_from_slice(&base[i..i + 4]);
        }
    }
    for l in 0..n {
        f(MutKind::Prefix, &base[..l]);
    }
    buf.push(0);
    for a in APPENDED {
        buf[n] = a;
        f(MutKind::Append, &buf);
    }
}

// ---------------------------------------------------------------------------------------------
// value enumeration
// ---------------------------------------------------------------------------------------------

pub const DEVS: [u8; 5] = [0x01, 0x02, 0x7f, 0x80, 0xff];
pub const TAPE_PROBE_LEN: usize = 4096;
pub const TAPE_SLACK: usize = 64;

pub struct Finding {
    pub sig: String,
    pub case: Value,
    pub detail: String,
}

pub struct Letter<T> {
    pub label: String,
    pub value: T,
}

pub fn letter<T>(label: &str, value: T) -> Letter<T> {
    Letter { label: label.to_string(), value }
}

#[derive(Clone, Copy)]
pub struct ValueCfg {
    pub two_dev: bool,
    /// evaluate the C13 value oracle (C14 only needs the encodings)
    pub check: bool,
    /// property id used in signatures
    pub prop: &'static str,
}

#[derive(Default)]
pub struct ValueSet {
    pub tape_len: usize,
    pub tapes: u64,
    pub gen_failed: u64,
    pub counters: BTreeMap<&'static str, u64>,
    /// hashes of distinct encodings (distinct values)
    pub seen: HashSet<u64>,
    /// per encoding length the lexicographically smallest encoding found
    pub by_len: BTreeMap<usize, Vec<u8>>,
    /// the same for encodings of values that are not well-formed (they need not decode)
    pub by_len_nonwf: BTreeMap<usize, Vec<u8>>,
    /// every problem counted per signature; `findings` keeps the first three of each
    pub sig_counts: BTreeMap<String, u64>,
    /// encodings of the hand-written letters (always used as bases)
    pub letters: Vec<(String, Vec<u8>)>,
    pub findings: Vec<Finding>,
    pub sample: Option<Value>,
}

impl ValueSet {
    fn bump(&mut self, k: &'static str) {
        *self.counters.entry(k).or_insert(0) += 1;
    }
    fn absorb(&mut self, o: ValueSet) {
        self.tapes += o.tapes;
        self.gen_failed += o.gen_failed;
        for (k, n) in o.counters {
            *self.counters.entry(k).or_insert(0) += n;
        }
        self.seen.extend(o.seen);
        for (mine, theirs) in [(&mut self.by_len, o.by_len), (&mut self.by_len_nonwf, o.by_len_nonwf)] {
            for (l, e) in theirs {
                match mine.get(&l) {
                    Some(cur) if *cur <= e => {}
                    _ => {
                        mine.insert(l, e);
                    }
                }
            }
        }
        self.letters.extend(o.letters);
        for f in o.findings {
            self.keep(f);
        }
        for (s, n) in o.sig_counts {
            *self.sig_counts.entry(s).or_insert(0) += n;
        }
        if self.sample.is_none() {
            self.sample = o.sample;
        }
    }
    /// keep the first three findings per signature (callers feed them in enumeration order)
    fn keep(&mut self, f: Finding) {
        if self.findings.iter().filter(|g| g.sig == f.sig).count() < 3 {
            self.findings.push(f);
        }
    }
    fn add_encoding(&mut self, e: Vec<u8>, wf: bool) {
        self.seen.insert(fxhash(&e));
        let m = if wf { &mut self.by_len } else { &mut self.by_len_nonwf };
        match m.get(&e.len()) {
            Some(cur) if *cur <= e => {}
            _ => {
                m.insert(e.len(), e);
            }
        }
    }
}

pub struct ValueObs {
    pub enc: Option<Vec<u8>>,
    pub wf: bool,
    pub v2: usize,
    pub bucket: &'static str,
    /// (signature suffix after "<prop>/", detail)
    pub bad: Vec<(String, String)>,
}

fn short_hex(b: &[u8]) -> String {
    if b.len() <= 160 {
        hex::encode(b)
    } else {
        format!("{}..({} bytes)", hex::encode(&b[..160]), b.len())
    }
}

/// the C13 oracle on one value
pub fn check_value<T: Subject>(v: &T, check: bool) -> ValueObs {
    let mut bad: Vec<(String, String)> = Vec::new();
    let (wf, v2, quals) = match catch(|| {
        let vis = Vis::of(v);
        let quals: Vec<Option<[u8; 32]>> =
            vis.v2.iter().map(|p| p.quality_string().map(|q| q.to_bytes())).collect();
        (vis.wf, vis.v2, quals)
    }) {
        Ok(x) => x,
        Err(p) => {
            bad.push(("panic/inspect".into(), format!("quality_string/compute_plot_id panicked on a well-formed proof of space: {p}")));
            return ValueObs { enc: None, wf: false, v2: 0, bucket: "value/inspect-panic", bad };
        }
    };
    let enc = match catch(|| Streamable::to_bytes(v)) {
        Err(p) => {
            bad.push(("panic/to_bytes".into(), format!("to_bytes panicked: {p}")));
            return ValueObs { enc: None, wf, v2: v2.len(), bucket: "value/panic", bad };
        }
        Ok(Err(e)) => {
            if wf && check {
                bad.push(("value/encode-failed".into(), format!("well-formed value fails to encode: {e:?}; value {}", dbg_short(v))));
            }
            return ValueObs { enc: None, wf, v2: v2.len(), bucket: if wf { "value/encode-failed" } else { "value/not-wellformed-no-wire-form" }, bad };
        }
        Ok(Ok(b)) => b,
    };
    if !check {
        return ValueObs { enc: Some(enc), wf, v2: v2.len(), bucket: "value/encoded", bad };
    }
    let un = catch(|| <T as Streamable>::from_bytes(&enc));
    let tr = catch(|| <T as Streamable>::from_bytes_unchecked(&enc));
    for (which, r) in [("untrusted", &un), ("trusted", &tr)] {
        match r {
            Err(p) => bad.push((format!("panic/decode-{which}"), format!("{which} decode of own encoding panicked: {p}; encoding {}", short_hex(&enc)))),
            Ok(Err(e)) => {
                if wf {
                    bad.push((format!("value/roundtrip-{which}"), format!("{which} decoder rejects the encoding of a well-formed value: {e:?}; encoding {}", short_hex(&enc))));
                }
            }
            Ok(Ok(back)) => {
                if wf {
                    if back != v {
                        bad.push((format!("value/roundtrip-{which}"), format!("{which} decode(encode(v)) != v; encoding {} v={} back={}", short_hex(&enc), dbg_short(v), dbg_short(back))));
                    }
                } else {
                    // the encoding is a byte string that decodes: it must be canonical
                    match catch(|| Streamable::to_bytes(back)) {
                        Ok(Ok(b2)) if b2 == enc => {}
                        other => bad.push((format!("bytes/non-canonical-{which}"), format!("encoding of a not well-formed value decodes ({which}) to a value that re-encodes differently: {} -> {:?}", short_hex(&enc), other.map(|r| r.map(|b| short_hex(&b)))))),
                    }
                }
            }
        }
    }
    let mut bucket = if wf { "value/roundtrip-ok" } else { "value/not-wellformed-lossy" };
    if wf {
        let invalid = quals.iter().filter(|q| q.is_none()).count();
        match catch(|| Streamable::hash(v)) {
            Err(p) => {
                if p.contains(POS_HASH_PANIC) && invalid > 0 {
                    bad.push(("panic/pos-v2-hash".into(), format!("hash() of a value holding a version-2 proof of space without quality string panics: {p}; encoding {}", short_hex(&enc))));
                    bucket = "value/pos-v2-hash-panic";
                } else {
                    bad.push(("panic/hash".into(), format!("hash() panicked: {p}; encoding {}", short_hex(&enc))));
                }
            }
            Ok(got) => {
                if invalid > 0 {
                    bucket = "value/pos-v2-invalid-proof-hash-returned";
                } else {
                    let want = if v2.is_empty() {
                        Some(sha256(&[&enc]))
                    } else {
                        let qs: Vec<[u8; 32]> = quals.iter().map(|q| q.unwrap()).collect();
                        bucket = "value/roundtrip-ok-v2-commitment";
                        commitment_hash(&enc, &v2, &qs)
                    };
                    match want {
                        Some(w) if w == got => {}
                        Some(w) => bad.push((
                            if v2.is_empty() { "value/hash-mismatch".into() } else { "value/hash-commitment-mismatch".into() },
                            format!("hash() = {} but SHA-256 of the {} = {}; encoding {}", hex::encode(got), if v2.is_empty() { "encoding" } else { "encoding with each v2 proof replaced by its quality string" }, hex::encode(w), short_hex(&enc)),
                        )),
                        None => bad.push(("harness/commitment".into(), "could not locate the proof of space inside the outer encoding".into())),
                    }
                }
            }
        }
    }
    ValueObs { enc: Some(enc), wf, v2: v2.len(), bucket, bad }
}

pub fn dbg_short<T: Debug>(v: &T) -> String {
    let s = catch(|| format!("{v:?}")).unwrap_or_else(|p| format!("<Debug panicked: {p}>"));
    if s.len() > 600 { format!("{}..", &s[..s.char_indices().take_while(|(i, _)| *i < 600).last().map(|(i, c)| i + c.len_utf8()).unwrap_or(0)]) } else { s }
}

pub type Gen<T> = fn(&mut Unstructured) -> arbitrary::Result<T>;

fn run_tape<T>(g: Gen<T>, tape: &[u8]) -> Option<T> {
    catch(|| {
        let mut u = Unstructured::new(tape);
        g(&mut u).ok()
    })
    .ok()
    .flatten()
}

fn make_tape(len: usize, devs: &[(usize, u8)]) -> Vec<u8> {
    let mut t = vec![0u8; len];
    for &(p, v) in devs {
        if p < len {
            t[p] = v;
        }
    }
    t
}

fn tape_case(name: &str, len: usize, devs: &[(usize, u8)]) -> Value {
    json!({"kind": "value", "type": name, "tape_len": len, "devs": devs.iter().map(|(p, v)| json!([p, v])).collect::<Vec<_>>()})
}

fn eval_one<T: Subject>(name: &str, cfg: &ValueCfg, v: &T, case: impl Fn() -> Value, acc: &mut ValueSet) -> Option<(u64, usize)> {
    let obs = check_value(v, cfg.check);
    acc.bump(obs.bucket);
    for (s, d) in obs.bad {
        let sig = format!("{}/{s}", cfg.prop);
        *acc.sig_counts.entry(sig.clone()).or_insert(0) += 1;
        acc.keep(Finding { sig, case: case(), detail: format!("type {name}: {d}") });
    }
    let wf = obs.wf;
    obs.enc.map(|e| {
        let r = (fxhash(&e), e.len());
        acc.add_encoding(e, wf);
        r
    })
}

/// enumerate the values of one type; see the rule text in c13.rs
pub fn values_of<T: Subject>(name: &'static str, cfg: &ValueCfg, g: Gen<T>, letters: fn() -> Vec<Letter<T>>) -> ValueSet {
    let mut out = ValueSet::default();
    // base: all-zero tape; learn how much of it the builder consumes
    let zeros = vec![0u8; TAPE_PROBE_LEN];
    let used = catch(|| {
        let mut u = Unstructured::new(&zeros);
        let _ = g(&mut u);
        TAPE_PROBE_LEN - u.len()
    })
    .unwrap_or(0);
    let n = (used + TAPE_SLACK).min(TAPE_PROBE_LEN);
    out.tape_len = n;
    out.tapes += 1;
    let base_tape = make_tape(n, &[]);
    let base = run_tape(g, &base_tape);
    let mut base_len = usize::MAX;
    match &base {
        None => out.gen_failed += 1,
        Some(v) => {
            if let Some((_, l)) = eval_one(name, cfg, v, || tape_case(name, n, &[]), &mut out) {
                base_len = l;
            }
            out.sample = Some(json!({"type": name, "tape": "all zero", "tape_len": n, "encoding": Streamable::to_bytes(v).ok().map(|b| short_hex(&b))}));
        }
    }
    // hand-written letters
    for l in catch(letters).unwrap_or_default() {
        out.tapes += 1;
        let label = l.label.clone();
        let lab2 = label.clone();
        let r = eval_one(name, cfg, &l.value, move || json!({"kind": "letter", "type": name, "label": lab2}), &mut out);
        if r.is_some() {
            if let Ok(Ok(e)) = catch(|| Streamable::to_bytes(&l.value)) {
                out.letters.push((label, e));
            }
        }
    }
    // one deviation
    let lvl1: Vec<(ValueSet, Vec<(usize, u8, u64, usize)>)> = (0..n)
        .into_par_iter()
        .map(|pos| {
            let mut acc = ValueSet::default();
            let mut structural = Vec::new();
            for d in DEVS {
                acc.tapes += 1;
                let devs = [(pos, d)];
                match run_tape(g, &make_tape(n, &devs)) {
                    None => acc.gen_failed += 1,
                    Some(v) => {
                        if let Some((h, l)) = eval_one(name, cfg, &v, || tape_case(name, n, &devs), &mut acc) {
                            if l != base_len {
                                structural.push((pos, d, h, l));
                            }
                        }
                    }
                }
            }
            (acc, structural)
        })
        .collect();
    let mut firsts: Vec<(usize, u8)> = Vec::new();
    let mut first_seen: HashSet<u64> = HashSet::new();
    for (acc, st) in lvl1 {
        out.absorb(acc);
        for (p, d, h, _l) in st {
            if first_seen.insert(h) {
                firsts.push((p, d));
            }
        }
    }
    *out.counters.entry("structure-changing-first-deviations").or_insert(0) += firsts.len() as u64;
    // two deviations, the first one structure-changing (distinct resulting values only)
    if cfg.two_dev {
        let jobs: Vec<(usize, u8, usize)> = firsts.iter().flat_map(|&(p, d)| (p + 1..n).map(move |q| (p, d, q))).collect();
        let lvl2 = jobs
            .par_iter()
            .fold(ValueSet::default, |mut acc, &(p, d, q)| {
                for d2 in DEVS {
                    acc.tapes += 1;
                    let devs = [(p, d), (q, d2)];
                    match run_tape(g, &make_tape(n, &devs)) {
                        None => acc.gen_failed += 1,
                        Some(v) => {
                            eval_one(name, cfg, &v, || tape_case(name, n, &devs), &mut acc);
                        }
                    }
                }
                acc
            })
            .reduce(ValueSet::default, |mut a, b| {
                a.absorb(b);
                a
            });
        out.absorb(lvl2);
    }
    out
}

/// re-run one recorded value case
pub fn replay_value<T: Subject>(name: &'static str, g: Gen<T>, letters: fn() -> Vec<Letter<T>>, case: &Value) -> String {
    let describe = |v: &T| {
        let obs = check_value(v, true);
        format!(
            "type {name}\nvalue {}\nencoding {:?}\nwell-formed {}\nnested v2 proofs {}\nbucket {}\nproblems {:#?}",
            dbg_short(v),
            obs.enc.as_ref().map(|e| hex::encode(e)),
            obs.wf,
            obs.v2,
            obs.bucket,
            obs.bad
        )
    };
    if case["kind"] == "letter" {
        for l in letters() {
            if case["label"] == l.label.as_str() {
                return describe(&l.value);
            }
        }
        return "letter not found".into();
    }
    let n = case["tape_len"].as_u64().unwrap_or(64) as usize;
    let devs: Vec<(usize, u8)> = case["devs"].as_array().map(|a| a.iter().map(|p| (p[0].as_u64().unwrap() as usize, p[1].as_u64().unwrap() as u8)).collect()).unwrap_or_default();
    match run_tape(g, &make_tape(n, &devs)) {
        None => "the builder produced no value for this tape".into(),
        Some(v) => describe(&v),
    }
}

// ---------------------------------------------------------------------------------------------
// registry entry
// ---------------------------------------------------------------------------------------------

pub struct TypeEntry {
    /// unique display name
    pub name: &'static str,
    /// directory name of the source crate under /repo/crates
    pub krate: &'static str,
    /// identifier the source scan reports for this type ("" = instantiation of a combinator)
    pub src: &'static str,
    pub values: fn(&ValueCfg) -> ValueSet,
    pub probe: fn(&[u8], &ProbeCfg) -> Probe,
    pub replay_value: fn(&Value) -> String,
    /// raw byte strings probed as they are (and mutated when short): adversarial letters
    pub raw: fn() -> Vec<(&'static str, Vec<u8>)>,
}

pub fn no_raw() -> Vec<(&'static str, Vec<u8>)> {
    Vec::new()
}

// ---------------------------------------------------------------------------------------------
// base selection
// ---------------------------------------------------------------------------------------------

/// 48-byte compressed G1 / 96-byte compressed G2 produced by the Arbitrary impls from the all
/// zero seed, and the encodings of the identity elements. Replacing the former by the latter
/// inside an encoding gives another valid encoding whose decoding needs no curve arithmetic.
pub struct BlsPatterns {
    pub g1_zero_seed: Vec<u8>,
    pub g2_zero_seed: Vec<u8>,
    pub g1_inf: Vec<u8>,
    pub g2_inf: Vec<u8>,
}

impl BlsPatterns {
    pub fn new() -> Self {
        let z = [0u8; 64];
        let g1 = <chia_bls::PublicKey as arbitrary::Arbitrary>::arbitrary(&mut Unstructured::new(&z)).unwrap();
        let g2 = <chia_bls::Signature as arbitrary::Arbitrary>::arbitrary(&mut Unstructured::new(&z)).unwrap();
        Self {
            g1_zero_seed: g1.to_bytes().to_vec(),
            g2_zero_seed: g2.to_bytes().to_vec(),
            g1_inf: chia_bls::PublicKey::default().to_bytes().to_vec(),
            g2_inf: chia_bls::Signature::default().to_bytes().to_vec(),
        }
    }
    /// (normalised encoding, number of replacements)
    pub fn normalise(&self, e: &[u8]) -> (Vec<u8>, usize) {
        let mut out = Vec::with_capacity(e.len());
        let mut i = 0;
        let mut k = 0;
        while i < e.len() {
            if e[i..].starts_with(&self.g2_zero_seed) {
                out.extend_from_slice(&self.g2_inf);
                i += 96;
                k += 1;
            } else if e[i..].starts_with(&self.g1_zero_seed) {
                out.extend_from_slice(&self.g1_inf);
                i += 48;
                k += 1;
            } else {
                out.push(e[i]);
                i += 1;
            }
        }
        (out, k)
    }
}

#[derive(Clone)]
pub struct Base {
    pub type_idx: usize,
    pub origin: String,
    pub bytes: Vec<u8>,
    /// false: probe as is, do not mutate (long raw letters)
    pub mutate: bool,
    pub kind: MutKind,
    /// produced by to_bytes of a well-formed value (letters, enumerated values): must decode
    pub from_wellformed: bool,
}

pub struct BaseCfg {
    /// at most this many distinct encoding lengths per type (shortest first)
    pub max_lengths: usize,
    /// how many of them are also swept in their original (real curve point) form
    pub raw_bls_bases: usize,
    /// raw letters longer than this are probed but not mutated
    pub max_mutated_raw_len: usize,
}

/// bases of one type: letters, one encoding per distinct length, identity-normalised variants
pub fn select_bases(type_idx: usize, e: &TypeEntry, vs: &ValueSet, pat: &BlsPatterns, cfg: &BaseCfg, pc: &ProbeCfg) -> (Vec<Base>, bool) {
    let mut out: Vec<Base> = Vec::new();
    let mut seen: HashSet<Vec<u8>> = HashSet::new();
    let mut capped = false;
    let mut raw_left = cfg.raw_bls_bases;
    let mut push = |origin: String, bytes: &[u8], out: &mut Vec<Base>, raw_left: &mut usize, always_raw: bool| {
        let (norm, k) = pat.normalise(bytes);
        if k > 0 && (e.probe)(&norm, pc).un == Dec::Ok {
            if seen.insert(norm.clone()) {
                out.push(Base { type_idx, origin: format!("{origin} (zero-seed BLS points replaced by the identity)"), bytes: norm, mutate: true, kind: MutKind::Base, from_wellformed: true });
            }
            if (always_raw || *raw_left > 0) && seen.insert(bytes.to_vec()) {
                if !always_raw {
                    *raw_left -= 1;
                }
                out.push(Base { type_idx, origin, bytes: bytes.to_vec(), mutate: true, kind: MutKind::Base, from_wellformed: true });
            }
        } else if seen.insert(bytes.to_vec()) {
            out.push(Base { type_idx, origin, bytes: bytes.to_vec(), mutate: true, kind: MutKind::Base, from_wellformed: true });
        }
    };
    for (label, b) in &vs.letters {
        push(format!("letter {label}"), b, &mut out, &mut raw_left, false);
    }
    for (i, (len, b)) in vs.by_len.iter().enumerate() {
        if i >= cfg.max_lengths {
            capped = true;
            break;
        }
        push(format!("smallest enumerated encoding of length {len}"), b, &mut out, &mut raw_left, false);
    }
    for (i, (len, b)) in vs.by_len_nonwf.iter().enumerate() {
        if i >= cfg.max_lengths {
            break;
        }
        let n0 = out.len();
        push(format!("smallest enumerated encoding of length {len} of a value that is not well-formed"), b, &mut out, &mut raw_left, false);
        for x in &mut out[n0..] {
            x.from_wellformed = false;
        }
    }
    for (label, b) in (e.raw)() {
        let mutate = b.len() <= cfg.max_mutated_raw_len;
        out.push(Base { type_idx, origin: format!("raw letter {label}"), bytes: b, mutate, kind: MutKind::Raw, from_wellformed: false });
    }
    (out, capped)
}

pub fn case_bytes(type_name: &str, origin: &str, kind: MutKind, b: &[u8]) -> Value {
    json!({"kind": "bytes", "type": type_name, "mutation": kind.name(), "base": origin, "hex": hex::encode(b)})
}

pub struct TierParams {
    pub base: BaseCfg,
    /// bases up to this length get all 255 substitutions per position
    pub full_alphabet_max_len: usize,
}

pub fn tier_params(thorough: bool) -> TierParams {
    if thorough {
        TierParams { base: BaseCfg { max_lengths: 48, raw_bls_bases: 2, max_mutated_raw_len: 4096 }, full_alphabet_max_len: 128 }
    } else {
        TierParams { base: BaseCfg { max_lengths: 6, raw_bls_bases: 0, max_mutated_raw_len: 512 }, full_alphabet_max_len: 48 }
    }
}

// child modules come last so that the macros above are in scope for them
pub mod registry;
pub mod scan;
pub mod selftest;
