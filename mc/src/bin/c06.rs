//! C06 — strict modes only restrict, and ordering never changes the verdict.
//! Engine E, metamorphic: both sides of every relation are the real `parse_spends`.
//!  (a) for every bundle and every fork flag set F and every non-empty strictness subset S of
//!      {NO_UNKNOWN_CONDS, STRICT_ARGS_COUNT, LIMIT_SPENDS}: accepted(F u S) => accepted(F) with an
//!      identical canonical summary and cost;
//!  (b) every permutation of the conditions inside each spend and of the spends: same verdict,
//!      same cost, same summary up to listing order (and the positionally defined FF flag).

use mc::drive::{self, BIG_COST, P1, P2, PH1, PH2, coin_id, output, real_parse, rflags_name, spend};
use mc::letters::{sigma2, strict_sensitive};
use mc::refcond::{CSummary, F_FF, RFlags};
use mc::report::{Report, catch, fxhash};
use mc::sx::{Sx, sha256};
use rayon::prelude::*;
use serde_json::{Value, json};
use std::collections::BTreeMap;

/// order-insensitive form: spends sorted by coin id, signature lists sorted, FF flag masked
fn unordered(s: &CSummary) -> CSummary {
    let mut c = s.clone();
    for sp in &mut c.spends {
        for l in &mut sp.agg_sigs {
            l.sort();
        }
        sp.flags &= !F_FF;
    }
    c.spends.sort();
    c.agg_sig_unsafe.sort();
    c
}

fn permutations(n: usize) -> Vec<Vec<usize>> {
    fn rec(cur: &mut Vec<usize>, used: &mut Vec<bool>, n: usize, out: &mut Vec<Vec<usize>>) {
        if cur.len() == n {
            out.push(cur.clone());
            return;
        }
        for i in 0..n {
            if !used[i] {
                used[i] = true;
                cur.push(i);
                rec(cur, used, n, out);
                cur.pop();
                used[i] = false;
            }
        }
    }
    let mut out = Vec::new();
    rec(&mut vec![], &mut vec![false; n], n, &mut out);
    out
}

#[derive(Clone)]
struct Bundle {
    /// (parent, ph, amount, conditions)
    spends: Vec<([u8; 32], [u8; 32], u64, Vec<Sx>)>,
}

fn tree(b: &Bundle) -> Sx {
    output(&b.spends.iter().map(|(p, ph, a, c)| spend(p, ph, *a, Sx::list(c))).collect::<Vec<_>>())
}

fn run_one(t: &Sx, f: RFlags) -> Option<(CSummary, u64)> {
    real_parse(t, f, BIG_COST).ok().map(|r| (r.summary, r.cost))
}

struct Local {
    evals: u64,
    b: BTreeMap<String, u64>,
}

fn check_bundle(b: &Bundle, loc: &mut Local) -> Result<(), (String, String)> {
    let t = tree(b);
    // (a) strict subset of lenient
    for mempool in [false, true] {
        for cc in [false, true] {
            let lenient_f = RFlags { cost_conditions: cc, mempool, ..Default::default() };
            let lenient = run_one(&t, lenient_f);
            loc.evals += 1;
            for bits in 1..8u8 {
                let f = RFlags { no_unknown: bits & 1 != 0, strict: bits & 2 != 0, limit_spends: bits & 4 != 0, cost_conditions: cc, mempool };
                let strict = run_one(&t, f);
                loc.evals += 1;
                match (&strict, &lenient) {
                    (Some(_), None) => {
                        return Err(("strict-accepts-lenient-rejects".into(), format!("{t:?}\naccepted under {} but rejected under {}", rflags_name(f), rflags_name(lenient_f))));
                    }
                    (Some(s), Some(l)) => {
                        if s != l {
                            return Err(("strict-changes-summary".into(), format!("{t:?}\nunder {}: {:?}\nunder {}: {:?}", rflags_name(f), s, rflags_name(lenient_f), l)));
                        }
                        *loc.b.entry("strict/both-accept".into()).or_insert(0) += 1;
                    }
                    (None, Some(_)) => *loc.b.entry("strict/only-lenient-accepts".into()).or_insert(0) += 1,
                    (None, None) => *loc.b.entry("strict/both-reject".into()).or_insert(0) += 1,
                }
            }
        }
    }
    // (b) permutations (flag sets: lenient and fully strict, both visitors, post-fork costs on/off)
    let spend_perms = permutations(b.spends.len());
    let cond_perms: Vec<Vec<Vec<usize>>> = b.spends.iter().map(|s| permutations(s.3.len())).collect();
    for f in [
        RFlags::default(),
        RFlags { mempool: true, ..Default::default() },
        RFlags { no_unknown: true, strict: true, cost_conditions: true, limit_spends: true, mempool: true },
        RFlags { cost_conditions: true, ..Default::default() },
    ] {
        let base = run_one(&t, f);
        let base_u = base.as_ref().map(|(s, c)| (unordered(s), *c));
        loc.evals += 1;
        for sp in &spend_perms {
            // cartesian product of the per-spend condition permutations
            let mut idx = vec![0usize; b.spends.len()];
            loop {
                let pb = Bundle {
                    spends: sp
                        .iter()
                        .map(|&si| {
                            let (p, ph, a, c) = &b.spends[si];
                            (*p, *ph, *a, cond_perms[si][idx[si]].iter().map(|&ci| c[ci].clone()).collect())
                        })
                        .collect(),
                };
                let pt = tree(&pb);
                let r = run_one(&pt, f);
                loc.evals += 1;
                // with the cost limit set to the exact cost of the original order, every order
                // must still be accepted (acceptance under a limit must not depend on order)
                if let Some((_, c)) = &base {
                    loc.evals += 1;
                    match real_parse(&pt, f, *c) {
                        Ok(ro) if ro.cost == *c => {}
                        other => {
                            return Err(("order-changes-verdict-at-exact-limit".into(), format!("flags {} limit {c}\noriginal {t:?} accepted with cost {c}\npermuted {pt:?} -> {:?}", rflags_name(f), other.map(|r| r.cost))));
                        }
                    }
                }
                let ru = r.as_ref().map(|(s, c)| (unordered(s), *c));
                if ru != base_u {
                    let what = match (&base_u, &ru) {
                        (Some(_), None) | (None, Some(_)) => "order-changes-verdict",
                        (Some((_, c1)), Some((_, c2))) if c1 != c2 => "order-changes-cost",
                        _ => "order-changes-summary",
                    };
                    return Err((what.into(), format!("flags {}\noriginal {t:?}\n -> {:?}\npermuted {pt:?}\n -> {:?}", rflags_name(f), base_u, ru)));
                }
                // next combination
                let mut k = 0;
                loop {
                    if k == idx.len() {
                        break;
                    }
                    idx[k] += 1;
                    if idx[k] < cond_perms[k].len() {
                        break;
                    }
                    idx[k] = 0;
                    k += 1;
                }
                if k == idx.len() {
                    break;
                }
            }
        }
        *loc.b.entry(if base.is_some() { "perm/accepted-invariant" } else { "perm/rejected-invariant" }.into()).or_insert(0) += 1;
    }
    Ok(())
}

fn run(rep: &Report) {
    let env = drive::env();
    let mut letters = sigma2(&env);
    letters.extend(strict_sensitive(&env));
    let a_id = coin_id(&P1, &PH1, 5);
    rep.set_rule("bundles: spend A=(P1,PH1,5) carrying every multiset of <=2, every multiset of <=1 on A plus <=1 on a second spend B-child / C-sibling, and every multiset of 3 over the strict-sensitive + lock letters (both tiers enumerate the same space) of the interaction letters and the strict-sensitive letters; relation (a) on 4 fork flag sets x 7 strictness subsets; relation (b) on all permutations of conditions within spends x all permutations of spends under 4 flag sets; plus every multiset of 3 locks inside each after/before family (82+86, 80+84, 83+87, 81+85) on A; plus the ephemeral child B carrying every multiset of 2 lock / birth / ASSERT_EPHEMERAL letters; plus LIMIT_SPENDS at 5999/6000/6001 spends. distinct = distinct bundles");
    rep.assume("both sides of each relation are the real parse_spends; summaries are compared after sorting spends by coin id, sorting signature lists and masking the positionally defined FF flag");
    rep.extra("letters", json!(letters.len()));
    let n = letters.len();
    let mut bundles: Vec<Bundle> = Vec::new();
    let a = |c: Vec<Sx>| (P1, PH1, 5u64, c);
    bundles.push(Bundle { spends: vec![a(vec![])] });
    for i in 0..n {
        bundles.push(Bundle { spends: vec![a(vec![letters[i].1.clone()])] });
        for j in i..n {
            bundles.push(Bundle { spends: vec![a(vec![letters[i].1.clone(), letters[j].1.clone()])] });
        }
    }
    // two spends: A with <=1, second with <=1 (quick) ; A with <=2 in thorough
    let seconds: Vec<([u8; 32], [u8; 32], u64)> = vec![(a_id, PH2, 3), (P2, PH1, 5)];
    let create_b = drive::cond(51, &[Sx::atom(&PH2), Sx::int(3)]);
    for (p, ph, am) in &seconds {
        for i in 0..n {
            for j in 0..n {
                let mut first = vec![letters[i].1.clone()];
                if *p == a_id {
                    first.push(create_b.clone());
                }
                bundles.push(Bundle { spends: vec![a(first), (*p, *ph, *am, vec![letters[j].1.clone()])] });
            }
        }
    }
    // the ephemeral child B with every multiset of 2 lock / birth / ASSERT_EPHEMERAL letters (incl. the
    // always-true negative and oversize relative locks): the "no relative condition on an
    // ephemeral coin" rule must not depend on which of the two comes first
    {
        let lock: Vec<usize> = (0..n).filter(|i| { let nme = &letters[*i].0; nme.starts_with("op8") || nme == "op74" || nme == "op75" || nme == "op76" }).collect();
        for (x, &i) in lock.iter().enumerate() {
            for &j in lock.iter().skip(x) {
                bundles.push(Bundle { spends: vec![a(vec![create_b.clone()]), (a_id, PH2, 3, vec![letters[i].1.clone(), letters[j].1.clone()])] });
            }
        }
    }
    // every multiset of 3 inside each after/before lock family (82+86, 80+84, 83+87, 81+85; six
    // values each incl. 0, negative, maximal and oversize): the impossible-constraint test and the
    // max/min folds must not depend on which of two same-kind locks comes first
    for (after, before) in [(82u8, 86u8), (80, 84), (83, 87), (81, 85)] {
        let fam: Vec<usize> = (0..n).filter(|i| letters[*i].0 == format!("op{after}") || letters[*i].0 == format!("op{before}")).collect();
        for (x, &i) in fam.iter().enumerate() {
            for (y, &j) in fam.iter().enumerate().skip(x) {
                for &k in fam.iter().skip(y) {
                    bundles.push(Bundle { spends: vec![a(vec![letters[i].1.clone(), letters[j].1.clone(), letters[k].1.clone()])] });
                }
            }
        }
    }
    // (formerly thorough only; a few seconds)
    {
        // triples over the letters that interact through aggregation (locks, fees, strict-sensitive)
        let idx: Vec<usize> = (0..n).filter(|i| { let nme = &letters[*i].0; nme.starts_with("op8") || nme.starts_with("op7") || nme.starts_with("op52") || nme.contains('+') || nme.starts_with("opx") || nme.starts_with("op90") }).collect();
        for (x, &i) in idx.iter().enumerate() {
            for (y, &j) in idx.iter().enumerate().skip(x) {
                for &k in idx.iter().skip(y) {
                    bundles.push(Bundle { spends: vec![a(vec![letters[i].1.clone(), letters[j].1.clone(), letters[k].1.clone()])] });
                }
            }
        }
    }
    rep.extra("bundles", json!(bundles.len()));
    bundles.par_chunks(32).for_each(|chunk| {
        let mut loc = Local { evals: 0, b: BTreeMap::new() };
        let mut d = Vec::new();
        for b in chunk {
            let t = tree(b);
            let case = json!({"output_hex": hex::encode(t.serialize())});
            match catch(|| check_bundle(b, &mut loc)) {
                Ok(Ok(())) => d.push(fxhash(&t)),
                Ok(Err((sig, det))) => rep.violation(&format!("C06/{sig}"), case, det),
                Err(p) => rep.violation("C06/panic", case, p),
            }
        }
        rep.evals(loc.evals);
        for (k, v) in loc.b {
            rep.outcome_n(&k, v);
        }
        rep.distinct_many(d);
    });
    // LIMIT_SPENDS boundary, as three structured cases
    for nsp in [5999usize, 6000, 6001] {
        let spends: Vec<Sx> = (0..nsp).map(|i| spend(&sha256(&[&(i as u64).to_be_bytes()]), &PH1, 1, Sx::nil())).collect();
        let t = output(&spends);
        let lenient = run_one(&t, RFlags::default());
        let strict = run_one(&t, RFlags { limit_spends: true, ..Default::default() });
        rep.evals(2);
        match (&strict, &lenient) {
            (Some(_), None) => rep.violation("C06/strict-accepts-lenient-rejects", json!({"spends": nsp}), format!("{nsp} spends")),
            (Some(s), Some(l)) if s != l => rep.violation("C06/strict-changes-summary", json!({"spends": nsp}), format!("{nsp} spends")),
            (Some(_), Some(_)) => rep.outcome("limit-spends/both-accept"),
            (None, Some(_)) => rep.outcome("limit-spends/only-lenient-accepts"),
            (None, None) => rep.violation("C06/limit-spends/lenient-rejects", json!({"spends": nsp}), format!("{nsp} empty spends rejected without LIMIT_SPENDS")),
        }
    }
    rep.sample(json!({"bundle": "A with [(83 1 'x'), (51 PH2 2 (H1) 'x')]", "relation": "accepted under USL => accepted without, same summary; 2 condition orders x 1 spend order"}));
}

fn replay(case: &Value) -> String {
    let Some(h) = case["output_hex"].as_str() else { return "structured LIMIT_SPENDS case: re-run the check".into() };
    let t = Sx::parse(&hex::decode(h).unwrap()).unwrap();
    let mut out = format!("{t:?}\n");
    for f in drive::all_rflags(&[false, true], true) {
        out += &format!("{} -> {:?}\n", rflags_name(f), run_one(&t, f).map(|(s, c)| (c, s.spends.len(), fxhash(&unordered(&s)))));
    }
    out
}

fn main() {
    mc::cli::main("C06", "exploration", run, replay)
}
