//! C05 — signature acceptance binds each AGG_SIG condition to its domain-separated text.
//! Engine E: every base case (8 AGG_SIG opcodes x 23 coin amounts of every encoding length x
//! message lengths) is signed by the harness's own signer over the harness's own rule table,
//! must be accepted on every verification path (parse_spends without / with cold / warm / foreign-
//! warm cache, run_block_generator2, validate_clvm_and_signature), must yield exactly the
//! expected (key, message) multiset, and every single-point tampering from a fixed menu must be
//! rejected on every path exactly when it changes that multiset.

use chia_bls::{BlsCache, SecretKey, Signature, aggregate, sign};
use chia_consensus::conditions::{EmptyVisitor, MempoolVisitor, parse_spends};
use chia_consensus::consensus_constants::{ConsensusConstants, TEST_CONSTANTS};
use chia_consensus::flags::ConsensusFlags;
use chia_consensus::make_aggsig_final_message::make_aggsig_final_message;
use chia_consensus::owned_conditions::OwnedSpendConditions;
use chia_consensus::spendbundle_validation::validate_clvm_and_signature;
use chia_protocol::Bytes32;
use clvmr::Allocator;
use mc::drive::{self, P1, P2};
use mc::genr::{self, GSpend, generator_sx, run_bundle, run_gen2};
use mc::report::{Report, catch, fxhash};
use mc::sx::{Sx, enc_u64, sha256};
use rayon::prelude::*;
use serde_json::{Value, json};
use std::collections::BTreeMap;
use std::num::NonZeroUsize;

const OPS: [u8; 8] = [43, 44, 45, 46, 47, 48, 49, 50];

fn amounts() -> Vec<u64> {
    vec![0, 1, 0x7f, 0x80, 0xff, 0x100, 0x7fff, 0x8000, (1 << 23) - 1, 1 << 23, (1 << 31) - 1, 1 << 31, u32::MAX as u64, 1 << 32, (1 << 39) - 1, 1 << 39, (1 << 47) - 1, 1 << 47, (1 << 55) - 1, 1 << 55, (1u64 << 63) - 1, 1 << 63, u64::MAX]
}

/// the seven domain-separation constants, by opcode
fn domain(c: &ConsensusConstants, op: u8) -> Option<[u8; 32]> {
    Some(match op {
        43 => c.agg_sig_parent_additional_data.to_bytes(),
        44 => c.agg_sig_puzzle_additional_data.to_bytes(),
        45 => c.agg_sig_amount_additional_data.to_bytes(),
        46 => c.agg_sig_puzzle_amount_additional_data.to_bytes(),
        47 => c.agg_sig_parent_amount_additional_data.to_bytes(),
        48 => c.agg_sig_parent_puzzle_additional_data.to_bytes(),
        50 => c.agg_sig_me_additional_data.to_bytes(),
        _ => return None,
    })
}

/// harness rule table: the text an AGG_SIG condition commits to
fn final_message(op: u8, msg: &[u8], parent: &[u8; 32], ph: &[u8; 32], amount: u64, c: &ConsensusConstants) -> Vec<u8> {
    let mut m = msg.to_vec();
    let am = enc_u64(amount);
    match op {
        43 => m.extend_from_slice(parent),
        44 => m.extend_from_slice(ph),
        45 => m.extend_from_slice(&am),
        46 => {
            m.extend_from_slice(ph);
            m.extend_from_slice(&am);
        }
        47 => {
            m.extend_from_slice(parent);
            m.extend_from_slice(&am);
        }
        48 => {
            m.extend_from_slice(parent);
            m.extend_from_slice(ph);
        }
        50 => m.extend_from_slice(&sha256(&[parent, ph, &am])),
        _ => {}
    }
    if let Some(d) = domain(c, op) {
        m.extend_from_slice(&d);
    }
    m
}

#[derive(Clone)]
struct Cond {
    op: u8,
    key: Vec<u8>,
    msg: Vec<u8>,
}

#[derive(Clone)]
struct Spend {
    parent: [u8; 32],
    amount: u64,
    conds: Vec<Cond>,
    /// identity puzzle or quoted puzzle (changes the puzzle hash)
    quoted: bool,
}

impl Spend {
    fn conds_sx(&self) -> Sx {
        Sx::list(&self.conds.iter().map(|c| drive::cond(c.op, &[Sx::Atom(c.key.clone()), Sx::Atom(c.msg.clone())])).collect::<Vec<_>>())
    }
    fn gspend(&self) -> GSpend {
        if self.quoted { GSpend::quoted(self.parent, self.amount, self.conds_sx()) } else { GSpend::identity(self.parent, self.amount, self.conds_sx()) }
    }
    fn ph(&self) -> [u8; 32] {
        self.gspend().puzzle_hash()
    }
}

struct World {
    sks: Vec<SecretKey>,
    pks: Vec<Vec<u8>>,
}

/// expected (key, message) multiset of a block according to the rule table
fn expected_pairs(spends: &[Spend], c: &ConsensusConstants) -> Vec<(Vec<u8>, Vec<u8>)> {
    let mut v = Vec::new();
    for s in spends {
        let ph = s.ph();
        for cd in &s.conds {
            v.push((cd.key.clone(), final_message(cd.op, &cd.msg, &s.parent, &ph, s.amount, c)));
        }
    }
    v
}

fn sign_pairs(w: &World, pairs: &[(Vec<u8>, Vec<u8>)]) -> Signature {
    aggregate(pairs.iter().map(|(k, m)| {
        let i = w.pks.iter().position(|p| p == k).expect("harness key");
        sign(&w.sks[i], m)
    }))
}

/// verdicts of all verification paths for (spends, signature, constants)
fn verdicts(spends: &[Spend], sig: &Signature, c: &ConsensusConstants, foreign: &BlsCache) -> Vec<(&'static str, bool)> {
    let mut out = Vec::new();
    let flags = ConsensusFlags::empty();
    let tree = drive::output(&spends.iter().map(|s| drive::spend(&s.parent, &s.ph(), s.amount, s.conds_sx())).collect::<Vec<_>>());
    let mut a = Allocator::new();
    let n = tree.to_node(&mut a);
    out.push(("parse_spends/no-cache", parse_spends::<EmptyVisitor>(&a, n, u64::MAX / 4, 0, flags, sig, None, c).is_ok()));
    out.push(("parse_spends(mempool)/no-cache", parse_spends::<MempoolVisitor>(&a, n, u64::MAX / 4, 0, flags, sig, None, c).is_ok()));
    let cache = BlsCache::new(NonZeroUsize::new(100).unwrap());
    out.push(("parse_spends/cold-cache", parse_spends::<EmptyVisitor>(&a, n, u64::MAX / 4, 0, flags, sig, Some(&cache), c).is_ok()));
    out.push(("parse_spends/warm-cache", parse_spends::<EmptyVisitor>(&a, n, u64::MAX / 4, 0, flags, sig, Some(&cache), c).is_ok()));
    out.push(("parse_spends/foreign-warm-cache", parse_spends::<EmptyVisitor>(&a, n, u64::MAX / 4, 0, flags, sig, Some(foreign), c).is_ok()));
    let gs: Vec<GSpend> = spends.iter().map(Spend::gspend).collect();
    let g = generator_sx(&gs).serialize();
    out.push(("run_block_generator2", run_gen2(&g, &[], u64::MAX / 4, flags, sig, c).map(|r| r.validated_signature).unwrap_or(false)));
    let b = genr::bundle(&gs, sig);
    out.push(("validate_clvm_and_signature", validate_clvm_and_signature(&b, u64::MAX / 4, c, flags).is_ok()));
    out
}

fn describe(spends: &[Spend]) -> Value {
    json!(spends.iter().map(|s| json!({"parent": hex::encode(s.parent), "amount": s.amount, "quoted": s.quoted, "conds": s.conds.iter().map(|c| json!([c.op, hex::encode(&c.key), hex::encode(&c.msg)])).collect::<Vec<_>>()})).collect::<Vec<_>>())
}

struct Local {
    evals: u64,
    b: BTreeMap<String, u64>,
}

fn require(name: &str, spends: &[Spend], sig: &Signature, c: &ConsensusConstants, foreign: &BlsCache, want: bool, loc: &mut Local) -> Result<(), (String, String)> {
    for (path, got) in verdicts(spends, sig, c, foreign) {
        loc.evals += 1;
        if got != want {
            return Err((format!("{}/{name}/{path}", if want { "valid-rejected" } else { "tampered-accepted" }), format!("{name}: path {path} returned {got}, expected {want}\n{}", describe(spends))));
        }
    }
    *loc.b.entry(format!("{name}/{}", if want { "accept" } else { "reject" })).or_insert(0) += 1;
    Ok(())
}

fn base_case(w: &World, op: u8, amount: u64, msg: &[u8], foreign: &BlsCache, loc: &mut Local) -> Result<(), (String, String)> {
    let c = TEST_CONSTANTS.clone();
    let fixed = Cond { op: 49, key: w.pks[2].clone(), msg: b"fixed".to_vec() };
    let tested = Cond { op, key: w.pks[0].clone(), msg: msg.to_vec() };
    let spends = vec![Spend { parent: P1, amount, conds: vec![tested.clone(), fixed.clone()], quoted: false }];
    let pairs = expected_pairs(&spends, &c);
    let sig = sign_pairs(w, &pairs);

    // the pairs the mempool path reports, and the helper's messages
    let gs: Vec<GSpend> = spends.iter().map(Spend::gspend).collect();
    let (_, got_pairs) = run_bundle(&genr::bundle(&gs, &sig), u64::MAX / 4, ConsensusFlags::empty(), &c).map_err(|e| ("run_spendbundle/rejects".to_string(), format!("{e:?}")))?;
    let mut gp = got_pairs.clone();
    gp.sort();
    let mut wp = pairs.clone();
    wp.sort();
    if gp != wp {
        return Err((format!("pairs/op{op}"), format!("run_spendbundle reports {:?}\nrule table says    {:?}", gp.iter().map(|(k, m)| (hex::encode(&k[..4]), hex::encode(m))).collect::<Vec<_>>(), wp.iter().map(|(k, m)| (hex::encode(&k[..4]), hex::encode(m))).collect::<Vec<_>>())));
    }
    {
        let owned = OwnedSpendConditions { parent_id: Bytes32::new(P1), puzzle_hash: Bytes32::new(spends[0].ph()), coin_amount: amount, coin_id: Bytes32::new(sha256(&[&P1, &spends[0].ph(), &enc_u64(amount)])), ..Default::default() };
        let mut m = msg.to_vec();
        make_aggsig_final_message(op as u16, &mut m, &owned, &c);
        if m != pairs[0].1 {
            return Err((format!("make_aggsig_final_message/op{op}"), format!("helper yields {} rule table {}", hex::encode(&m), hex::encode(&pairs[0].1))));
        }
    }
    require("base", &spends, &sig, &c, foreign, true, loc)?;

    // ---- tamperings; each is rejected exactly when it changes the signed multiset
    let tamper = |name: &str, sp: Vec<Spend>, sg: &Signature, cc: &ConsensusConstants, loc: &mut Local| -> Result<(), (String, String)> {
        let mut e = expected_pairs(&sp, cc);
        e.sort();
        // an invalid key makes the bundle invalid regardless of the signature
        let bad_key = sp.iter().any(|s| s.conds.iter().any(|c| !w.pks.contains(&c.key)));
        let same = !bad_key && e == wp && *sg == sig;
        require(name, &sp, sg, cc, foreign, same, loc)
    };
    // signature of another text / identity signature
    let other = sign_pairs(w, &expected_pairs(&[Spend { parent: P2, amount, conds: vec![tested.clone(), fixed.clone()], quoted: false }], &c));
    if other != sig {
        tamper("sig-of-other-case", spends.clone(), &other, &c, loc)?;
    }
    tamper("sig-identity", spends.clone(), &Signature::default(), &c, loc)?;
    // message byte
    {
        let mut s = spends.clone();
        if s[0].conds[0].msg.is_empty() {
            s[0].conds[0].msg.push(0);
        } else {
            s[0].conds[0].msg[0] ^= 1;
        }
        tamper("message-byte", s, &sig, &c, loc)?;
    }
    // key := pk2
    {
        let mut s = spends.clone();
        s[0].conds[0].key = w.pks[1].clone();
        tamper("key-swapped", s, &sig, &c, loc)?;
    }
    // coin attributes (rejected only if the opcode commits to them)
    let am = amounts();
    let idx = am.iter().position(|a| *a == amount).unwrap();
    for nb in [idx.checked_sub(1), Some(idx + 1)].into_iter().flatten() {
        if let Some(a2) = am.get(nb) {
            let mut s = spends.clone();
            s[0].amount = *a2;
            tamper("amount-neighbour", s, &sig, &c, loc)?;
        }
    }
    {
        let mut s = spends.clone();
        s[0].parent[31] ^= 1;
        tamper("parent-byte", s, &sig, &c, loc)?;
        let mut s = spends.clone();
        s[0].quoted = true;
        tamper("puzzle-hash", s, &sig, &c, loc)?;
    }
    // the opcode's own domain constant altered in the constants passed in, and a foreign one
    for o2 in [op, if op == 50 { 43 } else { 50 }] {
        let mut c2 = c.clone();
        let flip = |b: &mut Bytes32| {
            let mut x = b.to_bytes();
            x[0] ^= 1;
            *b = Bytes32::new(x);
        };
        match o2 {
            43 => flip(&mut c2.agg_sig_parent_additional_data),
            44 => flip(&mut c2.agg_sig_puzzle_additional_data),
            45 => flip(&mut c2.agg_sig_amount_additional_data),
            46 => flip(&mut c2.agg_sig_puzzle_amount_additional_data),
            47 => flip(&mut c2.agg_sig_parent_amount_additional_data),
            48 => flip(&mut c2.agg_sig_parent_puzzle_additional_data),
            50 => flip(&mut c2.agg_sig_me_additional_data),
            _ => continue,
        }
        tamper(if o2 == op { "own-domain-constant" } else { "foreign-domain-constant" }, spends.clone(), &sig, &c2, loc)?;
    }
    // pair dropped / duplicated
    {
        let mut s = spends.clone();
        s[0].conds.remove(1);
        tamper("pair-dropped", s, &sig, &c, loc)?;
        let mut s = spends.clone();
        s[0].conds.remove(0);
        tamper("tested-pair-dropped", s, &sig, &c, loc)?;
        let mut s = spends.clone();
        s[0].conds.push(tested.clone());
        tamper("pair-duplicated", s, &sig, &c, loc)?;
    }
    // infinity and off-curve keys
    for (n, k) in [("infinity-key", drive::inf_key()), ("off-curve-key", drive::bad_key())] {
        let mut s = spends.clone();
        s[0].conds[0].key = k;
        tamper(n, s, &sig, &c, loc)?;
    }
    // different opcode with the same arguments
    {
        let mut s = spends.clone();
        s[0].conds[0].op = if op == 50 { 49 } else { op + 1 };
        tamper("opcode-neighbour", s, &sig, &c, loc)?;
    }
    Ok(())
}

/// AGG_SIG_UNSAFE messages ending in a domain constant are banned even when correctly signed
fn suffix_ban(w: &World, foreign: &BlsCache, loc: &mut Local) -> Result<(), (String, String)> {
    let c = TEST_CONSTANTS.clone();
    for op in [43u8, 44, 45, 46, 47, 48, 50] {
        let d = domain(&c, op).unwrap();
        let mut cases: Vec<(String, Vec<u8>, bool)> = vec![
            ("exactly-the-constant".into(), d.to_vec(), false),
            ("prefix+constant".into(), [b"xyz".as_slice(), &d].concat(), false),
            ("long-prefix+constant".into(), [&[7u8; 900][..], &d].concat(), false),
            ("constant-minus-last-byte".into(), d[..31].to_vec(), true),
            ("constant+suffix".into(), [&d[..], b"z"].concat(), true),
            ("constant-last-byte-flipped".into(), { let mut x = d.to_vec(); x[31] ^= 1; x }, true),
        ];
        for (n, msg, ok) in cases.drain(..) {
            let spends = vec![Spend { parent: P1, amount: 5, conds: vec![Cond { op: 49, key: w.pks[0].clone(), msg }], quoted: false }];
            let sig = sign_pairs(w, &expected_pairs(&spends, &c));
            require(&format!("unsafe-suffix/{n}"), &spends, &sig, &c, foreign, ok, loc)?;
            // the ban is a rule about the condition, not about the signature check: the same verdict
            // when the caller has the signature validated elsewhere (DONT_VALIDATE_SIGNATURE)
            let tree = drive::output(&spends.iter().map(|s| drive::spend(&s.parent, &s.ph(), s.amount, s.conds_sx())).collect::<Vec<_>>());
            let mut a = Allocator::new();
            let node = tree.to_node(&mut a);
            let f = ConsensusFlags::DONT_VALIDATE_SIGNATURE;
            let nosig = Signature::default();
            for (path, got) in [
                ("parse_spends/dont-validate", parse_spends::<EmptyVisitor>(&a, node, u64::MAX / 4, 0, f, &nosig, None, &c).is_ok()),
                ("parse_spends(mempool)/dont-validate", parse_spends::<MempoolVisitor>(&a, node, u64::MAX / 4, 0, f, &nosig, None, &c).is_ok()),
            ] {
                loc.evals += 1;
                if got != ok {
                    return Err((format!("unsafe-suffix/{n}/{path}"), format!("AGG_SIG_UNSAFE message shape {n} for opcode {op}'s constant: {path} returned {got}, expected {ok}")));
                }
            }
        }
    }
    Ok(())
}

/// no AGG_SIG condition at all: the empty multiset is signed by the identity and by nothing else
fn empty_set(w: &World, foreign: &BlsCache, loc: &mut Local) -> Result<(), (String, String)> {
    let c = TEST_CONSTANTS.clone();
    let shapes: Vec<(&str, Vec<Spend>)> = vec![
        ("one-spend", vec![Spend { parent: P1, amount: 5, conds: vec![], quoted: false }]),
        ("two-spends", vec![Spend { parent: P1, amount: 5, conds: vec![], quoted: false }, Spend { parent: P2, amount: 1 << 39, conds: vec![], quoted: true }]),
    ];
    let mut gen2 = Signature::generator();
    gen2.scalar_multiply(&[2]);
    let sigs: Vec<(&str, Signature, bool)> = vec![
        ("identity", Signature::default(), true),
        ("generator", Signature::generator(), false),
        ("2*generator", gen2, false),
        ("a-real-signature", sign(&w.sks[0], b"unrelated"), false),
    ];
    for (sn, spends) in &shapes {
        for (gn, sig, ok) in &sigs {
            require(&format!("no-agg-sig/{sn}/{gn}"), spends, sig, &c, foreign, *ok, loc)?;
        }
    }
    Ok(())
}

/// infinity keys offered to the pairing cache directly (the consensus parser refuses them earlier):
/// the verdict must be the cache-free one on the cold call and on every warm call
fn infinity_through_cache(w: &World, loc: &mut Local) -> Result<(), (String, String)> {
    let inf = chia_bls::PublicKey::default();
    let pk0 = w.sks[0].public_key();
    let m: &[u8] = b"hello";
    let lists: Vec<(&str, Vec<(chia_bls::PublicKey, &[u8])>, Signature)> = vec![
        ("only-infinity/identity-signature", vec![(inf, m)], Signature::default()),
        ("key+infinity/signature-of-key", vec![(pk0, m), (inf, m)], sign(&w.sks[0], m)),
        ("infinity+key/signature-of-key", vec![(inf, m), (pk0, m)], sign(&w.sks[0], m)),
    ];
    for (name, list, sig) in lists {
        let want = chia_bls::aggregate_verify(&sig, list.iter().map(|(k, m)| (k, *m)));
        let cache = BlsCache::new(NonZeroUsize::new(100).unwrap());
        for call in ["cold", "warm", "warm-again"] {
            loc.evals += 1;
            let got = cache.aggregate_verify(list.iter().map(|(k, m)| (k, *m)), &sig);
            if got != want {
                return Err((format!("infinity-key/{name}/{call}-cache"), format!("{name}: aggregate_verify without a cache returns {want}, BlsCache::aggregate_verify ({call}) returns {got}")));
            }
        }
        *loc.b.entry(format!("infinity-key/{name}/{}", if want { "accept" } else { "reject" })).or_insert(0) += 1;
    }
    Ok(())
}

/// two spends, every ordered pair of opcodes
fn pairs_case(w: &World, o1: u8, o2: u8, foreign: &BlsCache, loc: &mut Local) -> Result<(), (String, String)> {
    let c = TEST_CONSTANTS.clone();
    let spends = vec![
        Spend { parent: P1, amount: 0x80, conds: vec![Cond { op: o1, key: w.pks[0].clone(), msg: b"a".to_vec() }], quoted: false },
        Spend { parent: P2, amount: 1 << 39, conds: vec![Cond { op: o2, key: w.pks[1].clone(), msg: b"a".to_vec() }], quoted: false },
    ];
    let sig = sign_pairs(w, &expected_pairs(&spends, &c));
    require("two-spends", &spends, &sig, &c, foreign, true, loc)?;
    // swap the conditions between the spends: valid only if the texts do not change
    let mut sw = spends.clone();
    let t = sw[0].conds[0].clone();
    sw[0].conds[0] = sw[1].conds[0].clone();
    sw[1].conds[0] = t;
    let mut e1 = expected_pairs(&spends, &c);
    let mut e2 = expected_pairs(&sw, &c);
    e1.sort();
    e2.sort();
    require("two-spends/conditions-swapped", &sw, &sig, &c, foreign, e1 == e2, loc)
}

fn run(rep: &Report) {
    let sks = drive::test_keys();
    let pks = sks.iter().map(|k| k.public_key().to_bytes().to_vec()).collect();
    let w = World { sks, pks };
    // both tiers enumerate the same space (the full one takes a few seconds)
    let thorough = true;
    rep.set_rule("base cases: 8 AGG_SIG opcodes x 23 coin amounts (every minimal-encoding length class boundary) x messages of {0, 1, 32, 1024} bytes (both tiers enumerate the same space) with a second fixed AGG_SIG_UNSAFE pair; each signed by the harness over its own rule table and run through parse_spends (block and mempool visitor; no / cold / warm / foreign-warm BlsCache), run_block_generator2 and validate_clvm_and_signature; pairs reported by run_spendbundle and the text from make_aggsig_final_message compared with the rule table; then 17 single-point tamperings per base case, each expected to be rejected exactly when it changes the signed (key, message) multiset; AGG_SIG_UNSAFE suffix ban: 7 constants x 6 message shapes (also with DONT_VALIDATE_SIGNATURE); bundles without any AGG_SIG condition (1 and 2 spends) x {identity, generator, 2*generator, an unrelated real signature} on every path (only the identity signs the empty multiset); 3 pair lists containing the infinity key through BlsCache::aggregate_verify cold / warm / warm again against the cache-free verdict; all 64 ordered opcode pairs over two spends. distinct = distinct (case, tampering)");
    rep.assume("the harness signer is chia_bls::sign / aggregate with the harness's own secret keys (covered by C15/C16); forgeries that are not single-point edits are out of scope");
    // a cache warmed by an unrelated valid bundle
    let foreign = BlsCache::new(NonZeroUsize::new(1000).unwrap());
    {
        let c = TEST_CONSTANTS.clone();
        let spends = vec![Spend { parent: P2, amount: 77, conds: vec![Cond { op: 50, key: w.pks[0].clone(), msg: b"".to_vec() }, Cond { op: 49, key: w.pks[2].clone(), msg: b"fixed".to_vec() }], quoted: false }];
        let sig = sign_pairs(&w, &expected_pairs(&spends, &c));
        let tree = drive::output(&spends.iter().map(|s| drive::spend(&s.parent, &s.ph(), s.amount, s.conds_sx())).collect::<Vec<_>>());
        let mut a = Allocator::new();
        let n = tree.to_node(&mut a);
        assert!(parse_spends::<EmptyVisitor>(&a, n, u64::MAX / 4, 0, ConsensusFlags::empty(), &sig, Some(&foreign), &c).is_ok(), "foreign warm-up bundle must verify");
    }
    let msgs: Vec<Vec<u8>> = if thorough { vec![vec![], vec![0x61], vec![0x62; 32], vec![0x63; 1024]] } else { vec![vec![0x61]] };
    let mut cases: Vec<(u8, u64, Vec<u8>)> = Vec::new();
    for op in OPS {
        for a in amounts() {
            for m in &msgs {
                cases.push((op, a, m.clone()));
            }
        }
        if !thorough {
            // the other message lengths on one amount only
            for m in [vec![], vec![0x62; 32]] {
                cases.push((op, 0x80, m));
            }
        }
    }
    rep.extra("base_cases", json!(cases.len()));
    cases.par_iter().for_each(|(op, a, m)| {
        let mut loc = Local { evals: 0, b: BTreeMap::new() };
        let case = json!({"kind": "base", "op": op, "amount": a, "msg": hex::encode(m)});
        match catch(|| base_case(&w, *op, *a, m, &foreign, &mut loc)) {
            Ok(Ok(())) => rep.distinct(fxhash(&(op, a, m))),
            Ok(Err((sig, d))) => rep.violation(&format!("C05/{sig}"), case, format!("op {op} amount {a:#x}: {d}")),
            Err(p) => rep.violation("C05/panic", case, p),
        }
        rep.evals(loc.evals);
        for (k, n) in loc.b {
            rep.outcome_n(&k, n);
        }
    });
    {
        let mut loc = Local { evals: 0, b: BTreeMap::new() };
        match catch(|| suffix_ban(&w, &foreign, &mut loc)) {
            Ok(Ok(())) => {}
            Ok(Err((sig, d))) => rep.violation(&format!("C05/{sig}"), json!({"kind": "suffix"}), d),
            Err(p) => rep.violation("C05/panic", json!({"kind": "suffix"}), p),
        }
        rep.evals(loc.evals);
        for (k, n) in loc.b {
            rep.outcome_n(&k, n);
        }
    }
    for (kind, f) in [("empty-set", 0u8), ("infinity", 1u8)] {
        let mut loc = Local { evals: 0, b: BTreeMap::new() };
        let r = catch(|| if f == 0 { empty_set(&w, &foreign, &mut loc) } else { infinity_through_cache(&w, &mut loc) });
        match r {
            Ok(Ok(())) => rep.distinct(fxhash(&("extra", kind))),
            Ok(Err((sig, d))) => rep.violation(&format!("C05/{sig}"), json!({"kind": kind}), d),
            Err(p) => rep.violation("C05/panic", json!({"kind": kind}), p),
        }
        rep.evals(loc.evals);
        for (k, n) in loc.b {
            rep.outcome_n(&k, n);
        }
    }
    if thorough {
        let pairs: Vec<(u8, u8)> = OPS.iter().flat_map(|a| OPS.iter().map(move |b| (*a, *b))).collect();
        pairs.par_iter().for_each(|(o1, o2)| {
            let mut loc = Local { evals: 0, b: BTreeMap::new() };
            match catch(|| pairs_case(&w, *o1, *o2, &foreign, &mut loc)) {
                Ok(Ok(())) => rep.distinct(fxhash(&("pair", o1, o2))),
                Ok(Err((sig, d))) => rep.violation(&format!("C05/{sig}"), json!({"kind": "pair", "o1": o1, "o2": o2}), d),
                Err(p) => rep.violation("C05/panic", json!({"kind": "pair", "o1": o1, "o2": o2}), p),
            }
            rep.evals(loc.evals);
            for (k, n) in loc.b {
                rep.outcome_n(&k, n);
            }
        });
    }
    rep.sample(json!({"base": "AGG_SIG_PARENT_AMOUNT (47), coin amount 2^39, message 'a'", "signed_text": "msg | parent id | 00 80 00 00 00 00 | agg_sig_parent_amount_additional_data", "tamperings": 17}));
    rep.sample(json!({"suffix_ban": "AGG_SIG_UNSAFE with message = 'xyz' | agg_sig_me_additional_data, correctly signed -> must be rejected"}));
}

fn replay(case: &Value) -> String {
    let sks = drive::test_keys();
    let pks = sks.iter().map(|k| k.public_key().to_bytes().to_vec()).collect();
    let w = World { sks, pks };
    let foreign = BlsCache::new(NonZeroUsize::new(1000).unwrap());
    let mut loc = Local { evals: 0, b: BTreeMap::new() };
    match case["kind"].as_str() {
        Some("base") => format!("{:?}", base_case(&w, case["op"].as_u64().unwrap() as u8, case["amount"].as_u64().unwrap(), &hex::decode(case["msg"].as_str().unwrap()).unwrap(), &foreign, &mut loc)),
        Some("pair") => format!("{:?}", pairs_case(&w, case["o1"].as_u64().unwrap() as u8, case["o2"].as_u64().unwrap() as u8, &foreign, &mut loc)),
        Some("empty-set") => format!("{:?}", empty_set(&w, &foreign, &mut loc)),
        Some("infinity") => format!("{:?}", infinity_through_cache(&w, &mut loc)),
        _ => format!("{:?}", suffix_ban(&w, &foreign, &mut loc)),
    }
}

fn main() {
    mc::cli::main("C05", "exploration", run, replay)
}
