//! C04 — cost charged equals the consensus cost table and the limit is exact.
//! Engine E: every opcode class x repetition count x {pre, post hard-fork cost rules} x 1-2
//! spends through parse_spends, both generator paths (byte cost and INTERNED_GENERATOR) and the
//! mempool path; expected cost = harness size cost + clvmr's own execution cost + reference cost
//! table; every partial-sum boundary +-1 is replayed as the cost limit.

use chia_bls::Signature;
use chia_consensus::flags::ConsensusFlags;
use mc::drive::{self, BIG_COST, P1, P2, real_parse};
use mc::genr::{self, GSpend, PathOut, clvm_cost, generator_sx, interned_vbytes_ref, run_bundle, run_gen1, run_gen2, test_constants};
use mc::refcond::{self, Env, RFlags, SLOT_COST, ref_validate, slot_cost_exact};
use mc::report::{Report, catch, fxhash};
use mc::sx::{Sx, sha256};
use rayon::prelude::*;
use serde_json::{Value, json};
use std::collections::BTreeMap;

const AMOUNT: u64 = 1000;

/// condition groups that are valid on their own for the spend (parent, identity puzzle, AMOUNT);
/// `k` = repetition count (repeated conditions are made distinct where duplicates are illegal)
fn letters(env: &Env, parent: &[u8; 32], k: usize) -> Vec<(String, Vec<Sx>)> {
    let ph = Sx::int(1).tree_hash();
    let id = sha256(&[parent, &ph, &mc::sx::enc_u64(AMOUNT)]);
    let pk = Sx::Atom(env.valid_keys.iter().next().unwrap().clone());
    let c = |op: u8, args: Vec<Sx>| drive::cond(op, &args);
    let rep = |x: Sx| -> Vec<Sx> { (0..k).map(|_| x.clone()).collect() };
    let mut v: Vec<(String, Vec<Sx>)> = Vec::new();
    v.push(("none".into(), vec![]));
    v.push(("op1".into(), rep(c(1, vec![Sx::atom(b"r")]))));
    for op in 43u8..=50 {
        v.push((format!("op{op}"), rep(c(op, vec![pk.clone(), Sx::atom(b"m")]))));
    }
    v.push(("op51".into(), (0..k).map(|i| c(51, vec![Sx::atom(&drive::PH2), Sx::int(i as u64 + 1)])).collect()));
    v.push(("op52".into(), rep(c(52, vec![Sx::int(1)]))));
    v.push(("op60".into(), rep(c(60, vec![Sx::atom(b"hi")]))));
    v.push(("op62".into(), rep(c(62, vec![Sx::atom(b"hi")]))));
    v.push(("op61".into(), std::iter::once(c(60, vec![Sx::atom(b"hi")])).chain(rep(c(61, vec![Sx::atom(&sha256(&[&id, b"hi"]))]))).collect()));
    v.push(("op63".into(), std::iter::once(c(62, vec![Sx::atom(b"hi")])).chain(rep(c(63, vec![Sx::atom(&sha256(&[&ph, b"hi"]))]))).collect()));
    v.push(("op64".into(), rep(c(64, vec![Sx::atom(&id)]))));
    v.push(("op65".into(), rep(c(65, vec![Sx::atom(&ph)]))));
    // a message to itself, committed by puzzle hash on both sides
    v.push((
        "op66+67".into(),
        (0..k).flat_map(|_| vec![c(66, vec![Sx::int(0b010_010), Sx::atom(b"msg"), Sx::atom(&ph)]), c(67, vec![Sx::int(0b010_010), Sx::atom(b"msg"), Sx::atom(&ph)])]).collect(),
    ));
    v.push(("op70".into(), rep(c(70, vec![Sx::atom(&id)]))));
    v.push(("op71".into(), rep(c(71, vec![Sx::atom(parent)]))));
    v.push(("op72".into(), rep(c(72, vec![Sx::atom(&ph)]))));
    v.push(("op73".into(), rep(c(73, vec![Sx::int(AMOUNT)]))));
    v.push(("op74".into(), rep(c(74, vec![Sx::int(7)]))));
    v.push(("op75".into(), rep(c(75, vec![Sx::int(7)]))));
    for op in 80u8..=83 {
        v.push((format!("op{op}"), rep(c(op, vec![Sx::int(7)]))));
    }
    for op in 84u8..=87 {
        v.push((format!("op{op}"), rep(c(op, vec![Sx::int(9)]))));
    }
    for (n, a) in [("0", 0u64), ("1", 1), ("max", u32::MAX as u64)] {
        v.push((format!("op90-{n}"), rep(c(90, vec![Sx::int(a)]))));
    }
    v.push(("opx02".into(), rep(Sx::list(&[Sx::atom(&[2]), Sx::atom(b"x")]))));
    v.push(("opx0001".into(), rep(Sx::list(&[Sx::atom(&[0, 1]), Sx::atom(b"x")]))));
    v.push(("opx010000".into(), rep(Sx::list(&[Sx::atom(&[1, 0, 0])]))));
    for hi in [0x01u8, 0xff] {
        for lo in 0..=255u8 {
            v.push((format!("slot{hi:02x}{lo:02x}"), rep(Sx::list(&[Sx::atom(&[hi, lo]), Sx::atom(b"x")]))));
        }
    }
    v
}

#[derive(Default)]
struct Local {
    evals: u64,
    buckets: BTreeMap<String, u64>,
}

fn describe(spends: &[GSpend]) -> Value {
    json!(spends.iter().map(|s| json!({"parent": hex::encode(s.parent), "amount": s.amount, "puzzle": hex::encode(s.puzzle.serialize()), "solution": hex::encode(s.solution.serialize())})).collect::<Vec<_>>())
}

fn gspends_from(v: &Value) -> Vec<GSpend> {
    v.as_array()
        .unwrap()
        .iter()
        .map(|s| GSpend {
            parent: hex::decode(s["parent"].as_str().unwrap()).unwrap().try_into().unwrap(),
            amount: s["amount"].as_u64().unwrap(),
            puzzle: Sx::parse(&hex::decode(s["puzzle"].as_str().unwrap()).unwrap()).unwrap(),
            solution: Sx::parse(&hex::decode(s["solution"].as_str().unwrap()).unwrap()).unwrap(),
        })
        .collect()
}

/// all checks for one list of identity-puzzle spends under cost_conditions on/off
fn check_case(env: &Env, spends: &[GSpend], cc: bool, loc: &mut Local) -> Result<(), (String, String)> {
    let constants = test_constants();
    let cpb = constants.cost_per_byte;
    let sig = Signature::default();
    // reference: the generator output these spends produce
    let out = drive::output(&spends.iter().map(|s| drive::spend(&s.parent, &s.puzzle_hash(), s.amount, s.solution.clone())).collect::<Vec<_>>());
    let rf = RFlags { cost_conditions: cc, ..Default::default() };
    let rs = ref_validate(&out, rf, env, &refcond::slot_cost).map_err(|e| ("harness/letter-invalid".to_string(), format!("reference rejects the cost letter: {e} for {out:?}")))?;
    let want_cond = rs.condition_cost;
    let want_spend_cond: Vec<u64> = rs.spends.iter().map(|s| s.condition_cost).collect();

    // (1) parse_spends: cost == condition cost
    let ps = real_parse(&out, rf, BIG_COST).map_err(|e| ("parse_spends/rejects".to_string(), format!("{e:?} for {out:?}")))?;
    loc.evals += 1;
    if ps.cost != want_cond || ps.summary.condition_cost != want_cond || ps.summary.spends.iter().map(|s| s.condition_cost).collect::<Vec<_>>() != want_spend_cond {
        return Err(("parse_spends/condition-cost".into(), format!("cost {} condition_cost {} per spend {:?}; table says {want_cond} / {want_spend_cond:?}\noutput {out:?} cc={cc}", ps.cost, ps.summary.condition_cost, ps.summary.spends.iter().map(|s| s.condition_cost).collect::<Vec<_>>())));
    }

    let base_flags = ConsensusFlags::DONT_VALIDATE_SIGNATURE | if cc { ConsensusFlags::COST_CONDITIONS } else { ConsensusFlags::empty() };
    let gen_sx = generator_sx(spends);
    let gen_bytes = gen_sx.serialize();
    // execution costs according to clvmr itself
    let puzzle_exec: Vec<u64> = spends.iter().map(|s| clvm_cost(&s.puzzle, &s.solution, base_flags).expect("puzzle runs")).collect();
    let gen_exec = clvm_cost(&gen_sx, &Sx::nil(), base_flags).expect("generator runs");
    let exec_total: u64 = gen_exec + puzzle_exec.iter().sum::<u64>();

    // charge sequence of the native path, for the limit sweep
    let charges = |base: u64| -> Vec<u64> {
        let mut v = vec![base, gen_exec];
        for (i, s) in rs.spends.iter().enumerate() {
            v.push(puzzle_exec[i]);
            v.push(s.condition_cost);
        }
        v
    };

    for interned in [false, true] {
        let flags = base_flags | if interned { ConsensusFlags::INTERNED_GENERATOR } else { ConsensusFlags::empty() };
        let base = if interned { interned_vbytes_ref(&gen_sx) * cpb } else { gen_bytes.len() as u64 * cpb };
        let total = base + exec_total + want_cond;
        let tag = if interned { "gen2-interned" } else { "gen2-bytes" };
        let r = run_gen2(&gen_bytes, &[], BIG_COST, flags, &sig, constants).map_err(|e| (format!("{tag}/rejects"), format!("{e:?}")))?;
        loc.evals += 1;
        check_out(tag, &r, total, exec_total, want_cond, Some(&puzzle_exec), &want_spend_cond)?;
        limit_sweep(tag, total, &charges(base), loc, &|limit| run_gen2(&gen_bytes, &[], limit, flags, &sig, constants).map(|r| r.cost))?;

        // mempool path: same minus the quote wrapper (2 bytes, 20 execution) without interning
        let b = genr::bundle(spends, &sig);
        let mbase = if interned { base } else { base - 2 * cpb };
        let mtotal = mbase + (exec_total - gen_exec) + want_cond;
        let mtag = if interned { "bundle-interned" } else { "bundle-bytes" };
        let (r, _) = run_bundle(&b, BIG_COST, flags, constants).map_err(|e| (format!("{mtag}/rejects"), format!("{e:?}")))?;
        loc.evals += 1;
        check_out(mtag, &r, mtotal, exec_total - gen_exec, want_cond, Some(&puzzle_exec), &want_spend_cond)?;
        let mut ch = charges(mbase);
        ch.remove(1);
        limit_sweep(mtag, mtotal, &ch, loc, &|limit| run_bundle(&b, limit, flags, constants).map(|r| r.0.cost))?;
    }

    // legacy path: len*cpb + ROM execution + condition cost; ROM execution measured through clvmr
    {
        let flags = base_flags;
        let base = gen_bytes.len() as u64 * cpb;
        let r = run_gen1(&gen_bytes, &[], BIG_COST, flags, &sig, constants).map_err(|e| ("gen1/rejects".to_string(), format!("{e:?}")))?;
        loc.evals += 1;
        let rom_exec = legacy_exec(&gen_sx, flags);
        let total = base + rom_exec + want_cond;
        check_out("gen1", &r, total, rom_exec, want_cond, None, &want_spend_cond)?;
        limit_sweep("gen1", total, &[base, rom_exec, want_cond], loc, &|limit| run_gen1(&gen_bytes, &[], limit, flags, &sig, constants).map(|r| r.cost))?;
    }
    Ok(())
}

/// ROM bootstrap generator execution cost, obtained by running the ROM from chia-puzzles directly
fn legacy_exec(gen_sx: &Sx, flags: ConsensusFlags) -> u64 {
    use clvmr::Allocator;
    use clvmr::serde::node_from_bytes;
    let mut a = Allocator::new();
    let rom = node_from_bytes(&mut a, &chia_puzzles::ROM_BOOTSTRAP_GENERATOR).unwrap();
    let program = gen_sx.to_node(&mut a);
    // args = (program (refs)) with no refs
    let nil = a.nil();
    let refs = a.new_pair(nil, nil).unwrap();
    let args = a.new_pair(refs, nil).unwrap();
    let args = a.new_pair(program, args).unwrap();
    let dialect = clvmr::chia_dialect::ChiaDialect::new(flags.to_clvm_flags());
    clvmr::run_program::run_program(&mut a, &dialect, rom, args, u64::MAX).expect("ROM runs").0
}

fn check_out(tag: &str, r: &PathOut, total: u64, exec: u64, cond: u64, puzzle_exec: Option<&[u64]>, spend_cond: &[u64]) -> Result<(), (String, String)> {
    if r.cost != total {
        return Err((format!("{tag}/total"), format!("reported cost {} expected {total} (execution {} vs {exec}, condition {} vs {cond})", r.cost, r.execution_cost, r.condition_cost)));
    }
    if r.execution_cost != exec || r.condition_cost != cond {
        return Err((format!("{tag}/subtotals"), format!("execution_cost {} expected {exec}; condition_cost {} expected {cond}", r.execution_cost, r.condition_cost)));
    }
    if r.spend_condition != spend_cond {
        return Err((format!("{tag}/per-spend-condition"), format!("per-spend condition cost {:?} expected {spend_cond:?}", r.spend_condition)));
    }
    if let Some(pe) = puzzle_exec {
        if r.spend_execution != pe {
            return Err((format!("{tag}/per-spend-execution"), format!("per-spend execution cost {:?} expected {pe:?}", r.spend_execution)));
        }
    }
    Ok(())
}

fn limit_sweep(tag: &str, total: u64, charges: &[u64], loc: &mut Local, run: &dyn Fn(u64) -> Result<u64, chia_consensus::validation_error::ValidationErr>) -> Result<(), (String, String)> {
    let mut limits = vec![0u64, total, total.saturating_sub(1), total + 1];
    let mut s = 0u64;
    for c in charges {
        s += c;
        for l in [s.saturating_sub(1), s, s + 1] {
            limits.push(l);
        }
    }
    limits.sort_unstable();
    limits.dedup();
    for l in limits {
        loc.evals += 1;
        match run(l) {
            Ok(c) => {
                if l < total {
                    return Err((format!("{tag}/limit-too-low-accepted"), format!("limit {l} < total {total} accepted with cost {c}")));
                }
                if c != total {
                    return Err((format!("{tag}/limit-changes-cost"), format!("limit {l}: cost {c}, expected {total}")));
                }
            }
            Err(e) => {
                if l >= total {
                    return Err((format!("{tag}/limit-sufficient-rejected"), format!("limit {l} >= total {total} rejected: {e:?}")));
                }
            }
        }
    }
    Ok(())
}

fn run(rep: &Report) {
    let env = drive::env();
    rep.set_rule("cases = 1 or 2 identity-puzzle spends x every cost letter (35 known opcodes as valid stand-alone groups, 512 two-byte opcodes = 256 slots x high byte {01,ff}, 3 unknown shapes, SOFTFORK arg {0,1,2^32-1}) x repetition 1..3 x COST_CONDITIONS on/off; each case through parse_spends, run_block_generator, run_block_generator2 (byte cost / INTERNED_GENERATOR), run_spendbundle (both); each path re-run with the limit at 0, total-1, total, total+1 and every partial sum of its charge sequence +-1. distinct = distinct (letter, count, cc, spends) cases");
    rep.assume("size cost: len*cost_per_byte (harness serialiser) or (sum distinct atom bytes + 2*distinct atoms + 3*distinct pairs)*cost_per_byte over the harness tree; execution cost: what clvmr::run_program reports for the same program (generator, each puzzle, ROM from chia-puzzles); condition/spend costs: the literal table in mc::refcond");

    // self-test: the frozen slot table against the exact closed form
    let diffs: Vec<(usize, u64, u64)> = (0..256).filter_map(|i| { let e = slot_cost_exact(i as u32); (e != SLOT_COST[i]).then_some((i, SLOT_COST[i], e)) }).collect();
    rep.extra("slot_table_vs_exact_closed_form_differences", json!(diffs));

    // both tiers enumerate the same space: the deeper bound costs ~15 s
    let counts: Vec<usize> = vec![1, 2, 3];
    let mut cases: Vec<(String, Vec<GSpend>, bool)> = Vec::new();
    for &k in &counts {
        let l1 = letters(&env, &P1, k);
        let l2 = letters(&env, &P2, 1);
        for (name, conds) in &l1 {
            for cc in [false, true] {
                cases.push((format!("{name}x{k}"), vec![GSpend::identity(P1, AMOUNT, Sx::list(conds))], cc));
                // second spend with one CREATE_COIN so that per-spend sums are distinguishable
                let second = l2.iter().find(|l| l.0 == "op51").unwrap();
                cases.push((format!("{name}x{k}+2nd"), vec![GSpend::identity(P1, AMOUNT, Sx::list(conds)), GSpend::identity(P2, AMOUNT, Sx::list(&second.1))], cc));
            }
        }
    }
    rep.extra("cases", json!(cases.len()));
    cases.par_chunks(16).for_each(|chunk| {
        let mut loc = Local::default();
        for (name, spends, cc) in chunk {
            let case = json!({"name": name, "cc": cc, "spends": describe(spends)});
            match catch(|| check_case(&env, spends, *cc, &mut loc)) {
                Ok(Ok(())) => {
                    let class = name.split(|c: char| c.is_ascii_digit()).next().unwrap_or("x").to_string();
                    *loc.buckets.entry(format!("ok/{}{}", if name.starts_with("slot") { "slot" } else { &class }, if *cc { "/cc" } else { "" })).or_insert(0) += 1;
                    rep.distinct(fxhash(&(name, cc)));
                }
                Ok(Err((sig, d))) => rep.violation(&format!("C04/{sig}/{}", if name.starts_with("slot") { "slot" } else { name.split('x').next().unwrap_or("") }), case, format!("{name} cc={cc}: {d}")),
                Err(p) => rep.violation("C04/panic", case, format!("{name}: {p}")),
            }
        }
        rep.evals(loc.evals);
        for (k, n) in loc.buckets {
            rep.outcome_n(&k, n);
        }
    });
    rep.sample(json!({"case": "op51x2 cc=true", "spends": "[(P1, `1`, 1000, ((51 PH2 1) (51 PH2 2)))]", "expected_condition_cost": 450_000 + 2 * 1_350_000}));
    rep.sample(json!({"case": "slot01x1 (opcode 0x0142)", "expected_condition_cost_without_cc": SLOT_COST[0x42]}));
}

fn replay(case: &Value) -> String {
    let env = drive::env();
    let spends = gspends_from(&case["spends"]);
    let mut loc = Local::default();
    format!("{:?}", check_case(&env, &spends, case["cc"].as_bool().unwrap(), &mut loc))
}

fn main() {
    mc::cli::main("C04", "exploration", run, replay)
}
