//! C17 — every tree-hash routine computes the same hash.
//!
//! Engine E (inputs): precomputed constants, every leaf representation, every small atom,
//! every pair table ("DAG") with <= N pairs over a leaf alphabet, big structures, currying.
//! Engine H (histories): (a) for every pair table with <= n pairs every sequence of
//! visit_tree / tree_hash_cached calls of a fixed length through ONE shared TreeCache,
//! (b) BFS over histories on a fixed DAG with allocations in between, deduplicated on the
//! exact cache state delivered by hook H2 (`TreeCache::verif_state`).
//!
//! Reference: SHA-256 from the `sha2` crate applied to the definition
//! H(atom) = sha256(1 || bytes), H(pair) = sha256(2 || H(first) || H(rest)); own plain
//! serialiser (mc::sx). Nothing of the reference calls into /repo.

use chia_consensus::additions_and_removals::additions_and_removals;
use chia_consensus::consensus_constants::TEST_CONSTANTS;
use chia_consensus::flags::ConsensusFlags;
use chia_consensus::run_block_generator::{get_coinspends_for_trusted_block, get_coinspends_with_conditions_for_trusted_block, run_block_generator, run_block_generator2};
use chia_protocol::Program;
use clvm_traits::{ClvmEncoder, ToClvm, ToClvmError, clvm_curried_args};
use clvm_utils::{
    CurriedProgram, PRECOMPUTED_HASHES, ToTreeHash, TreeCache, TreeHash, TreeHasher,
    curry_tree_hash, tree_hash, tree_hash_atom, tree_hash_cached, tree_hash_from_bytes,
    tree_hash_pair,
};
use clvmr::Atom;
use clvmr::allocator::{Allocator, NodePtr, ObjectType};
use clvmr::serde::{node_from_bytes_backrefs, node_to_bytes, node_to_bytes_backrefs};
use mc::bfs;
use mc::report::{Report, catch, fxhash};
use mc::sx::{Sx, enc_u64, sha256};
use rayon::prelude::*;
use serde_json::{Value, json};
use std::collections::BTreeMap;
use std::sync::atomic::{AtomicU64, Ordering};

type H = [u8; 32];

fn h_atom(b: &[u8]) -> H {
    sha256(&[&[1u8], b])
}
fn h_pair(l: &H, r: &H) -> H {
    sha256(&[&[2u8], l, r])
}
fn hx(h: &H) -> String {
    hex::encode(h)
}

// ---------------------------------------------------------------------------------------
// local accumulation (no global lock per case)

#[derive(Default)]
struct Acc {
    evals: u64,
    oc: BTreeMap<&'static str, u64>,
    viol: Vec<(String, Value, String)>,
    per_sig: BTreeMap<String, u32>,
    dropped: u64,
}

impl Acc {
    fn ok(&mut self, bucket: &'static str) {
        *self.oc.entry(bucket).or_insert(0) += 1;
    }
    fn bad(&mut self, sig: String, case: Value, detail: String) {
        *self.oc.entry("VIOLATION").or_insert(0) += 1;
        // keep a few per root-cause class and shard; the rest is only counted
        let n = self.per_sig.entry(sig.clone()).or_insert(0);
        *n += 1;
        if *n <= 3 && self.viol.len() < 60 {
            self.viol.push((sig, case, detail));
        } else {
            self.dropped += 1;
        }
    }
    fn misses(&mut self, section: &str, misses: Vec<Miss>, case: &Value) {
        for m in misses {
            self.bad(m.signature(section), case.clone(), m.detail);
        }
    }
    fn flush(self, rep: &Report) {
        rep.evals(self.evals);
        for (k, n) in self.oc {
            rep.outcome_n(k, n);
        }
        for (s, c, d) in self.viol {
            rep.violation(&s, c, d);
        }
        if self.dropped > 0 {
            rep.extra_add("violations_not_recorded_individually", self.dropped);
        }
    }
}

/// one disagreement between a routine of /repo and the reference
struct Miss {
    routine: &'static str,
    /// wrong-hash | panic | error
    kind: &'static str,
    detail: String,
}

impl Miss {
    fn signature(&self, section: &str) -> String {
        if section.is_empty() {
            format!("C17/{}/{}", self.routine, self.kind)
        } else {
            format!("C17/{}/{}/{}", section, self.routine, self.kind)
        }
    }
}

/// compare the outcome of one routine (outer Err = panic, inner Err = error return)
fn cmp(out: &mut Vec<Miss>, routine: &'static str, got: Result<Result<H, String>, String>, want: &H) {
    match got {
        Ok(Ok(h)) if &h == want => {}
        Ok(Ok(h)) => out.push(Miss { routine, kind: "wrong-hash", detail: format!("{routine} returned {} but the definition gives {}", hx(&h), hx(want)) }),
        Ok(Err(e)) => out.push(Miss { routine, kind: "error", detail: format!("{routine} returned an error on a valid tree: {e}") }),
        Err(p) => out.push(Miss { routine, kind: "panic", detail: format!("{routine} panicked: {p}") }),
    }
}

/// the two in-memory routines on one node
fn check_mem(a: &Allocator, node: NodePtr, want: &H, out: &mut Vec<Miss>) {
    cmp(out, "tree_hash", catch(|| Ok(tree_hash(a, node).to_bytes())), want);
    cmp(
        out,
        "tree_hash_cached",
        catch(|| {
            let mut c = TreeCache::default();
            Ok(tree_hash_cached(a, node, &mut c).to_bytes())
        }),
        want,
    );
}

/// from-serialisation routine on the plain serialisation (produced by the harness)
fn check_plain(plain: &[u8], want: &H, out: &mut Vec<Miss>) {
    cmp(
        out,
        "tree_hash_from_bytes(plain)",
        catch(|| tree_hash_from_bytes(plain).map(|h| h.to_bytes()).map_err(|e| format!("{e:?}"))),
        want,
    );
}

/// from-serialisation routine on clvmr's back-reference serialisation of the in-memory node.
/// Returns Err(machinery problem) when clvmr's serialiser itself does not round-trip.
fn check_backrefs(a: &Allocator, node: NodePtr, plain: &[u8], want: &H, out: &mut Vec<Miss>) -> Result<usize, String> {
    let br = match catch(|| node_to_bytes_backrefs(a, node)) {
        Ok(Ok(b)) => b,
        Ok(Err(e)) => return Err(format!("clvmr node_to_bytes_backrefs failed: {e:?}")),
        Err(p) => return Err(format!("clvmr node_to_bytes_backrefs panicked: {p}")),
    };
    let before = out.len();
    cmp(
        out,
        "tree_hash_from_bytes(backrefs)",
        catch(|| tree_hash_from_bytes(&br).map(|h| h.to_bytes()).map_err(|e| format!("{e:?}"))),
        want,
    );
    if out.len() > before {
        // attribute the blame: does the compressed form denote the tree we think it does?
        let mut a2 = Allocator::new();
        let same = node_from_bytes_backrefs(&mut a2, &br).ok().and_then(|n| node_to_bytes(&a2, n).ok()).map(|b| b == plain);
        if same != Some(true) {
            out.truncate(before);
            return Err(format!("clvmr back-reference serialisation {} does not denote the tree {}", hex::encode(&br), hex::encode(plain)));
        }
    }
    Ok(br.len())
}

// ---------------------------------------------------------------------------------------
// TreeHasher (hash_encoder.rs) driven from reference trees

struct W<'a>(&'a Sx);
impl ToClvm<TreeHasher> for W<'_> {
    fn to_clvm(&self, e: &mut TreeHasher) -> Result<TreeHash, ToClvmError> {
        match self.0 {
            Sx::Atom(b) => e.encode_atom(Atom::Borrowed(b)),
            Sx::Pair(l, r) => {
                let l = W(l).to_clvm(e)?;
                let r = W(r).to_clvm(e)?;
                e.encode_pair(l, r)
            }
        }
    }
}

fn check_hasher(sx: &Sx, want: &H, out: &mut Vec<Miss>) {
    cmp(out, "TreeHasher", catch(|| Ok(W(sx).tree_hash().to_bytes())), want);
}

// ---------------------------------------------------------------------------------------
// leaves: content x internal representation

#[derive(Clone, Debug, PartialEq, Eq, Hash)]
enum Leaf {
    /// allocator.nil()
    Nil,
    /// allocator.one()
    One,
    /// new_atom(bytes)
    NewAtom(Vec<u8>),
    /// new_small_number(v): the atom is the minimal encoding of v
    Small(u32),
    /// new_number(v)
    Number(u64),
    /// new_substr out of a longer heap atom: always a heap ("Bytes") node, never canonicalised
    Substr(Vec<u8>),
    /// new_concat of two pieces: always a heap node
    Concat(Vec<u8>),
}

impl Leaf {
    /// the atom's bytes according to the definition of each constructor
    fn content(&self) -> Vec<u8> {
        match self {
            Leaf::Nil => vec![],
            Leaf::One => vec![1],
            Leaf::NewAtom(b) | Leaf::Substr(b) | Leaf::Concat(b) => b.clone(),
            Leaf::Small(v) => enc_u64(u64::from(*v)),
            Leaf::Number(v) => enc_u64(*v),
        }
    }
    fn build(&self, a: &mut Allocator) -> NodePtr {
        match self {
            Leaf::Nil => a.nil(),
            Leaf::One => a.one(),
            Leaf::NewAtom(b) => a.new_atom(b).expect("new_atom"),
            Leaf::Small(v) => a.new_small_number(*v).expect("new_small_number"),
            Leaf::Number(v) => a.new_number((*v).into()).expect("new_number"),
            Leaf::Substr(b) => {
                let mut host = vec![0xaa, 0xbb, 0xcc];
                host.extend_from_slice(b);
                host.extend_from_slice(&[0xdd, 0xee]);
                let h = a.new_atom(&host).expect("new_atom");
                a.new_substr(h, 3, 3 + b.len() as u32).expect("new_substr")
            }
            Leaf::Concat(b) => {
                let cut = b.len().min(1);
                let l = a.new_atom(&b[..cut]).expect("new_atom");
                let r = a.new_atom(&b[cut..]).expect("new_atom");
                a.new_concat(b.len(), &[l, r]).expect("new_concat")
            }
        }
    }
    fn to_json(&self) -> Value {
        match self {
            Leaf::Nil => json!({"how": "nil"}),
            Leaf::One => json!({"how": "one"}),
            Leaf::NewAtom(b) => json!({"how": "new_atom", "bytes": hex::encode(b)}),
            Leaf::Small(v) => json!({"how": "new_small_number", "value": v}),
            Leaf::Number(v) => json!({"how": "new_number", "value": v}),
            Leaf::Substr(b) => json!({"how": "new_substr", "bytes": hex::encode(b)}),
            Leaf::Concat(b) => json!({"how": "new_concat", "bytes": hex::encode(b)}),
        }
    }
    fn from_json(v: &Value) -> Leaf {
        let bytes = || hex::decode(v["bytes"].as_str().unwrap_or("")).unwrap_or_default();
        match v["how"].as_str().unwrap_or("") {
            "nil" => Leaf::Nil,
            "one" => Leaf::One,
            "new_atom" => Leaf::NewAtom(bytes()),
            "new_small_number" => Leaf::Small(v["value"].as_u64().unwrap() as u32),
            "new_number" => Leaf::Number(v["value"].as_u64().unwrap()),
            "new_substr" => Leaf::Substr(bytes()),
            _ => Leaf::Concat(bytes()),
        }
    }
}

fn pattern(len: usize) -> Vec<u8> {
    (0..len).map(|i| (0x31 + 7 * i) as u8).collect()
}

fn leaf_alphabet() -> Vec<Leaf> {
    let mut v = vec![Leaf::Nil, Leaf::One, Leaf::NewAtom(vec![]), Leaf::Substr(vec![]), Leaf::Concat(vec![])];
    // the 24 precomputed small atoms and their neighbours, in every representation
    for b in 0x00u8..=0x1a {
        v.push(Leaf::NewAtom(vec![b]));
        v.push(Leaf::Substr(vec![b]));
        v.push(Leaf::Concat(vec![b]));
        v.push(Leaf::Small(u32::from(b)));
        v.push(Leaf::Number(u64::from(b)));
    }
    for b in [0x7fu8, 0x80, 0xff] {
        v.push(Leaf::NewAtom(vec![b]));
        v.push(Leaf::Substr(vec![b]));
    }
    for b in [
        vec![0x00, 0x00],
        vec![0x01, 0x00],
        vec![0x00, 0x05],
        vec![0x00, 0x17],
        vec![0x00, 0x80],
        vec![0x00, 0xff],
        vec![0xff, 0xff],
        vec![0x00, 0x00, 0x05],
        vec![0x7f, 0xff, 0xff],
        vec![0x03, 0xff, 0xff, 0xff],
        vec![0x04, 0x00, 0x00, 0x00],
        vec![0x7f, 0xff, 0xff, 0xff],
        vec![0x00, 0x80, 0x00, 0x00, 0x00],
    ] {
        v.push(Leaf::NewAtom(b.clone()));
        v.push(Leaf::Substr(b));
    }
    for len in [31usize, 32, 33, 48, 54, 55, 56, 57, 62, 63, 64, 65, 96, 119, 120, 127, 128, 129, 1000] {
        v.push(Leaf::NewAtom(pattern(len)));
    }
    v.push(Leaf::Concat(pattern(32)));
    for x in [0x7fu32, 0x80, 0xff, 0x100, 0x7fff, 0x8000, 0x7f_ffff, 0x80_0000, 0x3ff_ffff] {
        v.push(Leaf::Small(x));
    }
    for x in [0x7fu64, 0x80, 0x100, 0x3ff_ffff, 0x400_0000, 0x7fff_ffff, 0x8000_0000, 0xffff_ffff, 0x1_0000_0000, u64::MAX] {
        v.push(Leaf::Number(x));
    }
    v
}

fn repr_name(n: NodePtr) -> &'static str {
    match n.object_type() {
        ObjectType::SmallAtom => "SmallAtom",
        ObjectType::Bytes => "Bytes",
        ObjectType::Pair => "Pair",
    }
}

/// one leaf as a root, or the pair (x . y): every routine against the definition
fn check_leaf_case(x: &Leaf, y: Option<&Leaf>) -> Result<Vec<Miss>, String> {
    let mut a = Allocator::new();
    let nx = x.build(&mut a);
    let cx = x.content();
    if a.atom(nx).as_ref() != cx.as_slice() {
        return Err(format!("leaf {x:?} holds {} instead of {}", hex::encode(a.atom(nx).as_ref()), hex::encode(&cx)));
    }
    let mut out = Vec::new();
    let (node, sx, want) = match y {
        None => (nx, Sx::Atom(cx.clone()), h_atom(&cx)),
        Some(y) => {
            let ny = y.build(&mut a);
            let cy = y.content();
            if a.atom(ny).as_ref() != cy.as_slice() {
                return Err(format!("leaf {y:?} holds {} instead of {}", hex::encode(a.atom(ny).as_ref()), hex::encode(&cy)));
            }
            let p = a.new_pair(nx, ny).expect("new_pair");
            (p, Sx::cons(Sx::Atom(cx.clone()), Sx::Atom(cy.clone())), h_pair(&h_atom(&cx), &h_atom(&cy)))
        }
    };
    check_mem(&a, node, &want, &mut out);
    let plain = sx.serialize();
    check_plain(&plain, &want, &mut out);
    check_backrefs(&a, node, &plain, &want, &mut out)?;
    check_hasher(&sx, &want, &mut out);
    if y.is_none() {
        cmp(&mut out, "tree_hash_atom", catch(|| Ok(tree_hash_atom(&cx).to_bytes())), &want);
    } else {
        let (l, r) = (h_atom(&cx), h_atom(&y.unwrap().content()));
        cmp(&mut out, "tree_hash_pair", catch(|| Ok(tree_hash_pair(TreeHash::new(l), TreeHash::new(r)).to_bytes())), &want);
    }
    Ok(out)
}

fn part_constants(rep: &Report) {
    let mut acc = Acc::default();
    for (i, c) in PRECOMPUTED_HASHES.iter().enumerate() {
        acc.evals += 1;
        let want = h_atom(&enc_u64(i as u64));
        if c.to_bytes() == want {
            acc.ok("constant/ok");
        } else {
            acc.bad(
                "C17/precomputed/wrong-hash".into(),
                json!({"kind": "const", "index": i}),
                format!("PRECOMPUTED_HASHES[{i}] = {} but sha256(01 || {}) = {}", hx(&c.to_bytes()), hex::encode(enc_u64(i as u64)), hx(&want)),
            );
        }
    }
    acc.flush(rep);
}

fn part_leaves(rep: &Report) {
    let leaves = leaf_alphabet();
    // representation census (shows that both the small-atom and the heap form occurred)
    let mut census: BTreeMap<String, u64> = BTreeMap::new();
    {
        let mut a = Allocator::new();
        for l in &leaves {
            let n = l.build(&mut a);
            let c = l.content();
            let class = if c.is_empty() {
                "nil"
            } else if c.len() == 1 && c[0] < 24 && c[0] > 0 {
                "precomputed 01..17"
            } else if c.len() == 1 {
                "other one-byte"
            } else {
                "longer"
            };
            *census.entry(format!("{class} as {}", repr_name(n))).or_insert(0) += 1;
            rep.distinct(fxhash(&("leaf", l)));
        }
    }
    rep.extra("leaf_alphabet_size", json!(leaves.len()));
    rep.extra("leaf_representation_census", json!(census));
    let ex = Leaf::Substr(vec![0x05]);
    rep.sample(json!({"leaf": ex.to_json(), "content": hex::encode(ex.content()), "reference": hx(&h_atom(&ex.content())), "checked": "as a root and as x and y of every pair (x . y) over the alphabet, 6 routines each"}));
    let n = leaves.len();
    (0..n).into_par_iter().for_each(|i| {
        let mut acc = Acc::default();
        let x = &leaves[i];
        for j in 0..=n {
            // j == 0: x alone as a root; otherwise the pair (x . leaves[j-1])
            let y = if j == 0 { None } else { Some(&leaves[j - 1]) };
            acc.evals += 1;
            let case = json!({"kind": "leaf", "x": x.to_json(), "y": y.map(Leaf::to_json)});
            match check_leaf_case(x, y) {
                Ok(m) if m.is_empty() => acc.ok(if y.is_none() { "leaf/root ok" } else { "leaf/pair ok" }),
                Ok(m) => acc.misses("", m, &case),
                Err(e) => rep.machinery_error(&e),
            }
        }
        acc.flush(rep);
    });
}

/// every atom the allocator can hold in its small-integer form
fn part_dense_small(rep: &Report, end: u32) {
    let chunk = 1u32 << 14;
    let chunks = end.div_ceil(chunk);
    (0..chunks).into_par_iter().for_each(|c| {
        let mut acc = Acc::default();
        let mut a = Allocator::new();
        for v in c * chunk..((c + 1) * chunk).min(end) {
            acc.evals += 1;
            let n = a.new_small_number(v).expect("new_small_number");
            let want = h_atom(&enc_u64(u64::from(v)));
            let mut out = Vec::new();
            check_mem(&a, n, &want, &mut out);
            if out.is_empty() {
                acc.ok(if v < 24 { "small/precomputed ok" } else { "small/computed ok" });
            } else {
                acc.misses("", out, &json!({"kind": "small", "value": v}));
            }
        }
        acc.flush(rep);
    });
    rep.extra("small_atoms_end_exclusive", json!(end));
}

// ---------------------------------------------------------------------------------------
// pair tables: pair i = (c_l, c_r), a child code c < k is leaf c, otherwise pair c-k (< i)

const MAXN: usize = 8;

fn table_leaf_alphabet(k: usize) -> Vec<Leaf> {
    let all = [Leaf::Nil, Leaf::NewAtom(vec![0x11; 32]), Leaf::Small(1), Leaf::Substr(vec![0x05])];
    all[..k].to_vec()
}

fn table_count(n: usize, k: usize) -> u64 {
    (0..n).map(|i| ((k + i) * (k + i)) as u64).product()
}

fn decode_table(mut idx: u64, n: usize, k: usize) -> [(u8, u8); MAXN] {
    let mut t = [(0u8, 0u8); MAXN];
    for (i, e) in t.iter_mut().enumerate().take(n) {
        let b = (k + i) as u64;
        let l = idx % b;
        idx /= b;
        let r = idx % b;
        idx /= b;
        *e = (l as u8, r as u8);
    }
    t
}

/// allocator holding the leaves, reset to that point for every table
struct TableCtx {
    a: Allocator,
    cp: clvmr::allocator::Checkpoint,
    k: usize,
    leaf_nodes: Vec<NodePtr>,
    leaf_content: Vec<Vec<u8>>,
    leaf_ser: Vec<Vec<u8>>,
    leaf_h: Vec<H>,
}

impl TableCtx {
    fn new(k: usize) -> Self {
        let mut a = Allocator::new();
        let leaves = table_leaf_alphabet(k);
        let leaf_nodes: Vec<NodePtr> = leaves.iter().map(|l| l.build(&mut a)).collect();
        let leaf_content: Vec<Vec<u8>> = leaves.iter().map(Leaf::content).collect();
        for (n, c) in leaf_nodes.iter().zip(&leaf_content) {
            assert_eq!(a.atom(*n).as_ref(), c.as_slice(), "harness: leaf content");
        }
        let leaf_ser = leaf_content.iter().map(|c| Sx::Atom(c.clone()).serialize()).collect();
        let leaf_h = leaf_content.iter().map(|c| h_atom(c)).collect();
        let cp = a.checkpoint();
        Self { a, cp, k, leaf_nodes, leaf_content, leaf_ser, leaf_h }
    }
    /// (pair nodes, reference hash per pair)
    fn build(&mut self, t: &[(u8, u8)], n: usize) -> ([NodePtr; MAXN], [H; MAXN]) {
        self.a.restore_checkpoint(&self.cp);
        let mut nodes = [NodePtr::NIL; MAXN];
        let mut hs = [[0u8; 32]; MAXN];
        for i in 0..n {
            let (l, r) = (t[i].0 as usize, t[i].1 as usize);
            let nl = if l < self.k { self.leaf_nodes[l] } else { nodes[l - self.k] };
            let nr = if r < self.k { self.leaf_nodes[r] } else { nodes[r - self.k] };
            nodes[i] = self.a.new_pair(nl, nr).expect("new_pair");
            assert_eq!(nodes[i].index() as usize, i, "harness: pair index");
            let hl = if l < self.k { self.leaf_h[l] } else { hs[l - self.k] };
            let hr = if r < self.k { self.leaf_h[r] } else { hs[r - self.k] };
            hs[i] = h_pair(&hl, &hr);
        }
        (nodes, hs)
    }
    /// plain serialisation of the fully expanded tree below pair n-1
    fn plain(&self, t: &[(u8, u8)], n: usize) -> Vec<u8> {
        let mut sers: Vec<Vec<u8>> = Vec::with_capacity(n);
        for i in 0..n {
            let (l, r) = (t[i].0 as usize, t[i].1 as usize);
            let sl = if l < self.k { &self.leaf_ser[l] } else { &sers[l - self.k] };
            let sr = if r < self.k { &self.leaf_ser[r] } else { &sers[r - self.k] };
            let mut s = Vec::with_capacity(1 + sl.len() + sr.len());
            s.push(0xff);
            s.extend_from_slice(sl);
            s.extend_from_slice(sr);
            sers.push(s);
        }
        sers.pop().unwrap()
    }
}

/// TreeHasher over the expanded tree of a table
struct WT<'a> {
    ctx: &'a TableCtx,
    t: &'a [(u8, u8)],
    c: usize,
}
impl ToClvm<TreeHasher> for WT<'_> {
    fn to_clvm(&self, e: &mut TreeHasher) -> Result<TreeHash, ToClvmError> {
        if self.c < self.ctx.k {
            e.encode_atom(Atom::Borrowed(&self.ctx.leaf_content[self.c]))
        } else {
            let (l, r) = self.t[self.c - self.ctx.k];
            let l = WT { ctx: self.ctx, t: self.t, c: l as usize }.to_clvm(e)?;
            let r = WT { ctx: self.ctx, t: self.t, c: r as usize }.to_clvm(e)?;
            e.encode_pair(l, r)
        }
    }
}

fn render_table(t: &[(u8, u8)], n: usize, k: usize) -> String {
    let leaves = table_leaf_alphabet(k);
    let name = |c: u8| {
        if (c as usize) < k {
            match &leaves[c as usize] {
                Leaf::Nil => "()".to_string(),
                Leaf::NewAtom(_) => "A32".to_string(),
                Leaf::Small(v) => format!("{v}"),
                Leaf::Substr(b) => format!("heap:{}", hex::encode(b)),
                other => format!("{other:?}"),
            }
        } else {
            format!("p{}", c as usize - k)
        }
    };
    (0..n).map(|i| format!("p{i}=({} . {})", name(t[i].0), name(t[i].1))).collect::<Vec<_>>().join(" ")
}

fn check_table(ctx: &mut TableCtx, idx: u64, n: usize, ser: bool) -> Result<Vec<Miss>, String> {
    let k = ctx.k;
    let t = decode_table(idx, n, k);
    let (nodes, hs) = ctx.build(&t, n);
    let root = nodes[n - 1];
    let want = hs[n - 1];
    let mut out = Vec::new();
    check_mem(&ctx.a, root, &want, &mut out);
    if ser {
        let plain = ctx.plain(&t, n);
        check_plain(&plain, &want, &mut out);
        check_backrefs(&ctx.a, root, &plain, &want, &mut out)?;
        let c: &TableCtx = ctx;
        cmp(&mut out, "TreeHasher", catch(|| Ok(WT { ctx: c, t: &t, c: k + n - 1 }.tree_hash().to_bytes())), &want);
    }
    Ok(out)
}

/// every pair table with exactly n pairs over k leaves; root = the last pair
fn part_tables(rep: &Report, n: usize, k: usize, ser: bool) -> u64 {
    let total = table_count(n, k);
    let chunk = 2048u64;
    let chunks = total.div_ceil(chunk);
    let shared = AtomicU64::new(0);
    (0..chunks).into_par_iter().for_each(|c| {
        let mut acc = Acc::default();
        let mut ctx = TableCtx::new(k);
        let mut sh = 0u64;
        for idx in c * chunk..((c + 1) * chunk).min(total) {
            acc.evals += 1;
            // does the root reach some pair along two different paths?
            let t = decode_table(idx, n, k);
            let mut refs = [0u8; MAXN];
            for e in t.iter().take(n) {
                for ch in [e.0, e.1] {
                    if ch as usize >= k {
                        refs[ch as usize - k] += 1;
                    }
                }
            }
            let is_shared = refs.iter().any(|r| *r > 1);
            sh += u64::from(is_shared);
            match check_table(&mut ctx, idx, n, ser) {
                Ok(m) if m.is_empty() => acc.ok(match (is_shared, ser) {
                    (true, true) => "table/some pair referenced twice, 5 routines ok",
                    (false, true) => "table/no pair referenced twice, 5 routines ok",
                    (true, false) => "table/some pair referenced twice, in-memory routines ok",
                    (false, false) => "table/no pair referenced twice, in-memory routines ok",
                }),
                Ok(m) => {
                    let case = json!({"kind": "table", "n": n, "k": k, "index": idx, "ser": ser, "table": render_table(&t, n, k)});
                    acc.misses("", m, &case);
                }
                Err(e) => rep.machinery_error(&e),
            }
        }
        shared.fetch_add(sh, Ordering::Relaxed);
        acc.flush(rep);
    });
    rep.extra_add(&format!("tables_n{n}_k{k}{}", if ser { "_with_serialisations" } else { "" }), total);
    rep.extra_add("tables_with_a_pair_referenced_twice", shared.load(Ordering::Relaxed));
    total
}

// ---------------------------------------------------------------------------------------
// histories, part (a): every table x every operation sequence of length m through one cache

/// op < n: visit_tree(p_op); op >= n: tree_hash_cached(p_{op-n})
fn run_sequence(a: &Allocator, nodes: &[NodePtr], hs: &[H], n: usize, ops: &[u8]) -> Vec<Miss> {
    run_sequence_keyed(a, nodes, hs, n, ops).0
}

/// exact cache state: pairs[] then hashes[] (hook H2), nothing abbreviated
fn raw_key(cache: &TreeCache) -> Vec<u8> {
    let (pairs, hashes) = cache.verif_state();
    let mut k = Vec::with_capacity(2 + 4 * pairs.len() + 32 * hashes.len());
    k.push(pairs.len() as u8);
    for p in &pairs {
        k.extend_from_slice(&p.to_le_bytes());
    }
    for h in &hashes {
        k.extend_from_slice(&h.to_bytes());
    }
    k
}

fn run_sequence_keyed(a: &Allocator, nodes: &[NodePtr], hs: &[H], n: usize, ops: &[u8]) -> (Vec<Miss>, Vec<u8>) {
    let mut out = Vec::new();
    let mut cache = TreeCache::default();
    for (step, &op) in ops.iter().enumerate() {
        let op = op as usize;
        if op < n {
            if let Err(p) = catch(|| cache.visit_tree(a, nodes[op])) {
                out.push(Miss { routine: "visit_tree", kind: "panic", detail: format!("step {step}: visit_tree(p{op}) panicked: {p}") });
                return (out, Vec::new());
            }
        } else {
            let r = op - n;
            let before = out.len();
            cmp(&mut out, "tree_hash_cached", catch(|| Ok(tree_hash_cached(a, nodes[r], &mut cache).to_bytes())), &hs[r]);
            if out.len() > before {
                out[before].detail = format!("step {step}: tree_hash_cached(p{r}) through the shared cache: {}", out[before].detail);
                return (out, Vec::new());
            }
        }
    }
    for i in 0..n {
        match catch(|| cache.get(nodes[i]).map(TreeHash::to_bytes)) {
            Ok(None) => {}
            Ok(Some(h)) if h == hs[i] => {}
            Ok(Some(h)) => out.push(Miss { routine: "TreeCache::get", kind: "wrong-hash", detail: format!("after the sequence the cache answers {} for p{i}, the definition gives {}", hx(&h), hx(&hs[i])) }),
            Err(p) => out.push(Miss { routine: "TreeCache::get", kind: "panic", detail: format!("get(p{i}) panicked: {p}") }),
        }
    }
    let key = raw_key(&cache);
    (out, key)
}

/// complete state graph of one table: BFS over visit_tree(p_i) / tree_hash_cached(p_i) until no
/// new cache state appears (the cache only moves forward, so this terminates)
const TABLE_STATE_CAP: usize = 50_000;

struct TableGraph {
    states: u64,
    transitions: u64,
    depth: usize,
    capped: bool,
}

fn table_fixpoint(a: &Allocator, nodes: &[NodePtr], hs: &[H], n: usize, acc: &mut Acc, case: &dyn Fn(&[u8]) -> Value) -> TableGraph {
    let mut g = TableGraph { states: 1, transitions: 0, depth: 0, capped: false };
    let (_, k0) = run_sequence_keyed(a, nodes, hs, n, &[]);
    let mut seen: std::collections::HashSet<Vec<u8>> = std::collections::HashSet::new();
    seen.insert(k0.clone());
    let mut queue: Vec<(Vec<u8>, Vec<u8>)> = vec![(Vec::new(), k0)];
    let mut head = 0;
    while head < queue.len() {
        let (hist, key) = queue[head].clone();
        head += 1;
        for op in 0..2 * n as u8 {
            let mut h2 = hist.clone();
            h2.push(op);
            acc.evals += 1;
            g.transitions += 1;
            let (m, k2) = run_sequence_keyed(a, nodes, hs, n, &h2);
            if !m.is_empty() {
                acc.misses("history", m, &case(&h2));
                continue;
            }
            let changed = k2 != key;
            acc.ok(match ((op as usize) < n, changed) {
                (true, true) => "table-graph/visit_tree, cache state changed",
                (true, false) => "table-graph/visit_tree, cache state unchanged",
                (false, true) => "table-graph/tree_hash_cached ok, cache state changed",
                (false, false) => "table-graph/tree_hash_cached ok, cache state unchanged",
            });
            if changed && !seen.contains(&k2) {
                if seen.len() >= TABLE_STATE_CAP {
                    g.capped = true;
                    continue;
                }
                seen.insert(k2.clone());
                g.depth = g.depth.max(h2.len());
                queue.push((h2, k2));
            }
        }
    }
    g.states = seen.len() as u64;
    g
}

fn part_table_graphs(rep: &Report, n: usize, k: usize) {
    let total = table_count(n, k);
    let chunk = 8u64;
    let chunks = total.div_ceil(chunk);
    let states = AtomicU64::new(0);
    let transitions = AtomicU64::new(0);
    let max_states = AtomicU64::new(0);
    let max_depth = AtomicU64::new(0);
    let capped = AtomicU64::new(0);
    (0..chunks).into_par_iter().for_each(|c| {
        let mut acc = Acc::default();
        let mut ctx = TableCtx::new(k);
        for idx in c * chunk..((c + 1) * chunk).min(total) {
            let t = decode_table(idx, n, k);
            let (nodes, hs) = ctx.build(&t, n);
            let case = |ops: &[u8]| json!({"kind": "seq", "n": n, "k": k, "index": idx, "ops": ops, "table": render_table(&t, n, k)});
            let g = table_fixpoint(&ctx.a, &nodes, &hs, n, &mut acc, &case);
            states.fetch_add(g.states, Ordering::Relaxed);
            transitions.fetch_add(g.transitions, Ordering::Relaxed);
            max_states.fetch_max(g.states, Ordering::Relaxed);
            max_depth.fetch_max(g.depth as u64, Ordering::Relaxed);
            capped.fetch_add(u64::from(g.capped), Ordering::Relaxed);
        }
        acc.flush(rep);
    });
    let (st, tr) = (states.load(Ordering::Relaxed), transitions.load(Ordering::Relaxed));
    rep.states.fetch_add(st, Ordering::Relaxed);
    rep.transitions.fetch_add(tr, Ordering::Relaxed);
    rep.traces.fetch_add(tr, Ordering::Relaxed);
    rep.extra(
        &format!("table_graphs_n{n}_k{k}"),
        json!({"tables": total, "states": st, "transitions": tr, "largest_graph_states": max_states.load(Ordering::Relaxed), "longest_shortest_history": max_depth.load(Ordering::Relaxed), "complete": capped.load(Ordering::Relaxed) == 0}),
    );
    if capped.load(Ordering::Relaxed) > 0 {
        rep.cap(&format!("{} table graph(s) with n={n}, k={k} exceeded {TABLE_STATE_CAP} cache states and were cut there", capped.load(Ordering::Relaxed)));
    }
}

fn part_sequences(rep: &Report, n: usize, k: usize, m: usize) -> u64 {
    let total = table_count(n, k);
    let alpha = 2 * n as u64;
    let seqs = alpha.pow(m as u32);
    let chunk = 16u64;
    let chunks = total.div_ceil(chunk);
    (0..chunks).into_par_iter().for_each(|c| {
        let mut acc = Acc::default();
        let mut ctx = TableCtx::new(k);
        let mut ops = vec![0u8; m];
        for idx in c * chunk..((c + 1) * chunk).min(total) {
            let t = decode_table(idx, n, k);
            let (nodes, hs) = ctx.build(&t, n);
            for s in 0..seqs {
                let mut x = s;
                for o in ops.iter_mut() {
                    *o = (x % alpha) as u8;
                    x /= alpha;
                }
                acc.evals += 1;
                let m_ = run_sequence(&ctx.a, &nodes, &hs, n, &ops);
                if m_.is_empty() {
                    acc.ok("sequence/ok");
                } else {
                    let case = json!({"kind": "seq", "n": n, "k": k, "index": idx, "ops": ops, "table": render_table(&t, n, k)});
                    acc.misses("history", m_, &case);
                }
            }
        }
        acc.flush(rep);
    });
    rep.extra_add(&format!("sequences_n{n}_k{k}_len{m}"), total * seqs);
    total * seqs
}

// ---------------------------------------------------------------------------------------
// histories, part (b): BFS on a fixed DAG with allocations, deduplicated on the cache state

#[derive(Clone, Copy)]
enum Ch {
    A, // nil
    B, // small number 5
    C, // 32-byte heap atom
    P(usize),
}

/// p0 is referenced once by p1, twice by p2, once more by p3; p5 is never a root and only
/// reachable through e1; e1/e2 are allocated by the Alloc operation, i.e. after the cache was used
const DAG: [(Ch, Ch); 9] = [
    (Ch::A, Ch::B),       // p0
    (Ch::P(0), Ch::C),    // p1
    (Ch::P(0), Ch::P(0)), // p2
    (Ch::P(2), Ch::P(0)), // p3
    (Ch::P(1), Ch::P(3)), // p4
    (Ch::B, Ch::C),       // p5
    (Ch::P(5), Ch::P(0)), // e1 (index 6)
    (Ch::P(6), Ch::P(6)), // e2 (index 7)
    (Ch::P(4), Ch::P(7)), // e3 (index 8), thorough tier only
];
const BASE_PAIRS: usize = 6;
/// roots: 0 = atom B, 1..=5 = p0..p4, 6 = e1, 7 = e2, 8 = e3
const NROOTS: usize = 9;
const OP_ALLOC: u8 = 18;
/// 19 + r: TreeCache::insert(root r, reference hash of root r) — the public priming call with the
/// correct hash (the caller's obligation); pair roots only
const OP_INSERT: u8 = 19;
/// 40 + k: TreeCache::insert(atom k, its hash) for the three atoms (nil, small 5, 32-byte heap atom):
/// a no-op by contract ("we only cache pairs"); atom and pair indices live in separate spaces
const OP_INSERT_ATOM: u8 = 40;

fn root_pair_index(r: usize) -> Option<usize> {
    match r {
        0 => None,
        1..=5 => Some(r - 1),
        _ => Some(r),
    }
}

fn op_name(op: u8) -> String {
    let root = |r: usize| match r {
        0 => "atom 5".to_string(),
        1..=5 => format!("p{}", r - 1),
        _ => format!("e{}", r - 5),
    };
    if op == OP_ALLOC {
        "alloc".into()
    } else if op >= OP_INSERT_ATOM {
        format!("insert(atom {}, its hash)", ["nil", "5", "22..22"][(op - OP_INSERT_ATOM) as usize])
    } else if op >= OP_INSERT {
        format!("insert({}, its hash)", root((op - OP_INSERT) as usize))
    } else if (op as usize) < NROOTS {
        format!("visit_tree({})", root(op as usize))
    } else {
        format!("tree_hash_cached({})", root(op as usize - NROOTS))
    }
}

struct DagRef {
    /// reference hash per pair index, from the fully expanded tree
    pair_h: Vec<H>,
    atom_b: H,
}

fn dag_reference() -> DagRef {
    let c32 = vec![0x22u8; 32];
    let mut sx: Vec<Sx> = Vec::new();
    for (l, r) in DAG {
        let get = |c: Ch, sx: &Vec<Sx>| match c {
            Ch::A => Sx::nil(),
            Ch::B => Sx::int(5),
            Ch::C => Sx::atom(&c32),
            Ch::P(i) => sx[i].clone(),
        };
        let p = Sx::cons(get(l, &sx), get(r, &sx));
        sx.push(p);
    }
    DagRef { pair_h: sx.iter().map(Sx::tree_hash).collect(), atom_b: Sx::int(5).tree_hash() }
}

struct World {
    a: Allocator,
    atoms: [NodePtr; 3],
    pairs: Vec<NodePtr>,
}

impl World {
    fn new() -> Self {
        let mut a = Allocator::new();
        let atoms = [a.nil(), a.new_small_number(5).unwrap(), a.new_atom(&[0x22u8; 32]).unwrap()];
        let mut w = World { a, atoms, pairs: Vec::new() };
        for _ in 0..BASE_PAIRS {
            w.alloc();
        }
        w
    }
    fn alloc(&mut self) {
        let i = self.pairs.len();
        let get = |c: Ch, w: &World| match c {
            Ch::A => w.atoms[0],
            Ch::B => w.atoms[1],
            Ch::C => w.atoms[2],
            Ch::P(i) => w.pairs[i],
        };
        let (l, r) = (get(DAG[i].0, self), get(DAG[i].1, self));
        let p = self.a.new_pair(l, r).expect("new_pair");
        assert_eq!(p.index() as usize, i, "harness: pair index");
        self.pairs.push(p);
    }
    fn extras(&self) -> usize {
        self.pairs.len() - BASE_PAIRS
    }
    fn root(&self, r: usize) -> Option<NodePtr> {
        match root_pair_index(r) {
            None => Some(self.atoms[1]),
            Some(i) => self.pairs.get(i).copied(),
        }
    }
}

struct Exec {
    key: Vec<u8>,
    bucket: &'static str,
    misses: Vec<Miss>,
    rendered: String,
}

/// exact, injective encoding of (allocator extension, pairs[], hashes[]); a memoised hash that
/// equals the reference hash of pair i is written as the byte i, any other as ff + 32 bytes
fn state_key(extras: usize, cache: &TreeCache, dr: &DagRef) -> (Vec<u8>, String) {
    let (pairs, hashes) = cache.verif_state();
    let mut k = vec![extras as u8, pairs.len() as u8];
    for p in &pairs {
        k.extend_from_slice(&p.to_le_bytes());
    }
    k.push(0xfe);
    let mut names = Vec::new();
    for h in &hashes {
        match dr.pair_h.iter().position(|r| r == &h.to_bytes()) {
            Some(i) => {
                k.push(i as u8);
                names.push(format!("H(p{i})"));
            }
            None => {
                k.push(0xff);
                k.extend_from_slice(&h.to_bytes());
                names.push(format!("UNKNOWN {}", hx(&h.to_bytes())));
            }
        }
    }
    let slots: Vec<String> = pairs
        .iter()
        .map(|p| match *p {
            u32::MAX => "-".to_string(),
            x if x == u32::MAX - 1 => "once".to_string(),
            x if x == u32::MAX - 2 => "multi".to_string(),
            s => format!("slot{s}"),
        })
        .collect();
    (k, format!("extras={extras} pairs=[{}] hashes=[{}]", slots.join(","), names.join(",")))
}

/// re-execute a history on a fresh allocator and cache; oracles are evaluated on the last operation
/// and on the resulting cache contents
fn exec_history(hist: &[u8], dr: &DagRef) -> Exec {
    let mut w = World::new();
    let mut cache = TreeCache::default();
    let mut misses = Vec::new();
    let mut bucket = "bfs/empty";
    for (step, &op) in hist.iter().enumerate() {
        let last = step + 1 == hist.len();
        if op == OP_ALLOC {
            w.alloc();
            bucket = "bfs/alloc";
        } else if op >= OP_INSERT_ATOM {
            let k = (op - OP_INSERT_ATOM) as usize;
            let h = [h_atom(&[]), h_atom(&[5]), h_atom(&[0x22u8; 32])][k];
            if let Err(p) = catch(|| cache.insert(w.atoms[k], &TreeHash::new(h))) {
                misses.push(Miss { routine: "TreeCache::insert", kind: "panic", detail: format!("step {step}: {} panicked: {p}", op_name(op)) });
                break;
            }
            bucket = "bfs/insert-atom";
        } else if op >= OP_INSERT {
            let r = (op - OP_INSERT) as usize;
            let n = w.root(r).expect("root not allocated");
            let want = dr.pair_h[root_pair_index(r).expect("insert on the atom root")];
            if let Err(p) = catch(|| cache.insert(n, &TreeHash::new(want))) {
                misses.push(Miss { routine: "TreeCache::insert", kind: "panic", detail: format!("step {step}: {} panicked: {p}", op_name(op)) });
                break;
            }
            bucket = "bfs/insert";
        } else if (op as usize) < NROOTS {
            let n = w.root(op as usize).expect("root not allocated");
            if let Err(p) = catch(|| cache.visit_tree(&w.a, n)) {
                misses.push(Miss { routine: "visit_tree", kind: "panic", detail: format!("step {step}: {} panicked: {p}", op_name(op)) });
                break;
            }
            bucket = "bfs/visit_tree";
        } else {
            let r = op as usize - NROOTS;
            let n = w.root(r).expect("root not allocated");
            let want = match root_pair_index(r) {
                None => dr.atom_b,
                Some(i) => dr.pair_h[i],
            };
            let (hit, memo_before) = if last { (catch(|| cache.get(n).is_some()).unwrap_or(false), cache.verif_state().1.len()) } else { (false, 0) };
            let before = misses.len();
            cmp(&mut misses, "tree_hash_cached", catch(|| Ok(tree_hash_cached(&w.a, n, &mut cache).to_bytes())), &want);
            if misses.len() > before {
                misses[before].detail = format!("step {step}: {} through the shared cache: {}", op_name(op), misses[before].detail);
                break;
            }
            if last {
                let added = cache.verif_state().1.len() - memo_before;
                bucket = if r == 0 {
                    "bfs/hash/atom root"
                } else if hit {
                    "bfs/hash/root answered from the cache"
                } else {
                    match added {
                        0 => "bfs/hash/computed, nothing new memoised",
                        1 => "bfs/hash/computed, 1 pair newly memoised",
                        2 => "bfs/hash/computed, 2 pairs newly memoised",
                        _ => "bfs/hash/computed, 3+ pairs newly memoised",
                    }
                };
            }
        }
    }
    if misses.is_empty() {
        for (i, p) in w.pairs.iter().enumerate() {
            match catch(|| cache.get(*p).map(TreeHash::to_bytes)) {
                Ok(None) => {}
                Ok(Some(h)) if h == dr.pair_h[i] => {}
                Ok(Some(h)) => misses.push(Miss { routine: "TreeCache::get", kind: "wrong-hash", detail: format!("the cache answers {} for pair {i}, the definition gives {}", hx(&h), hx(&dr.pair_h[i])) }),
                Err(e) => misses.push(Miss { routine: "TreeCache::get", kind: "panic", detail: format!("get(pair {i}) panicked: {e}") }),
            }
        }
    }
    let (key, rendered) = state_key(w.extras(), &cache, dr);
    Exec { key, bucket, misses, rendered }
}

fn alphabet(extras: usize, max_extras: usize, inserts: usize, max_inserts: usize) -> Vec<u8> {
    let mut ops = Vec::new();
    let roots = 6 + extras;
    for r in 0..roots {
        ops.push(r as u8);
    }
    for r in 0..roots {
        ops.push((NROOTS + r) as u8);
    }
    if extras < max_extras {
        ops.push(OP_ALLOC);
    }
    // every insert appends a memoised hash, so the state graph is only finite with a bound on them
    if inserts < max_inserts {
        for r in 1..roots {
            ops.push(OP_INSERT + r as u8);
        }
        for k in 0..3 {
            ops.push(OP_INSERT_ATOM + k);
        }
    }
    ops
}

struct St {
    hist: Vec<u8>,
}

fn part_bfs(rep: &Report, depth: usize, max_states: usize, max_extras: usize, max_inserts: usize) {
    let dr = dag_reference();
    let init = exec_history(&[], &dr);
    let res = bfs::run(
        vec![(init.key, St { hist: vec![] })],
        depth,
        max_states,
        |s: &St, _d| {
            let mut acc = Acc::default();
            let mut out = Vec::new();
            let extras = s.hist.iter().filter(|o| **o == OP_ALLOC).count();
            let inserts = s.hist.iter().filter(|o| **o >= OP_INSERT).count();
            for op in alphabet(extras, max_extras, inserts, max_inserts) {
                let mut hist = s.hist.clone();
                hist.push(op);
                acc.evals += 1;
                let e = exec_history(&hist, &dr);
                if e.misses.is_empty() {
                    acc.ok(e.bucket);
                    out.push((e.key, St { hist }));
                } else {
                    let case = json!({"kind": "bfs", "history": hist, "ops": hist.iter().map(|o| op_name(*o)).collect::<Vec<_>>()});
                    acc.misses("history", e.misses, &case);
                }
            }
            acc.flush(rep);
            out
        },
        |s: &St, _d| {
            rep.state();
            rep.distinct(fxhash(&("bfs", &s.hist)));
            true
        },
    );
    rep.transitions.fetch_add(res.transitions, Ordering::Relaxed);
    rep.traces.fetch_add(res.transitions, Ordering::Relaxed);
    rep.extra("bfs_level_sizes", json!(res.level_sizes));
    rep.extra("bfs_dedup_hits", json!(res.dedup_hits));
    rep.extra("bfs_states", json!(res.states));
    // two rendered histories (fixed, so that the evidence does not depend on scheduling)
    for hist in [vec![3u8, 4, NROOTS as u8 + 4, NROOTS as u8 + 1], vec![5, OP_ALLOC, NROOTS as u8 + 6, OP_ALLOC, NROOTS as u8 + 7, NROOTS as u8 + 3]] {
        let e = exec_history(&hist, &dr);
        rep.sample(json!({"history": hist.iter().map(|o| op_name(*o)).collect::<Vec<_>>(), "cache_state_after": e.rendered, "last_operation": e.bucket}));
    }
    let fixpoint = res.level_sizes.last() == Some(&0);
    rep.extra("bfs_fixpoint_reached", json!(fixpoint));
    rep.extra("bfs_longest_shortest_history", json!(res.level_sizes.iter().rposition(|n| *n > 0).unwrap_or(0)));
    if res.capped {
        rep.cap(&format!("BFS state budget {max_states} reached; all states up to depth {} were expanded", res.depth_completed));
    } else if !fixpoint {
        rep.cap(&format!("BFS depth bound {depth} reached before the state graph was complete"));
    }
}

// ---------------------------------------------------------------------------------------
// the cache as the block validators use it: one TreeCache over all puzzle reveals of a generator

const OP_F: u8 = 5;

/// puzzle (f (q . (() . junk))): evaluates to the empty condition list, carries `junk` unevaluated
fn puzzle_hash_reference(junk: &H) -> H {
    let nil = h_atom(&[]);
    let quoted = h_pair(&h_atom(&[1]), &h_pair(&nil, junk));
    h_pair(&h_atom(&[OP_F]), &h_pair(&quoted, &nil))
}

fn spend_parent(i: usize) -> [u8; 32] {
    [0xa0 + i as u8; 32]
}

/// returns (generator bytes, expected puzzle hash per spend)
fn build_block(ctx: &mut TableCtx, t: &[(u8, u8)], n: usize, sel: &[usize], backrefs: bool) -> (Vec<u8>, Vec<H>) {
    let (nodes, hs) = ctx.build(t, n);
    let a = &mut ctx.a;
    let nil = a.nil();
    let one = a.one();
    let five = a.new_small_number(u32::from(OP_F)).unwrap();
    let mut spends = nil;
    let mut want = Vec::new();
    for (i, &j) in sel.iter().enumerate().rev() {
        let inner = a.new_pair(nil, nodes[j]).unwrap();
        let quoted = a.new_pair(one, inner).unwrap();
        let tail = a.new_pair(quoted, nil).unwrap();
        let puzzle = a.new_pair(five, tail).unwrap();
        let parent = a.new_atom(&spend_parent(i)).unwrap();
        // (parent puzzle amount solution)
        let mut spend = a.new_pair(nil, nil).unwrap();
        spend = a.new_pair(one, spend).unwrap();
        spend = a.new_pair(puzzle, spend).unwrap();
        spend = a.new_pair(parent, spend).unwrap();
        spends = a.new_pair(spend, spends).unwrap();
        want.push(puzzle_hash_reference(&hs[j]));
    }
    want.reverse();
    let result = a.new_pair(spends, nil).unwrap();
    let generator = a.new_pair(one, result).unwrap();
    let bytes = if backrefs { node_to_bytes_backrefs(a, generator) } else { node_to_bytes(a, generator) }.expect("serialise generator");
    (bytes, want)
}

fn check_block(bytes: &[u8], want: &[H]) -> Result<Vec<Miss>, String> {
    let mut out = Vec::new();
    let flags = ConsensusFlags::DONT_VALIDATE_SIGNATURE;
    let blocks: &[&[u8]] = &[];
    let coin_id = |i: usize| sha256(&[&spend_parent(i), &want[i], &[1u8]]);
    let mismatch = |routine: &'static str, i: usize, what: &str, got: &[u8], exp: &[u8]| Miss {
        routine,
        kind: "wrong-hash",
        detail: format!("{routine}: spend {i}: {what} {} but the definition gives {}", hex::encode(got), hex::encode(exp)),
    };
    // validators
    for (routine, v2) in [("run_block_generator", false), ("run_block_generator2", true)] {
        let r = catch(|| {
            let sig = chia_bls::Signature::default();
            if v2 {
                run_block_generator2(bytes, blocks, 11_000_000_000, flags, &sig, None, &TEST_CONSTANTS)
            } else {
                run_block_generator(bytes, blocks, 11_000_000_000, flags, &sig, None, &TEST_CONSTANTS)
            }
        });
        match r {
            Err(p) => out.push(Miss { routine, kind: "panic", detail: format!("{routine} panicked: {p}") }),
            Ok(Err(e)) => return Err(format!("{routine} rejected the harness generator {}: {e:?}", hex::encode(bytes))),
            Ok(Ok((a2, conds))) => {
                if conds.spends.len() != want.len() {
                    return Err(format!("{routine} reports {} spends, expected {}", conds.spends.len(), want.len()));
                }
                for s in &conds.spends {
                    let parent = a2.atom(s.parent_id);
                    let i = (parent.as_ref()[0] - 0xa0) as usize;
                    let ph = a2.atom(s.puzzle_hash);
                    if ph.as_ref() != want[i] {
                        out.push(mismatch(routine, i, "puzzle hash", ph.as_ref(), &want[i]));
                    } else if s.coin_id.as_slice() != coin_id(i) {
                        out.push(mismatch(routine, i, "coin id", s.coin_id.as_slice(), &coin_id(i)));
                    }
                }
            }
        }
    }
    let routine = "additions_and_removals";
    match catch(|| additions_and_removals(bytes, blocks, flags, &TEST_CONSTANTS)) {
        Err(p) => out.push(Miss { routine, kind: "panic", detail: format!("{routine} panicked: {p}") }),
        Ok(Err(e)) => return Err(format!("{routine} rejected the harness generator: {e:?}")),
        Ok(Ok((_add, rem))) => {
            if rem.len() != want.len() {
                return Err(format!("{routine} reports {} removals, expected {}", rem.len(), want.len()));
            }
            for (id, coin) in &rem {
                let i = (coin.parent_coin_info.as_slice()[0] - 0xa0) as usize;
                if coin.puzzle_hash.as_slice() != want[i] {
                    out.push(mismatch(routine, i, "puzzle hash", coin.puzzle_hash.as_slice(), &want[i]));
                } else if id.as_slice() != coin_id(i) {
                    out.push(mismatch(routine, i, "coin id", id.as_slice(), &coin_id(i)));
                }
            }
        }
    }
    let routine = "get_coinspends_for_trusted_block";
    match catch(|| get_coinspends_for_trusted_block(&TEST_CONSTANTS, &Program::from(bytes.to_vec()), blocks, flags)) {
        Err(p) => out.push(Miss { routine, kind: "panic", detail: format!("{routine} panicked: {p}") }),
        Ok(Err(e)) => return Err(format!("{routine} rejected the harness generator: {e:?}")),
        Ok(Ok(spends)) => {
            if spends.len() != want.len() {
                return Err(format!("{routine} reports {} spends, expected {}", spends.len(), want.len()));
            }
            for cs in &spends {
                let i = (cs.coin.parent_coin_info.as_slice()[0] - 0xa0) as usize;
                if cs.coin.puzzle_hash.as_slice() != want[i] {
                    out.push(mismatch(routine, i, "puzzle hash", cs.coin.puzzle_hash.as_slice(), &want[i]));
                }
            }
        }
    }
    let routine = "get_coinspends_with_conditions_for_trusted_block";
    match catch(|| get_coinspends_with_conditions_for_trusted_block(&TEST_CONSTANTS, &Program::from(bytes.to_vec()), blocks, flags)) {
        Err(p) => out.push(Miss { routine, kind: "panic", detail: format!("{routine} panicked: {p}") }),
        Ok(Err(e)) => return Err(format!("{routine} rejected the harness generator: {e:?}")),
        Ok(Ok(spends)) => {
            if spends.len() != want.len() {
                return Err(format!("{routine} reports {} spends, expected {}", spends.len(), want.len()));
            }
            for (cs, _) in &spends {
                let i = (cs.coin.parent_coin_info.as_slice()[0] - 0xa0) as usize;
                if cs.coin.puzzle_hash.as_slice() != want[i] {
                    out.push(mismatch(routine, i, "puzzle hash", cs.coin.puzzle_hash.as_slice(), &want[i]));
                }
            }
        }
    }
    Ok(out)
}

/// every table x every list of `spends` puzzles carrying the pairs of the table x {plain, back-reference} generator
fn part_blocks(rep: &Report, n: usize, k: usize, spends: usize) {
    let total = table_count(n, k);
    let lists = (n as u64).pow(spends as u32);
    let chunk = 16u64;
    (0..total.div_ceil(chunk)).into_par_iter().for_each(|c| {
        let mut acc = Acc::default();
        let mut ctx = TableCtx::new(k);
        let mut sel = vec![0usize; spends];
        for idx in c * chunk..((c + 1) * chunk).min(total) {
            let t = decode_table(idx, n, k);
            for l in 0..lists {
                let mut x = l;
                for s in sel.iter_mut() {
                    *s = (x % n as u64) as usize;
                    x /= n as u64;
                }
                for backrefs in [false, true] {
                    acc.evals += 1;
                    let (bytes, want) = build_block(&mut ctx, &t, n, &sel, backrefs);
                    match check_block(&bytes, &want) {
                        Ok(m) if m.is_empty() => acc.ok(if backrefs { "block/back-reference generator: 5 consumers ok" } else { "block/plain generator: 5 consumers ok" }),
                        Ok(m) => {
                            let case = json!({"kind": "block", "n": n, "k": k, "index": idx, "spends": sel, "backrefs": backrefs, "table": render_table(&t, n, k)});
                            acc.misses("block", m, &case);
                        }
                        Err(e) => rep.machinery_error(&e),
                    }
                }
            }
        }
        acc.flush(rep);
    });
    rep.extra_add(&format!("blocks_n{n}_k{k}_spends{spends}"), total * lists * 2);
}

// ---------------------------------------------------------------------------------------
// big structures (built iteratively; the reference is folded iteratively as well)

fn big_atom(i: usize) -> u8 {
    (i % 0x7f) as u8 + 1 // one byte 01..7f: serialises as itself
}

/// returns (allocator, root, reference hash, plain serialisation)
fn build_big(which: &str, size: usize) -> (Allocator, NodePtr, H, Vec<u8>) {
    let mut a = Allocator::new();
    match which {
        // (((() . a1) . a2) ... . aN)
        "deep-left" => {
            let mut node = a.nil();
            let mut h = h_atom(&[]);
            let mut plain = vec![0xffu8; size];
            plain.push(0x80);
            for i in 0..size {
                let b = big_atom(i);
                let at = a.new_atom(&[b]).unwrap();
                node = a.new_pair(node, at).unwrap();
                h = h_pair(&h, &h_atom(&[b]));
                plain.push(b);
            }
            (a, node, h, plain)
        }
        // (a1 a2 ... aN)
        "wide-list" => {
            let mut node = a.nil();
            let mut h = h_atom(&[]);
            for i in (0..size).rev() {
                let b = big_atom(i);
                let at = a.new_atom(&[b]).unwrap();
                node = a.new_pair(at, node).unwrap();
                h = h_pair(&h_atom(&[b]), &h);
            }
            let mut plain = Vec::with_capacity(2 * size + 1);
            for i in 0..size {
                plain.push(0xff);
                plain.push(big_atom(i));
            }
            plain.push(0x80);
            (a, node, h, plain)
        }
        // d_0 = atom, d_i = (d_{i-1} . d_{i-1}): 2^size leaves, size distinct pairs
        "perfect-dag" => {
            let mut node = a.new_atom(&[0x2a]).unwrap();
            let mut h = h_atom(&[0x2a]);
            let mut plain = vec![0x2au8];
            for _ in 0..size {
                node = a.new_pair(node, node).unwrap();
                h = h_pair(&h, &h);
                let mut p = Vec::with_capacity(2 * plain.len() + 1);
                p.push(0xff);
                p.extend_from_slice(&plain);
                p.extend_from_slice(&plain);
                plain = p;
            }
            (a, node, h, plain)
        }
        // f_0 = 0x0b, f_1 = 32-byte atom, f_i = (f_{i-1} . f_{i-2}): sharing across levels, asymmetric
        _ => {
            let c32 = [0x33u8; 32];
            let mut prev = (a.new_atom(&[0x0b]).unwrap(), h_atom(&[0x0b]), vec![0x0bu8]);
            let mut cur = (a.new_atom(&c32).unwrap(), h_atom(&c32), Sx::atom(&c32).serialize());
            for _ in 1..size {
                let node = a.new_pair(cur.0, prev.0).unwrap();
                let h = h_pair(&cur.1, &prev.1);
                let mut p = Vec::with_capacity(1 + cur.2.len() + prev.2.len());
                p.push(0xff);
                p.extend_from_slice(&cur.2);
                p.extend_from_slice(&prev.2);
                prev = cur;
                cur = (node, h, p);
            }
            (a, cur.0, cur.1, cur.2)
        }
    }
}

fn check_big(which: &str, size: usize) -> Result<(Vec<Miss>, usize, usize), String> {
    let (a, node, want, plain) = build_big(which, size);
    let mut out = Vec::new();
    check_mem(&a, node, &want, &mut out);
    check_plain(&plain, &want, &mut out);
    let br = check_backrefs(&a, node, &plain, &want, &mut out)?;
    Ok((out, plain.len(), br))
}

fn part_big(rep: &Report) {
    let t = rep.tier;
    let cases: Vec<(&str, usize)> = vec![
        ("deep-left", 100_000),
        ("wide-list", 100_000),
        ("perfect-dag", 17),
        ("perfect-dag", t.pick(12, 20)),
        ("fibonacci-dag", t.pick(20, 27)),
        ("deep-left", 1),
        ("wide-list", 1),
    ];
    cases.par_iter().for_each(|(which, size)| {
        let mut acc = Acc::default();
        acc.evals += 1;
        rep.distinct(fxhash(&("big", which, size)));
        let case = json!({"kind": "big", "which": which, "size": size});
        match check_big(which, *size) {
            Ok((m, plain, br)) if m.is_empty() => {
                acc.ok("big/ok");
                rep.extra(&format!("big_{which}_{size}"), json!({"plain_bytes": plain, "backref_bytes": br}));
            }
            Ok((m, _, _)) => acc.misses("", m, &case),
            Err(e) => rep.machinery_error(&e),
        }
        acc.flush(rep);
    });
}

// ---------------------------------------------------------------------------------------
// currying

fn curry_values(t: mc::Tier) -> Vec<Sx> {
    let mut v = vec![
        Sx::nil(),
        Sx::int(1),
        Sx::int(2),
        Sx::int(4),
        Sx::atom(&[0x55; 32]),
        Sx::cons(Sx::int(1), Sx::int(2)),
        // looks like a curried-argument list itself: (c (q . 1) 1)
        Sx::list(&[Sx::int(4), Sx::cons(Sx::int(1), Sx::int(1)), Sx::int(1)]),
        // a curried program with no arguments: (a (q . 1) 1)
        Sx::list(&[Sx::int(2), Sx::cons(Sx::int(1), Sx::int(1)), Sx::int(1)]),
    ];
    if t == mc::Tier::Thorough {
        v.push(Sx::atom(&[0x80]));
        v.push(Sx::cons(Sx::nil(), Sx::nil()));
        v.push(Sx::int(23));
        v.push(Sx::atom(&[0x00]));
    }
    v
}

/// (a (q . program) args) with args = (c (q . a1) (c (q . a2) ... 1)) — the documented form
fn curried_reference(p: &Sx, args: &[&Sx]) -> Sx {
    let mut tail = Sx::int(1);
    for a in args.iter().rev() {
        tail = Sx::list(&[Sx::int(4), Sx::cons(Sx::int(1), (*a).clone()), tail]);
    }
    Sx::list(&[Sx::int(2), Sx::cons(Sx::int(1), p.clone()), tail])
}

fn check_curry(p: &Sx, args: &[&Sx], structs: bool) -> Vec<Miss> {
    let mut out = Vec::new();
    let want = curried_reference(p, args).tree_hash();
    let ph = TreeHash::new(p.tree_hash());
    let ahs: Vec<TreeHash> = args.iter().map(|a| TreeHash::new(a.tree_hash())).collect();
    cmp(&mut out, "curry_tree_hash", catch(|| Ok(curry_tree_hash(ph, &ahs).to_bytes())), &want);
    if !structs {
        return out;
    }
    // the actual curried program, built by CurriedProgram + clvm_curried_args!, hashed by tree_hash
    let r = catch(|| -> Result<(H, H), String> {
        let mut a = Allocator::new();
        let pn = p.to_node(&mut a);
        let an: Vec<NodePtr> = args.iter().map(|x| x.to_node(&mut a)).collect();
        let node = match an.len() {
            0 => CurriedProgram { program: pn, args: clvm_curried_args!() }.to_clvm(&mut a),
            1 => CurriedProgram { program: pn, args: clvm_curried_args!(an[0]) }.to_clvm(&mut a),
            2 => CurriedProgram { program: pn, args: clvm_curried_args!(an[0], an[1]) }.to_clvm(&mut a),
            3 => CurriedProgram { program: pn, args: clvm_curried_args!(an[0], an[1], an[2]) }.to_clvm(&mut a),
            _ => CurriedProgram { program: pn, args: clvm_curried_args!(an[0], an[1], an[2], an[3]) }.to_clvm(&mut a),
        }
        .map_err(|e| format!("{e:?}"))?;
        let h1 = tree_hash(&a, node).to_bytes();
        let mut c = TreeCache::default();
        let h2 = tree_hash_cached(&a, node, &mut c).to_bytes();
        Ok((h1, h2))
    });
    match r {
        Ok(Ok((h1, h2))) => {
            cmp(&mut out, "tree_hash(CurriedProgram)", Ok(Ok(h1)), &want);
            cmp(&mut out, "tree_hash_cached(CurriedProgram)", Ok(Ok(h2)), &want);
        }
        Ok(Err(e)) => cmp(&mut out, "tree_hash(CurriedProgram)", Ok(Err(e)), &want),
        Err(p) => cmp(&mut out, "tree_hash(CurriedProgram)", Err(p), &want),
    }
    // the same through TreeHasher, from hashes alone
    let r = catch(|| {
        Ok(match ahs.len() {
            0 => CurriedProgram { program: ph, args: clvm_curried_args!() }.tree_hash(),
            1 => CurriedProgram { program: ph, args: clvm_curried_args!(ahs[0]) }.tree_hash(),
            2 => CurriedProgram { program: ph, args: clvm_curried_args!(ahs[0], ahs[1]) }.tree_hash(),
            3 => CurriedProgram { program: ph, args: clvm_curried_args!(ahs[0], ahs[1], ahs[2]) }.tree_hash(),
            _ => CurriedProgram { program: ph, args: clvm_curried_args!(ahs[0], ahs[1], ahs[2], ahs[3]) }.tree_hash(),
        }
        .to_bytes())
    });
    cmp(&mut out, "TreeHasher(CurriedProgram)", r, &want);
    out
}

/// typed Rust values through `ToTreeHash` (= `ToClvm<TreeHasher>`, the encoder's default
/// integer / big-integer routines) and through `ToClvm<Allocator>` + tree_hash, against the
/// definition applied to the canonical CLVM integer
fn part_typed_values(rep: &Report) {
    use num_bigint::BigInt;
    let mut acc = Acc::default();
    let vals: Vec<i128> = {
        let mut v: Vec<i128> = vec![0, 1, -1, 2, 0x17, 0x18, 0x7f, 0x80, 0xff, 0x100, -0x7f, -0x80, -0x81, -0x100, 0x7fff, 0x8000, 0xffff, 0x1_0000, -0x8000, -0x8001];
        for k in [31u32, 32, 63, 64, 126] {
            let p = 1i128.checked_shl(k).unwrap_or(i128::MAX);
            for d in [-1i128, 0, 1] {
                v.push(p.saturating_add(d));
                v.push((-p).saturating_add(d));
            }
        }
        v.push(i128::MAX);
        v.push(i128::MIN);
        v.sort();
        v.dedup();
        v
    };
    macro_rules! prim {
        ($acc:ident, $v:expr, $want:expr, $($t:ty),*) => {$(
            if let Ok(x) = <$t>::try_from($v) {
                $acc.evals += 1;
                let mut out = Vec::new();
                cmp(&mut out, concat!("ToTreeHash<", stringify!($t), ">"), catch(|| Ok(x.tree_hash().to_bytes())), &$want);
                cmp(&mut out, concat!("ToClvm<Allocator,", stringify!($t), ">+tree_hash"), catch(|| { let mut a = Allocator::new(); let n = x.to_clvm(&mut a).map_err(|e| format!("{e:?}"))?; Ok(tree_hash(&a, n).to_bytes()) }), &$want);
                if out.is_empty() { $acc.ok("typed/primitive ok"); } else { $acc.misses("typed", out, &json!({"kind": "typed", "type": stringify!($t), "value": $v.to_string()})); }
            }
        )*};
    }
    for v in &vals {
        let want = h_atom(&mc::sx::enc_i128(*v));
        prim!(acc, *v, want, u8, u16, u32, u64, u128, usize, i8, i16, i32, i64, i128, isize);
        // big integers: the value itself and the value shifted beyond 128 bits
        for shift in [0u32, 130] {
            let b: BigInt = BigInt::from(*v) << shift;
            let bytes = if b == BigInt::from(0) { vec![] } else { b.to_signed_bytes_be() };
            let want = h_atom(&bytes);
            acc.evals += 1;
            let mut out = Vec::new();
            cmp(&mut out, "ToTreeHash<BigInt>", catch(|| Ok(b.tree_hash().to_bytes())), &want);
            cmp(&mut out, "ToClvm<Allocator,BigInt>+tree_hash", catch(|| { let mut a = Allocator::new(); let n = b.to_clvm(&mut a).map_err(|e| format!("{e:?}"))?; Ok(tree_hash(&a, n).to_bytes()) }), &want);
            // a pair (BigInt . value) and a curried program carrying it, as the wallet code builds them
            let pw = h_pair(&want, &h_atom(&mc::sx::enc_i128(*v)));
            cmp(&mut out, "ToTreeHash<(BigInt, i128)>", catch(|| Ok((b.clone(), *v).tree_hash().to_bytes())), &pw);
            if out.is_empty() { acc.ok("typed/bigint ok"); } else { acc.misses("typed", out, &json!({"kind": "typed", "type": "BigInt", "value": b.to_string()})); }
        }
    }
    // byte strings (atoms), lists of small integers (Vec<u8> is a list, not an atom), unit, tuples
    for len in [0usize, 1, 2, 31, 32, 33, 100] {
        let b = pattern(len);
        let want = h_atom(&b);
        // proper list (b0 b1 ... ) of integers, nil-terminated
        let list = b.iter().rev().fold(h_atom(&[]), |t, x| h_pair(&h_atom(&mc::sx::enc_u64(u64::from(*x))), &t));
        acc.evals += 1;
        let mut out = Vec::new();
        let bytes = chia_protocol::Bytes::new(b.clone());
        cmp(&mut out, "ToTreeHash<Bytes>", catch(|| Ok(bytes.tree_hash().to_bytes())), &want);
        cmp(&mut out, "ToTreeHash<(Bytes, ())>", catch(|| Ok((bytes.clone(), ()).tree_hash().to_bytes())), &h_pair(&want, &h_atom(&[])));
        cmp(&mut out, "ToTreeHash<Vec<u8>> (a list)", catch(|| Ok(b.clone().tree_hash().to_bytes())), &list);
        cmp(&mut out, "ToTreeHash<&[u8]> (a list)", catch(|| Ok(b.as_slice().tree_hash().to_bytes())), &list);
        if len == 32 {
            let b32 = chia_protocol::Bytes32::new(b.clone().try_into().unwrap());
            cmp(&mut out, "ToTreeHash<Bytes32>", catch(|| Ok(b32.tree_hash().to_bytes())), &want);
        }
        if out.is_empty() { acc.ok("typed/bytes ok"); } else { acc.misses("typed", out, &json!({"kind": "typed", "type": "bytes", "value": hex::encode(&b)})); }
    }
    rep.extra("typed_integer_values", json!(vals.len()));
    rep.sample(json!({"typed": "BigInt 0, i64 0, u8 0 and () all hash as the empty atom; -129i16 hashes as ff7f"}));
    acc.flush(rep);
}

/// the hash-from-hashes routine inside fast_forward_singleton (curry_and_treehash, private): a
/// singleton spend whose three coins are built from the DEFINITIONAL tree hash of its curried
/// puzzle must pass every hash comparison of that function, for any launcher id, launcher
/// puzzle hash and inner puzzle
fn part_ff_curried_hash(rep: &Report) {
    use chia_consensus::fast_forward::fast_forward_singleton;
    use chia_protocol::{Bytes32, Coin};
    let module = Sx::parse(&chia_puzzles::SINGLETON_TOP_LAYER_V1_1).expect("singleton top layer parses");
    let mod_hash: H = chia_puzzles::SINGLETON_TOP_LAYER_V1_1_HASH;
    let mut acc = Acc::default();
    if module.tree_hash() != mod_hash {
        rep.machinery_error("own tree hash of the chia-puzzles singleton module differs from the published constant");
        return;
    }
    let lids: [H; 3] = [[0xa1; 32], [0; 32], [0xff; 32]];
    let lphs: [H; 4] = [chia_puzzles::SINGLETON_LAUNCHER_HASH, [0x4c; 32], [0; 32], mod_hash];
    let inners: Vec<Sx> = vec![Sx::int(1), Sx::cons(Sx::int(1), Sx::int(5)), Sx::list(&[Sx::atom(&[2]), Sx::int(2), Sx::int(3)]), Sx::nil()];
    let coin_id = |p: &H, ph: &H, am: u64| sha256(&[p, ph, &enc_u64(am)]);
    for lid in &lids {
        for lph in &lphs {
            for inner in &inners {
                for (amount, pamt) in [(1u64, 1u64), (3, (1 << 63) + 1)] {
                    acc.evals += 1;
                    let strukt = Sx::cons(Sx::atom(&mod_hash), Sx::cons(Sx::atom(lid), Sx::atom(lph)));
                    let puzzle = curried_reference(&module, &[&strukt, inner]);
                    let ph = puzzle.tree_hash();
                    let inner_hash = inner.tree_hash();
                    let pp: H = [0xc1; 32];
                    let parent_id = coin_id(&pp, &ph, pamt);
                    let solution = Sx::list(&[Sx::list(&[Sx::atom(&pp), Sx::atom(&inner_hash), Sx::Atom(enc_u64(pamt))]), Sx::Atom(enc_u64(amount)), Sx::nil()]);
                    let mk = |p: &H, am: u64| Coin::new(Bytes32::new(*p), Bytes32::new(ph), am);
                    let coin = mk(&parent_id, amount);
                    let new_parent = mk(&[0xab; 32], 3);
                    let new_coin = mk(&coin_id(&[0xab; 32], &ph, 3), amount);
                    let r = catch(|| {
                        let mut a = Allocator::new();
                        let (p, s) = (puzzle.to_node(&mut a), solution.to_node(&mut a));
                        fast_forward_singleton(&mut a, p, s, &coin, &new_coin, &new_parent).map(|_| ()).map_err(|e| format!("{e:?}"))
                    });
                    let case = json!({"kind": "ff", "launcher_id": hx(lid), "launcher_puzzle_hash": hx(lph), "inner": hex::encode(inner.serialize()), "amount": amount, "parent_amount": pamt});
                    match r {
                        Ok(Ok(())) => acc.ok("ff/hash-from-hashes agrees"),
                        Ok(Err(e)) => acc.bad("C17/fast_forward/curried-hash-from-hashes".into(), case, format!("a singleton spend whose coin, parent and rebase target carry the definitional tree hash {} of its curried puzzle (launcher id {}, launcher puzzle hash {}, inner puzzle {:?}) is refused with {e}: the puzzle hash fast_forward_singleton derives from hashes alone is not the tree hash of the curried puzzle", hx(&ph), hx(lid), hx(lph), inner)),
                        Err(p) => acc.bad("C17/fast_forward/panic".into(), case, p),
                    }
                }
            }
        }
    }
    rep.sample(json!({"ff": "singleton_top_layer_v1_1 curried with (mod_hash . (launcher_id . 4c..4c)) and inner puzzle 1: fast_forward_singleton must accept coins built from the puzzle's own tree hash"}));
    acc.flush(rep);
}

fn part_curry(rep: &Report) {
    let vals = curry_values(rep.tier);
    let nv = vals.len() as u64;
    // arities 0..=4 over the full value set (structs + hashes), arities 5..=6 over the first 4 values (hashes only)
    let mut jobs: Vec<(usize, u64, u64)> = Vec::new(); // (arity, base, count)
    for ar in 0..=4usize {
        jobs.push((ar, nv, nv.pow(ar as u32 + 1)));
    }
    for ar in 5..=6usize {
        jobs.push((ar, 4, 4u64.pow(ar as u32 + 1)));
    }
    for (ar, base, count) in jobs {
        let chunk = 512u64;
        (0..count.div_ceil(chunk)).into_par_iter().for_each(|c| {
            let mut acc = Acc::default();
            let mut ds = Vec::new();
            for idx in c * chunk..((c + 1) * chunk).min(count) {
                let mut x = idx;
                let mut sel = Vec::with_capacity(ar + 1);
                for _ in 0..=ar {
                    sel.push((x % base) as usize);
                    x /= base;
                }
                acc.evals += 1;
                ds.push(fxhash(&("curry", &sel)));
                let args: Vec<&Sx> = sel[1..].iter().map(|i| &vals[*i]).collect();
                let m = check_curry(&vals[sel[0]], &args, ar <= 4);
                if m.is_empty() {
                    acc.ok(if ar <= 4 { "curry/arity 0..4: 4 paths ok" } else { "curry/arity 5..6: curry_tree_hash ok" });
                } else {
                    acc.misses("", m, &json!({"kind": "curry", "program": sel[0], "args": sel[1..]}));
                }
            }
            rep.distinct_many(ds);
            acc.flush(rep);
        });
        rep.extra_add("curry_cases", count);
    }
    let p = &vals[5];
    let args = [&vals[1], &vals[4]];
    rep.sample(json!({"curry": format!("program {p:?} args {args:?}"), "curried": format!("{:?}", curried_reference(p, &args)), "reference": hx(&curried_reference(p, &args).tree_hash())}));
}

// ---------------------------------------------------------------------------------------

fn run(rep: &Report) {
    let t = rep.tier;
    // bounds per tier
    let small_end: u32 = t.pick(1 << 20, 1 << 26);
    // (n, k, with serialisations)
    let tables: Vec<(usize, usize, bool)> = t.pick(
        vec![(1, 4, true), (2, 4, true), (3, 4, true), (4, 3, true), (5, 2, false)],
        vec![(1, 4, true), (2, 4, true), (3, 4, true), (4, 4, true), (5, 3, true), (6, 2, false)],
    );
    // (n, k, sequence length)
    let seqs: Vec<(usize, usize, usize)> = t.pick(vec![(4, 2, 3)], vec![(4, 3, 3), (5, 2, 2)]);
    // (n, k): complete state graph of every table
    let mut graphs: Vec<(usize, usize)> = t.pick(vec![(1, 2), (2, 2), (3, 2), (3, 3)], vec![(1, 2), (2, 2), (3, 2), (4, 2), (3, 3)]);
    if let Ok(g) = std::env::var("C17_GRAPHS") {
        graphs = g.split(',').filter_map(|x| x.split_once('x')).map(|(n, k)| (n.parse().unwrap(), k.parse().unwrap())).collect();
    }
    // (n, k, spends per generator)
    let blocks: Vec<(usize, usize, usize)> = t.pick(vec![(1, 2, 3), (2, 2, 3), (3, 2, 3)], vec![(1, 2, 3), (2, 2, 4), (3, 2, 4), (4, 2, 2)]);
    let bfs_depth = std::env::var("C17_DEPTH").ok().and_then(|s| s.parse().ok()).unwrap_or(64);
    let bfs_states = t.pick(2_000_000, 12_000_000);
    let max_inserts: usize = t.pick(1, 2);
    let max_extras: usize = std::env::var("C17_EXTRAS").ok().and_then(|s| s.parse().ok()).unwrap_or(t.pick(2, 3));

    rep.set_rule(&format!(
        "E: the 24 precomputed constants; every leaf of a {}-element alphabet (contents nil, 00..1a, 7f, 80, ff, 2..5-byte integers around the small-atom limit, strings of 31..1000 bytes; constructors nil/one/new_atom/new_small_number/new_number/new_substr/new_concat, i.e. both the small-integer and the heap representation of the same bytes) as a root and in every ordered pair (x . y); every small-integer atom in [0, {small_end}); every pair table p_i = (c_l . c_r), c in leaves + earlier pairs (all DAGs incl. unshared trees, duplicated equal pairs and unreachable pairs) for (pairs, leaves, serialisations) in {tables:?}, root = last pair; 10^5-deep and 10^5-long lists, perfect DAGs of depth 17/{}, a Fibonacci DAG; the hash-from-hashes routine of fast_forward_singleton on 96 singleton spends (3 launcher ids x 4 launcher puzzle hashes x 4 inner puzzles x 2 amounts) built from the definitional hash; typed values through ToTreeHash / TreeHasher and through ToClvm<Allocator> (12 primitive integer types and BigInt over 44 boundary values incl. 0 and +-2^k, BigInt beyond 128 bits, byte strings, tuples); currying of every (program, args) over {} values for 0..4 arguments and over 4 values for 5..6; for (pairs, leaves, spends) in {blocks:?} every table x every list of that many spends whose puzzle reveals (f (q . (() . p_i))) carry the table's pairs, as a plain and as a back-reference generator, through run_block_generator (hashes computed by the CLVM ROM), run_block_generator2, additions_and_removals, get_coinspends_for_trusted_block and get_coinspends_with_conditions_for_trusted_block (one TreeCache across all puzzle reveals; puzzle hash and coin id of every spend). H: for (pairs, leaves) in {graphs:?} the COMPLETE state graph of every table under visit_tree(p_i)/tree_hash_cached(p_i) on one shared TreeCache (BFS until no new cache state appears: histories of any length); for (pairs, leaves, length) in {seqs:?} every table x every operation sequence of that length; the complete state graph (depth bound {bfs_depth}, fixpoint reported) of visit_tree/tree_hash_cached on the roots {{atom, p0..p4, e1..e{max_extras}}} of a fixed DAG plus 'allocate the next pair e_j' (pairs created after the cache was used; p5 never visited directly) plus at most {max_inserts} direct TreeCache::insert(pair root or one of the three atoms, definition's hash) priming call(s) per history. States are deduplicated on (pairs allocated, pairs[], hashes[]) read through hook H2 (exact, no hashing). Oracle on every transition: returned hash = definition, and TreeCache::get of every pair is None or the definition's hash. distinct_nontrivial counts leaves, big structures, curry cases and fixed-DAG states only (tables, table-graph states and sequences are counted in the extras)",
        leaf_alphabet().len(),
        t.pick(12, 20),
        curry_values(t).len(),
    ));
    rep.assume("SHA-256 from the sha2 crate; the reference hash is the definition sha256(01||atom), sha256(02||H(first)||H(rest)) evaluated by the harness");
    rep.assume("clvmr (allocator, node_to_bytes_backrefs, node_from_bytes_backrefs) is trusted to build/serialise/parse nodes; every leaf's bytes are read back and compared, a back-reference serialisation is re-parsed before blaming /repo");
    rep.assume("the generators built by the harness for the block consumers are valid (a rejection is reported as a machinery error, not as a violation)");
    rep.assume("a TreeCache is used with one append-only allocator (no restore_checkpoint below memoised nodes), as in run_block_generator");

    let timing = std::env::var("C17_TIMING").is_ok();
    let t0 = std::time::Instant::now();
    let lap = |what: &str| {
        if timing {
            eprintln!("[{:8.2}s] {what}", t0.elapsed().as_secs_f64());
        }
    };
    part_constants(rep);
    part_leaves(rep);
    lap("leaves");
    part_dense_small(rep, small_end);
    lap("small atoms");
    let mut n_tables = 0;
    for (n, k, ser) in &tables {
        n_tables += part_tables(rep, *n, *k, *ser);
        lap(&format!("tables n={n} k={k} ser={ser}"));
    }
    rep.extra("tables_total", json!(n_tables));
    {
        let t0 = decode_table(1234, 4, 3);
        rep.sample(json!({"table(n=4,k=3,index=1234)": render_table(&t0, 4, 3)}));
    }
    part_big(rep);
    lap("big");
    part_curry(rep);
    lap("curry");
    part_typed_values(rep);
    lap("typed values");
    part_ff_curried_hash(rep);
    lap("fast-forward curried hash");
    for (n, k, sp) in &blocks {
        part_blocks(rep, *n, *k, *sp);
        lap(&format!("blocks n={n} k={k} spends={sp}"));
    }
    for (n, k) in &graphs {
        part_table_graphs(rep, *n, *k);
        lap(&format!("table graphs n={n} k={k}"));
    }
    let mut n_seq = 0;
    for (n, k, m) in &seqs {
        n_seq += part_sequences(rep, *n, *k, *m);
        lap(&format!("sequences n={n} k={k} len={m}"));
    }
    rep.extra("sequences_total", json!(n_seq));
    rep.traces.fetch_add(n_seq, Ordering::Relaxed);
    part_bfs(rep, bfs_depth, bfs_states, max_extras, max_inserts);
    lap("fixed-DAG BFS");
}

fn describe(m: Vec<Miss>) -> String {
    if m.is_empty() {
        "every routine agrees with the definition".to_string()
    } else {
        m.iter().map(|x| format!("[{}/{}] {}", x.routine, x.kind, x.detail)).collect::<Vec<_>>().join("\n")
    }
}

fn replay(case: &Value) -> String {
    match case["kind"].as_str().unwrap_or("") {
        "const" => {
            let i = case["index"].as_u64().unwrap() as usize;
            format!("PRECOMPUTED_HASHES[{i}] = {}, sha256(01 || {}) = {}", hx(&PRECOMPUTED_HASHES[i].to_bytes()), hex::encode(enc_u64(i as u64)), hx(&h_atom(&enc_u64(i as u64))))
        }
        "leaf" => {
            let x = Leaf::from_json(&case["x"]);
            let y = if case["y"].is_null() { None } else { Some(Leaf::from_json(&case["y"])) };
            match check_leaf_case(&x, y.as_ref()) {
                Ok(m) => format!("x = {x:?}, y = {y:?}\n{}", describe(m)),
                Err(e) => format!("machinery: {e}"),
            }
        }
        "small" => {
            let v = case["value"].as_u64().unwrap() as u32;
            let mut a = Allocator::new();
            let n = a.new_small_number(v).unwrap();
            let mut out = Vec::new();
            check_mem(&a, n, &h_atom(&enc_u64(u64::from(v))), &mut out);
            format!("small atom {v}\n{}", describe(out))
        }
        "table" => {
            let (n, k) = (case["n"].as_u64().unwrap() as usize, case["k"].as_u64().unwrap() as usize);
            let idx = case["index"].as_u64().unwrap();
            let mut ctx = TableCtx::new(k);
            let t = decode_table(idx, n, k);
            match check_table(&mut ctx, idx, n, case["ser"].as_bool().unwrap_or(true)) {
                Ok(m) => format!("{}\n{}", render_table(&t, n, k), describe(m)),
                Err(e) => format!("machinery: {e}"),
            }
        }
        "seq" => {
            let (n, k) = (case["n"].as_u64().unwrap() as usize, case["k"].as_u64().unwrap() as usize);
            let idx = case["index"].as_u64().unwrap();
            let ops: Vec<u8> = case["ops"].as_array().unwrap().iter().map(|o| o.as_u64().unwrap() as u8).collect();
            let mut ctx = TableCtx::new(k);
            let t = decode_table(idx, n, k);
            let (nodes, hs) = ctx.build(&t, n);
            let names: Vec<String> = ops.iter().map(|o| if (*o as usize) < n { format!("visit_tree(p{o})") } else { format!("tree_hash_cached(p{})", *o as usize - n) }).collect();
            format!("{}\n{}\n{}", render_table(&t, n, k), names.join("; "), describe(run_sequence(&ctx.a, &nodes, &hs, n, &ops)))
        }
        "block" => {
            let (n, k) = (case["n"].as_u64().unwrap() as usize, case["k"].as_u64().unwrap() as usize);
            let idx = case["index"].as_u64().unwrap();
            let sel: Vec<usize> = case["spends"].as_array().unwrap().iter().map(|o| o.as_u64().unwrap() as usize).collect();
            let backrefs = case["backrefs"].as_bool().unwrap();
            let mut ctx = TableCtx::new(k);
            let t = decode_table(idx, n, k);
            let (bytes, want) = build_block(&mut ctx, &t, n, &sel, backrefs);
            let r = match check_block(&bytes, &want) {
                Ok(m) => describe(m),
                Err(e) => format!("machinery: {e}"),
            };
            format!("{}\nspends carry {:?}\ngenerator {}\nexpected puzzle hashes {:?}\n{r}", render_table(&t, n, k), sel, hex::encode(&bytes), want.iter().map(hx).collect::<Vec<_>>())
        }
        "bfs" => {
            let hist: Vec<u8> = case["history"].as_array().unwrap().iter().map(|o| o.as_u64().unwrap() as u8).collect();
            let dr = dag_reference();
            let mut s = String::new();
            for i in 1..=hist.len() {
                let e = exec_history(&hist[..i], &dr);
                s += &format!("{} -> {}\n", op_name(hist[i - 1]), e.rendered);
                if !e.misses.is_empty() {
                    s += &describe(e.misses);
                    s += "\n";
                    break;
                }
            }
            s
        }
        "big" => {
            let which = case["which"].as_str().unwrap().to_string();
            let size = case["size"].as_u64().unwrap() as usize;
            match check_big(&which, size) {
                Ok((m, p, b)) => format!("{which} size {size}: plain {p} bytes, backrefs {b} bytes\n{}", describe(m)),
                Err(e) => format!("machinery: {e}"),
            }
        }
        "curry" => {
            let vals = curry_values(mc::Tier::Thorough);
            let p = &vals[case["program"].as_u64().unwrap() as usize];
            let args: Vec<&Sx> = case["args"].as_array().unwrap().iter().map(|i| &vals[i.as_u64().unwrap() as usize]).collect();
            format!("program {p:?} args {args:?}\ncurried: {:?}\n{}", curried_reference(p, &args), describe(check_curry(p, &args, args.len() <= 4)))
        }
        "ff" => {
            use chia_consensus::fast_forward::fast_forward_singleton;
            use chia_protocol::{Bytes32, Coin};
            let h32 = |k: &str| -> H { hex::decode(case[k].as_str().unwrap()).unwrap().try_into().unwrap() };
            let (lid, lph) = (h32("launcher_id"), h32("launcher_puzzle_hash"));
            let inner = Sx::parse(&hex::decode(case["inner"].as_str().unwrap()).unwrap()).unwrap();
            let (amount, pamt) = (case["amount"].as_u64().unwrap(), case["parent_amount"].as_u64().unwrap());
            let module = Sx::parse(&chia_puzzles::SINGLETON_TOP_LAYER_V1_1).unwrap();
            let mod_hash: H = chia_puzzles::SINGLETON_TOP_LAYER_V1_1_HASH;
            let strukt = Sx::cons(Sx::atom(&mod_hash), Sx::cons(Sx::atom(&lid), Sx::atom(&lph)));
            let puzzle = curried_reference(&module, &[&strukt, &inner]);
            let ph = puzzle.tree_hash();
            let coin_id = |p: &H, am: u64| sha256(&[p, &ph, &enc_u64(am)]);
            let pp: H = [0xc1; 32];
            let solution = Sx::list(&[Sx::list(&[Sx::atom(&pp), Sx::atom(&inner.tree_hash()), Sx::Atom(enc_u64(pamt))]), Sx::Atom(enc_u64(amount)), Sx::nil()]);
            let mk = |p: &H, am: u64| Coin::new(Bytes32::new(*p), Bytes32::new(ph), am);
            let (coin, new_parent, new_coin) = (mk(&coin_id(&pp, pamt), amount), mk(&[0xab; 32], 3), mk(&coin_id(&[0xab; 32], 3), amount));
            let mut a = Allocator::new();
            let (p, so) = (puzzle.to_node(&mut a), solution.to_node(&mut a));
            let r = fast_forward_singleton(&mut a, p, so, &coin, &new_coin, &new_parent).map(|_| ());
            format!("definitional puzzle hash {}\nfast_forward_singleton on coins built from it: {r:?}", hx(&ph))
        }
        "typed" => {
            let ty = case["type"].as_str().unwrap_or("");
            let val = case["value"].as_str().unwrap_or("");
            if ty == "bytes" {
                let b = hex::decode(val).unwrap();
                let bytes = chia_protocol::Bytes::new(b.clone());
                format!("bytes {val}
ToTreeHash<Bytes>   {}
ToTreeHash<Vec<u8>> {}
definition (atom)   {}", hx(&bytes.tree_hash().to_bytes()), hx(&b.tree_hash().to_bytes()), hx(&h_atom(&b)))
            } else {
                let b: num_bigint::BigInt = val.parse().expect("integer");
                let bytes = if b == num_bigint::BigInt::from(0) { vec![] } else { b.to_signed_bytes_be() };
                let prim = i128::try_from(b.clone()).ok().map(|v| hx(&v.tree_hash().to_bytes()));
                format!("{ty} {val}: canonical atom {}
ToTreeHash<BigInt> {}
ToTreeHash<i128>   {:?}
definition         {}", hex::encode(&bytes), hx(&b.tree_hash().to_bytes()), prim, hx(&h_atom(&bytes)))
            }
        }
        other => format!("unknown case kind {other:?}"),
    }
}

fn main() {
    mc::cli::main("C17", "model_checking", run, replay)
}
