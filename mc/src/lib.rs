//! Model-checking harness for chia_rs: engines, reference models, evidence.
pub mod bfs;
pub mod cli;
pub mod corpus;
pub mod drive;
pub mod engine;
pub mod genr;
pub mod letters;
pub mod monitor;
pub mod refcond;
pub mod report;
pub mod sched;
pub mod sx;

pub use report::{Report, Tier, catch};
pub use sx::Sx;
