use arbitrary::{Arbitrary, Unstructured};
use chia_protocol::{Coin, FullBlock};
use chia_traits::{FromJsonDict, ToJsonDict};
use pyo3::prelude::*;

fn main() {
    Python::initialize();
    let z = vec![0u8; 8192];
    let fb = FullBlock::arbitrary(&mut Unstructured::new(&z)).unwrap();
    let c = Coin::arbitrary(&mut Unstructured::new(&z)).unwrap();
    Python::attach(|py| {
        let t = std::time::Instant::now();
        for _ in 0..200 {
            let j = fb.to_json_dict(py).unwrap();
            let b = FullBlock::from_json_dict(j.bind(py)).unwrap();
            assert_eq!(b, fb);
        }
        println!("fullblock rt {:?}", t.elapsed() / 200);
        let t = std::time::Instant::now();
        for _ in 0..2000 {
            let j = c.to_json_dict(py).unwrap();
            let b = Coin::from_json_dict(j.bind(py)).unwrap();
            assert_eq!(b, c);
        }
        println!("coin rt {:?}", t.elapsed() / 2000);
        let j = fb.to_json_dict(py).unwrap();
        println!("{}", j.bind(py).repr().unwrap());
    });
}
