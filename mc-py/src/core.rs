//! The C20 check on one type: value enumeration (tapes driving the type's builder, hand-written
//! letters), the round-trip oracle on every value, the corruption oracle on one value per JSON
//! shape. Everything that calls into /repo runs under `catch`.

use crate::jtree::{self, J, Op, Path};
use arbitrary::Unstructured;
use chia_traits::{FromJsonDict, Streamable, ToJsonDict};
use mc::report::{catch, fxhash};
use pyo3::prelude::*;
use rayon::prelude::*;
use serde_json::{Value, json};
use std::collections::{BTreeMap, HashSet};
use std::fmt::Debug;

pub const PROP: &str = "C20";
pub const POS_HASH_PANIC: &str = "Can't compute hash of invalid ProofOfSpace";
pub const DEVS: [u8; 5] = [0x01, 0x02, 0x7f, 0x80, 0xff];
pub const WINDOW_WIDTHS: [usize; 4] = [2, 4, 8, 16];
pub const TAPE_PROBE_LEN: usize = 4096;
pub const TAPE_SLACK: usize = 16;
/// quick tier: window tapes only for builders consuming at most this many tape bytes
pub const QUICK_WINDOW_MAX_TAPE: usize = 160;

pub trait Subject: Streamable + ToJsonDict + FromJsonDict + Debug + PartialEq + Send + Sync + Sized + 'static {}
impl<T: Streamable + ToJsonDict + FromJsonDict + Debug + PartialEq + Send + Sync + Sized + 'static> Subject for T {}

pub type Gen<T> = fn(&mut Unstructured) -> arbitrary::Result<T>;

pub struct Letter<T> {
    pub label: String,
    pub value: T,
}

pub fn letter<T>(label: &str, value: T) -> Letter<T> {
    Letter { label: label.to_string(), value }
}

/// how one type is explored
pub struct Spec<T> {
    pub name: &'static str,
    pub build: Gen<T>,
    pub letters: fn() -> Vec<Letter<T>>,
    /// JSON form written down from the definition (leaf types, combinators, Coin)
    pub reference: Option<fn(&T) -> J>,
}

#[derive(Clone, Debug)]
pub struct JobCfg {
    pub thorough: bool,
    /// this job handles the tape positions p with p % parts == part (zero tape and letters: part 0)
    pub part: usize,
    pub parts: usize,
    /// second level: the tape already carries this write (a first deviation that changed the JSON
    /// shape) and has this length; the job enumerates the second write at the positions behind it
    /// up to (excluding) the last number: (position, bytes, tape length, end of second positions)
    pub first: Option<(usize, Vec<u8>, usize, usize)>,
}

impl JobCfg {
    pub fn to_serde(&self) -> Value {
        json!({"thorough": self.thorough, "part": self.part, "parts": self.parts, "first": self.first.as_ref().map(|(p, w, n, e)| json!([p, hex::encode(w), n, e]))})
    }
    pub fn from_serde(v: &Value) -> Option<JobCfg> {
        let first = match &v["first"] {
            Value::Null => None,
            f => Some((f[0].as_u64()? as usize, hex::decode(f[1].as_str()?).ok()?, f[2].as_u64()? as usize, f[3].as_u64()? as usize)),
        };
        Some(JobCfg { thorough: v["thorough"].as_bool()?, part: v["part"].as_u64()? as usize, parts: v["parts"].as_u64()? as usize, first })
    }
}

// ---------------------------------------------------------------------------------------------
// value sources
// ---------------------------------------------------------------------------------------------

#[derive(Clone, Debug, PartialEq)]
pub enum Src {
    /// all-zero tape of `len` bytes with the given byte strings written at the given positions
    Tape { len: usize, writes: Vec<(usize, Vec<u8>)> },
    Letter(String),
}

impl Src {
    pub fn to_serde(&self) -> Value {
        match self {
            Src::Tape { len, writes } => json!({"kind": "tape", "len": len, "writes": writes.iter().map(|(p, b)| json!([p, hex::encode(b)])).collect::<Vec<_>>()}),
            Src::Letter(l) => json!({"kind": "letter", "label": l}),
        }
    }
    pub fn from_serde(v: &Value) -> Option<Src> {
        match v["kind"].as_str()? {
            "letter" => Some(Src::Letter(v["label"].as_str()?.to_string())),
            "tape" => Some(Src::Tape {
                len: v["len"].as_u64()? as usize,
                writes: v["writes"].as_array()?.iter().filter_map(|w| Some((w[0].as_u64()? as usize, hex::decode(w[1].as_str()?).ok()?))).collect(),
            }),
            _ => None,
        }
    }
    pub fn describe(&self) -> String {
        match self {
            Src::Tape { len, writes } if writes.is_empty() => format!("all-zero tape ({len} bytes)"),
            Src::Tape { len, writes } => format!("zero tape ({len} bytes) with {}", writes.iter().map(|(p, b)| format!("[{p}]:={}", hex::encode(b))).collect::<Vec<_>>().join(" ")),
            Src::Letter(l) => format!("letter {l:?}"),
        }
    }
}

fn make_tape(len: usize, writes: &[(usize, Vec<u8>)]) -> Vec<u8> {
    let mut t = vec![0u8; len];
    for (p, b) in writes {
        for (i, x) in b.iter().enumerate() {
            if p + i < len {
                t[p + i] = *x;
            }
        }
    }
    t
}

fn run_tape<T>(g: Gen<T>, tape: &[u8]) -> Option<T> {
    catch(|| {
        let mut u = Unstructured::new(tape);
        g(&mut u).ok()
    })
    .ok()
    .flatten()
}

pub fn build<T: Subject>(spec: &Spec<T>, src: &Src) -> Option<T> {
    match src {
        Src::Tape { len, writes } => run_tape(spec.build, &make_tape(*len, writes)),
        Src::Letter(l) => catch(spec.letters).ok()?.into_iter().find(|x| &x.label == l).map(|x| x.value),
    }
}

/// number of tape bytes the builder consumes from the all-zero tape
pub fn tape_used<T>(g: Gen<T>) -> usize {
    let zeros = vec![0u8; TAPE_PROBE_LEN];
    catch(|| {
        let mut u = Unstructured::new(&zeros);
        let _ = g(&mut u);
        TAPE_PROBE_LEN - u.len()
    })
    .unwrap_or(0)
}

pub fn tape_len_of<T>(g: Gen<T>) -> usize {
    (tape_used(g) + TAPE_SLACK).min(TAPE_PROBE_LEN)
}

/// the byte strings written at one tape position (one-byte deviations, then the integer windows:
/// all ones, largest signed, smallest signed of every width, little-endian like the builders read)
fn writes_at(pos: usize, len: usize, windows: bool) -> Vec<Vec<u8>> {
    let mut out: Vec<Vec<u8>> = DEVS.iter().map(|d| vec![*d]).collect();
    if windows {
        for w in WINDOW_WIDTHS {
            if pos + w > len {
                continue;
            }
            let ones = vec![0xffu8; w];
            let mut smax = ones.clone();
            smax[w - 1] = 0x7f;
            let mut smin = vec![0u8; w];
            smin[w - 1] = 0x80;
            out.push(ones);
            out.push(smax);
            out.push(smin);
        }
    }
    out
}

fn debug_hash<T: Debug>(v: &T) -> u64 {
    fxhash(&catch(|| format!("{v:?}")).unwrap_or_else(|p| format!("<Debug panicked: {p}>")))
}

pub struct Enumerated<T> {
    /// tapes run (incl. the ones that produced nothing or a value seen before)
    pub tapes: u64,
    pub no_value: u64,
    pub duplicates: u64,
    /// distinct values in enumeration order
    pub values: Vec<(Src, T, u64)>,
    /// values whose JSON shape is already known to the level above (never corruption bases)
    pub known: Vec<T>,
}

/// tape bytes the builder consumes from a long zero tape carrying `writes`
fn used_with<T>(g: Gen<T>, writes: &[(usize, Vec<u8>)]) -> usize {
    let tape = make_tape(TAPE_PROBE_LEN, writes);
    catch(|| {
        let mut u = Unstructured::new(&tape);
        let _ = g(&mut u);
        TAPE_PROBE_LEN - u.len()
    })
    .unwrap_or(0)
}

/// (tape length, end of the second-write positions) behind a first write: the tape is re-sized
/// to what the builder now consumes; the second write visits the bytes right behind the first
/// one that the newly created structure consumes (additional consumption + slack)
pub fn second_level_extent<T>(g: Gen<T>, pos: usize, w: &[u8]) -> (usize, usize) {
    let used = used_with(g, &[(pos, w.to_vec())]);
    let grown = used.saturating_sub(tape_used(g));
    let len = (used + TAPE_SLACK).min(TAPE_PROBE_LEN);
    (len, (pos + w.len() + grown + TAPE_SLACK).min(len))
}

pub fn enumerate<T: Subject>(spec: &Spec<T>, cfg: &JobCfg) -> Enumerated<T> {
    let mut out = Enumerated { tapes: 0, no_value: 0, duplicates: 0, values: Vec::new(), known: Vec::new() };
    let mut seen: HashSet<u64> = HashSet::new();
    let n0 = tape_len_of(spec.build);
    let base = run_tape(spec.build, &make_tape(n0, &[]));
    let base_hash = base.as_ref().map(debug_hash);
    if let Some(h) = base_hash {
        seen.insert(h);
    }
    let (n, fixed, from, to): (usize, Vec<(usize, Vec<u8>)>, usize, usize) = match &cfg.first {
        None => (n0, vec![], 0, n0),
        Some((p, w, n, e)) => (*n, vec![(*p, w.clone())], p + w.len(), *e),
    };
    match &cfg.first {
        None => {
            if cfg.part == 0 {
                out.tapes += 1;
                match base {
                    Some(v) => out.values.push((Src::Tape { len: n0, writes: vec![] }, v, base_hash.unwrap())),
                    None => out.no_value += 1,
                }
                for l in catch(spec.letters).unwrap_or_default() {
                    out.tapes += 1;
                    let h = debug_hash(&l.value);
                    if seen.insert(h) {
                        out.values.push((Src::Letter(l.label), l.value, h));
                    } else {
                        out.duplicates += 1;
                    }
                }
            } else if let Some(b) = base {
                // the shape of the zero-tape value is handled by part 0
                out.known.push(b);
            }
        }
        Some(_) => {
            if let Some(b) = base {
                out.known.push(b);
            }
            if let Some(f) = run_tape(spec.build, &make_tape(n, &fixed)) {
                seen.insert(debug_hash(&f));
                out.known.push(f);
            }
        }
    }
    // quick tier: integer windows only for builders consuming little tape (first level only)
    let windows = cfg.thorough || n0 <= QUICK_WINDOW_MAX_TAPE + TAPE_SLACK;
    let positions: Vec<usize> = (from..to).filter(|p| p % cfg.parts == cfg.part).collect();
    let per_pos: Vec<Vec<(Src, Option<(T, u64)>)>> = positions
        .par_iter()
        .map(|&pos| {
            writes_at(pos, n, windows)
                .into_iter()
                .map(|w| {
                    let mut writes = fixed.clone();
                    writes.push((pos, w));
                    let src = Src::Tape { len: n, writes };
                    let v = build(spec, &src).map(|v| {
                        let h = debug_hash(&v);
                        (v, h)
                    });
                    (src, v)
                })
                .collect()
        })
        .collect();
    for (src, v) in per_pos.into_iter().flatten() {
        out.tapes += 1;
        match v {
            None => out.no_value += 1,
            Some((v, h)) => {
                if seen.insert(h) {
                    out.values.push((src, v, h));
                } else {
                    out.duplicates += 1;
                }
            }
        }
    }
    out
}

// ---------------------------------------------------------------------------------------------
// accumulation
// ---------------------------------------------------------------------------------------------

#[derive(Clone, Debug)]
pub struct Finding {
    pub sig: String,
    pub case: Value,
    pub detail: String,
}

#[derive(Default)]
pub struct Acc {
    pub evals: u64,
    pub counters: BTreeMap<String, u64>,
    pub distinct: Vec<u64>,
    pub findings: Vec<Finding>,
    pub sig_counts: BTreeMap<String, u64>,
    pub tapes: u64,
    pub values: u64,
    pub bases: u64,
    pub corruptions: u64,
    pub max_nodes: u64,
    /// inferred acceptance range of integer leaves (information only)
    pub int_ranges: BTreeMap<String, u64>,
    pub sample: Option<Value>,
    pub machinery: Vec<String>,
    /// first level only: the one-write tapes that produced a new JSON shape (position, bytes,
    /// tape length and end of the second-write positions for the second level)
    pub firsts: Vec<(usize, Vec<u8>, usize, usize)>,
}

impl Acc {
    pub fn bump(&mut self, k: &str) {
        *self.counters.entry(k.to_string()).or_insert(0) += 1;
    }
    pub fn violation(&mut self, sig: &str, case: Value, detail: String) {
        let sig = format!("{PROP}/{sig}");
        *self.sig_counts.entry(sig.clone()).or_insert(0) += 1;
        if self.findings.iter().filter(|f| f.sig == sig).count() < 3 {
            self.findings.push(Finding { sig, case, detail });
        }
    }
    pub fn to_serde(&self) -> Value {
        json!({
            "evals": self.evals,
            "counters": self.counters,
            "distinct": self.distinct,
            "findings": self.findings.iter().map(|f| json!({"sig": f.sig, "case": f.case, "detail": f.detail})).collect::<Vec<_>>(),
            "sig_counts": self.sig_counts,
            "tapes": self.tapes,
            "values": self.values,
            "bases": self.bases,
            "corruptions": self.corruptions,
            "max_nodes": self.max_nodes,
            "int_ranges": self.int_ranges,
            "sample": self.sample,
            "machinery": self.machinery,
            "firsts": self.firsts.iter().map(|(p, w, n, e)| json!([p, hex::encode(w), n, e])).collect::<Vec<_>>(),
        })
    }
    pub fn from_serde(v: &Value) -> Option<Acc> {
        let map = |x: &Value| -> BTreeMap<String, u64> { x.as_object().map(|o| o.iter().map(|(k, n)| (k.clone(), n.as_u64().unwrap_or(0))).collect()).unwrap_or_default() };
        Some(Acc {
            evals: v["evals"].as_u64()?,
            counters: map(&v["counters"]),
            distinct: v["distinct"].as_array()?.iter().filter_map(Value::as_u64).collect(),
            findings: v["findings"].as_array()?.iter().map(|f| Finding { sig: f["sig"].as_str().unwrap_or("").to_string(), case: f["case"].clone(), detail: f["detail"].as_str().unwrap_or("").to_string() }).collect(),
            sig_counts: map(&v["sig_counts"]),
            tapes: v["tapes"].as_u64()?,
            values: v["values"].as_u64()?,
            bases: v["bases"].as_u64()?,
            corruptions: v["corruptions"].as_u64()?,
            max_nodes: v["max_nodes"].as_u64()?,
            int_ranges: map(&v["int_ranges"]),
            sample: if v["sample"].is_null() { None } else { Some(v["sample"].clone()) },
            machinery: v["machinery"].as_array()?.iter().filter_map(|s| s.as_str().map(str::to_string)).collect(),
            firsts: v["firsts"].as_array()?.iter().filter_map(|f| Some((f[0].as_u64()? as usize, hex::decode(f[1].as_str()?).ok()?, f[2].as_u64()? as usize, f[3].as_u64()? as usize))).collect(),
        })
    }
}

pub fn case_of(name: &str, src: &Src, corruption: Option<(&Path, &Op)>) -> Value {
    json!({
        "type": name,
        "src": src.to_serde(),
        "corruption": corruption.map(|(p, op)| json!({"path": jtree::path_to_serde(p), "path_text": jtree::path_str(p), "op": op.to_serde()})),
    })
}

fn dbg_short<T: Debug>(v: &T) -> String {
    jtree::clip(&catch(|| format!("{v:?}")).unwrap_or_else(|p| format!("<Debug panicked: {p}>")), 500)
}

fn err_text(py: Python<'_>, e: &PyErr) -> String {
    let ty = e.get_type(py).name().map(|n| n.to_string()).unwrap_or_default();
    jtree::clip(&format!("{ty}: {}", e.value(py)), 200)
}

// ---------------------------------------------------------------------------------------------
// the round-trip oracle
// ---------------------------------------------------------------------------------------------

/// observation of `to_json_dict`: the tree, or why there is none
fn observe_json<T: Subject>(py: Python<'_>, v: &T) -> Result<(Py<PyAny>, J), (&'static str, String)> {
    match catch(|| v.to_json_dict(py)) {
        Err(p) => Err(("panic/to_json_dict", format!("to_json_dict panicked: {p}"))),
        Ok(Err(e)) => Err(("value/to_json_dict-error", format!("to_json_dict raised {}", err_text(py, &e)))),
        Ok(Ok(o)) => {
            let j = jtree::from_py(o.bind(py));
            Ok((o, j))
        }
    }
}

/// Does the tree hold a versioned struct (ProofOfSpace, FullBlock, UnfinishedBlock: the structs
/// with a `version` field) that the struct comments in /repo call invalid: a version other than
/// 0 / 1, or a proof of space of version 1 (the v2 format) without exactly one of pool public
/// key / pool contract puzzle hash? Neither a wire form nor hash() is defined for those.
pub fn pos_malformed(j: &J) -> bool {
    match j {
        J::List(l) => l.iter().any(pos_malformed),
        J::Dict(d) => {
            let f = |k: &str| d.iter().find(|(n, _)| n == k).map(|(_, v)| v);
            if let Some(ver) = f("version") {
                match ver {
                    J::Int(s) if s == "0" => {}
                    J::Int(s) if s == "1" => {
                        if let (Some(pk), Some(ph), Some(_)) = (f("pool_public_key"), f("pool_contract_puzzle_hash"), f("plot_index")) {
                            if (*pk == J::Null) == (*ph == J::Null) {
                                return true;
                            }
                        }
                    }
                    _ => return true,
                }
            }
            d.iter().any(|(_, v)| pos_malformed(v))
        }
        _ => false,
    }
}

fn has_other(j: &J) -> Option<&str> {
    match j {
        J::Other(s) => Some(s),
        J::Float(_) => Some("float"),
        J::List(l) => l.iter().find_map(has_other),
        J::Dict(d) => d.iter().find_map(|(_, v)| has_other(v)),
        _ => None,
    }
}

/// Round trip of one value. Returns the JSON tree when it exists. `text`: also through
/// json.dumps / json.loads.
pub fn check_value<T: Subject>(py: Python<'_>, spec: &Spec<T>, src: &Src, v: &T, text: bool, acc: &mut Acc, verbose: Option<&mut String>) -> Option<J> {
    acc.evals += 1;
    acc.values += 1;
    let case = || case_of(spec.name, src, None);
    let head = format!("type {} value from {}", spec.name, src.describe());
    let mut log = String::new();
    let (o, j) = match observe_json(py, v) {
        Ok(x) => x,
        Err((sig, d)) => {
            acc.bump("value/no-json");
            acc.violation(sig, case(), format!("{head}: {d}; value {}", dbg_short(v)));
            if let Some(out) = verbose {
                out.push_str(&format!("{head}\nvalue {}\n{d}\n", dbg_short(v)));
            }
            return None;
        }
    };
    log.push_str(&format!("{head}\nvalue {}\nto_json_dict -> {}\n", dbg_short(v), jtree::clip(&jtree::render(&j), 3000)));
    let mut ok = true;
    if let Some(what) = has_other(&j) {
        ok = false;
        acc.violation("value/not-json", case(), format!("{head}: to_json_dict returned something that is not JSON ({what}): {}", jtree::clip(&jtree::render(&j), 600)));
    }
    if let Some(r) = spec.reference {
        let want = r(v);
        if want != j {
            ok = false;
            acc.violation("value/json-form", case(), format!("{head}: to_json_dict = {} but the documented form is {}", jtree::clip(&jtree::render(&j), 500), jtree::clip(&jtree::render(&want), 500)));
        }
        log.push_str(&format!("documented form -> {}\n", jtree::clip(&jtree::render(&want), 3000)));
    }
    let enc = catch(|| Streamable::to_bytes(v).ok());
    let hv = catch(|| Streamable::hash(v));
    let mut pos_hash_panic = false;
    let malformed_pos = pos_malformed(&j);
    if let Err(p) = &hv {
        if malformed_pos {
            // hash() is undefined for this value; the round trip must leave it undefined
            pos_hash_panic = true;
        } else if p.contains(POS_HASH_PANIC) {
            pos_hash_panic = true;
            acc.violation("panic/pos-v2-hash", case(), format!("{head}: hash() of the value itself panics ({p}); value {}", dbg_short(v)));
        } else {
            ok = false;
            acc.violation("panic/hash", case(), format!("{head}: hash() of the value itself panics ({p}); value {}", dbg_short(v)));
        }
    }
    if let Err(p) = &enc {
        ok = false;
        acc.violation("panic/to_bytes", case(), format!("{head}: to_bytes() of the value itself panics ({p})"));
    }
    let mut inputs: Vec<(&str, Py<PyAny>)> = vec![("to_json_dict output", o)];
    if text {
        let through = (|| -> PyResult<Py<PyAny>> {
            let json = py.import("json")?;
            let s = json.call_method1("dumps", (inputs[0].1.bind(py),))?;
            Ok(json.call_method1("loads", (s,))?.unbind())
        })();
        match through {
            Ok(x) => inputs.push(("json.loads(json.dumps(to_json_dict output))", x)),
            Err(e) => {
                ok = false;
                acc.violation("value/not-json", case(), format!("{head}: the json module cannot write / read the tree: {}", err_text(py, &e)));
            }
        }
    }
    for (label, input) in &inputs {
        match catch(|| T::from_json_dict(input.bind(py))) {
            Err(p) => {
                ok = false;
                acc.violation("panic/from_json_dict", case(), format!("{head}: from_json_dict({label}) panicked: {p}"));
                log.push_str(&format!("from_json_dict({label}) PANIC {p}\n"));
            }
            Ok(Err(e)) => {
                ok = false;
                acc.violation("value/roundtrip-rejected", case(), format!("{head}: from_json_dict rejects the {label}: {}; json {}", err_text(py, &e), jtree::clip(&jtree::render(&j), 600)));
                log.push_str(&format!("from_json_dict({label}) raised {}\n", err_text(py, &e)));
            }
            Ok(Ok(back)) => {
                log.push_str(&format!("from_json_dict({label}) -> {}\n", dbg_short(&back)));
                if catch(|| back == *v) != Ok(true) {
                    ok = false;
                    acc.violation("value/roundtrip-differs", case(), format!("{head}: from_json_dict({label}) != value; value {} back {} json {}", dbg_short(v), dbg_short(&back), jtree::clip(&jtree::render(&j), 600)));
                }
                let enc2 = catch(|| Streamable::to_bytes(&back).ok());
                if enc2 != enc {
                    ok = false;
                    acc.violation("value/roundtrip-bytes", case(), format!("{head}: to_bytes differs after the round trip: {:?} -> {:?}", enc.as_ref().map(|e| e.as_ref().map(hex::encode)), enc2.as_ref().map(|e| e.as_ref().map(hex::encode))));
                }
                let hb = catch(|| Streamable::hash(&back));
                match (&hv, &hb) {
                    (Ok(a), Ok(b)) if a == b => {}
                    (Err(_), Err(_)) => {}
                    _ => {
                        ok = false;
                        acc.violation("value/roundtrip-hash", case(), format!("{head}: hash differs after the round trip: {:?} -> {:?}", hv.as_ref().map(hex::encode), hb.as_ref().map(hex::encode)));
                    }
                }
                match observe_json(py, &back) {
                    Ok((_, j2)) if j2 == j => {}
                    Ok((_, j2)) => {
                        ok = false;
                        acc.violation("value/json-unstable", case(), format!("{head}: to_json_dict(from_json_dict(j)) != j: {} -> {}", jtree::clip(&jtree::render(&j), 400), jtree::clip(&jtree::render(&j2), 400)));
                    }
                    Err((sig, d)) => {
                        ok = false;
                        acc.violation(sig, case(), format!("{head}: second to_json_dict: {d}"));
                    }
                }
            }
        }
    }
    acc.bump(match (ok, pos_hash_panic, enc.as_ref().map(Option::is_some).unwrap_or(false)) {
        (false, _, _) => "value/VIOLATION",
        (true, true, _) => "value/roundtrip-ok/hash-undefined-before-and-after(invalid-versioned-struct)",
        (true, false, true) => "value/roundtrip-ok/bytes+hash-equal",
        (true, false, false) => "value/roundtrip-ok/no-wire-form(to_bytes-err-before-and-after)",
    });
    acc.max_nodes = acc.max_nodes.max(jtree::count_nodes(&j) as u64);
    if let Some(out) = verbose {
        out.push_str(&log);
        out.push_str(&format!("to_bytes -> {:?}\nhash -> {:?}\n", enc.as_ref().map(|e| e.as_ref().map(|b| jtree::clip(&hex::encode(b), 400))), hv.as_ref().map(hex::encode)));
    }
    Some(j)
}

// ---------------------------------------------------------------------------------------------
// the corruption oracle
// ---------------------------------------------------------------------------------------------

#[derive(Debug, PartialEq)]
pub enum Verdict {
    Rejected,
    /// accepted, and the accepted value says the same as the corrupted tree
    SameMeaning,
    Violation,
}

pub fn check_corruption<T: Subject>(py: Python<'_>, spec: &Spec<T>, src: &Src, j: &J, path: &Path, op: &Op, acc: &mut Acc, verbose: Option<&mut String>) -> Option<Verdict> {
    let bad = jtree::apply(j, path, op)?;
    acc.evals += 1;
    acc.corruptions += 1;
    let class = op.class();
    let case = || case_of(spec.name, src, Some((path, op)));
    let head = format!("type {} value from {}, JSON node {} {}", spec.name, src.describe(), jtree::path_str(path), op.name());
    let node = |t: &J| jtree::get(t, path).map(|n| jtree::clip(&jtree::render(n), 200)).unwrap_or_else(|| "<absent>".into());
    let obj = match jtree::to_py(py, &bad) {
        Ok(o) => o,
        Err(e) => {
            acc.machinery.push(format!("cannot build the corrupted tree: {}", err_text(py, &e)));
            return None;
        }
    };
    let mut log = format!("{head}\noriginal node {}\ncorrupted node {}\ncorrupted tree {}\n", node(j), node(&bad), jtree::clip(&jtree::render(&bad), 3000));
    let verdict = match catch(|| T::from_json_dict(&obj)) {
        Err(p) => {
            acc.violation("panic/from_json_dict", case(), format!("{head}: from_json_dict panicked: {p}; node was {} now {}", node(j), node(&bad)));
            log.push_str(&format!("from_json_dict PANIC {p}\n"));
            Verdict::Violation
        }
        Ok(Err(e)) => {
            log.push_str(&format!("from_json_dict raised {}\n", err_text(py, &e)));
            Verdict::Rejected
        }
        Ok(Ok(v2)) => {
            log.push_str(&format!("from_json_dict accepted -> {}\n", dbg_short(&v2)));
            match observe_json(py, &v2) {
                Err((sig, d)) => {
                    acc.violation(sig, case(), format!("{head}: accepted, then {d}"));
                    Verdict::Violation
                }
                Ok((o2, j2)) => {
                    log.push_str(&format!("to_json_dict of the accepted value: node {}\n", node(&j2)));
                    if jtree::denote_eq(&j2, &bad) {
                        // the accepted value must itself survive the round trip, and what JSON
                        // lets in must be something the wire format lets in as well
                        let wire = if pos_malformed(&j2) { None } else { wire_problem(&v2) };
                        match catch(|| T::from_json_dict(o2.bind(py))) {
                            Ok(Ok(v3)) if catch(|| v3 == v2) == Ok(true) => match wire {
                                None => Verdict::SameMeaning,
                                Some(w) => {
                                    acc.violation(&format!("corrupt/{class}/accepted-value-has-no-valid-wire-form"), case(), format!("{head}: the node was {} and was changed to {}; from_json_dict accepted it as {}, but {w}", node(j), node(&bad), dbg_short(&v2)));
                                    Verdict::Violation
                                }
                            },
                            other => {
                                acc.violation(
                                    &format!("corrupt/{class}/accepted-value-does-not-roundtrip"),
                                    case(),
                                    format!("{head}: accepted as {} whose own JSON form does not read back to it ({})", dbg_short(&v2), match other {
                                        Err(p) => format!("panic {p}"),
                                        Ok(Err(e)) => err_text(py, &e),
                                        Ok(Ok(v3)) => format!("reads back as {}", dbg_short(&v3)),
                                    }),
                                );
                                Verdict::Violation
                            }
                        }
                    } else {
                        acc.violation(
                            &format!("corrupt/{class}/accepted-as-other-value"),
                            case(),
                            format!(
                                "{head}: the node was {} and was changed to {}; from_json_dict accepted the tree, and the accepted value's to_json_dict has {} there (not what the input said: silently truncated, wrapped, padded or defaulted)",
                                node(j),
                                node(&bad),
                                node(&j2)
                            ),
                        );
                        Verdict::Violation
                    }
                }
            }
        }
    };
    acc.bump(&format!(
        "corrupt/{class}/{}",
        match verdict {
            Verdict::Rejected => "rejected",
            Verdict::SameMeaning => "accepted-same-meaning",
            Verdict::Violation => "VIOLATION",
        }
    ));
    if let Some(out) = verbose {
        out.push_str(&log);
        out.push_str(&format!("verdict {verdict:?}\n"));
    }
    Some(verdict)
}

/// A value read from JSON that to_bytes can encode must be readable by from_bytes, and re-encode
/// to the same bytes (relation between the JSON reader and the wire reader of /repo).
fn wire_problem<T: Subject>(v: &T) -> Option<String> {
    let enc = match catch(|| Streamable::to_bytes(v)) {
        Err(p) => return Some(format!("to_bytes panics: {p}")),
        Ok(Err(_)) => return None, // no wire form at all (e.g. a block version without one)
        Ok(Ok(b)) => b,
    };
    match catch(|| <T as Streamable>::from_bytes(&enc)) {
        Err(p) => Some(format!("from_bytes of its own encoding panics: {p}")),
        Ok(Err(e)) => Some(format!("from_bytes rejects its own encoding {} ({e:?})", jtree::clip(&hex::encode(&enc), 300))),
        Ok(Ok(back)) => match catch(|| Streamable::to_bytes(&back)) {
            Ok(Ok(b2)) if b2 == enc => None,
            _ => Some(format!("from_bytes of its own encoding {} re-encodes differently", jtree::clip(&hex::encode(&enc), 300))),
        },
    }
}

// ---- integer ranges (information) ------------------------------------------------------------

/// compares two decimal integer renderings
pub fn cmp_dec(a: &str, b: &str) -> std::cmp::Ordering {
    use std::cmp::Ordering::*;
    let (na, ma) = a.strip_prefix('-').map(|m| (true, m)).unwrap_or((false, a));
    let (nb, mb) = b.strip_prefix('-').map(|m| (true, m)).unwrap_or((false, b));
    match (na, nb) {
        (false, true) => Greater,
        (true, false) => Less,
        (neg, _) => {
            let m = ma.len().cmp(&mb.len()).then_with(|| ma.cmp(mb));
            if neg { m.reverse() } else { m }
        }
    }
}

fn std_ranges() -> Vec<(&'static str, String, String)> {
    vec![
        ("u8", "0".into(), u8::MAX.to_string()),
        ("u16", "0".into(), u16::MAX.to_string()),
        ("u32", "0".into(), u32::MAX.to_string()),
        ("u64", "0".into(), u64::MAX.to_string()),
        ("u128", "0".into(), u128::MAX.to_string()),
        ("i8", i8::MIN.to_string(), i8::MAX.to_string()),
        ("i16", i16::MIN.to_string(), i16::MAX.to_string()),
        ("i32", i32::MIN.to_string(), i32::MAX.to_string()),
        ("i64", i64::MIN.to_string(), i64::MAX.to_string()),
        ("i128", i128::MIN.to_string(), i128::MAX.to_string()),
    ]
}

/// which Rust integer type accepts exactly `accepted` out of `alphabet`
fn classify_range(alphabet: &[String], accepted: &HashSet<String>) -> String {
    use std::cmp::Ordering::*;
    for (name, lo, hi) in std_ranges() {
        if alphabet.iter().all(|a| (cmp_dec(a, &lo) != Less && cmp_dec(a, &hi) != Greater) == accepted.contains(a)) {
            return name.to_string();
        }
    }
    if accepted.iter().all(|a| cmp_dec(a, "0") != Less && cmp_dec(a, "255") != Greater) {
        return "subset of u8 (enum)".into();
    }
    "other".into()
}

// ---------------------------------------------------------------------------------------------
// one job
// ---------------------------------------------------------------------------------------------

pub fn run_job<T: Subject>(spec: &Spec<T>, cfg: &JobCfg) -> Acc {
    let mut acc = Acc::default();
    let en = enumerate(spec, cfg);
    acc.tapes = en.tapes;
    if en.no_value > 0 {
        *acc.counters.entry("tape/builder-produced-nothing".into()).or_insert(0) += en.no_value;
    }
    if en.duplicates > 0 {
        *acc.counters.entry("tape/value-seen-before".into()).or_insert(0) += en.duplicates;
    }
    let alphabet = jtree::int_alphabet();
    Python::attach(|py| {
        let mut shapes: HashSet<u64> = HashSet::new();
        for v in &en.known {
            if let Ok((_, j)) = observe_json(py, v) {
                shapes.insert(fxhash(&jtree::shape(&j)));
            }
        }
        for (src, v, h) in &en.values {
            acc.distinct.push(fxhash(&(spec.name, h)));
            // first pass without the text round trip; bases get it below
            let Some(j) = check_value(py, spec, src, v, false, &mut acc, None) else { continue };
            if cfg.first.is_some() {
                // second level: round trips only (every nested struct is a registered type of
                // its own and gets its corruptions there)
                continue;
            }
            let new_shape = shapes.insert(fxhash(&jtree::shape(&j)));
            if !(new_shape || matches!(src, Src::Letter(_))) {
                continue;
            }
            if let (true, Src::Tape { writes, .. }) = (cfg.thorough, src) {
                if let [(p, w)] = writes.as_slice() {
                    let (len, end) = second_level_extent(spec.build, *p, w);
                    acc.firsts.push((*p, w.clone(), len, end));
                }
            }
            acc.bases += 1;
            // the same value once more, now also through JSON text (not counted as a new value)
            let mut scratch = Acc::default();
            check_value(py, spec, src, v, true, &mut scratch, None);
            for f in scratch.findings {
                *acc.sig_counts.entry(f.sig.clone()).or_insert(0) += 1;
                if acc.findings.iter().filter(|g| g.sig == f.sig).count() < 3 {
                    acc.findings.push(f);
                }
            }
            acc.bump(if scratch.counters.contains_key("value/VIOLATION") { "json-text/VIOLATION" } else { "json-text/roundtrip-ok" });
            if acc.sample.is_none() && cfg.part == 0 && cfg.first.is_none() {
                acc.sample = Some(json!({"type": spec.name, "value_from": src.describe(), "json": jtree::clip(&jtree::render(&j), 400)}));
            }
            for path in jtree::all_paths(&j) {
                let ops = jtree::ops_at(&j, &path, &alphabet);
                let is_int = matches!(jtree::get(&j, &path), Some(J::Int(_)));
                let mut accepted: HashSet<String> = HashSet::new();
                if let Some(J::Int(cur)) = jtree::get(&j, &path) {
                    accepted.insert(cur.clone());
                }
                for op in &ops {
                    let verdict = check_corruption(py, spec, src, &j, &path, op, &mut acc, None);
                    if let (Op::IntSet(s), Some(Verdict::SameMeaning)) = (op, &verdict) {
                        accepted.insert(s.clone());
                    }
                }
                if is_int {
                    let inside: HashSet<String> = accepted.into_iter().filter(|a| alphabet.contains(a)).collect();
                    *acc.int_ranges.entry(classify_range(&alphabet, &inside)).or_insert(0) += 1;
                }
            }
        }
    });
    acc
}

/// re-run one recorded case with a full description of what is observed
pub fn replay_case<T: Subject>(spec: &Spec<T>, case: &Value) -> String {
    let Some(src) = Src::from_serde(&case["src"]) else { return "cannot read the value source of the case".into() };
    let Some(v) = build(spec, &src) else { return "the builder produced no value for this source".into() };
    let mut out = String::new();
    Python::attach(|py| {
        let mut acc = Acc::default();
        let j = check_value(py, spec, &src, &v, true, &mut acc, Some(&mut out));
        if let (Some(j), false) = (j, case["corruption"].is_null()) {
            let path = jtree::path_from_serde(&case["corruption"]["path"]);
            match Op::from_serde(&case["corruption"]["op"]) {
                None => out.push_str("cannot read the corruption of the case\n"),
                Some(op) => {
                    out.push_str("--- corruption ---\n");
                    if check_corruption(py, spec, &src, &j, &path, &op, &mut acc, Some(&mut out)).is_none() {
                        out.push_str("the corruption does not apply to this tree\n");
                    }
                }
            }
        }
        out.push_str("--- problems found by the oracle in this replay ---\n");
        if acc.findings.is_empty() {
            out.push_str("none\n");
        }
        for f in &acc.findings {
            out.push_str(&format!("{}: {}\n", f.sig, f.detail));
        }
    });
    out
}
