//! Self test of the oracle (C20_SELFTEST=1): deliberately wrong JSON conversions written here,
//! wrapped around real /repo types, must each be reported under the expected signature; a correct
//! wrapper must not be reported at all. Not part of the check; it exercises the machinery the way
//! the mutants named in the design would (u8 read through `u64 as u8`, 31 bytes padded to 32,
//! a missing key defaulted, a tuple read without a length check, …).

use crate::core::*;
use crate::jtree::J;
use arbitrary::Unstructured;
use chia_protocol::{Bytes32, Coin};
use chia_sha2::Sha256;
use chia_traits::{FromJsonDict, Result, Streamable, ToJsonDict};
use pyo3::prelude::*;
use pyo3::types::{PyDict, PyList};
use std::io::Cursor;

macro_rules! wrap {
    ($name:ident, $inner:ty) => {
        #[derive(Debug, Clone, PartialEq)]
        pub struct $name(pub $inner);
        impl Streamable for $name {
            fn update_digest(&self, d: &mut Sha256) {
                self.0.update_digest(d)
            }
            fn stream(&self, out: &mut Vec<u8>) -> Result<()> {
                self.0.stream(out)
            }
            fn parse<const TRUSTED: bool>(input: &mut Cursor<&[u8]>) -> Result<Self> {
                Ok(Self(<$inner as Streamable>::parse::<TRUSTED>(input)?))
            }
        }
    };
}

macro_rules! same_to_json {
    ($name:ident) => {
        impl ToJsonDict for $name {
            fn to_json_dict(&self, py: Python<'_>) -> PyResult<Py<PyAny>> {
                self.0.to_json_dict(py)
            }
        }
    };
}

// 0. correct wrapper: nothing may be reported
wrap!(GoodCoin, Coin);
same_to_json!(GoodCoin);
impl FromJsonDict for GoodCoin {
    fn from_json_dict(o: &Bound<'_, PyAny>) -> PyResult<Self> {
        Ok(Self(<Coin as FromJsonDict>::from_json_dict(o)?))
    }
}

// 1. u8 read through u64 and cut
wrap!(TruncU8, u8);
same_to_json!(TruncU8);
impl FromJsonDict for TruncU8 {
    fn from_json_dict(o: &Bound<'_, PyAny>) -> PyResult<Self> {
        Ok(Self(o.extract::<u64>()? as u8))
    }
}

// 2. 32-byte string accepting any length by padding / cutting
wrap!(PadBytes32, Bytes32);
same_to_json!(PadBytes32);
impl FromJsonDict for PadBytes32 {
    fn from_json_dict(o: &Bound<'_, PyAny>) -> PyResult<Self> {
        let s: String = o.extract()?;
        let mut b = hex::decode(s.trim_start_matches("0x")).map_err(|_| pyo3::exceptions::PyValueError::new_err("invalid hex"))?;
        b.resize(32, 0);
        Ok(Self(Bytes32::new(b.try_into().unwrap())))
    }
}

// 3. struct defaulting a missing key / a null
wrap!(DefaultingCoin, Coin);
same_to_json!(DefaultingCoin);
impl FromJsonDict for DefaultingCoin {
    fn from_json_dict(o: &Bound<'_, PyAny>) -> PyResult<Self> {
        let amount = o.get_item("amount").ok().and_then(|a| a.extract::<u64>().ok()).unwrap_or(0);
        Ok(Self(Coin::new(<Bytes32 as FromJsonDict>::from_json_dict(&o.get_item("parent_coin_info")?)?, <Bytes32 as FromJsonDict>::from_json_dict(&o.get_item("puzzle_hash")?)?, amount)))
    }
}

// 4. tuple read without a length check
wrap!(LoosePair, (u8, u32));
same_to_json!(LoosePair);
impl FromJsonDict for LoosePair {
    fn from_json_dict(o: &Bound<'_, PyAny>) -> PyResult<Self> {
        Ok(Self((o.get_item(0)?.extract()?, o.get_item(1)?.extract()?)))
    }
}

// 5. signed integer read as unsigned
wrap!(UnsignedI64, i64);
same_to_json!(UnsignedI64);
impl FromJsonDict for UnsignedI64 {
    fn from_json_dict(o: &Bound<'_, PyAny>) -> PyResult<Self> {
        Ok(Self(o.extract::<u64>()? as i64))
    }
}

// 6. u128 written through u64
wrap!(NarrowU128, u128);
impl ToJsonDict for NarrowU128 {
    fn to_json_dict(&self, py: Python<'_>) -> PyResult<Py<PyAny>> {
        (self.0 as u64).to_json_dict(py)
    }
}
impl FromJsonDict for NarrowU128 {
    fn from_json_dict(o: &Bound<'_, PyAny>) -> PyResult<Self> {
        Ok(Self(o.extract::<u128>()?))
    }
}

// 7. optional value: null read as Some(0)
wrap!(NullIsZero, Option<u64>);
same_to_json!(NullIsZero);
impl FromJsonDict for NullIsZero {
    fn from_json_dict(o: &Bound<'_, PyAny>) -> PyResult<Self> {
        Ok(Self(Some(if o.is_none() { 0 } else { o.extract()? })))
    }
}

// 8. list silently cut after two elements
wrap!(CutList, Vec<u32>);
same_to_json!(CutList);
impl FromJsonDict for CutList {
    fn from_json_dict(o: &Bound<'_, PyAny>) -> PyResult<Self> {
        let mut v = Vec::new();
        for x in o.try_iter()?.take(2) {
            v.push(x?.extract()?);
        }
        Ok(Self(v))
    }
}

// 9. invalid hex digits read as zero
wrap!(LenientHex, Bytes32);
same_to_json!(LenientHex);
impl FromJsonDict for LenientHex {
    fn from_json_dict(o: &Bound<'_, PyAny>) -> PyResult<Self> {
        let s: String = o.extract()?;
        let d: String = s.trim_start_matches("0x").chars().map(|c| if c.is_ascii_hexdigit() { c } else { '0' }).collect();
        let b = hex::decode(d).map_err(|_| pyo3::exceptions::PyValueError::new_err("odd"))?;
        let b: [u8; 32] = b.try_into().map_err(|_| pyo3::exceptions::PyValueError::new_err("length"))?;
        Ok(Self(Bytes32::new(b)))
    }
}

// 10. to_json_dict returning a tuple / bytes (not JSON)
wrap!(TupleOut, (u8, u32));
impl ToJsonDict for TupleOut {
    fn to_json_dict(&self, py: Python<'_>) -> PyResult<Py<PyAny>> {
        Ok(pyo3::types::PyTuple::new(py, [self.0.0 as u32, self.0.1])?.into_any().unbind())
    }
}
impl FromJsonDict for TupleOut {
    fn from_json_dict(o: &Bound<'_, PyAny>) -> PyResult<Self> {
        Ok(Self(<(u8, u32) as FromJsonDict>::from_json_dict(o)?))
    }
}

// 11. struct whose to_json_dict drops the amount when it is zero and whose reader defaults it
wrap!(SparseCoin, Coin);
impl ToJsonDict for SparseCoin {
    fn to_json_dict(&self, py: Python<'_>) -> PyResult<Py<PyAny>> {
        let d = PyDict::new(py);
        d.set_item("parent_coin_info", self.0.parent_coin_info.to_json_dict(py)?)?;
        d.set_item("puzzle_hash", self.0.puzzle_hash.to_json_dict(py)?)?;
        d.set_item("amount", PyList::new(py, [self.0.amount])?)?;
        Ok(d.into_any().unbind())
    }
}
impl FromJsonDict for SparseCoin {
    fn from_json_dict(o: &Bound<'_, PyAny>) -> PyResult<Self> {
        // reads only the first element of the amount list and ignores the rest
        let amount: u64 = o.get_item("amount")?.get_item(0)?.extract()?;
        Ok(Self(Coin::new(<Bytes32 as FromJsonDict>::from_json_dict(&o.get_item("parent_coin_info")?)?, <Bytes32 as FromJsonDict>::from_json_dict(&o.get_item("puzzle_hash")?)?, amount)))
    }
}

fn none<T>() -> Vec<Letter<T>> {
    Vec::new()
}

fn run_one<T: Subject>(name: &'static str, build: Gen<T>, letters: fn() -> Vec<Letter<T>>, reference: Option<fn(&T) -> J>, expect: &[&str]) -> bool {
    let spec = Spec { name, build, letters, reference };
    let acc = run_job(&spec, &JobCfg { thorough: false, part: 0, parts: 1, first: None });
    let got: Vec<&String> = acc.sig_counts.keys().collect();
    let ok = if expect.is_empty() { got.is_empty() && acc.machinery.is_empty() } else { expect.iter().all(|e| got.iter().any(|g| g.as_str() == format!("{PROP}/{e}"))) };
    println!("{} {name}: values {} corruption cases {} signatures {:?}{}", if ok { "ok  " } else { "FAIL" }, acc.values, acc.corruptions, acc.sig_counts, if ok { String::new() } else { format!(" EXPECTED {expect:?}") });
    if let Some(f) = acc.findings.first() {
        println!("       e.g. {}", crate::jtree::clip(&f.detail, 400));
    }
    ok
}

pub fn main() -> i32 {
    Python::initialize();
    let mut ok = true;
    ok &= run_one::<GoodCoin>("GoodCoin", |u: &mut Unstructured| Ok(GoodCoin(u.arbitrary()?)), none, None, &[]);
    ok &= run_one::<TruncU8>("TruncU8", |u: &mut Unstructured| Ok(TruncU8(u.arbitrary()?)), none, None, &["corrupt/int/accepted-as-other-value"]);
    ok &= run_one::<PadBytes32>("PadBytes32", |u: &mut Unstructured| Ok(PadBytes32(u.arbitrary()?)), none, None, &["corrupt/hex-length/accepted-as-other-value"]);
    ok &= run_one::<DefaultingCoin>("DefaultingCoin", |u: &mut Unstructured| Ok(DefaultingCoin(u.arbitrary()?)), none, None, &["corrupt/missing-key/accepted-as-other-value", "corrupt/none/accepted-as-other-value", "corrupt/int/accepted-as-other-value"]);
    ok &= run_one::<LoosePair>("LoosePair", |u: &mut Unstructured| Ok(LoosePair(u.arbitrary()?)), none, None, &["corrupt/list-count/accepted-as-other-value"]);
    ok &= run_one::<UnsignedI64>("UnsignedI64", |u: &mut Unstructured| Ok(UnsignedI64(u.arbitrary()?)), none, None, &["value/roundtrip-rejected"]);
    ok &= run_one::<NarrowU128>("NarrowU128", |u: &mut Unstructured| Ok(NarrowU128(u.arbitrary()?)), none, None, &["value/roundtrip-differs"]);
    ok &= run_one::<NullIsZero>("NullIsZero", |u: &mut Unstructured| Ok(NullIsZero(u.arbitrary()?)), none, None, &["value/roundtrip-differs"]);
    ok &= run_one::<CutList>("CutList", |u: &mut Unstructured| Ok(CutList(u.arbitrary()?)), || vec![letter("three", CutList(vec![1, 2, 3]))], None, &["value/roundtrip-differs", "corrupt/list-count/accepted-as-other-value"]);
    ok &= run_one::<LenientHex>("LenientHex", |u: &mut Unstructured| Ok(LenientHex(u.arbitrary()?)), none, None, &["corrupt/hex-digits/accepted-as-other-value"]);
    ok &= run_one::<TupleOut>("TupleOut", |u: &mut Unstructured| Ok(TupleOut(u.arbitrary()?)), none, None, &["value/not-json"]);
    ok &= run_one::<SparseCoin>("SparseCoin", |u: &mut Unstructured| Ok(SparseCoin(u.arbitrary()?)), none, None, &["corrupt/list-count/accepted-as-other-value"]);
    println!("self test {}", if ok { "passed" } else { "FAILED" });
    if ok { 0 } else { 1 }
}
