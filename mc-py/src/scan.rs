//! Run-time self check: plain text scan of /repo/crates for types that get a JSON-dict
//! conversion, compared with the registry. Reports (does not fail on) types that are not
//! covered, so that a type added to the repository later is noticed in the evidence.

use crate::registry::TypeEntry;
use std::collections::BTreeSet;
use std::path::{Path, PathBuf};

pub const REPO_CRATES: &str = "/repo/crates";

fn rs_files(dir: &Path, out: &mut Vec<PathBuf>) {
    let Ok(rd) = std::fs::read_dir(dir) else { return };
    let mut entries: Vec<PathBuf> = rd.flatten().map(|e| e.path()).collect();
    entries.sort();
    for p in entries {
        if p.is_dir() {
            let n = p.file_name().map(|s| s.to_string_lossy().to_string()).unwrap_or_default();
            if n == "target" || n == "fuzz" || n == "tests" || n == "benches" || n == "examples" {
                continue;
            }
            rs_files(&p, out);
        } else if p.extension().is_some_and(|e| e == "rs") {
            out.push(p);
        }
    }
}

fn has_word(line: &str, word: &str) -> bool {
    let b = line.as_bytes();
    let mut from = 0;
    while let Some(i) = line[from..].find(word) {
        let s = from + i;
        let e = s + word.len();
        let before = s == 0 || !(b[s - 1].is_ascii_alphanumeric() || b[s - 1] == b'_');
        let after = e >= b.len() || !(b[e].is_ascii_alphanumeric() || b[e] == b'_');
        if before && after {
            return true;
        }
        from = e;
    }
    false
}

fn ident_after<'a>(line: &'a str, kw: &str) -> Option<&'a str> {
    let i = line.find(kw)?;
    let rest = line[i + kw.len()..].trim_start();
    let end = rest.find(|c: char| !(c.is_ascii_alphanumeric() || c == '_')).unwrap_or(rest.len());
    if end == 0 { None } else { Some(&rest[..end]) }
}

/// every (crate, type) that gets ToJsonDict / FromJsonDict: `#[streamable…]` structs (except
/// `no_json`), items deriving `PyJsonDict`, hand-written `impl … ToJsonDict for X`,
/// `to_json_primitive!(x)`
pub fn scan_repo() -> Vec<(String, String)> {
    let mut files = Vec::new();
    rs_files(Path::new(REPO_CRATES), &mut files);
    let mut out: BTreeSet<(String, String)> = BTreeSet::new();
    for f in files {
        let rel = f.strip_prefix(REPO_CRATES).unwrap_or(&f).to_string_lossy().to_string();
        let krate = rel.trim_start_matches('/').split('/').next().unwrap_or("").to_string();
        if krate.ends_with("_macro") || krate == "chia-tools" {
            continue;
        }
        let Ok(txt) = std::fs::read_to_string(&f) else { continue };
        let mut pending = false;
        let mut in_attr = false;
        let mut depth: i32 = 0;
        let mut attr_derives_json = false;
        for raw in txt.lines() {
            let line = raw.trim();
            if line.starts_with("//") {
                continue;
            }
            if in_attr || line.starts_with("#[") {
                if !in_attr {
                    depth = 0;
                    attr_derives_json = false;
                    if line.starts_with("#[streamable") && !line.contains("no_json") {
                        pending = true;
                    }
                }
                if has_word(line, "PyJsonDict") {
                    attr_derives_json = true;
                }
                for c in line.chars() {
                    match c {
                        '[' | '(' => depth += 1,
                        ']' | ')' => depth -= 1,
                        _ => {}
                    }
                }
                in_attr = depth > 0;
                if !in_attr && attr_derives_json {
                    pending = true;
                }
                continue;
            }
            if pending {
                if let Some(n) = ident_after(line, "struct ").or_else(|| ident_after(line, "enum ")) {
                    out.insert((krate.clone(), n.to_string()));
                    pending = false;
                }
            }
            if line.starts_with("impl") && has_word(line, "ToJsonDict") && line.contains(" for ") {
                let rest = line[line.find(" for ").unwrap() + 5..].trim().trim_end_matches('{').trim();
                let name = if rest.starts_with('$') {
                    continue;
                } else if rest.starts_with('(') {
                    format!("tuple{}", rest.matches(',').count() + 1)
                } else if rest.starts_with('[') {
                    "array".to_string()
                } else {
                    let end = rest.find(|c: char| !(c.is_ascii_alphanumeric() || c == '_')).unwrap_or(rest.len());
                    rest[..end].to_string()
                };
                out.insert((krate.clone(), name));
            }
            if let Some(r) = line.strip_prefix("to_json_primitive!(") {
                if let Some(end) = r.find(')') {
                    out.insert((krate.clone(), r[..end].to_string()));
                }
            }
        }
    }
    out.into_iter().collect()
}

pub struct Coverage {
    pub found: usize,
    pub covered: usize,
    pub uncovered: Vec<String>,
    /// registry entries naming a source type the scan did not see (stale registry lines)
    pub unknown_to_scan: Vec<String>,
}

pub fn coverage(reg: &[TypeEntry]) -> Coverage {
    let found = scan_repo();
    let have: BTreeSet<(String, String)> = reg.iter().filter(|e| !e.src.is_empty()).map(|e| (e.krate.to_string(), e.src.to_string())).collect();
    let mut uncovered = Vec::new();
    let mut covered = 0;
    for key in &found {
        if have.contains(key) {
            covered += 1;
        } else {
            uncovered.push(format!("{}::{}", key.0, key.1));
        }
    }
    let seen: BTreeSet<&(String, String)> = found.iter().collect();
    let unknown_to_scan = have.iter().filter(|k| !seen.contains(k)).map(|(k, n)| format!("{k}::{n}")).collect();
    Coverage { found: found.len(), covered, uncovered, unknown_to_scan }
}
