//! C20 — the Python JSON-dict representation round-trips every exported value, and malformed
//! JSON is rejected rather than truncated, wrapped or defaulted.
//!
//! Engine E style bounded-exhaustive enumeration through an embedded interpreter: for every type
//! with a JSON-dict conversion, every value of a stated finite set goes through the real
//! `to_json_dict` / `from_json_dict` of /repo (traits `ToJsonDict` / `FromJsonDict`, the same code
//! the Python classes call); for one value per distinct JSON shape every single-node corruption
//! of a stated list is fed to `from_json_dict`.
//!
//! Oracles: (1) round trip: from_json_dict(to_json_dict(v)) == v with equal to_bytes and hash,
//! to_json_dict stable, also through json.dumps/json.loads; for leaf types, combinators and Coin
//! the JSON tree must equal the form documented by /repo's Python tests, written down
//! independently in `registry.rs`; (2) corruption: the corrupted tree is rejected, or accepted as
//! a value whose own JSON tree says the same thing (`jtree::denote_eq`), which itself round-trips
//! and which the wire decoder accepts too. `C20_SELFTEST=1 c20` runs the oracle against
//! deliberately wrong conversions (`selftest.rs`).
//!
//! The interpreter lock makes one process single-threaded, so the enumeration is cut into jobs
//! (type x slice of tape positions [x first write]) that are handed to worker processes (this binary started with
//! C20_WORKER=1, each with its own interpreter). Results are merged in job order; the set of cases
//! and all counts do not depend on the number of workers or on scheduling.

mod core;
mod jtree;
mod registry;
mod scan;
mod selftest;

use crate::core::{Acc, JobCfg, PROP};
use crate::jtree::J;
use mc::report::{Report, Tier};
use pyo3::Python;
use registry::{TypeEntry, registry};
use serde_json::{Value, json};
use std::collections::BTreeMap;
use std::io::{BufRead, BufReader, Write};
use std::process::{Command, Stdio};
use std::sync::Mutex;
use std::sync::atomic::{AtomicUsize, Ordering};

#[derive(Clone, Debug)]
struct Job {
    type_idx: usize,
    cfg: JobCfg,
    est: u64,
}

fn leaf_strings(j: &J, out: &mut Vec<usize>) {
    match j {
        J::Str(s) => out.push(s.len()),
        J::List(l) => l.iter().for_each(|x| leaf_strings(x, out)),
        J::Dict(d) => d.iter().for_each(|(_, v)| leaf_strings(v, out)),
        _ => {}
    }
}

/// rough cost of one round trip of a value of this type (scheduling only)
fn per_value_cost(e: &TypeEntry) -> (u64, u64) {
    let base = (e.base_json)();
    let nodes = base.as_ref().map(jtree::count_nodes).unwrap_or(1) as u64;
    let mut strs = Vec::new();
    if let Some(b) = &base {
        leaf_strings(b, &mut strs);
    }
    // curve points are by far the most expensive leaves to read back (subgroup checks)
    let g1 = strs.iter().filter(|l| **l == 98).count() as u64;
    let g2 = strs.iter().filter(|l| **l == 194).count() as u64;
    (nodes, nodes + 80 * g1 + 250 * g2 + 20)
}

const JOB_TARGET: u64 = 6_000_000;

/// Cuts the work into jobs. The estimate only decides how finely a type is sliced (by tape
/// position); it never decides what is enumerated.
fn plan(reg: &[TypeEntry], thorough: bool) -> (Vec<Job>, Vec<(u64, u64)>) {
    let mut jobs = Vec::new();
    let mut costs = Vec::new();
    for (i, e) in reg.iter().enumerate() {
        let n = (e.tape_len)() as u64;
        let (nodes, per_value) = per_value_cost(e);
        costs.push((nodes, per_value));
        let windows = thorough || n <= (core::QUICK_WINDOW_MAX_TAPE + core::TAPE_SLACK) as u64;
        let est = n * if windows { 17 } else { 5 } * per_value * 3 + (n / 6 + 1) * nodes * 14 * per_value / 2;
        let parts = (est.div_ceil(JOB_TARGET)).clamp(1, n.max(1).min(512)) as usize;
        for part in 0..parts {
            jobs.push(Job { type_idx: i, cfg: JobCfg { thorough, part, parts, first: None }, est: est / parts as u64 });
        }
    }
    sort_jobs(&mut jobs);
    (jobs, costs)
}

/// second level (thorough tier): one group of jobs per shape-changing first write
fn plan_second(firsts: &[(usize, (usize, Vec<u8>, usize, usize))], costs: &[(u64, u64)]) -> Vec<Job> {
    let mut jobs = Vec::new();
    for (type_idx, (p, w, n, e)) in firsts {
        let (_, per_value) = costs[*type_idx];
        let span = e.saturating_sub(p + w.len()) as u64;
        let est = span * 17 * per_value * 3;
        let parts = (est.div_ceil(JOB_TARGET)).clamp(1, span.max(1).min(512)) as usize;
        for part in 0..parts {
            jobs.push(Job { type_idx: *type_idx, cfg: JobCfg { thorough: true, part, parts, first: Some((*p, w.clone(), *n, *e)) }, est: est / parts as u64 });
        }
    }
    sort_jobs(&mut jobs);
    jobs
}

fn sort_jobs(jobs: &mut [Job]) {
    // most expensive first; ties in registry order
    jobs.sort_by(|a, b| b.est.cmp(&a.est).then(a.type_idx.cmp(&b.type_idx)).then(a.cfg.first.cmp(&b.cfg.first)).then(a.cfg.part.cmp(&b.cfg.part)));
}

// ---------------------------------------------------------------------------------------------
// worker process
// ---------------------------------------------------------------------------------------------

fn worker_main() {
    mc::report::quiet_panics();
    Python::initialize();
    let reg = registry();
    let stdin = std::io::stdin();
    let stdout = std::io::stdout();
    for line in stdin.lock().lines() {
        let Ok(line) = line else { break };
        let Ok(req) = serde_json::from_str::<Value>(&line) else { break };
        let (Some(ti), Some(cfg)) = (req["type"].as_u64().map(|t| t as usize).filter(|t| *t < reg.len()), JobCfg::from_serde(&req["cfg"])) else { break };
        let acc = match mc::report::catch(|| (reg[ti].job)(&cfg)) {
            Ok(a) => a,
            Err(p) => {
                let mut a = Acc::default();
                a.machinery.push(format!("job {} {cfg:?} panicked in the harness: {p}", reg[ti].name));
                a
            }
        };
        let mut out = stdout.lock();
        let _ = writeln!(out, "{}", acc.to_serde());
        let _ = out.flush();
    }
}

fn run_jobs(jobs: &[Job], rep: &Report) -> Vec<Option<Acc>> {
    if jobs.is_empty() {
        return Vec::new();
    }
    let n_workers = std::env::var("C20_WORKERS")
        .ok()
        .and_then(|s| s.parse::<usize>().ok())
        .unwrap_or_else(|| std::thread::available_parallelism().map(|n| n.get()).unwrap_or(4))
        .clamp(1, jobs.len().max(1));
    let exe = std::env::current_exe().expect("current_exe");
    let next = AtomicUsize::new(0);
    let results: Vec<Mutex<Option<Acc>>> = jobs.iter().map(|_| Mutex::new(None)).collect();
    std::thread::scope(|s| {
        for w in 0..n_workers {
            let (exe, next, results) = (&exe, &next, &results);
            s.spawn(move || {
                let child = Command::new(exe).env("C20_WORKER", "1").env("RAYON_NUM_THREADS", "2").stdin(Stdio::piped()).stdout(Stdio::piped()).stderr(Stdio::inherit()).spawn();
                let mut child = match child {
                    Ok(c) => c,
                    Err(e) => {
                        rep.machinery_error(&format!("cannot start worker {w}: {e}"));
                        return;
                    }
                };
                let mut to = child.stdin.take().expect("worker stdin");
                let mut from = BufReader::new(child.stdout.take().expect("worker stdout"));
                loop {
                    let i = next.fetch_add(1, Ordering::SeqCst);
                    if i >= jobs.len() {
                        break;
                    }
                    let j = &jobs[i];
                    if writeln!(to, "{}", json!({"type": j.type_idx, "cfg": j.cfg.to_serde()})).and_then(|()| to.flush()).is_err() {
                        rep.machinery_error(&format!("worker {w} does not take job {i}"));
                        break;
                    }
                    let mut line = String::new();
                    match from.read_line(&mut line) {
                        Ok(n) if n > 0 => match serde_json::from_str::<Value>(&line).ok().and_then(|v| Acc::from_serde(&v)) {
                            Some(acc) => *results[i].lock().unwrap() = Some(acc),
                            None => rep.machinery_error(&format!("worker {w}: unreadable result of job {i}")),
                        },
                        _ => {
                            rep.machinery_error(&format!("worker {w} died in job {i} (type index {} {:?})", j.type_idx, j.cfg));
                            break;
                        }
                    }
                }
                drop(to);
                let _ = child.wait();
            });
        }
    });
    results.into_iter().map(|m| m.into_inner().unwrap()).collect()
}

// ---------------------------------------------------------------------------------------------
// the check
// ---------------------------------------------------------------------------------------------

fn run(rep: &Report) {
    let thorough = rep.tier == Tier::Thorough;
    Python::initialize();
    rep.set_rule(&format!(
        "TYPES: every Rust type with a ToJsonDict/FromJsonDict impl (all #[streamable] protocol structs and enums, BLS elements, Bytes/BytesN/Program, chia-consensus SpendConditions/SpendBundleConditions/ConsensusConstants, chia-datalayer records, the integer/bool/String primitives and instantiations of Option, Vec, 2- and 3-tuples and fixed arrays); the list is compared with a source scan at run time. \
         VALUES per type: the type's builder (derive(Arbitrary) of /repo; hand-written builders for chia-consensus, chia-datalayer, GTElement) driven by a tape of (consumed+{slack}) zero bytes; every tape with one byte changed (every position x {{01,02,7f,80,ff}}); every tape with one little-endian integer window of width {{2,4,8,16}} at every position set to all-ones / largest signed / smallest signed ({win}){second}; plus hand-written letters (MIN/MAX/one of every integer width, strings that look like hex, long and empty byte strings, CLVM programs, ragged nested lists, tuples inside lists, v1 proofs of space x4 Option combinations, the 7 recorded valid v2 proofs, FullBlock v0 with generator+refs and v1 with buffer). Equal values (by Debug rendering) are run once. \
         CORRUPTIONS: for the first value of every distinct JSON shape (keys, list lengths, leaf kinds) met in a job (job = type x slice of tape positions x first write) and for every letter, at every node of the JSON tree one at a time: key deleted; null (not for a struct without fields); string: last char removed, first digit removed, one byte fewer, one byte more, last char:='g', first digit:='G', without 0x, upper-case digits, \"0x\" alone; integer := each of {{0,1,2,-1}} + {{2^(k-1)-1, 2^(k-1), 2^k-1, 2^k, -2^(k-1), -2^(k-1)-1 : k=8,16,32,64,128}} (max, max+1, min, min-1 of every Rust integer type), value+0.5 as float, its decimal string; bool := 0,1,2; list: first / last element removed, last element duplicated, one element (null / 0 / \"0x00\") added to an empty list. \
         distinct = distinct (type, value) pairs",
        slack = core::TAPE_SLACK,
        win = if thorough { "all types" } else { "quick tier: only builders consuming <= 160 tape bytes" },
        second = if thorough { "; second level (round trips only): behind every such one-write tape that produced a new JSON shape (tape re-sized to what the builder then consumes), every second write of the same alphabet at every position of the stretch right behind the first write that the new structure consumes (additional consumption + 16 bytes)" } else { "" }
    ));
    rep.assume("equality of values is the PartialEq of /repo's types; byte encoding and hash are Streamable::to_bytes / Streamable::hash of /repo");
    rep.assume("from_json_dict / to_json_dict are called through the traits ToJsonDict / FromJsonDict, which is what the generated Python methods call; the classmethod wrapper itself (from_parent for subclasses) is not exercised");
    rep.assume("a corrupted tree counts as 'same meaning' when it differs from the accepted value's own JSON only by: dict order, keys holding null vs absent keys, hex spelling (optional 0x, letter case) of the same byte string, bool vs 0/1");
    rep.assume("CPython 3.11 json module and the pyo3 0.29 conversions between Python and Rust integers / strings are trusted");

    let reg = registry();
    let t0 = std::time::Instant::now();
    let (mut jobs, costs) = plan(&reg, thorough);
    eprintln!("C20 timing: plan {:.1}s ({} jobs)", t0.elapsed().as_secs_f64(), jobs.len());
    let mut results = run_jobs(&jobs, rep);
    eprintln!("C20 timing: +first level {:.1}s", t0.elapsed().as_secs_f64());
    if thorough {
        // second level: behind every first write that produced a new JSON shape
        let mut firsts: Vec<(usize, (usize, Vec<u8>, usize, usize))> = Vec::new();
        for (job, acc) in jobs.iter().zip(&results) {
            if let Some(acc) = acc {
                firsts.extend(acc.firsts.iter().cloned().map(|f| (job.type_idx, f)));
            }
        }
        firsts.sort();
        firsts.dedup();
        rep.extra("second_level_first_writes", json!(firsts.len()));
        let second = plan_second(&firsts, &costs);
        let r2 = run_jobs(&second, rep);
        jobs.extend(second);
        results.extend(r2);
        eprintln!("C20 timing: +second level {:.1}s ({} jobs)", t0.elapsed().as_secs_f64(), jobs.len());
    }

    let mut per_type: BTreeMap<usize, Acc> = BTreeMap::new();
    let mut int_ranges: BTreeMap<String, u64> = BTreeMap::new();
    let (mut tapes, mut values, mut bases, mut corruptions) = (0u64, 0u64, 0u64, 0u64);
    let mut samples: Vec<(usize, Value)> = Vec::new();
    for (job, acc) in jobs.iter().zip(results) {
        let Some(acc) = acc else {
            rep.machinery_error(&format!("no result for type {} {:?}", reg[job.type_idx].name, job.cfg));
            continue;
        };
        rep.evals(acc.evals);
        for (k, n) in &acc.counters {
            rep.outcome_n(k, *n);
        }
        rep.distinct_many(acc.distinct.iter().copied());
        for m in &acc.machinery {
            rep.machinery_error(m);
        }
        for f in &acc.findings {
            rep.violation(&f.sig, f.case.clone(), f.detail.clone());
        }
        for (sig, n) in &acc.sig_counts {
            let kept = acc.findings.iter().filter(|f| &f.sig == sig).count() as u64;
            for _ in kept..*n {
                rep.violation(sig, Value::Null, String::new());
            }
        }
        for (k, n) in &acc.int_ranges {
            *int_ranges.entry(k.clone()).or_insert(0) += n;
        }
        tapes += acc.tapes;
        values += acc.values;
        bases += acc.bases;
        corruptions += acc.corruptions;
        if let Some(s) = &acc.sample {
            samples.push((job.type_idx, s.clone()));
        }
        let t = per_type.entry(job.type_idx).or_default();
        t.tapes += acc.tapes;
        t.values += acc.values;
        t.bases += acc.bases;
        t.corruptions += acc.corruptions;
        t.max_nodes = t.max_nodes.max(acc.max_nodes);
    }
    // a few rendered cases: a primitive, a byte string, a struct, a large struct
    samples.sort_by_key(|(i, _)| *i);
    for want in ["u128", "Bytes32", "Coin", "Vec<(Bytes32, Vec<Coin>)>", "ProofOfSpace", "datalayer ProofOfInclusion"] {
        if let Some((_, s)) = samples.iter().find(|(i, _)| reg[*i].name == want) {
            rep.sample(s.clone());
        }
    }
    rep.extra("types", json!(reg.len()));
    rep.extra("types_with_documented_json_form_checked", json!(reg.iter().filter(|e| e.has_reference).count()));
    rep.extra("jobs", json!(jobs.len()));
    rep.extra("tapes_and_letters_run", json!(tapes));
    rep.extra("values_round_tripped", json!(values));
    rep.extra("corruption_bases", json!(bases));
    rep.extra("corruption_cases", json!(corruptions));
    rep.extra("integer_leaves_by_inferred_acceptance_range", json!(int_ranges));
    rep.extra(
        "per_type",
        Value::Object(per_type.iter().map(|(i, a)| (reg[*i].name.to_string(), json!({"tapes": a.tapes, "values": a.values, "corruption_bases": a.bases, "corruption_cases": a.corruptions, "max_json_nodes": a.max_nodes}))).collect()),
    );
    let cov = scan::coverage(&reg);
    rep.extra(
        "source_scan",
        json!({"types_with_json_conversion_found_in_repo": cov.found, "covered": cov.covered, "NOT_covered": cov.uncovered, "registry_lines_not_seen_by_scan": cov.unknown_to_scan}),
    );
    if !cov.uncovered.is_empty() {
        eprintln!("C20 note: types with a JSON conversion in /repo that are not in the registry: {:?}", cov.uncovered);
    }
}

fn replay(case: &Value) -> String {
    Python::initialize();
    let reg = registry();
    let name = case["type"].as_str().unwrap_or("");
    match reg.iter().find(|e| e.name == name) {
        Some(e) => (e.replay)(case),
        None => format!("unknown type {name}"),
    }
}

fn main() {
    if std::env::var("C20_WORKER").is_ok() {
        worker_main();
        return;
    }
    if std::env::var("C20_SELFTEST").is_ok() {
        mc::report::quiet_panics();
        std::process::exit(selftest::main());
    }
    mc::cli::main(PROP, "exploration", run, replay)
}
