//! Own JSON tree type: what a Python object denotes when it is read as JSON, conversion from / to
//! Python objects, equality of denotation, paths, single-node corruptions.
//!
//! Nothing here calls into /repo; the only foreign code is the Python C API through pyo3.

use pyo3::prelude::*;
use pyo3::types::{PyBool, PyDict, PyFloat, PyInt, PyList, PyString};
use serde_json::{Value, json};

#[derive(Clone, Debug, PartialEq)]
pub enum J {
    Null,
    Bool(bool),
    /// decimal rendering as given by Python's str(int): arbitrary width
    Int(String),
    Float(f64),
    Str(String),
    List(Vec<J>),
    /// insertion order of the Python dict is kept (only for rendering; equality ignores it)
    Dict(Vec<(String, J)>),
    /// anything that has no JSON meaning (tuple, bytes, object, dict with non-string key …)
    Other(String),
}

pub fn int<T: std::fmt::Display>(v: T) -> J {
    J::Int(v.to_string())
}

pub fn hex0x(b: &[u8]) -> J {
    J::Str(format!("0x{}", hex::encode(b)))
}

// ---------------------------------------------------------------------------------------------
// Python <-> J
// ---------------------------------------------------------------------------------------------

pub fn from_py(o: &Bound<'_, PyAny>) -> J {
    if o.is_none() {
        return J::Null;
    }
    if o.is_exact_instance_of::<PyBool>() {
        return J::Bool(o.extract::<bool>().unwrap_or(false));
    }
    if o.is_exact_instance_of::<PyInt>() {
        return match o.str() {
            Ok(s) => J::Int(s.to_string()),
            Err(_) => J::Other("int without str()".into()),
        };
    }
    if o.is_exact_instance_of::<PyFloat>() {
        return J::Float(o.extract::<f64>().unwrap_or(f64::NAN));
    }
    if o.is_exact_instance_of::<PyString>() {
        return match o.extract::<String>() {
            Ok(s) => J::Str(s),
            Err(_) => J::Other("str that is not UTF-8".into()),
        };
    }
    if let Ok(l) = o.cast_exact::<PyList>() {
        return J::List(l.iter().map(|x| from_py(&x)).collect());
    }
    if let Ok(d) = o.cast_exact::<PyDict>() {
        let mut out = Vec::with_capacity(d.len());
        for (k, v) in d.iter() {
            if !k.is_exact_instance_of::<PyString>() {
                return J::Other(format!("dict with a non-string key {}", repr(&k)));
            }
            out.push((k.extract::<String>().unwrap_or_default(), from_py(&v)));
        }
        return J::Dict(out);
    }
    J::Other(repr(o))
}

pub fn repr(o: &Bound<'_, PyAny>) -> String {
    let ty = o.get_type().name().map(|n| n.to_string()).unwrap_or_default();
    let r = o.repr().map(|r| r.to_string()).unwrap_or_else(|_| "<repr failed>".into());
    format!("{ty} {}", clip(&r, 200))
}

pub fn to_py<'py>(py: Python<'py>, j: &J) -> PyResult<Bound<'py, PyAny>> {
    Ok(match j {
        J::Null => py.None().into_bound(py),
        J::Bool(b) => PyBool::new(py, *b).to_owned().into_any(),
        J::Int(s) => match s.parse::<i64>() {
            Ok(v) => v.into_pyobject(py)?.into_any(),
            // arbitrary width: Python's own int(str)
            Err(_) => py.get_type::<PyInt>().call1((s.as_str(),))?,
        },
        J::Float(f) => PyFloat::new(py, *f).into_any(),
        J::Str(s) => PyString::new(py, s).into_any(),
        J::List(l) => {
            let out = PyList::empty(py);
            for x in l {
                out.append(to_py(py, x)?)?;
            }
            out.into_any()
        }
        J::Dict(d) => {
            let out = PyDict::new(py);
            for (k, v) in d {
                out.set_item(k, to_py(py, v)?)?;
            }
            out.into_any()
        }
        J::Other(s) => {
            return Err(pyo3::exceptions::PyValueError::new_err(format!("cannot build {s}")));
        }
    })
}

// ---------------------------------------------------------------------------------------------
// denotation
// ---------------------------------------------------------------------------------------------

/// the byte string a JSON string denotes under the hex convention ("0x" optional, any case)
pub fn hex_bytes(s: &str) -> Option<Vec<u8>> {
    let d = s.strip_prefix("0x").unwrap_or(s);
    if d.len() % 2 != 0 || !d.bytes().all(|c| c.is_ascii_hexdigit()) {
        return None;
    }
    hex::decode(d).ok()
}

/// integer denoted by a number-like node: bool as 0/1 (Python: True == 1), integral float
fn as_integer(j: &J) -> Option<String> {
    match j {
        J::Bool(b) => Some(if *b { "1".into() } else { "0".into() }),
        J::Int(s) => Some(s.clone()),
        J::Float(f) if f.is_finite() && f.fract() == 0.0 && f.abs() < 9.0e15 => Some(format!("{}", *f as i64)),
        _ => None,
    }
}

/// Equality of what two JSON trees say: dict order is irrelevant, a key holding null is the same
/// as an absent key, numbers compare by value, two strings are equal when they are identical or
/// denote the same byte string in the hex convention.
pub fn denote_eq(a: &J, b: &J) -> bool {
    match (a, b) {
        (J::Null, J::Null) => true,
        (J::Str(x), J::Str(y)) => {
            x == y
                || match (hex_bytes(x), hex_bytes(y)) {
                    (Some(p), Some(q)) => p == q,
                    _ => false,
                }
        }
        (J::List(x), J::List(y)) => x.len() == y.len() && x.iter().zip(y).all(|(p, q)| denote_eq(p, q)),
        (J::Dict(x), J::Dict(y)) => {
            let live = |d: &Vec<(String, J)>| {
                let mut v: Vec<(String, J)> = d.iter().filter(|(_, v)| *v != J::Null).cloned().collect();
                v.sort_by(|p, q| p.0.cmp(&q.0));
                v
            };
            let (x, y) = (live(x), live(y));
            x.len() == y.len() && x.iter().zip(&y).all(|(p, q)| p.0 == q.0 && denote_eq(&p.1, &q.1))
        }
        (J::Float(x), J::Float(y)) => x == y,
        (J::Other(_), _) | (_, J::Other(_)) => false,
        _ => match (as_integer(a), as_integer(b)) {
            (Some(x), Some(y)) => x == y,
            _ => false,
        },
    }
}

// ---------------------------------------------------------------------------------------------
// rendering
// ---------------------------------------------------------------------------------------------

pub fn clip(s: &str, n: usize) -> String {
    if s.len() <= n {
        return s.to_string();
    }
    let mut end = n;
    while !s.is_char_boundary(end) {
        end -= 1;
    }
    format!("{}..({} chars)", &s[..end], s.len())
}

pub fn render(j: &J) -> String {
    match j {
        J::Null => "None".into(),
        J::Bool(b) => if *b { "True".into() } else { "False".into() },
        J::Int(s) => s.clone(),
        J::Float(f) => format!("{f:?}"),
        J::Str(s) => format!("{:?}", clip(s, 140)),
        J::List(l) => format!("[{}]", l.iter().map(render).collect::<Vec<_>>().join(", ")),
        J::Dict(d) => format!("{{{}}}", d.iter().map(|(k, v)| format!("{k:?}: {}", render(v))).collect::<Vec<_>>().join(", ")),
        J::Other(s) => format!("<{s}>"),
    }
}

pub fn to_serde(j: &J) -> Value {
    match j {
        J::Null => Value::Null,
        J::Bool(b) => json!(b),
        J::Int(s) => match s.parse::<i64>() {
            Ok(v) => json!(v),
            Err(_) => match s.parse::<u64>() {
                Ok(v) => json!(v),
                Err(_) => json!({ "$int": s }),
            },
        },
        J::Float(f) => json!({ "$float": f }),
        J::Str(s) => json!(s),
        J::List(l) => Value::Array(l.iter().map(to_serde).collect()),
        J::Dict(d) => Value::Object(d.iter().map(|(k, v)| (k.clone(), to_serde(v))).collect()),
        J::Other(s) => json!({ "$other": s }),
    }
}

// ---------------------------------------------------------------------------------------------
// paths
// ---------------------------------------------------------------------------------------------

#[derive(Clone, Debug, PartialEq)]
pub enum Step {
    Key(String),
    Idx(usize),
}

pub type Path = Vec<Step>;

pub fn path_str(p: &Path) -> String {
    if p.is_empty() {
        return "<top>".into();
    }
    p.iter()
        .map(|s| match s {
            Step::Key(k) => format!(".{k}"),
            Step::Idx(i) => format!("[{i}]"),
        })
        .collect()
}

pub fn path_to_serde(p: &Path) -> Value {
    Value::Array(
        p.iter()
            .map(|s| match s {
                Step::Key(k) => json!(k),
                Step::Idx(i) => json!(i),
            })
            .collect(),
    )
}

pub fn path_from_serde(v: &Value) -> Path {
    v.as_array()
        .map(|a| {
            a.iter()
                .map(|s| match s {
                    Value::String(k) => Step::Key(k.clone()),
                    other => Step::Idx(other.as_u64().unwrap_or(0) as usize),
                })
                .collect()
        })
        .unwrap_or_default()
}

pub fn get<'a>(j: &'a J, p: &[Step]) -> Option<&'a J> {
    let Some((first, rest)) = p.split_first() else { return Some(j) };
    match (j, first) {
        (J::Dict(d), Step::Key(k)) => d.iter().find(|(n, _)| n == k).and_then(|(_, v)| get(v, rest)),
        (J::List(l), Step::Idx(i)) => l.get(*i).and_then(|v| get(v, rest)),
        _ => None,
    }
}

fn get_mut<'a>(j: &'a mut J, p: &[Step]) -> Option<&'a mut J> {
    let Some((first, rest)) = p.split_first() else { return Some(j) };
    match (j, first) {
        (J::Dict(d), Step::Key(k)) => d.iter_mut().find(|(n, _)| n == k).and_then(|(_, v)| get_mut(v, rest)),
        (J::List(l), Step::Idx(i)) => l.get_mut(*i).and_then(|v| get_mut(v, rest)),
        _ => None,
    }
}

/// every node in document order
pub fn all_paths(j: &J) -> Vec<Path> {
    fn walk(j: &J, cur: &mut Path, out: &mut Vec<Path>) {
        out.push(cur.clone());
        match j {
            J::Dict(d) => {
                for (k, v) in d {
                    cur.push(Step::Key(k.clone()));
                    walk(v, cur, out);
                    cur.pop();
                }
            }
            J::List(l) => {
                for (i, v) in l.iter().enumerate() {
                    cur.push(Step::Idx(i));
                    walk(v, cur, out);
                    cur.pop();
                }
            }
            _ => {}
        }
    }
    let mut out = Vec::new();
    walk(j, &mut Vec::new(), &mut out);
    out
}

/// the tree without its leaf values: which keys, how many list elements, which kind of leaf
pub fn shape(j: &J) -> String {
    match j {
        J::Null => "n".into(),
        J::Bool(_) => "b".into(),
        J::Int(_) => "i".into(),
        J::Float(_) => "f".into(),
        J::Str(_) => "s".into(),
        J::Other(_) => "?".into(),
        J::List(l) => format!("[{}]", l.iter().map(shape).collect::<Vec<_>>().join(",")),
        J::Dict(d) => format!("{{{}}}", d.iter().map(|(k, v)| format!("{k}:{}", shape(v))).collect::<Vec<_>>().join(",")),
    }
}

pub fn count_nodes(j: &J) -> usize {
    match j {
        J::List(l) => 1 + l.iter().map(count_nodes).sum::<usize>(),
        J::Dict(d) => 1 + d.iter().map(|(_, v)| count_nodes(v)).sum::<usize>(),
        _ => 1,
    }
}

// ---------------------------------------------------------------------------------------------
// corruptions
// ---------------------------------------------------------------------------------------------

/// One single-node change of a JSON tree. The class (first word of `name`) groups the outcome
/// histogram and the violation signatures.
#[derive(Clone, Debug, PartialEq)]
pub enum Op {
    /// remove the key from its parent dict
    DeleteKey,
    /// null in place of the value
    SetNone,
    /// string: last character removed (odd number of digits)
    HexDropDigit,
    /// string: first character after the prefix removed
    HexDropFirstDigit,
    /// string: one byte fewer (last two characters removed)
    HexDropByte,
    /// string: one byte more ("00" appended; "0x00" for the empty string)
    HexExtraByte,
    /// string: last character := 'g'
    HexBadLast,
    /// string: first character after the prefix := 'G'
    HexBadFirst,
    /// string: leading "0x" removed
    HexNoPrefix,
    /// string: digits in upper case (same bytes, other spelling)
    HexUpper,
    /// string: the "0x" prefix written twice (not a spelling of any byte string)
    HexDoublePrefix,
    /// string: "0x" alone (zero bytes)
    HexEmpty,
    /// integer / bool: another integer
    IntSet(String),
    /// integer: value + 0.5
    IntFloat,
    /// integer: its decimal rendering as a string
    IntString,
    ListRemoveFirst,
    ListRemoveLast,
    /// last element once more
    ListAddCopy,
    /// an element appended to an empty list
    ListAddToEmpty(J),
}

impl Op {
    pub fn class(&self) -> &'static str {
        match self {
            Op::DeleteKey => "missing-key",
            Op::SetNone => "none",
            Op::HexDropDigit | Op::HexDropFirstDigit | Op::HexBadLast | Op::HexBadFirst => "hex-digits",
            Op::HexDropByte | Op::HexExtraByte | Op::HexEmpty => "hex-length",
            Op::HexNoPrefix | Op::HexUpper | Op::HexDoublePrefix => "hex-spelling",
            Op::IntSet(_) => "int",
            Op::IntFloat | Op::IntString => "int-type",
            Op::ListRemoveFirst | Op::ListRemoveLast | Op::ListAddCopy | Op::ListAddToEmpty(_) => "list-count",
        }
    }
    pub fn name(&self) -> String {
        match self {
            Op::IntSet(s) => format!("int:={s}"),
            Op::ListAddToEmpty(j) => format!("ListAddToEmpty({})", render(j)),
            other => format!("{other:?}"),
        }
    }
    pub fn to_serde(&self) -> Value {
        match self {
            Op::IntSet(s) => json!({"IntSet": s}),
            Op::ListAddToEmpty(j) => json!({"ListAddToEmpty": to_serde(j)}),
            other => json!(format!("{other:?}")),
        }
    }
    pub fn from_serde(v: &Value) -> Option<Op> {
        if let Some(s) = v.get("IntSet").and_then(Value::as_str) {
            return Some(Op::IntSet(s.to_string()));
        }
        if let Some(x) = v.get("ListAddToEmpty") {
            return Some(Op::ListAddToEmpty(match x {
                Value::Null => J::Null,
                Value::String(s) => J::Str(s.clone()),
                other => J::Int(other.to_string()),
            }));
        }
        Some(match v.as_str()? {
            "DeleteKey" => Op::DeleteKey,
            "SetNone" => Op::SetNone,
            "HexDropDigit" => Op::HexDropDigit,
            "HexDropFirstDigit" => Op::HexDropFirstDigit,
            "HexDropByte" => Op::HexDropByte,
            "HexExtraByte" => Op::HexExtraByte,
            "HexBadLast" => Op::HexBadLast,
            "HexBadFirst" => Op::HexBadFirst,
            "HexNoPrefix" => Op::HexNoPrefix,
            "HexUpper" => Op::HexUpper,
            "HexDoublePrefix" => Op::HexDoublePrefix,
            "HexEmpty" => Op::HexEmpty,
            "IntFloat" => Op::IntFloat,
            "IntString" => Op::IntString,
            "ListRemoveFirst" => Op::ListRemoveFirst,
            "ListRemoveLast" => Op::ListRemoveLast,
            "ListAddCopy" => Op::ListAddCopy,
            _ => return None,
        })
    }
}

/// max, max+1, min, min-1 of every Rust integer width, and 0, 1, 2, -1
pub fn int_alphabet() -> Vec<String> {
    let mut out: Vec<String> = vec!["0".into(), "1".into(), "2".into(), "-1".into()];
    for k in [8u32, 16, 32, 64] {
        let half = 1i128 << (k - 1);
        let full = 1i128 << k;
        for v in [half - 1, half, full - 1, full, -half, -half - 1] {
            out.push(v.to_string());
        }
    }
    // width 128 does not fit i128 arithmetic
    out.push(i128::MAX.to_string()); // 2^127 - 1
    out.push((1u128 << 127).to_string()); // 2^127
    out.push(u128::MAX.to_string()); // 2^128 - 1
    out.push("340282366920938463463374607431768211456".into()); // 2^128
    out.push(i128::MIN.to_string()); // -2^127
    out.push("-170141183460469231731687303715884105729".into()); // -2^127 - 1
    out
}

fn add_half(s: &str) -> f64 {
    s.parse::<f64>().unwrap_or(0.0) + 0.5
}

/// every corruption of the node at `p` (document order of `ops` is the enumeration order)
pub fn ops_at(j: &J, p: &Path, alphabet: &[String]) -> Vec<Op> {
    let Some(node) = get(j, p) else { return Vec::new() };
    let mut ops = Vec::new();
    if matches!(p.last(), Some(Step::Key(_))) {
        ops.push(Op::DeleteKey);
    }
    // a struct without fields carries no information: null for it is not a corruption
    let empty_struct = matches!(node, J::Dict(d) if d.is_empty());
    if *node != J::Null && !empty_struct {
        ops.push(Op::SetNone);
    }
    match node {
        J::Str(s) => {
            let body = s.strip_prefix("0x").unwrap_or(s);
            if !s.is_empty() {
                ops.push(Op::HexDropDigit);
            }
            if !body.is_empty() && s.starts_with("0x") {
                ops.push(Op::HexDropFirstDigit);
            }
            if body.len() >= 2 {
                ops.push(Op::HexDropByte);
            }
            ops.push(Op::HexExtraByte);
            ops.push(Op::HexBadLast);
            if !body.is_empty() {
                ops.push(Op::HexBadFirst);
            }
            if s.starts_with("0x") {
                ops.push(Op::HexNoPrefix);
                ops.push(Op::HexDoublePrefix);
            }
            if body.bytes().any(|c| c.is_ascii_lowercase()) {
                ops.push(Op::HexUpper);
            }
            if s != "0x" {
                ops.push(Op::HexEmpty);
            }
        }
        J::Int(cur) => {
            for a in alphabet {
                if a != cur {
                    ops.push(Op::IntSet(a.clone()));
                }
            }
            ops.push(Op::IntFloat);
            ops.push(Op::IntString);
        }
        J::Bool(_) => {
            for a in ["0", "1", "2"] {
                ops.push(Op::IntSet(a.into()));
            }
        }
        J::List(l) => {
            if !l.is_empty() {
                ops.push(Op::ListRemoveFirst);
                ops.push(Op::ListAddCopy);
            } else {
                for e in [J::Null, J::Int("0".into()), J::Str("0x00".into())] {
                    ops.push(Op::ListAddToEmpty(e));
                }
            }
            if l.len() >= 2 {
                ops.push(Op::ListRemoveLast);
            }
        }
        _ => {}
    }
    ops
}

/// the tree with `op` applied at `p`; None when the operation does not fit the node
pub fn apply(j: &J, p: &Path, op: &Op) -> Option<J> {
    let mut out = j.clone();
    if *op == Op::DeleteKey {
        let (last, parent) = p.split_last()?;
        let Step::Key(k) = last else { return None };
        let J::Dict(d) = get_mut(&mut out, parent)? else { return None };
        let before = d.len();
        d.retain(|(n, _)| n != k);
        return (d.len() + 1 == before).then_some(out);
    }
    let node = get_mut(&mut out, p)?;
    let new = match (op, &*node) {
        (Op::SetNone, _) => J::Null,
        (Op::IntSet(s), J::Int(_) | J::Bool(_)) => J::Int(s.clone()),
        (Op::IntFloat, J::Int(s)) => J::Float(add_half(s)),
        (Op::IntString, J::Int(s)) => J::Str(s.clone()),
        (Op::ListRemoveFirst, J::List(l)) if !l.is_empty() => J::List(l[1..].to_vec()),
        (Op::ListRemoveLast, J::List(l)) if !l.is_empty() => J::List(l[..l.len() - 1].to_vec()),
        (Op::ListAddCopy, J::List(l)) if !l.is_empty() => {
            let mut l = l.clone();
            l.push(l[l.len() - 1].clone());
            J::List(l)
        }
        (Op::ListAddToEmpty(e), J::List(l)) if l.is_empty() => J::List(vec![e.clone()]),
        (_, J::Str(s)) => {
            let (prefix, body) = match s.strip_prefix("0x") {
                Some(b) => ("0x", b),
                None => ("", s.as_str()),
            };
            let chars: Vec<char> = body.chars().collect();
            let rebuilt = |c: Vec<char>| format!("{prefix}{}", c.into_iter().collect::<String>());
            J::Str(match op {
                Op::HexDropDigit => {
                    let mut c: Vec<char> = s.chars().collect();
                    c.pop()?;
                    c.into_iter().collect()
                }
                Op::HexDropFirstDigit => {
                    if prefix.is_empty() || chars.is_empty() {
                        return None;
                    }
                    rebuilt(chars[1..].to_vec())
                }
                Op::HexDropByte => {
                    if chars.len() < 2 {
                        return None;
                    }
                    rebuilt(chars[..chars.len() - 2].to_vec())
                }
                Op::HexExtraByte => {
                    if s.is_empty() {
                        "0x00".to_string()
                    } else {
                        format!("{s}00")
                    }
                }
                Op::HexBadLast => {
                    if s.is_empty() {
                        "0xg".to_string()
                    } else {
                        let mut c: Vec<char> = s.chars().collect();
                        c.pop();
                        c.push('g');
                        c.into_iter().collect()
                    }
                }
                Op::HexBadFirst => {
                    if chars.is_empty() {
                        return None;
                    }
                    let mut c = chars.clone();
                    c[0] = 'G';
                    rebuilt(c)
                }
                Op::HexNoPrefix => {
                    if prefix.is_empty() {
                        return None;
                    }
                    body.to_string()
                }
                Op::HexUpper => format!("{prefix}{}", body.to_ascii_uppercase()),
                Op::HexDoublePrefix => {
                    if prefix.is_empty() {
                        return None;
                    }
                    format!("0x{s}")
                }
                Op::HexEmpty => "0x".to_string(),
                _ => return None,
            })
        }
        _ => return None,
    };
    if new == *node {
        return None;
    }
    *node = new;
    Some(out)
}
