//! The hand-maintained list of types with a JSON-dict conversion: one line per type, its builder,
//! its hand-written letters and (for leaf types, combinators and Coin) the documented JSON form.
//! `scan.rs` compares the list with the sources at run time.

use crate::core::*;
use crate::jtree::{J, hex0x, int};
use arbitrary::{Arbitrary, Unstructured};
use chia_bls::{G1Element, G2Element, GTElement, SecretKey};
use chia_consensus::consensus_constants::ConsensusConstants;
use chia_consensus::owned_conditions::{OwnedSpendBundleConditions, OwnedSpendConditions};
use chia_datalayer as dl;
use chia_protocol::*;
use serde_json::Value;

pub struct TypeEntry {
    /// unique display name
    pub name: &'static str,
    /// directory name of the source crate under /repo/crates
    pub krate: &'static str,
    /// identifier the source scan reports for this type ("" = instantiation of a combinator)
    pub src: &'static str,
    pub has_reference: bool,
    pub tape_len: fn() -> usize,
    /// JSON tree of the zero-tape value (for scheduling only)
    pub base_json: fn() -> Option<J>,
    pub job: fn(&JobCfg) -> Acc,
    pub replay: fn(&Value) -> String,
}

// ---------------------------------------------------------------------------------------------
// documented JSON form of leaf types and combinators
// (tests/test_streamable.py, tests/test_coin.py: integers are integers, byte strings are
//  "0x" + lower-case hex, the empty variable-length byte string is "", None is null, tuples and
//  lists are lists, a struct is a dict keyed by field name)
// ---------------------------------------------------------------------------------------------

pub trait RefJson {
    fn rj(&self) -> J;
}

macro_rules! rj_int {
    ($($t:ty),*) => { $( impl RefJson for $t { fn rj(&self) -> J { int(*self) } } )* };
}
rj_int!(u8, i8, u16, i16, u32, i32, u64, i64, u128, i128);

impl RefJson for bool {
    fn rj(&self) -> J {
        J::Bool(*self)
    }
}
impl RefJson for String {
    fn rj(&self) -> J {
        J::Str(self.clone())
    }
}
impl RefJson for Bytes {
    fn rj(&self) -> J {
        if self.is_empty() { J::Str(String::new()) } else { hex0x(self.as_slice()) }
    }
}
impl<const N: usize> RefJson for BytesImpl<N> {
    fn rj(&self) -> J {
        hex0x(self.as_slice())
    }
}
impl RefJson for Program {
    fn rj(&self) -> J {
        if self.as_slice().is_empty() { J::Str(String::new()) } else { hex0x(self.as_slice()) }
    }
}
impl RefJson for G1Element {
    fn rj(&self) -> J {
        hex0x(&self.to_bytes())
    }
}
impl RefJson for G2Element {
    fn rj(&self) -> J {
        hex0x(&self.to_bytes())
    }
}
impl RefJson for GTElement {
    fn rj(&self) -> J {
        hex0x(&self.to_bytes())
    }
}
impl RefJson for SecretKey {
    fn rj(&self) -> J {
        hex0x(&self.to_bytes())
    }
}
impl<T: RefJson> RefJson for Option<T> {
    fn rj(&self) -> J {
        match self {
            None => J::Null,
            Some(v) => v.rj(),
        }
    }
}
impl<T: RefJson> RefJson for Vec<T> {
    fn rj(&self) -> J {
        J::List(self.iter().map(RefJson::rj).collect())
    }
}
impl<T: RefJson, const N: usize> RefJson for [T; N] {
    fn rj(&self) -> J {
        J::List(self.iter().map(RefJson::rj).collect())
    }
}
impl<A: RefJson, B: RefJson> RefJson for (A, B) {
    fn rj(&self) -> J {
        J::List(vec![self.0.rj(), self.1.rj()])
    }
}
impl<A: RefJson, B: RefJson, C: RefJson> RefJson for (A, B, C) {
    fn rj(&self) -> J {
        J::List(vec![self.0.rj(), self.1.rj(), self.2.rj()])
    }
}
// tests/test_coin.py::test_coin_to_json
impl RefJson for Coin {
    fn rj(&self) -> J {
        J::Dict(vec![
            ("parent_coin_info".into(), self.parent_coin_info.rj()),
            ("puzzle_hash".into(), self.puzzle_hash.rj()),
            ("amount".into(), self.amount.rj()),
        ])
    }
}

// ---------------------------------------------------------------------------------------------
// builders
// ---------------------------------------------------------------------------------------------

fn arb<T: for<'a> Arbitrary<'a>>(u: &mut Unstructured) -> arbitrary::Result<T> {
    T::arbitrary(u)
}

fn zero<T: for<'a> Arbitrary<'a>>() -> T {
    T::arbitrary(&mut Unstructured::new(&[0u8; 0])).expect("zero tape value")
}

fn none<T>() -> Vec<Letter<T>> {
    Vec::new()
}

type R<T> = arbitrary::Result<T>;

fn mk_gt(u: &mut Unstructured) -> R<GTElement> {
    let mut b = [0u8; 576];
    u.fill_buffer(&mut b)?;
    Ok(GTElement::from_bytes(&b))
}

fn mk_osc(u: &mut Unstructured) -> R<OwnedSpendConditions> {
    Ok(OwnedSpendConditions {
        coin_id: u.arbitrary()?,
        parent_id: u.arbitrary()?,
        puzzle_hash: u.arbitrary()?,
        coin_amount: u.arbitrary()?,
        height_relative: u.arbitrary()?,
        seconds_relative: u.arbitrary()?,
        before_height_relative: u.arbitrary()?,
        before_seconds_relative: u.arbitrary()?,
        birth_height: u.arbitrary()?,
        birth_seconds: u.arbitrary()?,
        create_coin: u.arbitrary()?,
        agg_sig_me: u.arbitrary()?,
        agg_sig_parent: u.arbitrary()?,
        agg_sig_puzzle: u.arbitrary()?,
        agg_sig_amount: u.arbitrary()?,
        agg_sig_puzzle_amount: u.arbitrary()?,
        agg_sig_parent_amount: u.arbitrary()?,
        agg_sig_parent_puzzle: u.arbitrary()?,
        flags: u.arbitrary()?,
        execution_cost: u.arbitrary()?,
        condition_cost: u.arbitrary()?,
        fingerprint: u.arbitrary()?,
    })
}

fn mk_osbc(u: &mut Unstructured) -> R<OwnedSpendBundleConditions> {
    // spends: same continue-flag scheme as arbitrary's Vec
    let mut spends = Vec::new();
    while u.arbitrary::<bool>()? {
        spends.push(mk_osc(u)?);
        if spends.len() >= 4 {
            break;
        }
    }
    Ok(OwnedSpendBundleConditions {
        spends,
        reserve_fee: u.arbitrary()?,
        height_absolute: u.arbitrary()?,
        seconds_absolute: u.arbitrary()?,
        before_height_absolute: u.arbitrary()?,
        before_seconds_absolute: u.arbitrary()?,
        agg_sig_unsafe: u.arbitrary()?,
        cost: u.arbitrary()?,
        removal_amount: u.arbitrary()?,
        addition_amount: u.arbitrary()?,
        validated_signature: u.arbitrary()?,
        execution_cost: u.arbitrary()?,
        condition_cost: u.arbitrary()?,
        num_atoms: u.arbitrary()?,
        num_pairs: u.arbitrary()?,
        heap_size: u.arbitrary()?,
    })
}

fn mk_constants(u: &mut Unstructured) -> R<ConsensusConstants> {
    Ok(ConsensusConstants {
        slot_blocks_target: u.arbitrary()?,
        min_blocks_per_challenge_block: u.arbitrary()?,
        max_sub_slot_blocks: u.arbitrary()?,
        num_sps_sub_slot: u.arbitrary()?,
        sub_slot_iters_starting: u.arbitrary()?,
        difficulty_constant_factor: u.arbitrary()?,
        difficulty_starting: u.arbitrary()?,
        difficulty_change_max_factor: u.arbitrary()?,
        sub_epoch_blocks: u.arbitrary()?,
        epoch_blocks: u.arbitrary()?,
        significant_bits: u.arbitrary()?,
        discriminant_size_bits: u.arbitrary()?,
        number_zero_bits_plot_filter_v1: u.arbitrary()?,
        number_zero_bits_plot_filter_v2: u.arbitrary()?,
        min_plot_size_v1: u.arbitrary()?,
        max_plot_size_v1: u.arbitrary()?,
        plot_size_v2: u.arbitrary()?,
        sub_slot_time_target: u.arbitrary()?,
        num_sp_intervals_extra: u.arbitrary()?,
        max_future_time2: u.arbitrary()?,
        number_of_timestamps: u.arbitrary()?,
        genesis_challenge: u.arbitrary()?,
        agg_sig_me_additional_data: u.arbitrary()?,
        agg_sig_parent_additional_data: u.arbitrary()?,
        agg_sig_puzzle_additional_data: u.arbitrary()?,
        agg_sig_amount_additional_data: u.arbitrary()?,
        agg_sig_puzzle_amount_additional_data: u.arbitrary()?,
        agg_sig_parent_amount_additional_data: u.arbitrary()?,
        agg_sig_parent_puzzle_additional_data: u.arbitrary()?,
        genesis_pre_farm_pool_puzzle_hash: u.arbitrary()?,
        genesis_pre_farm_farmer_puzzle_hash: u.arbitrary()?,
        max_vdf_witness_size: u.arbitrary()?,
        mempool_block_buffer: u.arbitrary()?,
        max_coin_amount: u.arbitrary()?,
        max_block_cost_clvm: u.arbitrary()?,
        cost_per_byte: u.arbitrary()?,
        weight_proof_threshold: u.arbitrary()?,
        weight_proof_recent_blocks: u.arbitrary()?,
        max_block_count_per_requests: u.arbitrary()?,
        blocks_cache_size: u.arbitrary()?,
        max_generator_ref_list_size: u.arbitrary()?,
        pool_sub_slot_iters: u.arbitrary()?,
        hard_fork_height: u.arbitrary()?,
        hard_fork2_height: u.arbitrary()?,
        soft_fork8_height: u.arbitrary()?,
        soft_fork9_height: u.arbitrary()?,
        plot_v1_phase_out_epoch_bits: u.arbitrary()?,
        plot_filter_128_height: u.arbitrary()?,
        plot_filter_64_height: u.arbitrary()?,
        plot_filter_32_height: u.arbitrary()?,
        min_plot_strength: u.arbitrary()?,
        max_plot_strength: u.arbitrary()?,
        plot_filter_v2_first_adjustment_height: u.arbitrary()?,
        plot_filter_v2_second_adjustment_height: u.arbitrary()?,
        plot_filter_v2_third_adjustment_height: u.arbitrary()?,
        testnet: u.arbitrary()?,
    })
}

// chia-datalayer: hand-written builders over the same tape
fn mk_tree_index(u: &mut Unstructured) -> R<dl::TreeIndex> {
    Ok(dl::TreeIndex(u.arbitrary()?))
}
fn mk_parent(u: &mut Unstructured) -> R<dl::Parent> {
    Ok(dl::Parent(if u.arbitrary::<bool>()? { Some(mk_tree_index(u)?) } else { None }))
}
fn mk_dl_hash(u: &mut Unstructured) -> R<dl::Hash> {
    Ok(dl::Hash(u.arbitrary()?))
}
fn mk_key_id(u: &mut Unstructured) -> R<dl::KeyId> {
    Ok(dl::KeyId(u.arbitrary()?))
}
fn mk_value_id(u: &mut Unstructured) -> R<dl::ValueId> {
    Ok(dl::ValueId(u.arbitrary()?))
}
fn mk_side(u: &mut Unstructured) -> R<dl::Side> {
    Ok(if u.arbitrary::<bool>()? { dl::Side::Right } else { dl::Side::Left })
}
fn mk_internal_node(u: &mut Unstructured) -> R<dl::InternalNode> {
    Ok(dl::InternalNode { hash: mk_dl_hash(u)?, parent: mk_parent(u)?, left: mk_tree_index(u)?, right: mk_tree_index(u)? })
}
fn mk_leaf_node(u: &mut Unstructured) -> R<dl::LeafNode> {
    Ok(dl::LeafNode { hash: mk_dl_hash(u)?, parent: mk_parent(u)?, key: mk_key_id(u)?, value: mk_value_id(u)? })
}
fn mk_poi_layer(u: &mut Unstructured) -> R<dl::ProofOfInclusionLayer> {
    Ok(dl::ProofOfInclusionLayer { other_hash_side: mk_side(u)?, other_hash: mk_dl_hash(u)?, combined_hash: mk_dl_hash(u)? })
}
fn mk_poi(u: &mut Unstructured) -> R<dl::ProofOfInclusion> {
    let node_hash = mk_dl_hash(u)?;
    let mut layers = Vec::new();
    while u.arbitrary::<bool>()? {
        layers.push(mk_poi_layer(u)?);
        if layers.len() >= 4 {
            break;
        }
    }
    Ok(dl::ProofOfInclusion { node_hash, layers })
}

// ---------------------------------------------------------------------------------------------
// hand-written letters
// ---------------------------------------------------------------------------------------------

macro_rules! int_letters {
    ($f:ident, $t:ty) => {
        fn $f() -> Vec<Letter<$t>> {
            vec![letter("MIN", <$t>::MIN), letter("MAX", <$t>::MAX), letter("one", 1), letter("MAX-1", <$t>::MAX - 1), letter("MIN+1", <$t>::MIN + 1)]
        }
    };
}
int_letters!(l_u8, u8);
int_letters!(l_i8, i8);
int_letters!(l_u16, u16);
int_letters!(l_i16, i16);
int_letters!(l_u32, u32);
int_letters!(l_i32, i32);
int_letters!(l_u64, u64);
int_letters!(l_i64, i64);
int_letters!(l_u128, u128);
int_letters!(l_i128, i128);

fn string_letters() -> Vec<Letter<String>> {
    vec![
        letter("abc", "abc".to_string()),
        letter("utf8", "åäöüî €".to_string()),
        letter("looks like hex", "0xAB".to_string()),
        letter("looks like hex, no prefix", "ab".to_string()),
        letter("prefix only", "0x".to_string()),
    ]
}

fn bytes_letters() -> Vec<Letter<Bytes>> {
    vec![letter("one zero byte", Bytes::new(vec![0])), letter("aabb", Bytes::new(vec![0xaa, 0xbb])), letter("300 bytes", Bytes::new((0..300u32).map(|i| i as u8).collect()))]
}

fn bytes32_letters() -> Vec<Letter<Bytes32>> {
    let mut ramp = [0u8; 32];
    for (i, b) in ramp.iter_mut().enumerate() {
        *b = (i * 8 + 7) as u8;
    }
    vec![letter("all ff", Bytes32::new([0xff; 32])), letter("ramp", Bytes32::new(ramp))]
}

fn deep_program(n: usize) -> Program {
    let mut b = vec![0xffu8; n];
    b.extend(std::iter::repeat(0x80u8).take(n + 1));
    Program::new(b.into())
}

fn program_letters() -> Vec<Letter<Program>> {
    vec![
        letter("nil", Program::new(vec![0x80].into())),
        letter("atom 01", Program::new(vec![0x01].into())),
        letter("pair", Program::new(vec![0xff, 0x01, 0x80].into())),
        letter("atom abc", Program::new(vec![0x83, 0x61, 0x62, 0x63].into())),
        letter("atom 64 bytes", Program::new([vec![0xc0, 0x40], vec![0x5a; 64]].concat().into())),
        letter("list of 3", Program::new(vec![0xff, 0x01, 0xff, 0x02, 0xff, 0x03, 0x80].into())),
        letter("left spine 200", deep_program(200)),
    ]
}

pub const QUALITY_VECTORS: [&str; 7] = ["pool-2-0-0", "contract-2-0-0", "contract-3-0-0", "pool-3-0-0", "pool-2-1-0", "pool-2-0-1", "pool-2-1000-7"];
const QUALITY_DIR: &str = "/repo/crates/chia-protocol/quality-string-tests";
/// plot public key of the recorded proofs (proof_of_space.rs, test_quality_string)
const QUALITY_PLOT_PK: &str = "a9c96f979d895b9ded08907ecd775abf889d51219bb7776dd73fdbac6b0dcc063c72c9e10d96776f486bbd1416b54533";

fn g1_from_hex(h: &str) -> Option<G1Element> {
    let b: [u8; 48] = hex::decode(h).ok()?.try_into().ok()?;
    G1Element::from_bytes(&b).ok()
}

/// a recorded valid version-2 proof of space (hash() works on these)
fn quality_vector(name: &str) -> Option<ProofOfSpace> {
    let txt = std::fs::read_to_string(format!("{QUALITY_DIR}/{name}.txt")).ok()?;
    let l: Vec<&str> = txt.lines().map(|line| line.split('#').next().unwrap_or(line).trim()).filter(|s| !s.is_empty()).collect();
    if l.len() != 7 {
        return None;
    }
    let challenge: [u8; 32] = hex::decode(l[0]).ok()?.try_into().ok()?;
    let strength: u8 = l[1].parse().ok()?;
    let plot_index: u16 = l[2].parse().ok()?;
    let meta_group: u8 = l[3].parse().ok()?;
    let (pk, ph) = if l[4].len() == 96 {
        (Some(g1_from_hex(l[4])?), None)
    } else {
        let ph: [u8; 32] = hex::decode(l[4]).ok()?.try_into().ok()?;
        (None, Some(Bytes32::new(ph)))
    };
    let proof = hex::decode(l[5]).ok()?;
    Some(ProofOfSpace::new(Bytes32::new(challenge), pk, ph, g1_from_hex(QUALITY_PLOT_PK)?, 1, plot_index, meta_group, strength, 0, Bytes::from(proof)))
}

fn v1_pos(pk: bool, ph: bool, size: u8, proof: &[u8]) -> ProofOfSpace {
    ProofOfSpace::new(Bytes32::new([0x11; 32]), pk.then(G1Element::default), ph.then(|| Bytes32::new([0x22; 32])), G1Element::default(), 0, 0, 0, 0, size, Bytes::from(proof.to_vec()))
}

fn pos_letters() -> Vec<Letter<ProofOfSpace>> {
    let mut out = vec![
        letter("v1 pool-pk", v1_pos(true, false, 32, &[0x80])),
        letter("v1 contract", v1_pos(false, true, 28, &[1, 2, 3])),
        letter("v1 both", v1_pos(true, true, 38, &[])),
        letter("v1 neither", v1_pos(false, false, 10, &[0xff; 8])),
    ];
    for n in QUALITY_VECTORS {
        if let Some(p) = quality_vector(n) {
            out.push(letter(&format!("v2 {n}"), p));
        }
    }
    out
}

fn fullblock_letters() -> Vec<Letter<FullBlock>> {
    let base: FullBlock = zero();
    let mut out = Vec::new();
    let mut b = base.clone();
    b.transactions_generator = Some(Program::new(vec![0xff, 0x01, 0x80].into()));
    b.transactions_generator_ref_list = vec![1, 2, 0xffff_ffff];
    out.push(letter("v0 generator, three refs", b));
    let mut b = base.clone();
    b.version = 1;
    b.transactions_generator_buffer = Some(vec![0xff, 0x01, 0x80]);
    out.push(letter("v1 buffer 3 bytes", b));
    let mut b = base.clone();
    b.version = 1;
    b.transactions_generator_buffer = Some(vec![]);
    out.push(letter("v1 empty buffer", b));
    if let Some(p) = quality_vector("pool-2-0-0") {
        let mut b = base;
        b.reward_chain_block.proof_of_space = p;
        out.push(letter("v0, valid v2 proof of space", b));
    }
    out
}

fn rcb_letters() -> Vec<Letter<RewardChainBlock>> {
    let mut out = Vec::new();
    if let Some(p) = quality_vector("contract-2-0-0") {
        let mut v: RewardChainBlock = zero();
        v.proof_of_space = p;
        out.push(letter("valid v2 proof of space", v));
    }
    out
}

fn vec_u32_letters() -> Vec<Letter<Vec<u32>>> {
    vec![letter("three", vec![1, 2, 3]), letter("extremes", vec![0, u32::MAX, 1 << 31])]
}
fn vec3_letters() -> Vec<Letter<Vec<Vec<Vec<u32>>>>> {
    vec![letter("ragged", vec![vec![], vec![vec![]], vec![vec![1], vec![2, 3]], vec![vec![u32::MAX, 0, 7]]])]
}
fn vec_opt_string_letters() -> Vec<Letter<Vec<Option<String>>>> {
    vec![letter("mixed", vec![None, Some(String::new()), Some("x".into()), None])]
}
fn vec_pairs_letters() -> Vec<Letter<Vec<(Bytes32, Vec<Coin>)>>> {
    let c = |a: u64| Coin::new(Bytes32::new([1; 32]), Bytes32::new([2; 32]), a);
    vec![letter("two entries", vec![(Bytes32::new([3; 32]), vec![]), (Bytes32::new([4; 32]), vec![c(0), c(u64::MAX)])])]
}
fn vec_triples_letters() -> Vec<Letter<Vec<(Bytes32, u64, Option<Bytes>)>>> {
    vec![letter("create_coin style", vec![(Bytes32::new([5; 32]), u64::MAX, None), (Bytes32::new([6; 32]), 1, Some(Bytes::new(vec![]))), (Bytes32::new([7; 32]), 0, Some(Bytes::new(vec![9, 9])))])]
}
fn coin_letters() -> Vec<Letter<Coin>> {
    // tests/test_coin.py
    vec![letter("amount 1000000", Coin::new(Bytes32::new([0x11; 32]), Bytes32::new([0x22; 32]), 1_000_000)), letter("amount max", Coin::new(Bytes32::new([0x11; 32]), Bytes32::new([0x33; 32]), u64::MAX))]
}
fn osc_letters() -> Vec<Letter<OwnedSpendConditions>> {
    let pk = G1Element::default();
    let v = OwnedSpendConditions {
        coin_id: Bytes32::new([1; 32]),
        parent_id: Bytes32::new([2; 32]),
        puzzle_hash: Bytes32::new([3; 32]),
        coin_amount: u64::MAX,
        height_relative: Some(u32::MAX),
        seconds_relative: Some(0),
        before_height_relative: None,
        before_seconds_relative: Some(u64::MAX),
        birth_height: Some(1),
        birth_seconds: None,
        create_coin: vec![(Bytes32::new([5; 32]), u64::MAX, None), (Bytes32::new([6; 32]), 1, Some(Bytes::new(vec![]))), (Bytes32::new([7; 32]), 0, Some(Bytes::new(vec![9, 9])))],
        agg_sig_me: vec![(pk, Bytes::new(vec![0x6d, 0x73, 0x67])), (pk, Bytes::new(vec![]))],
        flags: u32::MAX,
        fingerprint: Bytes::new(vec![0xaa, 0xbb]),
        ..Default::default()
    };
    vec![letter("every kind of field set", v)]
}

// ---------------------------------------------------------------------------------------------
// the list
// ---------------------------------------------------------------------------------------------

fn base_json_of<T: Subject>(spec: &Spec<T>) -> Option<J> {
    use pyo3::Python;
    let n = tape_len_of(spec.build);
    let v = build(spec, &Src::Tape { len: n, writes: vec![] })?;
    Python::attach(|py| mc::report::catch(|| v.to_json_dict(py).ok().map(|o| crate::jtree::from_py(o.bind(py)))).ok().flatten())
}

macro_rules! entry {
    ($name:expr, $krate:expr, $src:expr, $t:ty, $gen:expr, $letters:expr, $refj:expr) => {
        TypeEntry {
            name: $name,
            krate: $krate,
            src: $src,
            has_reference: { let r: Option<fn(&$t) -> J> = $refj; r.is_some() },
            tape_len: || tape_len_of::<$t>($gen),
            base_json: || base_json_of::<$t>(&Spec { name: $name, build: $gen, letters: $letters, reference: $refj }),
            job: |cfg| run_job::<$t>(&Spec { name: $name, build: $gen, letters: $letters, reference: $refj }, cfg),
            replay: |case| replay_case::<$t>(&Spec { name: $name, build: $gen, letters: $letters, reference: $refj }, case),
        }
    };
}
fn rj_of<T: RefJson>(v: &T) -> J {
    v.rj()
}
/// chia-protocol struct / enum with a derived Arbitrary and a derived JSON conversion
macro_rules! p {
    ($t:ident) => {
        entry!(stringify!($t), "chia-protocol", stringify!($t), $t, arb::<$t>, none::<$t>, None)
    };
    ($t:ident, $letters:expr) => {
        entry!(stringify!($t), "chia-protocol", stringify!($t), $t, arb::<$t>, $letters, None)
    };
}
/// leaf type / combinator instantiation with a documented JSON form
macro_rules! c {
    ($name:expr, $krate:expr, $src:expr, $t:ty) => {
        entry!($name, $krate, $src, $t, arb::<$t>, none::<$t>, Some(rj_of::<$t>))
    };
    ($name:expr, $krate:expr, $src:expr, $t:ty, $letters:expr) => {
        entry!($name, $krate, $src, $t, arb::<$t>, $letters, Some(rj_of::<$t>))
    };
}
macro_rules! d {
    ($name:expr, $src:expr, $t:ty, $gen:expr) => {
        entry!($name, "chia-datalayer", $src, $t, $gen, none::<$t>, None)
    };
}

pub fn registry() -> Vec<TypeEntry> {
    vec![
        // chia-traits: primitives and combinators
        c!("u8", "chia-traits", "u8", u8, l_u8),
        c!("i8", "chia-traits", "i8", i8, l_i8),
        c!("u16", "chia-traits", "u16", u16, l_u16),
        c!("i16", "chia-traits", "i16", i16, l_i16),
        c!("u32", "chia-traits", "u32", u32, l_u32),
        c!("i32", "chia-traits", "i32", i32, l_i32),
        c!("u64", "chia-traits", "u64", u64, l_u64),
        c!("i64", "chia-traits", "i64", i64, l_i64),
        c!("u128", "chia-traits", "u128", u128, l_u128),
        c!("i128", "chia-traits", "i128", i128, l_i128),
        c!("bool", "chia-traits", "bool", bool),
        c!("String", "chia-traits", "String", String, string_letters),
        c!("Option<u64>", "chia-traits", "Option", Option<u64>),
        c!("Option<Bytes32>", "chia-traits", "", Option<Bytes32>),
        c!("Vec<u32>", "chia-traits", "Vec", Vec<u32>, vec_u32_letters),
        c!("Vec<Vec<Vec<u32>>>", "chia-traits", "", Vec<Vec<Vec<u32>>>, vec3_letters),
        c!("Vec<Option<String>>", "chia-traits", "", Vec<Option<String>>, vec_opt_string_letters),
        c!("(u8, u32)", "chia-traits", "tuple2", (u8, u32)),
        c!("(u128, i128)", "chia-traits", "", (u128, i128)),
        c!("(u32, bool, i8)", "chia-traits", "tuple3", (u32, bool, i8)),
        c!("(Bytes32, u64, Option<Bytes>)", "chia-traits", "", (Bytes32, u64, Option<Bytes>)),
        c!("[u16; 3]", "chia-traits", "array", [u16; 3]),
        c!("[i64; 2]", "chia-traits", "", [i64; 2]),
        c!("Vec<(Bytes32, Vec<Coin>)>", "chia-traits", "", Vec<(Bytes32, Vec<Coin>)>, vec_pairs_letters),
        c!("Vec<(Bytes32, u64, Option<Bytes>)>", "chia-traits", "", Vec<(Bytes32, u64, Option<Bytes>)>, vec_triples_letters),
        // chia-protocol: byte strings and CLVM programs
        c!("Bytes", "chia-protocol", "Bytes", Bytes, bytes_letters),
        c!("Bytes32", "chia-protocol", "BytesImpl", Bytes32, bytes32_letters),
        c!("BytesImpl<4>", "chia-protocol", "", BytesImpl<4>),
        c!("Bytes48", "chia-protocol", "", Bytes48),
        c!("Bytes100", "chia-protocol", "", Bytes100),
        c!("Program", "chia-protocol", "Program", Program, program_letters),
        // chia-bls
        c!("G1Element", "chia-bls", "PublicKey", G1Element),
        c!("G2Element", "chia-bls", "Signature", G2Element),
        c!("SecretKey", "chia-bls", "SecretKey", SecretKey),
        entry!("GTElement", "chia-bls", "GTElement", GTElement, mk_gt, none::<GTElement>, Some(rj_of::<GTElement>)),
        // chia-protocol: derived conversions
        entry!("Coin", "chia-protocol", "Coin", Coin, arb::<Coin>, coin_letters, Some(rj_of::<Coin>)),
        p!(ProofOfSpace, pos_letters),
        p!(FullBlock, fullblock_letters),
        p!(UnfinishedBlock),
        p!(SubEpochSummary),
        p!(SubEpochData),
        p!(RewardChainBlock, rcb_letters),
        p!(RewardChainBlockUnfinished),
        p!(ChallengeBlockInfo),
        p!(HeaderBlock),
        p!(SubSlotData),
        p!(RespondBlocks),
        p!(BlockRecord),
        p!(Message),
        p!(Handshake),
        p!(ClassgroupElement),
        p!(CoinRecord),
        p!(CoinSpend),
        p!(CoinState),
        p!(EndOfSubSlotBundle),
        p!(FeeRate),
        p!(FeeEstimate),
        p!(FeeEstimateGroup),
        p!(TransactionsInfo),
        p!(FoliageTransactionBlock),
        p!(FoliageBlockData),
        p!(Foliage),
        p!(NewPeak),
        p!(NewTransaction),
        p!(RequestTransaction),
        p!(RespondTransaction),
        p!(RequestProofOfWeight),
        p!(RespondProofOfWeight),
        p!(RequestBlock),
        p!(RejectBlock),
        p!(RequestBlocks),
        p!(RejectBlocks),
        p!(RespondBlock),
        p!(NewUnfinishedBlock),
        p!(RequestUnfinishedBlock),
        p!(RespondUnfinishedBlock),
        p!(NewSignagePointOrEndOfSubSlot),
        p!(RequestSignagePointOrEndOfSubSlot),
        p!(RespondSignagePoint),
        p!(RespondEndOfSubSlot),
        p!(RequestMempoolTransactions),
        p!(NewCompactVDF),
        p!(RequestCompactVDF),
        p!(RespondCompactVDF),
        p!(RequestPeers),
        p!(RespondPeers),
        p!(NewUnfinishedBlock2),
        p!(RequestUnfinishedBlock2),
        p!(PartialProof),
        p!(TimestampedPeerInfo),
        p!(PoolTarget),
        p!(ChallengeChainSubSlot),
        p!(InfusedChallengeChainSubSlot),
        p!(RewardChainSubSlot),
        p!(SubSlotProofs),
        p!(SpendBundle),
        p!(UnfinishedHeaderBlock),
        p!(VDFInfo),
        p!(VDFProof),
        p!(RequestPuzzleSolution),
        p!(PuzzleSolutionResponse),
        p!(RespondPuzzleSolution),
        p!(RejectPuzzleSolution),
        p!(SendTransaction),
        p!(TransactionAck),
        p!(NewPeakWallet),
        p!(RequestBlockHeader),
        p!(RespondBlockHeader),
        p!(RejectHeaderRequest),
        p!(RequestRemovals),
        p!(RespondRemovals),
        p!(RejectRemovalsRequest),
        p!(RequestAdditions),
        p!(RespondAdditions),
        p!(RejectAdditionsRequest),
        p!(RespondBlockHeaders),
        p!(RejectBlockHeaders),
        p!(RequestBlockHeaders),
        p!(RequestHeaderBlocks),
        p!(RejectHeaderBlocks),
        p!(RespondHeaderBlocks),
        p!(RegisterForPhUpdates),
        p!(RespondToPhUpdates),
        p!(RegisterForCoinUpdates),
        p!(RespondToCoinUpdates),
        p!(CoinStateUpdate),
        p!(RequestChildren),
        p!(RespondChildren),
        p!(RequestSesInfo),
        p!(RespondSesInfo),
        p!(RequestFeeEstimates),
        p!(RespondFeeEstimates),
        p!(RequestRemovePuzzleSubscriptions),
        p!(RespondRemovePuzzleSubscriptions),
        p!(RequestRemoveCoinSubscriptions),
        p!(RespondRemoveCoinSubscriptions),
        p!(CoinStateFilters),
        p!(RequestPuzzleState),
        p!(RespondPuzzleState),
        p!(RejectPuzzleState),
        p!(RequestCoinState),
        p!(RespondCoinState),
        p!(RejectCoinState),
        p!(RemovedMempoolItem),
        p!(MempoolItemsAdded),
        p!(MempoolItemsRemoved),
        p!(RequestCostInfo),
        p!(RespondCostInfo),
        p!(SubEpochChallengeSegment),
        p!(SubEpochSegments),
        p!(RecentChainData),
        p!(ProofBlockHeader),
        p!(WeightProof),
        p!(ProtocolMessageTypes),
        p!(NodeType),
        p!(RejectStateReason),
        p!(MempoolRemoveReason),
        // chia-consensus (no Arbitrary feature): hand-written builders
        entry!("OwnedSpendConditions", "chia-consensus", "OwnedSpendConditions", OwnedSpendConditions, mk_osc, osc_letters, None),
        entry!("OwnedSpendBundleConditions", "chia-consensus", "OwnedSpendBundleConditions", OwnedSpendBundleConditions, mk_osbc, none::<OwnedSpendBundleConditions>, None),
        entry!("ConsensusConstants", "chia-consensus", "ConsensusConstants", ConsensusConstants, mk_constants, none::<ConsensusConstants>, None),
        // chia-datalayer: hand-written builders
        d!("datalayer TreeIndex", "TreeIndex", dl::TreeIndex, mk_tree_index),
        d!("datalayer Parent", "Parent", dl::Parent, mk_parent),
        d!("datalayer Hash", "Hash", dl::Hash, mk_dl_hash),
        d!("datalayer KeyId", "KeyId", dl::KeyId, mk_key_id),
        d!("datalayer ValueId", "ValueId", dl::ValueId, mk_value_id),
        d!("datalayer InternalNode", "InternalNode", dl::InternalNode, mk_internal_node),
        d!("datalayer LeafNode", "LeafNode", dl::LeafNode, mk_leaf_node),
        d!("datalayer ProofOfInclusionLayer", "ProofOfInclusionLayer", dl::ProofOfInclusionLayer, mk_poi_layer),
        d!("datalayer ProofOfInclusion", "ProofOfInclusion", dl::ProofOfInclusion, mk_poi),
        d!("datalayer Side", "Side", dl::Side, mk_side),
    ]
}
