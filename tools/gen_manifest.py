#!/usr/bin/env python3
"""Generates /verif/MANIFEST.json from the table below (kept valid against /root/.vp/MANIFEST.schema.json)."""
import json, subprocess, sys

HOOK_COMMITS = ["f2c46aac", "b1a8fb5b", "bbcc6d5a"]
FIX_COMMITS = ["3d29a15d", "ccb20ab7", "6a4c8968", "8f04a981", "afa8cd74", "2d15dc96", "38b52e89"]

# id -> (engine, level category, technique, level text, level note, design ref)
CHECKS = {
 "C11": ("E", "exploration",
         "bounded-exhaustive enumeration of integer values and atoms against a reference codec",
         "Every encoder/decoder site is run on every u64 length-class boundary +-2, the dense range [0,2^27) (quick) / [0,2^32) (thorough), 45 boundary integers through an encoder keeping the trait's default integer routines, every boundary of i8..i128/u8..u128 and all 12.2M atoms of length <= 10 over {00,01,7f,80,ff}; the oracle is the harness's own minimal two's-complement codec. Exhaustive inside those sets; values above 2^32 away from boundaries are not covered.",
         "trusts: harness codec mc::sx::enc_*; sha2 crate; clvmr's Allocator for holding atoms",
         "DESIGN.md#c11"),
 "C18": ("H", "model_checking",
         "explicit-state BFS over operation histories of the real MerkleBlob with exact state keys, map + independent root recomputation as reference",
         "Every operation sequence up to depth 6 over 3 keys (quick) / depth 6 over 4 keys (thorough) from the alphabet {insert at Auto/AsRoot/every block index and side, insert/upsert with a hash owned by another key, upsert, delete, every batch of <=2 (quick) / <=3 (thorough) entries, calculate_lazy_hashes, reload} is applied to the real blob; states are deduplicated on (blob bytes, free-list order). Transition oracle: Ok => contents equal the plain map after the op, Err => bytes/free list/contents unchanged, no panic. State invariant: check_integrity, reload equivalence, root == own bottom-up recomputation, every key has a proof that folds (own SHA-256) to the root.",
         "trusts: hook H3 (free-list order), get_node/get_keys_values as observation of contents; Err is accepted for any operation as long as nothing changed (the property does not say which operations must succeed)",
         "DESIGN.md#c18"),
 "C15": ("S", "model_checking",
         "controlled-scheduler exploration of real threads at lock granularity (preemption-bounded DFS, unbounded in thorough) + exhaustive cache-history BFS + bounded-exhaustive input enumeration",
         "S: 9 scenarios of 2-3 real threads on a shared BlsCache (capacity 1,2) run under a scheduler that owns every lock acquisition through hook H1; every interleaving with <=3 preemptions (quick) / every interleaving (thorough, ~20k schedules) is executed, plus in thorough two 3-verifier scenarios with pairwise overlapping lists bounded at 3 preemptions; per schedule: each thread's verdict equals the cache-free verdict, len<=capacity at every scheduling point, no deadlock, the warmed cache still answers correctly. H: every history of <=3/<=4 operations from a 17-letter alphabet (verify valid/invalid over pairs sharing key or message, update, evict) on capacities 1,2,3. E: every pair list of length <=2/<=3 over 5 letters (incl. the infinity key and the empty message) x 6 signature kinds through verify, aggregate_verify, aggregate_verify_gt and the cache (cold/warm, 3 capacities).",
         "trusts: hook H1 reports every acquisition/release of the cache mutex; no shared state outside that mutex (unsafe_code denied in the workspace outside blst FFI); BLS signature uniqueness for the expected verdict",
         "DESIGN.md#c15"),
 "C01": ("E", "exploration",
         "bounded-exhaustive enumeration of generator outputs against an independent reference model of the condition rules",
         "Every generator output of four stated layers (single condition: 52 opcode atoms x all argument lists of length <=2/<=3 over 27 letters x terminator; all 64 message modes with type-correct and singly-corrupted commitments; 17 integer atoms through every integer-typed condition and CREATE_COIN memo shapes; spend A with every ordered pair of ~107 interaction letters alone or with a child (listed after or before it) / sibling / double-spend carrying one letter; every list of 1-2 (thorough 3) spends over boundary amounts x RESERVE_FEE x 0-3 outputs with totals crossing 2^64; every ordered triple of locks inside each after/before family; a coin whose parent id equals its puzzle hash messaging itself under every pair of commitment modes; structural defects at all 5 list positions; the 1024-announcement and 6000-spend caps; thorough adds every ordered triple over one representative letter per condition kind) is run through the real parse_spends with both visitors and the flag subsets of {NO_UNKNOWN_CONDS, STRICT_ARGS_COUNT, COST_CONDITIONS} and through the reference model written from the rule table (DESIGN.md Appendix A); verdict, canonical summary (incl. eligibility flags under the mempool visitor) and condition cost must be equal. 14M (quick) / ~90M (thorough) evaluations, exhaustive inside the stated alphabets.",
         "trusts: the reference model mc::refcond (reviewable against Appendix A); valid public keys = the harness's own three keys; signatures are not validated here (C05); conditions interacting in groups of more than 3, messages >1025 bytes and most of the 65536 two-byte opcodes are outside the alphabet",
         "DESIGN.md#c01"),
 "C03": ("E", "exploration",
         "bounded-exhaustive enumeration of lock/birth condition multisets x chain-state grid against per-assertion arithmetic semantics",
         "Every multiset of <=3 (quick) / <=4 (thorough) conditions over the 10 lock/birth kinds x 8 argument atoms (negative, 0, 1, 2, 2^32-1, 2^32, 2^64-1, 2^64) on one coin is parsed by the real parse_spends (both visitors), converted to owned conditions and checked by the real check_time_locks(nowrap) on all 576 chain states of a boundary grid; the verdict must equal the conjunction of the original assertions evaluated literally in u128 with saturation. Bundles rejected at parse time must contain an assertion that can never hold or be unsatisfiable as a conjunction (decided exactly per dimension); every multiset of <=2 on an ephemeral coin (its spend listed after and before the creating spend) must be rejected iff it contains a relative/birth condition (tautological forms included); two independent coins with one assertion each (all 6400 ordered pairs) are checked against each coin's own record.",
         "trusts: the per-assertion definitions in c03.rs (after: now >= bound, before: now < bound, birth: equality, relative bound = min(confirmed+arg, max)); locks spread over several spends and the legacy wrapping mode are not covered",
         "DESIGN.md#c03"),
 "C04": ("E", "exploration",
         "bounded-exhaustive enumeration of opcode cost classes x repetition x fork rules x all entry points with limit sweep at every partial-sum boundary",
         "For every cost letter (each of the 35 known opcodes as a valid stand-alone group, all 512 two-byte opcodes over the 256 cost slots x high byte {01,ff}, 3 unknown shapes, SOFTFORK with 3 arguments) x repetition 1..3 (both tiers) x COST_CONDITIONS on/off x 1-2 spends, the cost reported by parse_spends, run_block_generator, run_block_generator2 (byte cost and INTERNED_GENERATOR) and run_spendbundle (both) must equal harness size cost + clvmr's own execution cost + the literal cost table, with consistent bundle-wide and per-spend sub-totals; each path is re-run with the limit at 0, total-1, total, total+1 and every partial sum of its charge sequence +-1 and must succeed exactly for limits >= total with an unchanged cost.",
         "trusts: the literal cost table and 256-slot table in mc::refcond (self-checked against the exact closed form 100*(17/16)^i), clvmr::run_program for execution cost, harness serialiser/interning count for size cost",
         "DESIGN.md#c04"),
 "C02": ("E", "exploration",
         "bounded-exhaustive sweep of bundles with amounts near 2^64 through all entry points with an invariant monitor on every accepted result",
         "Every bundle of 1-3 spends with coin amounts in {0,1,2^63,2^64-1}, output multisets over 2 puzzle hashes x the same amounts (<=3 / <=2+1(2) / <=1 each) and RESERVE_FEE in {absent,0,1,2^64-1} (215k quick, ~1M thorough) is run through parse_spends (both visitors), run_block_generator, run_block_generator2, run_spendbundle and validate_clvm_and_signature; acceptance must equal the u128 arithmetic of the case, and on every accepted result the monitor recomputes from the listed spends and outputs: additions+fee<=removals, reported totals = sums, coin ids distinct and = SHA-256(parent|ph|minimal amount), no duplicate (ph,amount) per spend, puzzle hash = own tree hash of the revealed puzzle. Plus 300/6000 spends of 2^64-1, a spend with 4000 outputs, and every pair of the 23 minimal-encoding length-class boundary amounts as (spent, created) with the Coin::coin_id() helper cross-checked.",
         "trusts: harness u128 arithmetic, harness tree hash and integer codec (mc::sx), sha2 crate",
         "DESIGN.md#c02"),
 "C06": ("E", "exploration",
         "bounded-exhaustive metamorphic enumeration: strict-vs-lenient flag subsets and all permutations of spends and conditions, both sides being the real validator",
         "For every bundle of the stated alphabet (spend A with every multiset of <=2 of ~125 interaction and strict-sensitive letters, two-spend bundles with a child/sibling carrying one letter each, the ephemeral child with every multiset of two lock/birth/ASSERT_EPHEMERAL letters, every multiset of three locks inside each after/before family; triples over the aggregating letters; both tiers enumerate the same space) and 4 fork flag sets x all 7 non-empty subsets of {NO_UNKNOWN_CONDS, STRICT_ARGS_COUNT, LIMIT_SPENDS}: accepted under the stricter set implies accepted under the fork flags alone with identical summary and cost; and for every permutation of conditions within each spend x every permutation of the spends under 4 flag sets: identical verdict, cost and order-insensitive summary (FF flag masked). LIMIT_SPENDS at 5999/6000/6001 spends.",
         "trusts: nothing but the comparison code (no reference model: both sides are parse_spends); conditions that interact only in groups of 3+ outside the thorough triples are not covered",
         "DESIGN.md#c06"),
 "C16": ("E", "exploration",
         "bounded-exhaustive input enumeration against an independent big-integer model of BLS12-381 plus two-route (secret vs public) agreement",
         "For 40 (quick) / 72 (thorough) keys incl. boundary scalars 0,1,2,3,r-1,r-2,(r+-1)/2, every unhardened path of length <=2/<=3 over 6 boundary indices, every ordered key pair (addition, subtraction and negation laws incl. an identity left-hand side), up to 16 hidden puzzle hashes, 6 messages and ~137k (quick) / ~360k (thorough) systematically perturbed 48/96-byte strings (every single-byte substitution of valid encodings, all flag combinations, non-reduced coordinates, non-canonical infinities, small-x on-curve non-subgroup points) plus 105k secret-key and mod-r strings: the real parsers accept exactly what the harness's own num-bigint model says (canonical encoding, on curve, r*P=O, infinity allowed), unchecked parsing accepts a superset and re-encodes identically, and both derivation routes agree with each other and with reference values.",
         "trusts: harness reference arithmetic (Fp/Fp2, Jacobian double-and-add, ZCash compressed format) re-validated at start-up on the blspy vectors quoted in the repo's unit tests; sha2 crate; blst scalar multiplication only as a cross-check",
         "DESIGN.md#c16"),
 "C17": ("H", "model_checking",
         "bounded-exhaustive input enumeration plus explicit-state BFS to fixpoint over the real TreeCache with exact-state dedup through hook H2",
         "Every tree-hash routine (tree_hash, tree_hash_cached, tree_hash_from_bytes on plain and back-reference serialisations, TreeHasher, curry_tree_hash/CurriedProgram, and the puzzle hashes / coin ids reported by the five block consumers) returns the definitional SHA-256 tree hash for every atom in both internal representations over a 211-leaf alphabet, every small-integer atom below 2^20 (quick) / 2^26 (thorough), every DAG of <=4/5 pairs over 3-4 leaf kinds, 10^5-deep and 10^5-long lists, 2^20-leaf DAGs, every currying of <=4 arguments over 8/12 values, the hash-from-hashes routine inside fast_forward_singleton on 96 constructed singleton spends, and typed values (12 primitive integer types and BigInt over 44 boundary values, byte strings, tuples) through ToTreeHash and through ToClvm<Allocator>. For the shared memo cache the complete state graph is explored: every history of visit_tree / tree_hash_cached calls of any length on every DAG of <=3 (quick) / <=4 (thorough) pairs and on a fixed 9-pair DAG with pairs allocated between calls and at most 1 (quick) / 2 (thorough) direct TreeCache::insert(pair or atom, its hash) priming calls (BFS to fixpoint), every transition's hash and every cache entry checked against the reference; larger DAGs by bounded sequences.",
         "trusts: sha2 crate and mc::sx reference; clvmr 0.17.7 allocator and serialisers (leaf bytes read back, compressed forms re-parsed before blaming /repo); hook H2 TreeCache::verif_state as exact state key; one append-only allocator per cache",
         "DESIGN.md#c17"),
 "C07": ("E", "exploration",
         "bounded-exhaustive differential enumeration of generator programs (families + every prefix + every single-byte substitution) x block references x flag subsets x cost limits through both execution paths",
         "Every program of the stated families (quoted spend lists: 2 puzzle kinds x ~108 condition letters, 8 failing puzzles, two-spend/double-spend/empty lists, 15 spend-tuple defects x terminators x output extension; 11 procedural templates incl. data read from block references 1 and 2; each plain and back-reference compressed) x 4 block reference lists x all 32 subsets of {MEMPOOL_MODE, COST_CONDITIONS, SIMPLE_GENERATOR, LIMIT_SPENDS, INTERNED_GENERATOR} x limits {max block, c2, c2-1, c1, c1-1}, plus every proper prefix, every single-byte substitution by {00,01,7f,80,fe,ff}, every single-byte insertion of {00,01,80,81,fe,ff} and every single-byte deletion of every base program <=200 bytes (bound 2 on tiny programs; thorough adds the 14 recorded mainnet blocks with substitutions at 256 positions) is run through run_block_generator and run_block_generator2: same verdict, identical canonical summary and condition cost, native cost <= legacy cost; a legacy-only rejection is accepted only for cost / allocator / stack-limit errors. 2.7M runs quick.",
         "trusts: nothing beyond the comparison (both sides are the real code); known finding: under INTERNED_GENERATOR the size term makes the native path dearer (recorded, all other agreement still checked with the size term removed)",
         "DESIGN.md#c07"),
 "C08": ("E", "exploration",
         "bounded-exhaustive differential enumeration of spend bundles through the mempool path and four block-generator constructions",
         "Every bundle of the stated alphabet (one spend x 23 amounts covering every encoding length class x 4 puzzle kinds x <=1 of ~108 interaction letters, a wrong-declared-hash letter per amount, two spends where the second claims the hash the first has just proven but reveals another puzzle, every ordered pair of letters on the identity puzzle, two spends sharing the puzzle reveal with <=1 letter each, an ephemeral chain, and three really signed bundles through each builder with the middle one declined after serialisation, validated with signature checking) under the 8 combinations of MEMPOOL_MODE, COST_CONDITIONS, INTERNED_GENERATOR (each mempool combination also with COMPUTE_FINGERPRINT) is run through run_spendbundle and through run_block_generator2 on solution_generator, solution_generator_backrefs, BlockBuilder and InternedBlockBuilder output: same verdict, same conditions (mempool-only flags masked), equal condition cost, execution cost + 20, plain-generator cost - direct cost = 20 + 2*cost_per_byte (20 under INTERNED_GENERATOR), solution_generator bytes = harness rendering and calculate_generator_length = actual length.",
         "trusts: harness generator rendering (mc::genr) and serialiser; puzzle reveals are the canonical plain serialisation (the property's precondition)",
         "DESIGN.md#c08"),
 "C13": ("E", "exploration",
         "deviation-bounded value enumeration + exhaustive byte-neighbourhood differential round-trip over all streamable types",
         "For all 169 streamable types (166 found by a run-time scan of /repo/crates, none uncovered) every value reachable from the all-zero builder tape by one deviation (thorough: two, first structural) plus hand-written version-packed letters round-trips through both decoders and hashes to SHA-256 of its encoding (commitment form for v2 proofs). Every byte string in the stated neighbourhood of every selected encoding (all single-byte substitutions over 12 values, all 255 for short bases; six 4-byte window plants; all prefixes; one appended byte: 2.8M strings quick, 13.6M thorough) is either rejected, or re-encodes to itself, is accepted identically by the trusted decoder and hashes consistently. The only failure is the known v2 proof-of-space hash panic (known finding).",
         "trusts: sha2 crate, arbitrary's Unstructured, the well-formedness predicate transcribed from struct comments, quality_string() (checked against the 7 recorded vectors), identity-point substitution in bases; explorer and oracles self-tested against planted broken codecs (C13_SELFTEST=1)",
         "DESIGN.md#c13"),
 "C14": ("E", "exploration",
         "exhaustive byte-neighbourhood enumeration with allocation, panic, crash and hang monitors in a sacrificial child process",
         "The same byte neighbourhoods plus adversarial letters (lengths 2^32-1, 2^31, 2^21+1 at every 4-byte window; 10^5-deep and unterminated CLVM spines; back-references; over-long atom prefixes; a 1 MiB buffer) are offered to both decoders of all 169 types (5.5M decodes quick, 27M thorough): each decode returns a value or an error without panic, abort, fatal signal or watchdog timeout; peak live memory <= 512*len + 7 MiB with no request above 1 GiB; prefixes and one-byte extensions of accepted encodings are rejected; re-encode, hash, compare and Debug of every decoded value complete, except the known v2 proof-of-space hash panic (known finding).",
         "trusts: the counting global allocator (per-thread peak), the child-process/breadcrumb/watchdog machinery (self-tested: C14_SELFTEST=greedy|oversize|abort|overflow|hang|codecs), the constants 512 B per input byte and Vec depth 3",
         "DESIGN.md#c14"),
 "C09": ("E", "exploration",
         "bounded-exhaustive differential enumeration of accepted generators through the trusted helpers versus full validation",
         "For every generator of the stated families that run_block_generator2 accepts (CREATE_COIN with 11 memo shapes x 23 length-class boundary amounts, 23 spent-coin amounts, every interaction letter alone / in a two-spend block with hinted outputs / in ordered pairs, a spend mixing hinted, unhinted and unknown-opcode conditions, 9000 REMARKs around 3 outputs and 4000 outputs on one spend, an ephemeral chain, spend-level extension, output extension, procedural generators incl. one reading a block reference; plain and back-reference compressed; 3 flag sets): additions_and_removals returns the validated spends in order with correct ids and the validated outputs with the same hints; get_coinspends_for_trusted_block (+_with_conditions) returns the same spends, whose rebuilt generator validates to the same conditions; get_puzzle_and_solution_for_coin finds every removed coin with puzzle/solution hashing to the originals; SpendBundle::additions lists the same created coins.",
         "trusts: harness tree hash / codec; clvmr for running the generator when locating the output tree; only accepted generators are compared (the helpers are specified for valid blocks)",
         "DESIGN.md#c09"),
 "C10": ("H", "model_checking",
         "exhaustive history search over add_spend_bundles/finalize on fresh real builders with decoding, signature, consensus-cost and differential undo oracles",
         "Every history of <=4 (quick, 837931 per builder) / <=5 (thorough, 25137931 per builder) add attempts over 30 letters (bundle shape: one spend, two spends sharing its puzzle, 40 kB solution, undecodable reveal, batch of two, batch of a valid and an undecodable bundle; declared cost: truthful, landing exactly on the block limit (computed by a dry run), that+1 (late rejection -> undo), limit+1 (early rejection), 0) followed by finalize is executed on a fresh BlockBuilder and a fresh InternedBlockBuilder: no panic; the finalized generator decodes (back-reference parser + harness) to exactly the multiset of spends of the accepted attempts; the signature is the harness's aggregate of exactly their signatures; cost <= max; with truthful costs the returned cost equals what run_block_generator2 charges for the generator; cost() before finalize >= final cost; and the history with the rejected attempts deleted yields byte-identical generator, signature and cost.",
         "trusts: run_spendbundle for the truthful declared cost, clvmr's back-reference parser for decoding, run_block_generator2 as the consensus cost; known findings: cost() of a builder with no accepted add underestimates the empty block; after two adds rejected after serialisation the compressed generator's bytes (back-reference choice, length and hence cost) differ from the history without them while tree and signature are equal (clvmr TreeCache state survives restore)",
         "DESIGN.md#c10"),
 "C05": ("E", "exploration",
         "bounded-exhaustive enumeration of signed base cases and single-point tamperings through every verification path, with the harness's own rule table and signer as oracle",
         "Every base case (8 AGG_SIG opcodes x 23 coin amounts at every minimal-encoding length boundary x message lengths, plus a fixed second pair) is signed by the harness over its own table of what each opcode appends (parent / puzzle hash / minimal amount / coin id + the opcode's domain constant) and must be accepted by parse_spends (block and mempool visitor; no, cold, warm and foreign-warm BlsCache), run_block_generator2 and validate_clvm_and_signature; the (key, message) pairs reported by run_spendbundle and the text from make_aggsig_final_message must equal the table. Then 17 single-point tamperings per case (other signature, identity signature, message byte, key swap, amount neighbours, parent byte, puzzle hash, own / foreign domain constant altered in the constants, pair dropped / duplicated, infinity and off-curve key, neighbouring opcode) must be rejected on every path exactly when they change the signed multiset, and accepted otherwise; AGG_SIG_UNSAFE messages ending in any of the 7 constants are rejected although correctly signed (6 message shapes each, also with DONT_VALIDATE_SIGNATURE); bundles without any AGG_SIG condition are accepted with the identity signature only (3 other signatures, every path); pair lists containing the infinity key get the cache-free verdict from BlsCache::aggregate_verify cold and warm. Both tiers cover four message lengths and all 64 ordered opcode pairs over two spends.",
         "trusts: chia_bls::sign/aggregate as the signer (C15/C16), harness codec and SHA-256; forgeries that are not single-point edits are a cryptographic claim outside this check",
         "DESIGN.md#c05"),
 "C12": ("E", "exploration",
         "bounded-exhaustive input enumeration: reference trie hash for roots, exhaustive small-tree adversary plus exhaustive single-step rewrite adversary for proofs",
         "For every subset of a 12-leaf universe built around the worst cases (pairs differing only in bit 255/254/128, 00..00, ff..ff, all 3-bit prefixes) and every ordering / duplication of the small ones, both root computations equal an independently written reference trie hash; every generated proof for 16 query items states membership correctly and verifies; and no candidate proof in three exhaustively enumerated adversary families makes validate_merkle_proof return the opposite membership against an honest root: all proof trees with <=3 (quick) / <=4 (thorough) MIDDLE nodes over a per-set alphabet on a 5-leaf universe; every single-step rewrite, prefix and trailing-byte extension of honest proofs (second-order rewrites in thorough); 250-258-level chains with every small terminator tree. 32M validations quick, 1.16G thorough.",
         "trusts: sha2 crate (collision freedom assumed), the harness reference trie hash and proof-tree model written from the format description in tests/merkle_set.py; trailing bytes accepted by the verifier would only be counted (the property does not forbid them); adversary-chosen roots are out of scope",
         "DESIGN.md#c12"),
 "C19": ("E", "exploration",
         "bounded-exhaustive input enumeration with an independent 'genuine singleton spend' predicate, differential re-execution of the rewritten spend, and fingerprint-group consistency",
         "Fast-forward: for every constructed singleton spend (launcher ids x inner-puzzle styles x 10-13 condition sets x 3-5 amounts x lineages, plus the 2 recorded spends) and every rebase target, fast_forward_singleton succeeds exactly when the harness's own predicate says the spend is genuine; the rewritten solution changes only lineage parent, parent amount and amount, re-runs with exactly the original conditions apart from the two self-assertions (which name the new coin), is accepted by mempool validation on the new coin and creates the same coins; each of 36 single-relation corruptions is refused (1.7M cases; quick applies the 20 solution/puzzle-side classes on every fourth target, thorough on every target). Dedup: for every condition list of <=3 letters over a 67/79-letter alphabet (hint shapes incl. a one-byte hint equal to a following REMARK's image, atom-boundary splits, all signature and message conditions, time locks) in 9 coin/helper scenes (2.6M lists, both tiers), eligible spends of the same coin with equal fingerprints have identical parsed conditions, and eligibility implies no signature/message condition and created >= consumed.",
         "trusts: mc::sx codec/tree hash, the harness's own curry/uncurry and solution decoder, chia-puzzles 0.20.1 module bytes (own tree hash checked against the published hash), clvmr run_program, letter metadata assigned by construction; the Python wrapper in wheel/ is not exercised",
         "DESIGN.md#c19"),
 "C20": ("E", "exploration",
         "bounded-exhaustive tape enumeration of values plus a single-node JSON corruption neighbourhood with a denotation-equality oracle, run through an embedded CPython interpreter across worker processes",
         "Through an embedded interpreter running the real to_json_dict / from_json_dict of all 170 registered types (every type with a JSON conversion found by a source scan of /repo, none uncovered): for every value of a stated finite set per type (zero-tape value, every one-byte and integer-window tape deviation, hand-written extreme letters; thorough: a second deviation inside each newly created sub-structure) JSON -> value is the identity with equal byte encoding and hash and survives json.dumps/loads; leaf types, combinators and Coin also match the documented JSON form. For one value per JSON shape every single-node corruption of a stated list (missing key, null, 9 hex-string corruptions, 36 integer substitutions covering max+1 and min-1 of every width plus a float and a string, list element removed or added) is either rejected or accepted with exactly the stated meaning and a valid wire form. 94k values / 155k corruptions quick; 1.06M / 487k thorough.",
         "trusts: CPython 3.11, its json module and pyo3 0.29 conversions; /repo's PartialEq, to_bytes and hash as observers; conversions called through the ToJsonDict / FromJsonDict traits (what the generated pymethods call); oracle self-tested against 11 planted wrong conversions (C20_SELFTEST=1)",
         "DESIGN.md#c20"),
}

PENDING_REASON = "check not built yet in this round (planned: see DESIGN.md section for this property); not claimed until it runs"

def main():
    props = [json.loads(l) for l in open("/verif/properties.jsonl")]
    checks = []
    na = []
    for p in props:
        pid = p["id"]
        if pid in CHECKS:
            eng, cat, tech, text, note, ref = CHECKS[pid]
            checks.append({
                "property_id": pid,
                "quick_cmd": f"./check {pid} quick",
                "thorough_cmd": f"./check {pid} thorough",
                "evidence_file": f"/verif/evidence/{pid}.json",
                "replay_cmd_template": f"./check {pid} --replay {{path}}",
                "engine": eng,
                "level_claimed": {"category": cat, "text": text, "design_ref": ref},
                "level_note": note,
                "technique": tech,
            })
        else:
            na.append({"property_id": pid, "reason": NA.get(pid, PENDING_REASON)})
    m = {
        "version": 1,
        "setup_cmd": "cd /verif/mc && CARGO_NET_OFFLINE=true cargo build --release --offline " + " ".join("--bin " + c.lower() for c in sorted(CHECKS) if c != "C20") + " 2>&1 | tail -5" + ("; cd /verif/mc-py && CARGO_NET_OFFLINE=true cargo build --release --offline --bin c20 2>&1 | tail -5" if "C20" in CHECKS else ""),
        "hooks": {
            "guard": "cargo feature `verif-hooks` (chia-bls, clvm-utils, chia-datalayer); off by default",
            "enable": "the harness crate /verif/mc depends on /repo/crates/{chia-bls,clvm-utils,chia-datalayer} by path with features=[\"verif-hooks\"]; nothing else turns it on",
            "baseline_off_cmd": "cd /repo && cargo nextest run --workspace --no-fail-fast --tool-config-file pb:/w/lib/nextest.toml --profile pb --test-threads 8 --offline || cargo test --workspace --no-fail-fast --offline",
            "source_commits": HOOK_COMMITS,
            "add_only": True,
        },
        "engines": [
            {"name": "E", "path": "/verif/mc/src/engine.rs", "serves_properties": [c for c in CHECKS if CHECKS[c][0] == "E"],
             "kind_free_text": "bounded-exhaustive enumeration of inputs: the stateless choice-sequence explorer of engine.rs (full odometer mode drives C10's histories; deviation-bounded mode is unit-tested) and, in most bins, explicitly written product / deviation loops with the same semantics (all words of a stated alphabet up to a bound; all single or double deviations from a default); every case runs the real code and a reference model or relation"},
            {"name": "H", "path": "/verif/mc/src/bfs.rs", "serves_properties": [c for c in CHECKS if CHECKS[c][0] == "H"],
             "kind_free_text": "explicit-state BFS over operation histories of the real objects with canonical state keys"},
            {"name": "S", "path": "/verif/mc/src/sched.rs", "serves_properties": [c for c in CHECKS if CHECKS[c][0] == "S"],
             "kind_free_text": "controlled scheduler: real threads serialized at lock granularity through hook H1, preemption-bounded then unbounded DFS over schedules"},
        ],
        "checks": checks,
        "notes": "All checks: ./check <ID> quick|thorough rebuilds /verif/mc (path deps on /repo/crates, so the current working tree) and runs the per-property binary. Known findings: /verif/known_findings.json.",
        "not_applicable": na,
    }
    json.dump(m, open("/verif/MANIFEST.json", "w"), indent=1)
    print("checks:", len(checks), "not_applicable:", len(na))

NA = {}
if __name__ == "__main__":
    main()
