#!/usr/bin/env python3
"""prints the prompt for a seeding sub-agent for property <id> (only the property text and a worktree path)"""
import json, sys
pid = sys.argv[1]
# optional second argument: round number (1 -> m1/m2, 2 -> m3/m4, ...)
rnd = int(sys.argv[2]) if len(sys.argv) > 2 else 1
L1, L2 = f"m{2*rnd-1}", f"m{2*rnd}"
p = [json.loads(l) for l in open('/verif/properties.jsonl') if json.loads(l)['id'] == pid][0]
wt = f"/tmp/seed-{pid}"
out = f"/tmp/seed-out/{pid}" if rnd == 1 else f"/tmp/seed-r{rnd}/{pid}"
extra3 = " This is a late round: earlier attempts already covered the straightforward edits (off-by-one at an encoding boundary, a dropped or moved check at the main parse site, swapped trusted/untrusted branches, a moved accumulator update). Aim for changes whose trigger is a COMBINATION: two conditions or operations that only misbehave together, an input that is valid only under one flag set, a rarely taken branch feeding a later stage, a value that is canonical in one representation and not in another, state left behind by a failed or rejected operation, public API functions that the main validation path itself never calls."
extra = "" if rnd == 1 else (extra3 if rnd >= 3 else "") + " Look beyond the most obvious site: helper functions, caches and memo tables, flag plumbing, trusted vs untrusted or fast vs slow paths, rarely used public entry points, accumulators and cursor/offset updates, and interactions between two features are all fair game; the two changes should be in different functions and exercise different mechanisms."
print(f"""You are helping test a verification effort for the Rust repository Chia-Network/chia_rs (Chia blockchain consensus library). You have your own scratch git worktree of the repository at {wt} (work ONLY there; never touch /repo or /verif, and do not read anything under /verif). The sandbox is offline: use `cargo ... --offline`, rust toolchain is pinned by rust-toolchain.toml. Set CARGO_TARGET_DIR={wt}/target for everything you build.

Here is a semantic property that the code is supposed to satisfy:

  id: {p['id']}
  title: {p['title']}
  statement: {p['statement']}
  quantified over: {p['quantifier']['text']}
  code it is anchored in: {', '.join(p['anchors']['files'])}

YOUR TASK: produce up to TWO independent, realistic source changes ("seeded bugs") to the library code (not to tests) under {wt}/crates that each BREAK this property while (a) the workspace still compiles and (b) the repository's existing test suite still passes. Each change should look like a plausible mistake a maintainer could make (an off-by-one, a dropped check, an operation moved across a lock or a cursor update, a wrong accumulator, a stale cache, two sites that each look fine alone ...). IMPORTANT: choose changes that need something SPECIFIC to manifest — a particular interleaving of threads, a multi-step sequence of operations, an unusual input shape or boundary value, a particular flag combination, or two cooperating sites — NOT changes that any ordinary use would expose immediately. Keep each change small (a few lines).{extra}

For each change deliver, under {out}/ (create it), files named {L1}.* and {L2}.*:
  - mN.patch.diff : the change as `git diff` output relative to the worktree HEAD (must apply with `git apply` to a clean checkout; library source only, no test edits)
  - mN.demo.rs    : a demonstration — a self-contained Rust integration test file (usable as crates/<crate>/tests/<name>.rs, or say exactly where it goes) or small program that FAILS with the change applied and PASSES on the unchanged code. State in a comment at the top of the file where to place it and the exact command to run it.
  - mN.meta.json  : {{"property": "{pid}", "summary": "...what was changed...", "needs_to_manifest": "...the specific input/sequence/interleaving/flags needed...", "crate": "...", "demo_place": "path where the demo file goes", "demo_cmd": "exact command", "tests_run": "what you ran to confirm the existing suite still passes and the result"}}

How to confirm the existing suite passes: the reference command is
  cd {wt} && CARGO_TARGET_DIR={wt}/target cargo nextest run --workspace --no-fail-fast --offline --test-threads 6
(about 6-10 minutes incl. build; one test, `build_interned_block::additional_tests::test_generator_cost_accuracy`, fails on the unchanged tree too — ignore it). At minimum run the full test suite of every crate you touched plus chia-consensus; preferably the whole workspace once per change. A change that makes any previously-passing test fail is useless — pick another one. Also confirm your demo passes on unchanged code (git stash / git checkout the change) and fails with it.

When done, leave the worktree clean (git checkout -- . ; remove any demo files you placed), and reply with a short summary of the two changes (file, what, what it needs to manifest) and whether each was fully confirmed. Do not spend more than about 60-90 minutes. If you can only produce one solid change, that is fine.""")
