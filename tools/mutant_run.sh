#!/bin/bash
# tools/mutant_run.sh <patch.diff> <ID> [<ID>...]
# Runs the quick checks against a scratch worktree of /repo with the patch applied, without
# touching /repo or /verif/evidence (development aid; the recorded confirmation of a seeded
# change is done with git -C /repo apply ... as the brief prescribes).
set -u
PATCH="$(readlink -f "$1")"; shift
W=/tmp/mutrepo; M=/tmp/mutmc; OUT=/tmp/mut-out
git -C /repo worktree remove --force $W >/dev/null 2>&1
rm -rf $W; git -C /repo worktree prune
git -C /repo worktree add -q --detach $W HEAD || exit 2
if ! git -C $W apply "$PATCH"; then echo "PATCH DOES NOT APPLY"; git -C /repo worktree remove --force $W; exit 2; fi
mkdir -p $M $OUT
rsync -a --delete --exclude target /verif/mc/ $M/
sed -i "s#/repo/crates#$W/crates#g" $M/Cargo.toml
sed -i "s#/verif/target#/tmp/mut-target#" $M/.cargo/config.toml
rc=0
for ID in "$@"; do
  id=$(echo $ID | tr 'A-Z' 'a-z')
  if [ "$id" = "c20" ]; then
    # C20 lives in its own package (pyo3); same treatment, own scratch copy and target
    MP=/tmp/mutmc-py; mkdir -p $MP
    rsync -a --delete --exclude target /verif/mc-py/ $MP/
    sed -i "s#/repo/crates#$W/crates#g; s#/verif/mc\"#$M\"#" $MP/Cargo.toml
    sed -i "s#/verif/target-py#/tmp/mut-target-py#" $MP/.cargo/config.toml
    ( cd $MP && CARGO_NET_OFFLINE=true cargo build --release --offline --bin c20 2>&1 | grep -E "^error" -A8 | head -30 )
    MC_OUT_DIR=$OUT /tmp/mut-target-py/release/c20 --tier ${TIER:-quick} > $OUT/$ID.log 2>&1
  else
  ( cd $M && CARGO_NET_OFFLINE=true cargo build --release --offline --bin $id 2>&1 | grep -E "^error" -A8 | head -30 )
  MC_OUT_DIR=$OUT /tmp/mut-target/release/$id --tier ${TIER:-quick} > $OUT/$ID.log 2>&1
  fi
  code=$?
  echo -e "$(basename $(dirname $PATCH))/$(basename $PATCH)\t$ID\t$code\t$(grep 'signature:' $OUT/$ID.log | sed 's/.*signature: //' | sort -u | head -4 | tr '\n' ' ')" >> /verif/seeded/results.tsv
  echo "== $ID exit=$code  $(grep -c '^VIOLATION' $OUT/$ID.log) violation lines; signatures: $(grep 'signature:' $OUT/$ID.log | sort | uniq -c | head -5 | tr '\n' ';')"
  tail -1 $OUT/$ID.log
  [ $code -ne 0 ] && rc=1
done
git -C /repo worktree remove --force $W
exit $rc
