#!/usr/bin/env python3
"""prints the markdown table 'which check catches which seeded change' from /verif/seeded/*/meta.json and results.tsv"""
import json, glob, os, collections
res = collections.defaultdict(list)
for l in open('/verif/seeded/results.tsv'):
    parts = l.rstrip('\n').split('\t')
    if len(parts) < 3: continue
    patch, check, code = parts[0], parts[1], parts[2]
    sigs = parts[3] if len(parts) > 3 else ''
    key = patch.replace('.patch.diff','').replace('/patch.diff','').replace('/','-')
    res[key].append((check, code, sigs))
print("| seeded change | property | what it changes | needs to manifest | caught by (quick tier) | not caught by |")
print("|---|---|---|---|---|---|")
for d in sorted(glob.glob('/verif/seeded/*/meta.json')):
    m = json.load(open(d))
    key = os.path.basename(os.path.dirname(d))
    r = {}
    for c, code, sigs in res.get(key, []):
        r[c] = (code, sigs)   # last run wins
    caught = "; ".join(f"{c} (`{s.split()[0] if s.split() else ''}`)" for c,(code,s) in r.items() if code == '1')
    missed = ", ".join(c for c,(code,s) in r.items() if code == '0')
    summ = m.get('summary','').replace('|','/').replace('\n',' ')
    need = m.get('needs_to_manifest','').replace('|','/').replace('\n',' ')
    print(f"| {key} | {m.get('property')} | {summ[:220]} | {need[:200]} | {caught or '—'} | {missed or ''} |")
