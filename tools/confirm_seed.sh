#!/bin/bash
# tools/confirm_seed.sh <ID> <mN>  — independent confirmation of a seeded change in the scratch
# worktree /tmp/seed-<ID> (never /repo): patch applies, demo FAILS with it, the touched crates'
# own test suites still PASS with it, demo PASSES without it. Writes /verif/seeded/<ID>-<mN>/.
set -u
ID=$1; M=$2
W=/tmp/seed-$ID; S=${SEED_SRC:-/tmp/seed-out}/$ID
export CARGO_TARGET_DIR=$W/target CARGO_NET_OFFLINE=true
cd $W || exit 2
git checkout -q -- . ; git clean -fdq crates wheel >/dev/null 2>&1
meta=$S/$M.meta.json
place=$(python3 -c "import json;print(json.load(open('$meta'))['demo_place'])")
cmd=$(python3 -c "import json;print(json.load(open('$meta'))['demo_cmd'])")
place=${place#$W/}
crates=$(grep '^+++ b/crates/' $S/$M.patch.diff | sed 's#+++ b/crates/\([^/]*\)/.*#\1#' | sort -u | tr '\n' ' ')
log=$S/$M.confirm.log; : > $log
echo "[confirm] $ID $M place=$place crates=$crates cmd=$cmd" | tee -a $log
mkdir -p $(dirname $place); cp $S/$M.demo.rs $place
run_demo() { ( cd $W && eval "${cmd#cd $W && }" ) >> $log 2>&1; }
run_demo; base=$?
git apply $S/$M.patch.diff || { echo "PATCH DOES NOT APPLY" | tee -a $log; exit 2; }
run_demo; mut=$?
rm -f $place   # the demo must not be part of the suite run
pk=""; for c in $crates; do n=$(grep -m1 '^name' crates/$c/Cargo.toml | sed 's/.*"\(.*\)"/\1/'); pk="$pk -p $n"; done
[ -n "${SUITE_PK:-}" ] && pk="$SUITE_PK"   # override: wider suite for patches to a shared crate
cargo nextest run $pk --offline --no-fail-fast >> $log 2>&1; suite=$?
git checkout -q -- .
echo "[confirm] demo_without_patch_exit=$base demo_with_patch_exit=$mut crate_suites_with_patch_exit=$suite" | tee -a $log
if [ $base -eq 0 ] && [ $mut -ne 0 ] && [ $suite -eq 0 ]; then
  D=/verif/seeded/$ID-$M; mkdir -p $D
  cp $S/$M.patch.diff $D/patch.diff; cp $S/$M.demo.rs $D/demo.rs
  python3 - <<PY
import json
m=json.load(open('$meta'))
m['confirmed_by_me']={'worktree':'$W','demo_without_patch':'pass','demo_with_patch':'fail','crate_test_suites_with_patch':'pass ($pk)','full_workspace_suite':'run by the seeding agent: '+str(m.get('tests_run',''))[:300]}
json.dump(m,open('$D/meta.json','w'),indent=1)
PY
  echo "[confirm] KEPT $D"
else
  echo "[confirm] NOT CONFIRMED"
fi
