#!/bin/bash
# tools/run_all.sh [quick|thorough]  — runs every registered check and validates the evidence files
cd /verif
tier=${1:-quick}
rc=0
for id in $(python3 -c "import json;print(' '.join(c['property_id'] for c in json.load(open('MANIFEST.json'))['checks']))"); do
  s=$(date +%s)
  out=$(./check $id $tier 2>&1); code=$?
  echo "$id exit=$code wall=$(( $(date +%s) - s ))s :: $(echo "$out" | tail -1 | cut -c1-160)"
  echo "$out" | grep -E "^VIOLATION|^KNOWN-FINDING|MACHINERY" | cut -c1-200
  [ $code -ne 0 ] && rc=1
done
python3-vt - <<'PY' || rc=1
import json, jsonschema, sys
m=json.load(open('/verif/MANIFEST.json')); jsonschema.validate(m, json.load(open('/root/.vp/MANIFEST.schema.json')))
es=json.load(open('/root/.vp/EVIDENCE.schema.json')); bad=0
for c in m['checks']:
    try: jsonschema.validate(json.load(open(c['evidence_file'])), es)
    except Exception as e: print('EVIDENCE INVALID', c['property_id'], str(e)[:160]); bad=1
print('manifest+evidence valid' if not bad else 'INVALID'); sys.exit(bad)
PY
exit $rc
