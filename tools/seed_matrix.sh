#!/bin/bash
# tools/seed_matrix.sh [<seed-dir-name>...]
# The run the brief prescribes for seeded changes, with the REGISTERED commands: for every
# /verif/seeded/<ID>-mN (or the ones named) apply patch.diff to /repo's working tree, run
# `./check <ID> quick` (evidence and replays redirected to a scratch directory so that the
# committed evidence keeps describing the unchanged tree), and undo the change straight
# afterwards. Appends one line per run to /verif/seeded/matrix.tsv:
#   seed <TAB> check <TAB> exit code <TAB> first signatures
# Must not run concurrently with anything else that builds /verif/mc or touches /repo.
set -u
cd /verif
if [ -n "$(git -C /repo status --porcelain)" ]; then echo "/repo working tree is not clean"; exit 2; fi
OUT=$(mktemp -d /var/tmp/seed-matrix.XXXXXX)
trap 'git -C /repo checkout -q -- . ; rm -rf "$OUT"' EXIT
seeds=("$@")
if [ ${#seeds[@]} -eq 0 ]; then seeds=($(ls -d seeded/C??-m* | xargs -n1 basename)); fi
for s in "${seeds[@]}"; do
  ID=${s%%-*}
  extra=$(python3 -c "import json;print(' '.join(json.load(open('seeded/$s/meta.json')).get('also_run',[])))" 2>/dev/null)
  if ! git -C /repo apply /verif/seeded/$s/patch.diff; then echo -e "$s\t-\tPATCH-DOES-NOT-APPLY\t" | tee -a seeded/matrix.tsv; continue; fi
  for C in $ID $extra; do
    MC_OUT_DIR=$OUT ./check $C quick > $OUT/log 2>&1; code=$?
    sigs=$(grep 'signature:' $OUT/log | sed 's/.*signature: //' | sort -u | head -3 | tr '\n' ' ')
    echo -e "$s\t$C\t$code\t$sigs" | tee -a seeded/matrix.tsv
  done
  git -C /repo checkout -q -- .
done
# leave the build products of the unchanged tree behind
for C in $(printf '%s\n' "${seeds[@]}" | sed 's/-.*//' | sort -u); do MC_OUT_DIR=$OUT ./check $C quick >/dev/null 2>&1; done
