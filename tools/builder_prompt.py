#!/usr/bin/env python3
"""prints the prompt for a check-builder sub-agent: builder_prompt.py <ID> [<ID2>]"""
import json, sys, re
ids = sys.argv[1:]
props = {json.loads(l)['id']: json.loads(l) for l in open('/verif/properties.jsonl')}
design = open('/verif/DESIGN.md').read()
def section(pid):
    m = re.search(r'^### %s .*?(?=^### |\Z)' % pid, design, re.S | re.M)
    return m.group(0) if m else ''
print(f"""You are building one verification check inside an existing model-checking harness for the Rust repository Chia-Network/chia_rs (checked out at /repo; read-only for you). The harness lives in /verif. The technique family is MODEL CHECKING in the sense of bounded *exhaustive* enumeration: every check decides its property by enumerating a stated finite space of inputs / operation histories completely and checking an oracle on every member by running the REAL code of /repo. Never sample randomly, never use a solver.

Property/ies you own: {', '.join(ids)}

""")
for pid in ids:
    p = props[pid]
    print(f"""=== {pid}: {p['title']}
statement: {p['statement']}
quantified over: {p['quantifier']['text']}
why tests cannot settle it: {p['why_tests_cant']}
anchors: {json.dumps(p['anchors'], indent=1)}

--- design section from /verif/DESIGN.md (the plan; follow it as far as practical, alphabets/bounds may be adapted to what is feasible, but say what you changed) ---
{section(pid)}
""")
print(f"""
=== Harness conventions (READ THESE FILES FIRST) ===
- /verif/mc is one cargo package: library `mc` (src/report.rs = evidence/violations/exit codes, src/engine.rs = Chooser-based exhaustive / deviation-bounded explorer, src/bfs.rs = explicit-state BFS, src/sx.rs = independent reference S-expression type with own serializer/tree-hash/int codec, src/cli.rs) plus ONE BINARY PER PROPERTY in src/bin/cNN.rs. Read src/report.rs, src/engine.rs, src/bfs.rs, src/sx.rs, src/cli.rs and the finished examples src/bin/c11.rs (engine E style) and src/bin/c18.rs (engine H style) before writing anything.
- Your deliverable is /verif/mc/src/bin/{ids[0].lower()}.rs{' and /verif/mc/src/bin/' + ids[1].lower() + '.rs' if len(ids) > 1 else ''} (new file/s). Do NOT edit src/lib.rs, src/report.rs, src/engine.rs, src/bfs.rs, src/sx.rs, src/cli.rs, Cargo.toml or other people's bins (other agents are working in parallel on other bins). If you need a dependency that is not in /verif/mc/Cargo.toml, tell me in your final report instead (available offline: anything in /repo/Cargo.lock). If two bins of yours share code, put it in a file src/bin/<name>_common/mod.rs and include it with `#[path = "..."] mod common;`.
- `fn main() {{ mc::cli::main("CNN", "<level>", run, replay) }}` where level is "exploration" for bounded-exhaustive input enumeration or "model_checking" for state-graph / history search; `run(&Report)` does the work; `replay(&serde_json::Value) -> String` re-executes one recorded case (the `case` JSON you passed to `rep.violation`) outside the explorer and describes what it observes.
- Build: `cd /verif/mc && cargo build --release --offline --bin cNN` (target dir /verif/target is shared; builds of other agents may hold the cargo lock for a while — just wait). Run: `/verif/target/release/cNN --tier quick` / `--tier thorough`. The profile has debug-assertions and overflow-checks ON, so arithmetic overflow in the code under test panics; wrap every call into /repo code in `mc::report::catch(|| ...)` and treat a panic as a violation where the property forbids panics (or as a machinery problem if it is your harness that panicked).
- Report API: rep.eval()/evals(n) per executed case; rep.outcome("bucket") histogram (a run with <2 buckets or <2 distinct cases exits 2 = vacuous); rep.distinct(hash) for distinct non-trivial cases; rep.sample(json) a few rendered cases; rep.set_rule("...") describing alphabet/bounds and what counts as distinct; rep.assume("..."); rep.cap("...") ONLY if some budget cut the enumeration short (then exhaustive=false is reported); rep.extra(key, json) for extra coverage numbers; rep.violation(signature, case_json, detail) where signature is a short stable root-cause class like "C12/proof/accepts-wrong-inclusion" (violations are grouped per signature; 3 replays kept per signature); for model_checking level also maintain rep.state()/transition()/trace() or set the atomics.
- Tiers: quick must finish in well under 60 s wall on 16 cores (aim 5-30 s) and still be a meaningful exhaustive sub-space; thorough may take up to ~10 minutes. Use rayon for parallelism; avoid taking a global lock per case (accumulate counters locally and flush per shard — see c18.rs).
- Determinism: no clocks, no RNG, HashMap/HashSet iteration order must not influence verdicts; counts must be identical from run to run.
- ORACLES MUST BE INDEPENDENT of the code under test: a reference model written by you from the *definition* (the property statement, protocol docs, test vectors in the repo), or a relation between two different code paths of the real code. Never copy the implementation's logic into the oracle.
- NO FALSE ALARMS: the check must exit 0 on the current /repo tree unless /repo genuinely violates the property as stated. Demand no more than the property states (e.g. never compare error codes/messages, never require that an operation succeeds unless the property says so). If your check reports a violation on the unchanged tree, work out whether your oracle is wrong (fix it) or /repo is wrong (then DO NOT "fix" /repo and do not loosen the check: keep the check reporting it, and describe the failing input precisely in your final report — I decide about fix / known finding). Known already: a ProofOfSpace with version-2 prefix byte, pool_public_key set and a short proof decodes fine but `hash()` panics ("Can't compute hash of invalid ProofOfSpace") — if your property hits that, give it the signature "<ID>/panic/pos-v2-hash" so it can be listed as a known finding.
- Make the check SENSITIVE: think about which realistic bugs (see "Mutants" in the design section) would break the property and make sure the enumerated space contains the inputs that expose them. You may NOT modify /repo (not even temporarily), so reason about sensitivity instead of trying mutants; I will run mutants myself afterwards.
- Do not commit anything, do not touch /verif/MANIFEST.json, /verif/tools, /verif/check, /verif/known_findings.json.

=== Final report (your reply) ===
1) what the check enumerates in each tier (alphabet, bounds, measured counts, wall time), 2) the oracle(s), 3) deviations from the design section and why, 4) anything in /repo that looks like a genuine violation (exact input + observed behaviour), 5) a ready-to-paste `level_claimed.text` (2-4 sentences: what assurance, within which bounds) and `level_note` (trusted base) and a few words naming the technique.""")
